import KitModel.Go.Prelude
/-!
Model of the trust-bundle source `crypto/spiffe/trustanchors/file.go` (property C19, readiness
discipline of `GetX509BundleForTrustDomain` / `CurrentTrustAnchors` / `Watch` against `Run`).

Readiness LTS: the goroutine executing `Run` (CAS; `defer close(closeCh)`; wait for the file;
`updateAnchors` = Lock, read+decode, assign, notify, Unlock; `fswatcher.New`; `close(readyCh)`; reload
loop; on every exit `close(closeCh)`), any number of bundle readers (`select { [ctx.Done] | closeCh |
readyCh }`, THEN `RLock`, read, deferred `RUnlock`) and any number of `Watch` callers (register the
subscription under the WRITE lock), over `sync.RWMutex` (a pending writer blocks new readers; writers
exclude each other) and the two channels.

The notification of subscribers inside `updateAnchors` (sends into channels of capacity 5, awaited by
the deferred `wg.Wait()` while the write lock is still held) is the pc `uNotify`: it can proceed only
while no subscriber is stalled (`subBlocked`, set and cleared by the environment labels `subStall` /
`subDrain`).  Abstractions: the `Watch` loop after registration is not modelled; the file is `absent | version v | garbage`.
-/
namespace Kit.Spiffe.TA

inductive FileSt where
  | absent | ver (v : Nat) | garbage
  deriving DecidableEq, Repr

inductive RunPc where
  | idle
  | called                      -- CAS not executed yet
  | waitFile                    -- `os.Stat` loop: select { ctx.Done | clock.After(initFileWatchInterval) }
  | uWant (reload : Bool)       -- updateAnchors: about to `Lock()`
  | uPend (reload : Bool)       -- inside `Lock()`: announced, waiting for readers to drain
  | uRead (reload : Bool)       -- holds W; `os.ReadFile` + decode
  | uSet (reload : Bool) (v : Nat)  -- holds W; assigns `rootPEM` / `bundle`
  | uNotify (reload : Bool)     -- holds W; deferred `wg.Wait()`: every subscriber must take its notification
  | uUnlock (reload : Bool)     -- holds W; subscribers notified; deferred `Unlock()`
  | uUnlockErr                  -- holds W; load failed; deferred `Unlock()`
  | mkWatcher                   -- `fswatcher.New`
  | closeReady                  -- `close(f.readyCh)`
  | loop                        -- RunnerManager: waits for `caEvent` / ctx
  | exiting (err : Bool)        -- deferred `close(f.closeCh)`
  | done (err : Bool)
  deriving DecidableEq, Repr

/-- Result of a bundle call. -/
inductive Res where
  | ok (v : Option Nat)         -- the bundle / PEM read (`none` = a nil bundle: never, see theorems)
  | closed                      -- "trust anchors is closed"
  | ctx                         -- ctx error (CurrentTrustAnchors only)
  deriving DecidableEq, Repr

inductive ConsPc where
  | bCall (ctx : Bool)          -- GetX509BundleForTrustDomain (false) / CurrentTrustAnchors (true): in the select
  | bPassed                     -- readyCh seen closed; about to `RLock()`
  | bHold                       -- holds R; about to read
  | bUnlock (r : Option Nat)    -- holds R; deferred `RUnlock()`
  | bDone (r : Res)
  | sCall                       -- Watch: about to `Lock()`
  | sPend                       -- inside `Lock()`
  | sHeld                       -- holds W; subscription appended; about to `Unlock()`
  | sDone                       -- registered (the receive loop is not modelled)
  deriving DecidableEq, Repr

structure St where
  running : Bool := false
  readers : Nat := 0
  wPend : Bool := false          -- a writer announced itself and waits for the readers
  wHeld : Bool := false
  ready : Bool := false          -- readyCh closed
  closed : Bool := false         -- closeCh closed
  bundle : Option Nat := none    -- version of `f.bundle` / `f.rootPEM`
  file : FileSt := .absent
  subBlocked : Bool := false     -- some Watch subscriber's channel (capacity 5) is full and nobody reads it
  run : RunPc := .idle
  cons : List ConsPc := []
  deriving DecidableEq, Repr

inductive Lbl where
  | callRun | callBundle (ctx : Bool) | callWatch
  | runLoser
  | fileWrite (f : FileSt)       -- the environment writes the trust-anchor file
  | subStall | subDrain          -- a Watch consumer stops / resumes reading its channel
  | stop                         -- Run's ctx is done
  | watcherErr                   -- `fswatcher.New` fails
  | ctxDone (i : Nat)            -- consumer i's ctx is done and its select takes that case
  | consClosed (i : Nat)         -- consumer i's select takes the closeCh case
  | run
  | cons (i : Nat)
  deriving DecidableEq, Repr

/-- Some writer is between announcing itself and `Unlock()` (= the RWMutex's writer mutex is held). -/
def St.busy (s : St) : Bool := s.wPend || s.wHeld

def St.canRLock (s : St) : Bool := !s.wHeld && !s.wPend

def holdsR : ConsPc → Nat
  | .bHold | .bUnlock _ => 1
  | _ => 0

def runStep (s : St) : Option St :=
  match s.run with
  | .called => if s.running then some { s with run := .done true } else some { s with running := true, run := .waitFile }
  | .waitFile => if s.file = .absent then none else some { s with run := .uWant false }
  | .uWant r => if s.busy then none else some { s with wPend := true, run := .uPend r }
  | .uPend r => if s.readers = 0 then some { s with wPend := false, wHeld := true, run := .uRead r } else none
  | .uRead r =>
    match s.file with
    | .ver v => some { s with run := .uSet r v }
    | _ => some { s with run := .uUnlockErr }
  | .uSet r v => some { s with bundle := some v, run := .uNotify r }
  | .uNotify r => if s.subBlocked then none else some { s with run := .uUnlock r }
  | .uUnlock r => some { s with wHeld := false, run := if r then .loop else .mkWatcher }
  | .uUnlockErr => some { s with wHeld := false, run := .exiting true }
  | .mkWatcher => some { s with run := .closeReady }
  | .closeReady => some { s with ready := true, run := .loop }
  | .exiting e => some { s with closed := true, run := .done e }
  | _ => none

def consStep (s : St) (i : Nat) : Option St :=
  match s.cons[i]? with
  | none => none
  | some pc =>
    match pc with
    | .bCall _ => if s.ready then some { s with cons := s.cons.set i .bPassed } else none
    | .bPassed => if s.canRLock then some { s with readers := s.readers + 1, cons := s.cons.set i .bHold } else none
    | .bHold => some { s with cons := s.cons.set i (.bUnlock s.bundle) }
    | .bUnlock r => some { s with readers := s.readers - 1, cons := s.cons.set i (.bDone (.ok r)) }
    | .sCall => if s.busy then none else some { s with wPend := true, cons := s.cons.set i .sPend }
    | .sPend => if s.readers = 0 then some { s with wPend := false, wHeld := true, cons := s.cons.set i .sHeld } else none
    | .sHeld => some { s with wHeld := false, cons := s.cons.set i .sDone }
    | .bDone _ => none
    | .sDone => none

def step (s : St) : Lbl → Option St
  | .callRun => if s.run = .idle then some { s with run := .called } else none
  | .callBundle c => some { s with cons := s.cons ++ [.bCall c] }
  | .callWatch => some { s with cons := s.cons ++ [.sCall] }
  | .runLoser => if s.running then some s else none
  | .fileWrite f => some { s with file := f, run := if s.run = .loop then .uWant true else s.run }
  | .subStall => some { s with subBlocked := true }
  | .subDrain => some { s with subBlocked := false }
  | .stop =>
    if s.run = .loop then some { s with run := .exiting false }
    else if s.run = .waitFile then some { s with run := .exiting true }
    else none
  | .watcherErr => if s.run = .mkWatcher then some { s with run := .exiting true } else none
  | .ctxDone i => if s.cons[i]? = some (.bCall true) then some { s with cons := s.cons.set i (.bDone .ctx) } else none
  | .consClosed i =>
    match s.cons[i]? with
    | some (.bCall _) => if s.closed then some { s with cons := s.cons.set i (.bDone .closed) } else none
    | _ => none
  | .run => runStep s
  | .cons i => consStep s i

def init : St := {}

inductive Reach : St → St → Prop where
  | refl (s : St) : Reach s s
  | tail {s t u : St} (l : Lbl) : Reach s t → step t l = some u → Reach s u

/-- Internal labels: statements of goroutines that already exist (including which ready case a
select takes). -/
def Lbl.internal : Lbl → Bool
  | .run | .cons _ | .consClosed _ => true
  | _ => false

inductive IntPath : St → St → Prop where
  | refl (s : St) : IntPath s s
  | head {s t u : St} (l : Lbl) : l.internal = true → step s l = some t → IntPath t u → IntPath s u

def ConsPc.returned : ConsPc → Bool
  | .bDone _ | .sDone => true
  | _ => false

def St.allReturned (s : St) : Bool := s.cons.all ConsPc.returned

/-! ### executable trace acceptance -/

inductive Ev where
  | callRun | callBundle (ctx : Bool) | callWatch
  | file (f : FileSt)
  | stop
  | cancel (i : Nat)
  | ret (i : Nat) (r : Res)
  | runRet (err : Bool)
  | quiet (pending : List Nat)   -- after settling, exactly these bundle calls have not returned
  | nop
  deriving Repr

def insertNew (acc : List St) (s : St) : List St := if acc.contains s then acc else acc ++ [s]

def tauSucc (s : St) : List St :=
  let r := match step s .run with | some t => [t] | none => []
  let cs := (List.range s.cons.length).flatMap fun i =>
    (match step s (.cons i) with | some t => [t] | none => []) ++
    (match step s (.consClosed i) with | some t => [t] | none => [])
  r ++ cs

def RunPc.code : RunPc → Nat
  | .idle => 0 | .called => 1 | .waitFile => 2 | .uWant _ => 3 | .uPend _ => 4 | .uRead _ => 5 | .uSet _ _ => 6
  | .uNotify _ => 14 | .uUnlock _ => 7 | .uUnlockErr => 8 | .mkWatcher => 9 | .closeReady => 10 | .loop => 11 | .exiting _ => 12
  | .done _ => 13

def ConsPc.code : ConsPc → Nat
  | .bCall _ => 1 | .bPassed => 2 | .bHold => 3 | .bUnlock _ => 4 | .bDone _ => 5
  | .sCall => 6 | .sPend => 7 | .sHeld => 8 | .sDone => 9

/-- Cheap fingerprint used only to make the "already seen" test fast (64 buckets); it has no bearing
on soundness. -/
def fingerprint (s : St) : Nat :=
  s.cons.foldl (fun h c => (h * 10 + c.code) % 4093) (s.run.code + 23 * s.readers)

abbrev Seen := List (List St)

def Seen.empty : Seen := List.replicate 64 []

def Seen.contains (seen : Seen) (t : St) : Bool := (seen.getD (fingerprint t % 64) []).contains t

def Seen.insert (seen : Seen) (t : St) : Seen :=
  let k := fingerprint t % 64
  seen.set k (t :: seen.getD k [])

def closure : Nat → Seen → List St → List St → List St
  | 0, _, acc, _ => acc
  | _, _, acc, [] => acc
  | n + 1, seen, acc, s :: todo =>
    let new := (tauSucc s).filter fun t => !(seen.contains t)
    let new := new.foldl insertNew []
    closure n (new.foldl Seen.insert seen) (new ++ acc) (new ++ todo)

def close (ss : List St) : List St :=
  let init := ss.foldl insertNew []
  closure 100000 (init.foldl Seen.insert Seen.empty) init init

def isBundleCall : ConsPc → Bool
  | .bCall _ | .bPassed | .bHold | .bUnlock _ => true
  | _ => false

/-- Bundle calls that have not returned (Watch never returns by itself and is not listed). -/
def pendingOf (s : St) : List Nat :=
  (List.range s.cons.length).filter fun i => match s.cons[i]? with | some pc => isBundleCall pc | none => false

def evState (s : St) : Ev → Option St
  | .callRun => step s .callRun
  | .callBundle c => step s (.callBundle c)
  | .callWatch => step s .callWatch
  | .file f => step s (.fileWrite f)
  | .stop => match step s .stop with | some t => some t | none => some s   -- cancelling an ended / not started Run
  | .cancel i =>
    match step s (.ctxDone i) with
    | some t => some t
    | none => match s.cons[i]? with | some (.bDone _) => some s | some .sCall | some .sPend | some .sHeld | some .sDone => some s | _ => none
  | .ret i r => if s.cons[i]? == some (.bDone r) then some s else none
  | .runRet e => if s.run == .done e then some s else none
  | .quiet p => if (tauSucc s).isEmpty && pendingOf s == p then some s else none
  | .nop => some s

def acceptFrom : List St → Nat → List Ev → Option Nat × List St
  | m, _, [] => (none, m)
  | m, k, e :: es =>
    let m' := close (m.filterMap (evState · e))
    if m'.isEmpty then (some k, m) else acceptFrom m' (k + 1) es

def accept (tr : List Ev) : Option Nat × List St := acceptFrom (close [init]) 0 tr

end Kit.Spiffe.TA
