import KitModel.Go.Prelude
/-!
# Model of `events/queue/queue.go` (property C06)

The Go type `queue[K,T]` is a `container/heap` of items ordered by `ScheduledTime()` plus a map
`key ↦ heap entry`.  Four operations are used by the `Processor`:

* `Insert(r, replace = true)` — an item with the same key is replaced (value and position);
* `Peek()`  — the heap root: *an* item whose scheduled time is minimal (ties are broken by the
  shape of the heap, which the property does not constrain);
* `Pop()`   — removes the root;
* `Remove(key)`.

Two layers, the second refining the first (`KitProofs/Lemmas/Queue.lean`):

1. **specification** (`insert` / `remove` / `pop` / `IsHead`): the queue is the list of live items,
   one per key; `Peek` may return *any* item of minimal time.  This is what
   `KitModel/Processor.lean` is written against, so its theorems hold for every tie-breaking rule
   (in particular for whatever `container/heap` does with equal times).
2. **sorted association list** (`SortedQ`): the textbook implementation, FIFO among equal times.

The binary heap with its key index is not modelled; the real heap is tied to layer 1 on every run
(every head it returns to the loop must be a minimal live item of the model).
-/
namespace Kit.Queue

/-- A queued item.  `id` is the identity of the Go object (the `peek != r` comparison in
`execute` compares pointers); the processor model hands out fresh ids. -/
structure Item (κ ν : Type) where
  key : κ
  time : Int
  val : ν
  id : Nat
  deriving Repr, DecidableEq

variable {κ ν : Type} [DecidableEq κ] [DecidableEq ν]

/-! ## 1. specification: list of live items, one per key -/

/-- `Remove(key)`. -/
def remove (q : List (Item κ ν)) (k : κ) : List (Item κ ν) := q.filter (fun x => x.key ≠ k)

/-- `Insert(r, true)`: replaces the item with the same key. -/
def insert (q : List (Item κ ν)) (r : Item κ ν) : List (Item κ ν) := r :: remove q r.key

/-- The item stored under `k`, if any. -/
def lookup (q : List (Item κ ν)) (k : κ) : Option (Item κ ν) := q.find? (fun x => x.key = k)

/-- `r` is live and no live item is scheduled strictly earlier. -/
def IsMin (q : List (Item κ ν)) (r : Item κ ν) : Prop := r ∈ q ∧ ∀ x ∈ q, r.time ≤ x.time

instance (q : List (Item κ ν)) (r : Item κ ν) : Decidable (IsMin q r) :=
  inferInstanceAs (Decidable (_ ∧ _))

/-- What `Peek` may return: nothing iff the queue is empty, otherwise any minimal item. -/
def IsHead (q : List (Item κ ν)) : Option (Item κ ν) → Prop
  | none => q = []
  | some r => IsMin q r

instance (q : List (Item κ ν)) (hd : Option (Item κ ν)) : Decidable (IsHead q hd) := by
  cases hd <;> simp only [IsHead] <;> infer_instance

/-- `Pop()` when the root is `r`. -/
def pop (q : List (Item κ ν)) (r : Item κ ν) : List (Item κ ν) := q.filter (fun x => x ≠ r)

/-- All minimal items (the candidates for `Peek`). -/
def minima (q : List (Item κ ν)) : List (Item κ ν) := q.filter (fun r => q.all (fun x => r.time ≤ x.time))

/-! ## 2. sorted association list -/

/-- Ordered insertion after every item that is not later (FIFO among equal times). -/
def sortedInsert (r : Item κ ν) : List (Item κ ν) → List (Item κ ν)
  | [] => [r]
  | x :: xs => if x.time ≤ r.time then x :: sortedInsert r xs else r :: x :: xs

namespace SortedQ
/-- `Insert(r, true)`. -/
def insert (q : List (Item κ ν)) (r : Item κ ν) : List (Item κ ν) := sortedInsert r (remove q r.key)
/-- `Peek()`. -/
def peek (q : List (Item κ ν)) : Option (Item κ ν) := q.head?
/-- `Pop()`. -/
def pop (q : List (Item κ ν)) : Option (Item κ ν) × List (Item κ ν) := (q.head?, q.tail)
/-- `Remove(key)`. -/
def remove (q : List (Item κ ν)) (k : κ) : List (Item κ ν) := Queue.remove q k
end SortedQ

end Kit.Queue
