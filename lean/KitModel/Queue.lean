import KitModel.Go.Prelude
/-!
# Model of `events/queue/queue.go` (property C06)

The Go type `queue[K,T]` is a `container/heap` of items ordered by `ScheduledTime()` plus a map
`key ↦ heap entry`.  Four operations are used by the `Processor`:

* `Insert(r, replace = true)` — an item with the same key is replaced (value and position);
* `Peek()`  — the heap root: *an* item whose scheduled time is minimal (ties are broken by the
  shape of the heap, which the property does not constrain);
* `Pop()`   — removes the root;
* `Remove(key)`.

Three layers, each refining the one above (`KitProofs/Lemmas/Queue.lean`, `Lemmas/Heap.lean`):

1. **specification** (`insert` / `remove` / `pop` / `IsHead`): the queue is the list of live items,
   one per key; `Peek` may return *any* item of minimal time.  This is what
   `KitModel/Processor.lean` is written against, so its theorems hold for every tie-breaking rule
   (in particular for whatever `container/heap` does with equal times).
2. **sorted association list** (`SortedQ`): the textbook implementation, FIFO among equal times.

3. **binary heap with stored indices** (`Heap`): the algorithm of `container/heap` as `queue.go`
   drives it — `Push`+`up`, `Pop` = swap/`down`/remove last, `Remove(i)`, `Fix(i)` — over an array
   of entries `{value, index}` whose `index` field is maintained by `Swap` exactly as
   `queueHeap.Swap` does.  The map `items` (key ↦ *queueItem) is modelled as "the entry with that
   key in the array".  `kitdrv C06` runs this layer against the real `queue` (exact agreement,
   including ties and the stored indices).
-/
namespace Kit.Queue

/-- A queued item.  `id` is the identity of the Go object (the `peek != r` comparison in
`execute` compares pointers); the processor model hands out fresh ids. -/
structure Item (κ ν : Type) where
  key : κ
  time : Int
  val : ν
  id : Nat
  deriving Repr, DecidableEq

variable {κ ν : Type} [DecidableEq κ] [DecidableEq ν]

/-! ## 1. specification: list of live items, one per key -/

/-- `Remove(key)`. -/
def remove (q : List (Item κ ν)) (k : κ) : List (Item κ ν) := q.filter (fun x => x.key ≠ k)

/-- `Insert(r, true)`: replaces the item with the same key. -/
def insert (q : List (Item κ ν)) (r : Item κ ν) : List (Item κ ν) := r :: remove q r.key

/-- The item stored under `k`, if any. -/
def lookup (q : List (Item κ ν)) (k : κ) : Option (Item κ ν) := q.find? (fun x => x.key = k)

/-- `r` is live and no live item is scheduled strictly earlier. -/
def IsMin (q : List (Item κ ν)) (r : Item κ ν) : Prop := r ∈ q ∧ ∀ x ∈ q, r.time ≤ x.time

instance (q : List (Item κ ν)) (r : Item κ ν) : Decidable (IsMin q r) :=
  inferInstanceAs (Decidable (_ ∧ _))

/-- What `Peek` may return: nothing iff the queue is empty, otherwise any minimal item. -/
def IsHead (q : List (Item κ ν)) : Option (Item κ ν) → Prop
  | none => q = []
  | some r => IsMin q r

instance (q : List (Item κ ν)) (hd : Option (Item κ ν)) : Decidable (IsHead q hd) := by
  cases hd <;> simp only [IsHead] <;> infer_instance

/-- `Pop()` when the root is `r`. -/
def pop (q : List (Item κ ν)) (r : Item κ ν) : List (Item κ ν) := q.filter (fun x => x ≠ r)

/-- All minimal items (the candidates for `Peek`). -/
def minima (q : List (Item κ ν)) : List (Item κ ν) := q.filter (fun r => q.all (fun x => r.time ≤ x.time))

/-! ## 2. sorted association list -/

/-- Ordered insertion after every item that is not later (FIFO among equal times). -/
def sortedInsert (r : Item κ ν) : List (Item κ ν) → List (Item κ ν)
  | [] => [r]
  | x :: xs => if x.time ≤ r.time then x :: sortedInsert r xs else r :: x :: xs

namespace SortedQ
/-- `Insert(r, true)`. -/
def insert (q : List (Item κ ν)) (r : Item κ ν) : List (Item κ ν) := sortedInsert r (remove q r.key)
/-- `Peek()`. -/
def peek (q : List (Item κ ν)) : Option (Item κ ν) := q.head?
/-- `Pop()`. -/
def pop (q : List (Item κ ν)) : Option (Item κ ν) × List (Item κ ν) := (q.head?, q.tail)
/-- `Remove(key)`. -/
def remove (q : List (Item κ ν)) (k : κ) : List (Item κ ν) := Queue.remove q k
end SortedQ

/-! ## 3. binary heap with stored indices (container/heap + queue.go) -/

namespace Heap

/-- `queueItem`: the value and the index the heap believes it is stored at. -/
structure Entry (κ ν : Type) where
  value : Item κ ν
  index : Int
  deriving Repr, DecidableEq

abbrev H (κ ν : Type) := Array (Entry κ ν)

/-- `queueHeap.Less(i, j)`: strictly earlier. Out of range (never happens) is `false`. -/
def less (h : H κ ν) (i j : Nat) : Bool :=
  match h[i]?, h[j]? with
  | some a, some b => decide (a.value.time < b.value.time)
  | _, _ => false

/-- `queueHeap.Swap(i, j)`: exchange the entries and store their new positions in them. -/
def swap (h : H κ ν) (i j : Nat) : H κ ν :=
  match h[i]?, h[j]? with
  | some a, some b => (h.setIfInBounds i { b with index := i }).setIfInBounds j { a with index := j }
  | _, _ => h

/-- `heap.up(h, j)`; `fuel` bounds the loop (the height of the heap suffices). -/
def up (h : H κ ν) (j : Nat) : Nat → H κ ν
  | 0 => h
  | fuel + 1 =>
    let i := (j - 1) / 2
    if i = j ∨ less h j i = false then h else up (swap h i j) i fuel

/-- The loop of `heap.down(h, i0, n)`: returns the heap and the final position. -/
def downLoop (h : H κ ν) (i n : Nat) : Nat → H κ ν × Nat
  | 0 => (h, i)
  | fuel + 1 =>
    let j1 := 2 * i + 1
    if j1 ≥ n then (h, i) else
    let j := if j1 + 1 < n ∧ less h (j1 + 1) j1 = true then j1 + 1 else j1
    if less h j i = false then (h, i) else downLoop (swap h i j) j n fuel

/-- `heap.down(h, i0, n)`: the heap and whether the element moved. -/
def down (h : H κ ν) (i0 n : Nat) : H κ ν × Bool :=
  let r := downLoop h i0 n h.size
  (r.1, decide (r.2 > i0))

/-- `heap.Push(h, x)`: `queueHeap.Push` appends with `index = n`, then `up(n)`. -/
def push (h : H κ ν) (r : Item κ ν) : H κ ν :=
  up (h.push { value := r, index := h.size }) h.size (h.size + 1)

/-- `heap.Pop(h)`: swap root and last, `down(0, n)`, then `queueHeap.Pop` removes the last entry. -/
def popRoot (h : H κ ν) : Option (Item κ ν) × H κ ν :=
  if h.size = 0 then (none, h) else
    let n := h.size - 1
    let h2 := (down (swap h 0 n) 0 n).1
    (h2.back?.map (·.value), h2.pop)

/-- `heap.Fix(h, i)`. -/
def fix (h : H κ ν) (i : Nat) : H κ ν :=
  let r := down h i h.size
  if r.2 then r.1 else up r.1 i (h.size + 1)

/-- `heap.Remove(h, i)`. -/
def removeAt (h : H κ ν) (i : Nat) : H κ ν :=
  let n := h.size - 1
  let h1 :=
    if n ≠ i then
      let r := down (swap h i n) i n
      if r.2 then r.1 else up r.1 i (h.size + 1)
    else h
  h1.pop

/-- `items[key]`: position of the entry with that key. -/
def find (h : H κ ν) (k : κ) : Option Nat :=
  (List.range h.size).find? fun i =>
    match h[i]? with
    | some e => decide (e.value.key = k)
    | none => false

/-- `queue.Insert(r, true)`. -/
def insert (h : H κ ν) (r : Item κ ν) : H κ ν :=
  match find h r.key with
  | some pos =>
    match h[pos]? with
    | some e => fix (h.setIfInBounds pos { e with value := r }) e.index.toNat
    | none => h
  | none => push h r

/-- `queue.Peek()`. -/
def peek (h : H κ ν) : Option (Item κ ν) := h[0]?.map (·.value)

/-- `queue.Pop()`. -/
def pop (h : H κ ν) : Option (Item κ ν) × H κ ν := popRoot h

/-- `queue.Remove(key)`. -/
def remove (h : H κ ν) (k : κ) : H κ ν :=
  match find h k with
  | some pos =>
    match h[pos]? with
    | some e => removeAt h e.index.toNat
    | none => h
  | none => h

/-- The live items, in array order. -/
def items (h : H κ ν) : List (Item κ ν) := h.toList.map (·.value)

end Heap

end Kit.Queue
