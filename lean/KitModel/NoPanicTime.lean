import KitModel.NoPanic
/-!
C07 — model of `/repo/time/time.go`: `ParseISO8601Duration`, and the dapr/kit-side control flow
of `ParseDuration` / `ParseTime` (the fall-backs `time.ParseDuration`, `time.Parse` are standard
library calls, modelled as opaque results).

The model follows the Go text statement by statement: same indices `i`, `start`, same slices
`from[1:i]`, `from[start:i]`, same order of checks.  `int` / `time.Duration` arithmetic wraps
(`wrap64`) exactly as Go's does.
-/
namespace Kit.NoPanic.Time
open Kit Kit.NoPanic

structure IsoRes where
  years : Int
  months : Int
  days : Int
  dur : Int
  rep : Int
  deriving Repr, DecidableEq

structure St where
  start : Nat
  inTime : Bool
  years : Int
  months : Int
  days : Int
  dur : Int
  deriving Repr

def bad {α : Type} : Outcome α := .err "unsupported ISO8601 duration format"

/-- `for { i++; if i == l || from[i] == '/' { break } }` — returns the final `i`. -/
def scanR (s : Bytes) : Nat → Nat → Outcome Nat
  | 0, _ => .panic "loop bound exceeded"
  | fuel + 1, i =>
    let i' := i + 1
    if i' == s.length then .ok i'
    else (idx s i').bind fun c => if c == 47 then .ok i' else scanR s fuel i'

/-- `tmp, err = strconv.Atoi(from[start:i]); …; start = i + 1` with the field update `k`. -/
def numField (s : Bytes) (i : Nat) (st : St) (k : Int → St → St) : Outcome St :=
  (slice s st.start i).bind fun sub =>
    match atoi sub with
    | none => bad
    | some v => .ok { k v st with start := i + 1 }

def hourNs : Int := 3600000000000
def minuteNs : Int := 60000000000
def secondNs : Int := 1000000000

/-- one iteration of `for i < l { switch from[i] { … }; i++ }` -/
def isoStep (s : Bytes) (i : Nat) (st : St) : Outcome St :=
  (idx s i).bind fun c =>
    if c == 84 then -- 'T'
      if st.start != i then bad else .ok { st with inTime := true, start := i + 1 }
    else if c == 89 then -- 'Y'
      if st.inTime || st.start == i then bad else numField s i st fun v st => { st with years := v }
    else if c == 87 then -- 'W'
      if st.inTime || st.start == i then bad else numField s i st fun v st => { st with days := wrap64 (st.days + wrap64 (v * 7)) }
    else if c == 68 then -- 'D'
      if st.inTime || st.start == i then bad else numField s i st fun v st => { st with days := wrap64 (st.days + v) }
    else if c == 72 then -- 'H'
      if !st.inTime || st.start == i then bad else numField s i st fun v st => { st with dur := wrap64 (st.dur + wrap64 (v * hourNs)) }
    else if c == 83 then -- 'S'
      if !st.inTime || st.start == i then bad else numField s i st fun v st => { st with dur := wrap64 (st.dur + wrap64 (v * secondNs)) }
    else if c == 77 then -- 'M'
      if st.start == i then bad
      else numField s i st fun v st =>
        if st.inTime then { st with dur := wrap64 (st.dur + wrap64 (v * minuteNs)) } else { st with months := v }
    else .ok st

def isoLoop (s : Bytes) : Nat → Nat → St → Outcome St
  | 0, i, st => if i < s.length then .panic "loop bound exceeded" else .ok st
  | fuel + 1, i, st =>
    if i < s.length then (isoStep s i st).bind fun st' => isoLoop s fuel (i + 1) st' else .ok st

/-- from `if from[i] != 'P'` to the end of the function; `i < len(from)` is the caller's duty. -/
def isoBody (s : Bytes) (i : Nat) (rep : Int) : Outcome IsoRes :=
  (idx s i).bind fun c =>
    if c != 80 then bad
    else
      (isoLoop s s.length (i + 1) { start := i + 1, inTime := false, years := 0, months := 0, days := 0, dur := 0 }).bind fun st =>
        .ok { years := st.years, months := st.months, days := st.days, dur := st.dur, rep := rep }

def parseISO8601 (s : Bytes) : Outcome IsoRes :=
  if s.length < 2 then bad
  else
    (idx s 0).bind fun c0 =>
      if c0 == 82 then -- 'R'
        (scanR s s.length 0).bind fun i =>
          if i < 2 then bad -- `i-1 < 1`
          else
            (slice s 1 i).bind fun sub =>
              match atoi sub with
              | none => bad
              | some r =>
                if i + 1 ≥ s.length then .ok { years := 0, months := 0, days := 0, dur := 0, rep := r }
                else isoBody s (i + 1) r
      else isoBody s 0 (-1)

/-! `ParseDuration` / `ParseTime`: dapr/kit-side control flow over opaque standard-library results. -/

inductive TimeRes where
  | iso (r : IsoRes)
  | goDuration
  | rfc3339
  deriving Repr

def parseDuration (stdParseDuration : Bytes → Bool) (s : Bytes) : Outcome TimeRes :=
  match parseISO8601 s with
  | .ok r => .ok (.iso r)
  | .panic w => .panic w
  | .err _ => if stdParseDuration s then .ok .goDuration else .err "unsupported duration format"

def parseTime (stdParseDuration stdParseRFC3339 : Bytes → Bool) (s : Bytes) : Outcome TimeRes :=
  match parseISO8601 s with
  | .ok r => if r.rep != -1 then .err "repetitions are not allowed" else .ok (.iso r)
  | .panic w => .panic w
  | .err _ =>
    if stdParseDuration s then .ok .goDuration
    else if stdParseRFC3339 s then .ok .rfc3339
    else .err "unsupported time/duration format"

end Kit.NoPanic.Time
