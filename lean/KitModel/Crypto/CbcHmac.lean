/-
AES_CBC_HMAC_SHA2 authenticated encryption written from RFC 7518 §5.2.2
(= draft-mcgrew-aead-aes-cbc-hmac-sha2): PKCS#7 padding, CBC, then
`T = first T_LEN bytes of HMAC(MAC_KEY, A ‖ IV ‖ E ‖ AL)` with `AL` the 64-bit big-endian bit
length of `A`.

Key layout: `key = MAC_KEY ‖ ENC_KEY` with `|MAC_KEY| = T_LEN = HashLen/2` and `ENC_KEY` the
remaining 16/24/32 bytes.  This covers the RFC's three algorithms (32/48/64-byte keys) and the
56-byte AES_256_CBC_HMAC_SHA_384 of the mcgrew draft that dapr/kit also offers.
-/
import KitModel.Crypto.Aes
import KitModel.Crypto.Hmac

namespace Kit.Crypto

/-- PKCS#7 (RFC 5652 §6.3) padding to 16-byte blocks: always adds 1..16 bytes. -/
def pkcs7Pad (pt : Bytes) : Bytes :=
  let k := 16 - pt.length % 16
  pt ++ List.replicate k (UInt8.ofNat k)

/-- Strict PKCS#7 removal: input must be a non-empty multiple of 16 ending in `k` bytes of value `k`,
`1 ≤ k ≤ 16`. -/
def pkcs7Unpad (b : Bytes) : Option Bytes :=
  if b.isEmpty || b.length % 16 != 0 then none
  else
    let k := (b.getLast?.getD 0).toNat
    if k == 0 || k > 16 then none
    else if (b.drop (b.length - k)).all (· == UInt8.ofNat k) then some (b.take (b.length - k))
    else none

def cbcHmacTagLen (h : HashAlg) : Nat := h.size / 2
def cbcHmacMacKey (h : HashAlg) (key : Bytes) : Bytes := key.take (cbcHmacTagLen h)
def cbcHmacEncKey (h : HashAlg) (key : Bytes) : Bytes := key.drop (cbcHmacTagLen h)

def cbcHmacArgsOk (h : HashAlg) (key iv : Bytes) : Bool :=
  key.length ≥ cbcHmacTagLen h && validAesKeyLen (key.length - cbcHmacTagLen h) && iv.length == 16

/-- `T` of RFC 7518 §5.2.2.1 step 5–6. -/
def cbcHmacTag (h : HashAlg) (key iv ct ad : Bytes) : Bytes :=
  (hmac h (cbcHmacMacKey h key) (ad ++ iv ++ ct ++ be64Bytes (ad.length * 8).toUInt64)).take (cbcHmacTagLen h)

/-- (ciphertext incl. PKCS#7 padding, tag).  `([], [])` if key/IV sizes are invalid. -/
def cbcHmacSeal (h : HashAlg) (key iv pt ad : Bytes) : Bytes × Bytes :=
  if cbcHmacArgsOk h key iv then
    let ct := cbcEncrypt (cbcHmacEncKey h key) iv (pkcs7Pad pt)
    (ct, cbcHmacTag h key iv ct ad)
  else ([], [])

/-- Verify the tag, decrypt, strip the padding; `none` on any failure. -/
def cbcHmacOpen (h : HashAlg) (key iv ct ad tag : Bytes) : Option Bytes :=
  if cbcHmacArgsOk h key iv && ct.length % 16 == 0 then
    if cbcHmacTag h key iv ct ad == tag then
      pkcs7Unpad (cbcDecrypt (cbcHmacEncKey h key) iv ct)
    else none
  else none

end Kit.Crypto
