/-
Base 64 with padding, standard alphabet (RFC 4648 §4).

Decoding is as lenient as Go's `base64.StdEncoding` (the decoder dapr/kit uses): CR and LF are
skipped, non-zero trailing bits are accepted; anything else that is not canonical padded base64 is
rejected.
-/
import KitModel.Crypto.Util

namespace Kit.Crypto

def b64Alphabet : Array Char :=
  "ABCDEFGHIJKLMNOPQRSTUVWXYZabcdefghijklmnopqrstuvwxyz0123456789+/".toList.toArray

@[inline] def b64Char (n : Nat) : Char := b64Alphabet[n % 64]!

def b64EncAux : Bytes → String → String
  | a :: b :: c :: rest, s =>
    let n := a.toNat * 65536 + b.toNat * 256 + c.toNat
    b64EncAux rest ((((s.push (b64Char (n / 262144))).push (b64Char (n / 4096))).push (b64Char (n / 64))).push (b64Char n))
  | [a, b], s =>
    let n := a.toNat * 65536 + b.toNat * 256
    (((s.push (b64Char (n / 262144))).push (b64Char (n / 4096))).push (b64Char (n / 64))).push '='
  | [a], s =>
    let n := a.toNat * 65536
    (((s.push (b64Char (n / 262144))).push (b64Char (n / 4096))).push '=').push '='
  | [], s => s

def base64Std (b : Bytes) : String := b64EncAux b ""

def b64Val (c : Char) : Option Nat :=
  if 'A' ≤ c ∧ c ≤ 'Z' then some (c.toNat - 65)
  else if 'a' ≤ c ∧ c ≤ 'z' then some (c.toNat - 71)
  else if '0' ≤ c ∧ c ≤ '9' then some (c.toNat + 4)
  else if c = '+' then some 62
  else if c = '/' then some 63
  else none

def b64DecAux : List Char → ByteArray → Option ByteArray
  | [], acc => some acc
  | [a, b, '=', '='], acc =>
    match b64Val a, b64Val b with
    | some x, some y => some (acc.push (UInt8.ofNat ((x * 64 + y) / 16)))
    | _, _ => none
  | [a, b, c, '='], acc =>
    match b64Val a, b64Val b, b64Val c with
    | some x, some y, some z =>
      let n := (x * 64 + y) * 64 + z
      some ((acc.push (UInt8.ofNat (n / 1024))).push (UInt8.ofNat (n / 4)))
    | _, _, _ => none
  | a :: b :: c :: d :: rest, acc =>
    match b64Val a, b64Val b, b64Val c, b64Val d with
    | some x, some y, some z, some w =>
      let n := ((x * 64 + y) * 64 + z) * 64 + w
      b64DecAux rest (((acc.push (UInt8.ofNat (n / 65536))).push (UInt8.ofNat (n / 256))).push (UInt8.ofNat n))
    | _, _, _, _ => none
  | _, _ => none

def base64StdDecode (s : String) : Option Bytes :=
  (b64DecAux (s.toList.filter fun c => c != '\r' && c != '\n') ByteArray.empty).map baToList

end Kit.Crypto
