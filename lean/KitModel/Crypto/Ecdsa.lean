/-
ECDSA over the NIST prime curves P-256 / P-384 / P-521 (FIPS 186-4 §6, SEC 1 §4.1), written over
`Nat`: short-Weierstrass arithmetic in Jacobian coordinates, double-and-add, strict DER
`SEQUENCE { INTEGER r, INTEGER s }` (X.690: minimal lengths, minimal two's-complement integers, no
trailing bytes).  Independent of Go's crypto/ecdsa: the "other implementation" for C03's interop
clause for ES256 / ES384 / ES512.  Like dapr/kit's SignPrivateKey/VerifyPublicKey (and Go's
ecdsa.SignASN1/VerifyASN1) the functions take the DIGEST.  The per-signature secret `k` is an explicit
argument of `ecdsaSign`.  Core Lean only.
-/
import KitModel.Crypto.Rsa

namespace Kit.Crypto

structure Curve where
  name : String
  p : Nat
  a : Nat
  b : Nat
  gx : Nat
  gy : Nat
  n : Nat
  deriving Repr

def hexNat (s : String) : Nat :=
  s.foldl (fun acc c =>
    if '0' ≤ c ∧ c ≤ '9' then acc * 16 + (c.toNat - 48)
    else if 'a' ≤ c ∧ c ≤ 'f' then acc * 16 + (c.toNat - 87)
    else acc) 0

def p256 : Curve :=
  let p := hexNat "ffffffff00000001000000000000000000000000ffffffffffffffffffffffff"
  { name := "P-256", p := p, a := p - 3
    b := hexNat "5ac635d8aa3a93e7b3ebbd55769886bc651d06b0cc53b0f63bce3c3e27d2604b"
    gx := hexNat "6b17d1f2e12c4247f8bce6e563a440f277037d812deb33a0f4a13945d898c296"
    gy := hexNat "4fe342e2fe1a7f9b8ee7eb4a7c0f9e162bce33576b315ececbb6406837bf51f5"
    n := hexNat "ffffffff00000000ffffffffffffffffbce6faada7179e84f3b9cac2fc632551" }

def p384 : Curve :=
  let p := hexNat "fffffffffffffffffffffffffffffffffffffffffffffffffffffffffffffffeffffffff0000000000000000ffffffff"
  { name := "P-384", p := p, a := p - 3
    b := hexNat "b3312fa7e23ee7e4988e056be3f82d19181d9c6efe8141120314088f5013875ac656398d8a2ed19d2a85c8edd3ec2aef"
    gx := hexNat "aa87ca22be8b05378eb1c71ef320ad746e1d3b628ba79b9859f741e082542a385502f25dbf55296c3a545e3872760ab7"
    gy := hexNat "3617de4a96262c6f5d9e98bf9292dc29f8f41dbd289a147ce9da3113b5f0b8c00a60b1ce1d7e819d7a431d7c90ea0e5f"
    n := hexNat "ffffffffffffffffffffffffffffffffffffffffffffffffc7634d81f4372ddf581a0db248b0a77aecec196accc52973" }

def p521 : Curve :=
  let p := 2 ^ 521 - 1
  { name := "P-521", p := p, a := p - 3
    b := hexNat "0051953eb9618e1c9a1f929a21a0b68540eea2da725b99b315f3b8b489918ef109e156193951ec7e937b1652c0bd3bb1bf073573df883d2c34f1ef451fd46b503f00"
    gx := hexNat "00c6858e06b70404e9cd9e3ecb662395b4429c648139053fb521f828af606b4d3dbaa14b5e77efe75928fe1dc127a2ffa8de3348b3c1856a429bf97e7e31c2e5bd66"
    gy := hexNat "011839296a789a3bc0045c8a5fb42c7d1bd998f54449579b446817afbd17273e662c97ee72995ef42640c550b9013fad0761353c7086a272c24088be94769fd16650"
    n := hexNat "01fffffffffffffffffffffffffffffffffffffffffffffffffffffffffffffffffa51868783bf2f966b7fcc0148f709a5d03bb5c9b8899c47aebb6fb71e91386409" }

def curveOfBits (bits : Nat) : Option Curve :=
  if bits = 256 then some p256 else if bits = 384 then some p384 else if bits = 521 then some p521 else none

/-! ### field and group arithmetic -/

/-- A point in Jacobian coordinates `(X : Y : Z)`, `x = X/Z²`, `y = Y/Z³`; `Z = 0` is the point at infinity. -/
structure JPoint where
  x : Nat
  y : Nat
  z : Nat
  deriving Repr

def JPoint.inf : JPoint := ⟨1, 1, 0⟩

@[inline] def subM (p a b : Nat) : Nat := (a + p - b % p) % p

def jDouble (c : Curve) (P : JPoint) : JPoint :=
  let p := c.p
  if P.z = 0 ∨ P.y = 0 then JPoint.inf
  else
    let y2 := P.y * P.y % p
    let s := 4 * P.x * y2 % p
    let z2 := P.z * P.z % p
    let m := (3 * P.x * P.x + c.a * (z2 * z2 % p)) % p
    let x3 := subM p (m * m % p) (2 * s)
    let y3 := subM p (m * subM p s x3 % p) (8 * (y2 * y2 % p))
    let z3 := 2 * P.y * P.z % p
    ⟨x3, y3, z3⟩

def jAdd (c : Curve) (P Q : JPoint) : JPoint :=
  let p := c.p
  if P.z = 0 then Q
  else if Q.z = 0 then P
  else
    let z1z1 := P.z * P.z % p
    let z2z2 := Q.z * Q.z % p
    let u1 := P.x * z2z2 % p
    let u2 := Q.x * z1z1 % p
    let s1 := P.y * (z2z2 * Q.z % p) % p
    let s2 := Q.y * (z1z1 * P.z % p) % p
    if u1 = u2 then
      if s1 = s2 then jDouble c P else JPoint.inf
    else
      let h := subM p u2 u1
      let r := subM p s2 s1
      let h2 := h * h % p
      let h3 := h2 * h % p
      let u1h2 := u1 * h2 % p
      let x3 := subM p (subM p (r * r % p) h3) (2 * u1h2)
      let y3 := subM p (r * subM p u1h2 x3 % p) (s1 * h3)
      let z3 := h * (P.z * Q.z % p) % p
      ⟨x3, y3, z3⟩

/-- `k·P`, most significant bit first (`bits` = number of bits of `k` to process). -/
def jMulAux (c : Curve) (P : JPoint) (k : Nat) : Nat → JPoint → JPoint
  | 0, acc => acc
  | i + 1, acc =>
    let acc := jDouble c acc
    jMulAux c P k i (if k / 2 ^ i % 2 = 1 then jAdd c acc P else acc)

def jMul (c : Curve) (k : Nat) (P : JPoint) : JPoint := jMulAux c P k (bitLen k) JPoint.inf

/-- Modular inverse in a prime field (Fermat). -/
def invP (p x : Nat) : Nat := modPow x (p - 2) p

/-- Affine coordinates, `none` for the point at infinity. -/
def toAffine (c : Curve) (P : JPoint) : Option (Nat × Nat) :=
  if P.z = 0 then none
  else
    let zi := invP c.p P.z
    let zi2 := zi * zi % c.p
    some (P.x * zi2 % c.p, P.y * (zi2 * zi % c.p) % c.p)

def onCurve (c : Curve) (x y : Nat) : Bool :=
  x < c.p && y < c.p && (y * y % c.p == (x * x % c.p * x + c.a * x + c.b) % c.p)

/-! ### DER -/

/-- One DER length: (value, rest); definite, minimal form only. -/
def derLength : Bytes → Option (Nat × Bytes)
  | [] => none
  | b :: rest =>
    if b < 0x80 then some (b.toNat, rest)
    else if b = 0x81 then
      match rest with
      | l :: rest' => if l ≥ 0x80 then some (l.toNat, rest') else none
      | _ => none
    else if b = 0x82 then
      match rest with
      | h :: l :: rest' => if h ≠ 0 then some (h.toNat * 256 + l.toNat, rest') else none
      | _ => none
    else none

/-- A non-negative DER INTEGER in minimal two's-complement form: (value, rest). -/
def derPosInt : Bytes → Option (Nat × Bytes)
  | 0x02 :: rest =>
    match derLength rest with
    | some (len, body) =>
      if len = 0 ∨ body.length < len then none
      else
        let v := body.take len
        match v with
        | b0 :: tl =>
          if b0 ≥ 0x80 then none                                    -- negative
          else if b0 == 0 && (match tl with | b1 :: _ => decide (b1 < 0x80) | [] => false) then none   -- not minimal
          else some (os2ip v, body.drop len)
        | [] => none
    | none => none
  | _ => none

/-- `SEQUENCE { INTEGER r, INTEGER s }`, nothing before, between or after. -/
def parseEcdsaSig (sig : Bytes) : Option (Nat × Nat) :=
  match sig with
  | 0x30 :: rest =>
    match derLength rest with
    | some (len, body) =>
      if body.length ≠ len then none
      else
        match derPosInt body with
        | some (r, rest1) =>
          match derPosInt rest1 with
          | some (s, []) => some (r, s)
          | _ => none
        | none => none
    | none => none
  | _ => none

def derEncLen (n : Nat) : Bytes :=
  if n < 128 then [UInt8.ofNat n] else if n < 256 then [0x81, UInt8.ofNat n]
  else [0x82, UInt8.ofNat (n / 256), UInt8.ofNat (n % 256)]

def derEncInt (x : Nat) : Bytes :=
  let raw := i2osp ((bitLen x + 7) / 8) x
  let body := match raw with
    | [] => [0]
    | b :: _ => if b ≥ 0x80 then 0 :: raw else raw
  0x02 :: derEncLen body.length ++ body

def encodeEcdsaSig (r s : Nat) : Bytes :=
  let body := derEncInt r ++ derEncInt s
  0x30 :: derEncLen body.length ++ body

/-! ### ECDSA (FIPS 186-4 §6.4; SEC 1 §4.1.3/§4.1.4) -/

/-- The integer derived from the digest: its leftmost `bitLen n` bits. -/
def digestToInt (c : Curve) (digest : Bytes) : Nat :=
  let nb := bitLen c.n
  let e := os2ip digest
  if 8 * digest.length > nb then e / 2 ^ (8 * digest.length - nb) else e

def ecdsaVerify (c : Curve) (qx qy : Nat) (digest sig : Bytes) : Bool :=
  if ¬ onCurve c qx qy then false
  else
    match parseEcdsaSig sig with
    | none => false
    | some (r, s) =>
      if r = 0 ∨ r ≥ c.n ∨ s = 0 ∨ s ≥ c.n then false
      else
        let z := digestToInt c digest
        let w := invP c.n s
        let u1 := z * w % c.n
        let u2 := r * w % c.n
        let pt := jAdd c (jMul c u1 ⟨c.gx, c.gy, 1⟩) (jMul c u2 ⟨qx, qy, 1⟩)
        match toAffine c pt with
        | none => false
        | some (x, _) => x % c.n == r

/-- Signature with the private scalar `d` and the per-signature secret `k` (both in `[1, n−1]`). -/
def ecdsaSign (c : Curve) (d k : Nat) (digest : Bytes) : Option Bytes :=
  if k = 0 ∨ k ≥ c.n ∨ d = 0 ∨ d ≥ c.n then none
  else
    match toAffine c (jMul c k ⟨c.gx, c.gy, 1⟩) with
    | none => none
    | some (x, _) =>
      let r := x % c.n
      let s := invP c.n k * ((digestToInt c digest + r * d) % c.n) % c.n
      if r = 0 ∨ s = 0 then none else some (encodeEcdsaSig r s)

/-- Public key of a private scalar. -/
def ecdsaPublic (c : Curve) (d : Nat) : Option (Nat × Nat) := toAffine c (jMul c d ⟨c.gx, c.gy, 1⟩)

end Kit.Crypto
