/-
Byte-level helpers shared by the executable crypto specifications.
Core Lean only.  API surface is `Kit.Bytes` (= `List UInt8`); `ByteArray`, `Array`,
`UInt32`, `UInt64` are used internally for speed.
-/
import KitModel.Go.Prelude

namespace Kit.Crypto

/-! ### loops -/

/-- `f 0 (f 1 … )` style counted loop: applies `f i` for `i = 0 … n-1` in order. -/
@[specialize] def loopN {α : Type} (n : Nat) (f : Nat → α → α) (init : α) : α :=
  go n 0 init
where
  @[specialize] go : Nat → Nat → α → α
    | 0, _, a => a
    | k + 1, i, a => go k (i + 1) (f i a)

/-! ### ByteArray ↔ Bytes -/

/-- Byte at `i`, or `0` beyond the end. -/
@[inline] def getZ (b : ByteArray) (i : Nat) : UInt8 :=
  if h : i < b.size then b[i] else 0

def baToListAux (b : ByteArray) : Nat → Bytes → Bytes
  | 0, acc => acc
  | i + 1, acc => baToListAux b i (getZ b i :: acc)

/-- `ByteArray` to list (tail recursive). -/
def baToList (b : ByteArray) : Bytes := baToListAux b b.size []

/-- Sub-range `[lo, hi)` of a byte array as a list. -/
def baSlice (b : ByteArray) (lo hi : Nat) : Bytes :=
  let rec go : Nat → Bytes → Bytes
    | 0, acc => acc
    | k + 1, acc => go k (getZ b (lo + k) :: acc)
  go (hi - lo) []

@[inline] def toBA (l : Bytes) : ByteArray := l.toByteArray

def zeros (n : Nat) : Bytes := List.replicate n 0

/-- Number of zero bytes that pad `n` up to a multiple of `m`. -/
def padLen (n m : Nat) : Nat := (m - n % m) % m

/-! ### word (de)serialisation -/

@[inline] def be32At (b : ByteArray) (i : Nat) : UInt32 :=
  ((getZ b i).toUInt32 <<< 24) ||| ((getZ b (i+1)).toUInt32 <<< 16) |||
  ((getZ b (i+2)).toUInt32 <<< 8) ||| (getZ b (i+3)).toUInt32

@[inline] def le32At (b : ByteArray) (i : Nat) : UInt32 :=
  (getZ b i).toUInt32 ||| ((getZ b (i+1)).toUInt32 <<< 8) |||
  ((getZ b (i+2)).toUInt32 <<< 16) ||| ((getZ b (i+3)).toUInt32 <<< 24)

@[inline] def be64At (b : ByteArray) (i : Nat) : UInt64 :=
  ((be32At b i).toUInt64 <<< 32) ||| (be32At b (i+4)).toUInt64

@[inline] def le64At (b : ByteArray) (i : Nat) : UInt64 :=
  (le32At b i).toUInt64 ||| ((le32At b (i+4)).toUInt64 <<< 32)

@[inline] def pushBE32 (b : ByteArray) (x : UInt32) : ByteArray :=
  (((b.push (x >>> 24).toUInt8).push (x >>> 16).toUInt8).push (x >>> 8).toUInt8).push x.toUInt8

@[inline] def pushLE32 (b : ByteArray) (x : UInt32) : ByteArray :=
  (((b.push x.toUInt8).push (x >>> 8).toUInt8).push (x >>> 16).toUInt8).push (x >>> 24).toUInt8

@[inline] def pushBE64 (b : ByteArray) (x : UInt64) : ByteArray :=
  pushBE32 (pushBE32 b (x >>> 32).toUInt32) x.toUInt32

/-- Big-endian bytes of a 32-bit word (explicit 4-element list). -/
def be32Bytes (x : UInt32) : Bytes :=
  [(x >>> 24).toUInt8, (x >>> 16).toUInt8, (x >>> 8).toUInt8, x.toUInt8]

def le32Bytes (x : UInt32) : Bytes :=
  [x.toUInt8, (x >>> 8).toUInt8, (x >>> 16).toUInt8, (x >>> 24).toUInt8]

/-- Big-endian bytes of a 64-bit word (explicit 8-element list). -/
def be64Bytes (x : UInt64) : Bytes :=
  [(x >>> 56).toUInt8, (x >>> 48).toUInt8, (x >>> 40).toUInt8, (x >>> 32).toUInt8,
   (x >>> 24).toUInt8, (x >>> 16).toUInt8, (x >>> 8).toUInt8, x.toUInt8]

def le64Bytes (x : UInt64) : Bytes :=
  [x.toUInt8, (x >>> 8).toUInt8, (x >>> 16).toUInt8, (x >>> 24).toUInt8,
   (x >>> 32).toUInt8, (x >>> 40).toUInt8, (x >>> 48).toUInt8, (x >>> 56).toUInt8]

/-! ### xor with a key stream

`xorKS ks p` xors `p` byte-wise with the key stream `ks` (bytes beyond the end of `ks` count as
zero).  It is length preserving and an involution for every `ks` (see `KitProofs/Lemmas/CryptoLaws`),
which is what the AEAD round-trip laws rest on. -/

def xorKS (ks : ByteArray) (p : Bytes) : Bytes :=
  p.mapIdx fun i b => b ^^^ getZ ks i

/-- Byte-wise xor of two lists, truncated to the first one's length; missing bytes of the second are 0. -/
def xorBytes (a b : Bytes) : Bytes := xorKS (toBA b) a

/-! ### fast hex for the dispatcher (tail recursive; 64 KiB fields) -/

def hexNib (n : UInt8) : Char :=
  if n < 10 then Char.ofNat (48 + n.toNat) else Char.ofNat (87 + n.toNat)

def hexOf (bs : Bytes) : String :=
  bs.foldl (fun (s : String) (b : UInt8) => (s.push (hexNib (b >>> 4))).push (hexNib (b &&& 15))) ""

def unhexAux : List Char → ByteArray → Option ByteArray
  | [], acc => some acc
  | [_], _ => none
  | a :: b :: rest, acc =>
    match hexVal a, hexVal b with
    | some x, some y => unhexAux rest (acc.push (UInt8.ofNat (x * 16 + y)))
    | _, _ => none

def unhex (s : String) : Option Bytes :=
  (unhexAux s.toList (ByteArray.emptyWithCapacity (s.length / 2))).map baToList

end Kit.Crypto
