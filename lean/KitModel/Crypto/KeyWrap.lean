/-
AES Key Wrap written from RFC 3394 §2.2 (index-based description, default IV of §2.2.3.1).

The algorithm is stated over an abstract 16-byte block function (`kwWrapWith enc`,
`kwUnwrapWith dec`) so that `unwrap (wrap cek) = some cek` can be proved from
`dec (enc b) = b` alone (`KitProofs/Lemmas/CryptoLaws.lean`).  State = (A, [R_1 … R_n]) with
8-byte blocks; step `t = n·j + i` touches `R_i`, `i = ((t-1) mod n) + 1`.
-/
import KitModel.Crypto.Aes

namespace Kit.Crypto

/-- RFC 3394 §2.2.3.1 default initial value. -/
def kwIV : Bytes := List.replicate 8 0xA6

/-- The first `n` 8-byte blocks of `l`. -/
def chunksN : Nat → Bytes → List Bytes
  | 0, _ => []
  | n + 1, l => l.take 8 :: chunksN n (l.drop 8)

def chunks8 (l : Bytes) : List Bytes := chunksN (l.length / 8) l

abbrev KwState := Bytes × List Bytes

/-- Wrap step `t` (§2.2.1 step 2): `B = AES(K, A | R[i])`, `A = MSB64(B) ⊕ t`, `R[i] = LSB64(B)`. -/
def kwStep (enc : Bytes → Bytes) (s : KwState) (t : Nat) : KwState :=
  let i := (t - 1) % s.2.length
  let b := enc (s.1 ++ s.2.getD i [])
  (xorBytes (b.take 8) (be64Bytes t.toUInt64), s.2.set i (b.drop 8))

/-- Unwrap step `t` (§2.2.2 step 2): `B = AES⁻¹(K, (A ⊕ t) | R[i])`, `A = MSB64(B)`, `R[i] = LSB64(B)`. -/
def kwUnstep (dec : Bytes → Bytes) (s : KwState) (t : Nat) : KwState :=
  let i := (t - 1) % s.2.length
  let b := dec (xorBytes s.1 (be64Bytes t.toUInt64) ++ s.2.getD i [])
  (b.take 8, s.2.set i (b.drop 8))

/-- Steps `t = 1 … 6n` in order. -/
def kwSteps (n : Nat) : List Nat := (List.range (6 * n)).map (· + 1)

def kwWrapWith (enc : Bytes → Bytes) (cek : Bytes) : Bytes :=
  let r := chunks8 cek
  let s := (kwSteps r.length).foldl (kwStep enc) (kwIV, r)
  s.1 ++ s.2.flatten

def kwUnwrapWith (dec : Bytes → Bytes) (w : Bytes) : Option Bytes :=
  if w.length % 8 == 0 && w.length ≥ 24 then
    let r := chunks8 (w.drop 8)
    let s := (kwSteps r.length).reverse.foldl (kwUnstep dec) (w.take 8, r)
    if s.1 == kwIV then some s.2.flatten else none
  else none

/-- RFC 3394 wrap of `cek` (a multiple of 8 bytes, at least 16) under `kek` (16/24/32 bytes);
`[]` if the sizes are invalid. -/
def kwWrap (kek cek : Bytes) : Bytes :=
  if validAesKeyLen kek.length && cek.length % 8 == 0 && cek.length ≥ 16 then
    kwWrapWith (aesEncryptBlock kek) cek
  else []

/-- RFC 3394 unwrap; `none` on bad sizes or failed integrity check. -/
def kwUnwrap (kek wrapped : Bytes) : Option Bytes :=
  if validAesKeyLen kek.length then kwUnwrapWith (aesDecryptBlock kek) wrapped else none

end Kit.Crypto
