/-
ChaCha20, Poly1305 and AEAD_CHACHA20_POLY1305 written from RFC 8439; HChaCha20 and
XChaCha20-Poly1305 from draft-irtf-cfrg-xchacha-03.

Shape of the AEAD (same as GCM, so the round-trip law is provable):

  seal k n p ad  = let c := xorKS (chachaKeystream k n |p|) p;  c ‖ chachaTag k n c ad
-/
import KitModel.Crypto.Util
import KitModel.Crypto.Sha2

namespace Kit.Crypto

namespace ChaCha

/-- RFC 8439 §2.1 quarter round on state words `a b c d`. -/
@[inline] def qr (s : Array UInt32) (a b c d : Nat) : Array UInt32 :=
  let xa := s[a]!
  let xb := s[b]!
  let xc := s[c]!
  let xd := s[d]!
  let xa := xa + xb
  let xd := rotl32 (xd ^^^ xa) 16
  let xc := xc + xd
  let xb := rotl32 (xb ^^^ xc) 12
  let xa := xa + xb
  let xd := rotl32 (xd ^^^ xa) 8
  let xc := xc + xd
  let xb := rotl32 (xb ^^^ xc) 7
  (((s.set! a xa).set! b xb).set! c xc).set! d xd

/-- One column round followed by one diagonal round (§2.3). -/
def doubleRound (s : Array UInt32) : Array UInt32 :=
  let s := qr s 0 4 8 12
  let s := qr s 1 5 9 13
  let s := qr s 2 6 10 14
  let s := qr s 3 7 11 15
  let s := qr s 0 5 10 15
  let s := qr s 1 6 11 12
  let s := qr s 2 7 8 13
  qr s 3 4 9 14

def rounds20 (s : Array UInt32) : Array UInt32 := loopN 10 (fun _ s => doubleRound s) s

/-- "expand 32-byte k" ‖ key ‖ four further words (§2.3: counter ‖ nonce; HChaCha20: 16-byte nonce). -/
def initState (key : ByteArray) (w12 w13 w14 w15 : UInt32) : Array UInt32 :=
  #[0x61707865, 0x3320646e, 0x79622d32, 0x6b206574,
    le32At key 0, le32At key 4, le32At key 8, le32At key 12,
    le32At key 16, le32At key 20, le32At key 24, le32At key 28,
    w12, w13, w14, w15]

/-- Appends the 64-byte block for `counter` to `out` (§2.3). -/
def pushBlock (base : Array UInt32) (counter : UInt32) (out : ByteArray) : ByteArray :=
  let s0 := base.set! 12 counter
  let s := rounds20 s0
  loopN 16 (fun i o => pushLE32 o (s[i]! + s0[i]!)) out

/-- `len` bytes (rounded up to whole blocks) of key stream starting at block `counter`. -/
def keystream (key nonce : ByteArray) (counter : UInt32) (len : Nat) : ByteArray :=
  let base := initState key 0 (le32At nonce 0) (le32At nonce 4) (le32At nonce 8)
  loopN ((len + 63) / 64) (fun i o => pushBlock base (counter + i.toUInt32) o)
    (ByteArray.emptyWithCapacity (len + 64))

/-- HChaCha20 (XChaCha draft §2.2): words 0–3 and 12–15 after 20 rounds, no feed-forward. -/
def hchacha20 (key nonce16 : ByteArray) : Bytes :=
  let s := rounds20 (initState key (le32At nonce16 0) (le32At nonce16 4) (le32At nonce16 8) (le32At nonce16 12))
  le32Bytes s[0]! ++ le32Bytes s[1]! ++ le32Bytes s[2]! ++ le32Bytes s[3]! ++
  le32Bytes s[12]! ++ le32Bytes s[13]! ++ le32Bytes s[14]! ++ le32Bytes s[15]!

/-! ### Poly1305 (§2.5) -/

@[inline] def le128At (m : ByteArray) (off : Nat) : Nat :=
  (le64At m off).toNat + ((le64At m (off + 8)).toNat <<< 64)

def p1305 : Nat := 2 ^ 130 - 5

/-- The accumulator after absorbing all blocks of `msg`. -/
def polyAcc (r : Nat) (msg : ByteArray) : Nat :=
  let n := msg.size
  loopN ((n + 15) / 16) (fun i acc =>
    let blen := min 16 (n - 16 * i)
    ((acc + le128At msg (16 * i) + (1 <<< (8 * blen))) * r) % p1305) 0

/-- Poly1305 tag of `msg` under the 32-byte one-time key `key` (r ‖ s); always 16 bytes. -/
def poly1305 (key msg : ByteArray) : Bytes :=
  let r := le128At key 0 &&& 0x0ffffffc0ffffffc0ffffffc0fffffff
  let s := le128At key 16
  let t := polyAcc r msg + s
  (List.range 16).map fun i => UInt8.ofNat (t >>> (8 * i))

end ChaCha

/-- Key stream for the payload: blocks 1, 2, … (block 0 makes the Poly1305 key). -/
def chachaKeystream (key nonce : Bytes) (len : Nat) : ByteArray :=
  ChaCha.keystream (toBA key) (toBA nonce) 1 len

/-- RFC 8439 §2.8: Poly1305 over `ad ‖ pad16 ‖ ct ‖ pad16 ‖ le64|ad| ‖ le64|ct|` with the key of §2.6. -/
def chachaTag (key nonce ct ad : Bytes) : Bytes :=
  let otk := (ChaCha.keystream (toBA key) (toBA nonce) 0 32).extract 0 32
  ChaCha.poly1305 otk
    (toBA (ad ++ zeros (padLen ad.length 16) ++ ct ++ zeros (padLen ct.length 16) ++
      le64Bytes ad.length.toUInt64 ++ le64Bytes ct.length.toUInt64))

/-- AEAD_CHACHA20_POLY1305 seal: 32-byte key, 12-byte nonce; ciphertext ‖ 16-byte tag (`[]` on bad sizes). -/
def chacha20Poly1305Seal (key nonce pt ad : Bytes) : Bytes :=
  if key.length == 32 && nonce.length == 12 then
    let ct := xorKS (chachaKeystream key nonce pt.length) pt
    ct ++ chachaTag key nonce ct ad
  else []

def chacha20Poly1305Open (key nonce ctAndTag ad : Bytes) : Option Bytes :=
  if key.length == 32 && nonce.length == 12 && ctAndTag.length ≥ 16 then
    let ct := ctAndTag.take (ctAndTag.length - 16)
    let tag := ctAndTag.drop (ctAndTag.length - 16)
    if chachaTag key nonce ct ad == tag then
      some (xorKS (chachaKeystream key nonce ct.length) ct)
    else none
  else none

/-- XChaCha draft §2.3: sub-key from HChaCha20(key, nonce[0..16]). -/
def xchachaSubkey (key nonce : Bytes) : Bytes :=
  ChaCha.hchacha20 (toBA key) (toBA (nonce.take 16))

/-- … and the 12-byte nonce `00 00 00 00 ‖ nonce[16..24]`. -/
def xchachaNonce (nonce : Bytes) : Bytes := zeros 4 ++ nonce.drop 16

/-- XChaCha20-Poly1305 seal: 32-byte key, 24-byte nonce (`[]` on bad sizes). -/
def xchacha20Poly1305Seal (key nonce pt ad : Bytes) : Bytes :=
  if key.length == 32 && nonce.length == 24 then
    chacha20Poly1305Seal (xchachaSubkey key nonce) (xchachaNonce nonce) pt ad
  else []

def xchacha20Poly1305Open (key nonce ctAndTag ad : Bytes) : Option Bytes :=
  if key.length == 32 && nonce.length == 24 then
    chacha20Poly1305Open (xchachaSubkey key nonce) (xchachaNonce nonce) ctAndTag ad
  else none

end Kit.Crypto
