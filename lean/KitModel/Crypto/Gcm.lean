/-
AES-GCM written from NIST SP 800-38D (GHASH §6.4, GCTR §6.5, GCM-AE/AD §7), 128-bit tag.

Shape (kept simple on purpose so that the round-trip law is provable, see
`KitProofs/Lemmas/CryptoLaws.lean`):

  seal k n p ad  = let c := xorKS (gcmKeystream k n |p|) p;  c ‖ gcmTag k n c ad
  open k n (c‖t) ad = if gcmTag k n c ad = t then some (xorKS (gcmKeystream k n |c|) c) else none

Nonces of any non-zero length are accepted (12 bytes is the standard size and the only one
dapr/kit uses; other sizes derive J0 with GHASH as in §7.1 step 2).
-/
import KitModel.Crypto.Aes

namespace Kit.Crypto

namespace Gcm

/-- A 128-bit block as two big-endian 64-bit halves; bit 0 of the standard is the MSB of `hi`. -/
structure B128 where
  hi : UInt64
  lo : UInt64

/-- §6.3 Algorithm 1, bit by bit: `Z ← Z ⊕ V` when `x_i = 1`; `V ← V≫1 (⊕ R if LSB(V)=1)`. -/
def mulLoop : Nat → UInt64 → UInt64 → UInt64 → UInt64 → UInt64 → UInt64 → B128
  | 0, _, _, zh, zl, _, _ => ⟨zh, zl⟩
  | n + 1, xh, xl, zh, zl, vh, vl =>
    let m : UInt64 := (0 : UInt64) - (xh >>> 63)
    let r : UInt64 := (0 : UInt64) - (vl &&& 1)
    mulLoop n ((xh <<< 1) ||| (xl >>> 63)) (xl <<< 1)
      (zh ^^^ (vh &&& m)) (zl ^^^ (vl &&& m))
      ((vh >>> 1) ^^^ (0xe100000000000000 &&& r)) ((vl >>> 1) ||| (vh <<< 63))

/-- Product in GF(2^128) as defined by SP 800-38D. -/
def mul (x y : B128) : B128 := mulLoop 128 x.hi x.lo 0 0 y.hi y.lo

/-- GHASH_H over the 16-byte blocks of `data` (a trailing partial block is zero padded). -/
def ghash (h : B128) (data : ByteArray) : B128 :=
  loopN ((data.size + 15) / 16) (fun i (y : B128) =>
    mul ⟨y.hi ^^^ be64At data (16 * i), y.lo ^^^ be64At data (16 * i + 8)⟩ h) ⟨0, 0⟩

def hashKey (k : Aes.Key) : B128 :=
  let e := Aes.encryptW k ⟨0, 0, 0, 0⟩
  ⟨(e.a.toUInt64 <<< 32) ||| e.b.toUInt64, (e.c.toUInt64 <<< 32) ||| e.d.toUInt64⟩

/-- `u ‖ 0^pad ‖ v ‖ 0^pad ‖ [len u]_64 ‖ [len v]_64` (bit lengths), the GHASH input of §7.1. -/
def lenBlockInput (u v : Bytes) : ByteArray :=
  toBA (u ++ zeros (padLen u.length 16) ++ v ++ zeros (padLen v.length 16) ++
    be64Bytes (u.length * 8).toUInt64 ++ be64Bytes (v.length * 8).toUInt64)

/-- Pre-counter block J0 (§7.1 step 2). -/
def j0 (h : B128) (nonce : Bytes) : Aes.W4 :=
  if nonce.length == 12 then
    let n := toBA nonce
    ⟨be32At n 0, be32At n 4, be32At n 8, 1⟩
  else
    let g := ghash h (toBA (nonce ++ zeros (padLen nonce.length 16) ++ zeros 8 ++
      be64Bytes (nonce.length * 8).toUInt64))
    ⟨(g.hi >>> 32).toUInt32, g.hi.toUInt32, (g.lo >>> 32).toUInt32, g.lo.toUInt32⟩

/-- GCTR key stream starting at `inc32(J0)`: `len` bytes rounded up to whole blocks. -/
def keystream (k : Aes.Key) (j : Aes.W4) (len : Nat) : ByteArray :=
  loopN ((len + 15) / 16) (fun i (o : ByteArray) =>
    Aes.pushW4 o (Aes.encryptW k ⟨j.a, j.b, j.c, j.d + 1 + i.toUInt32⟩))
    (ByteArray.emptyWithCapacity (len + 16))

end Gcm

def gcmArgsOk (key nonce : Bytes) : Bool := validAesKeyLen key.length && nonce.length != 0

/-- The CTR key stream used for a message of `len` bytes. -/
def gcmKeystream (key nonce : Bytes) (len : Nat) : ByteArray :=
  let k := Aes.mkKey key
  Gcm.keystream k (Gcm.j0 (Gcm.hashKey k) nonce) len

/-- The 16-byte tag `E_K(J0) ⊕ GHASH_H(A, C)`. -/
def gcmTag (key nonce ct ad : Bytes) : Bytes :=
  let k := Aes.mkKey key
  let h := Gcm.hashKey k
  let s := Gcm.ghash h (Gcm.lenBlockInput ad ct)
  let e := Aes.encryptW k (Gcm.j0 h nonce)
  be64Bytes (s.hi ^^^ ((e.a.toUInt64 <<< 32) ||| e.b.toUInt64)) ++
  be64Bytes (s.lo ^^^ ((e.c.toUInt64 <<< 32) ||| e.d.toUInt64))

/-- AES-GCM authenticated encryption: ciphertext ‖ 16-byte tag.  `[]` if key/nonce sizes are invalid. -/
def gcmSeal (key nonce pt ad : Bytes) : Bytes :=
  if gcmArgsOk key nonce then
    let ct := xorKS (gcmKeystream key nonce pt.length) pt
    ct ++ gcmTag key nonce ct ad
  else []

/-- AES-GCM authenticated decryption; `none` on any failure. -/
def gcmOpen (key nonce ctAndTag ad : Bytes) : Option Bytes :=
  if gcmArgsOk key nonce && ctAndTag.length ≥ 16 then
    let ct := ctAndTag.take (ctAndTag.length - 16)
    let tag := ctAndTag.drop (ctAndTag.length - 16)
    if gcmTag key nonce ct ad == tag then
      some (xorKS (gcmKeystream key nonce ct.length) ct)
    else none
  else none

end Kit.Crypto
