/-
Published test vectors for the executable crypto specifications, checked at build time with
`#guard` (evaluation by the Lean interpreter; small inputs only).  A wrong definition makes this
module — and therefore `lake build KitModel` — fail.

Sources: FIPS 180-4 / NIST CSRC example values (SHA-2), RFC 4231 (HMAC), RFC 5869 App. A (HKDF),
FIPS 197 App. C (AES), SP 800-38A F.2 (CBC), McGrew–Viega GCM spec App. B (GCM),
RFC 8439 §2.3.2, §2.5.2, §2.8.2 (ChaCha20, Poly1305, AEAD), draft-irtf-cfrg-xchacha-03 §2.2.1, A.3.1,
RFC 3394 §4 (key wrap), RFC 7518 App. B.1 (AES_128_CBC_HMAC_SHA_256), RFC 4648 §10 (base64).
-/
import KitModel.Crypto.Dispatch

namespace Kit.Crypto.Vectors
open Kit Kit.Crypto

private def hx (s : String) : Bytes := (unhex s).getD []
private def str (s : String) : Bytes := s.toUTF8.toList
private def seq (lo n : Nat) : Bytes := (List.range n).map fun i => UInt8.ofNat (lo + i)

/-! ### SHA-2 constants computed from their definition (FIPS 180-4 §4.2, §5.3) -/
#guard K256.size = 64 ∧ K512.size = 80 ∧ H256.size = 8 ∧ H384.size = 8 ∧ H512.size = 8
#guard K256[0]! = 0x428a2f98 ∧ K256[1]! = 0x71374491 ∧ K256[63]! = 0xc67178f2
#guard H256[0]! = 0x6a09e667 ∧ H256[7]! = 0x5be0cd19
#guard K512[0]! = 0x428a2f98d728ae22 ∧ K512[79]! = 0x6c44198c4a475817
#guard H512[0]! = 0x6a09e667f3bcc908 ∧ H512[7]! = 0x5be0cd19137e2179
#guard H384[0]! = 0xcbbb9d5dc1059ed8 ∧ H384[7]! = 0x47b5481dbefa4fa4

/-! ### SHA-2 digests -/
#guard hexOf (sha256 (str "abc")) = "ba7816bf8f01cfea414140de5dae2223b00361a396177a9cb410ff61f20015ad"
#guard hexOf (sha256 []) = "e3b0c44298fc1c149afbf4c8996fb92427ae41e4649b934ca495991b7852b855"
#guard hexOf (sha256 (str "abcdbcdecdefdefgefghfghighijhijkijkljklmklmnlmnomnopnopq")) =
  "248d6a61d20638b8e5c026930c3e6039a33ce45964ff2167f6ecedd419db06c1"
#guard hexOf (sha384 (str "abc")) =
  "cb00753f45a35e8bb5a03d699ac65007272c32ab0eded1631a8b605a43ff5bed8086072ba1e7cc2358baeca134c825a7"
#guard hexOf (sha384 []) =
  "38b060a751ac96384cd9327eb1b1e36a21fdb71114be07434c0cc7bf63f6e1da274edebfe76f65fbd51ad2f14898b95b"
#guard hexOf (sha512 (str "abc")) =
  "ddaf35a193617abacc417349ae20413112e6fa4e89a97ea20a9eeee64b55d39a2192992a274fc1a836ba3c23a3feebbd454d4423643ce80e2a9ac94fa54ca49f"
#guard hexOf (sha512 []) =
  "cf83e1357eefb8bdf1542850d66d8007d620e4050b5715dc83f4a921d36ce9ce47d0d13c5d85f2b0ff8318d2877eec2f63b931bd47417a81a538327af927da3e"
#guard hexOf (sha512 (str "abcdefghbcdefghicdefghijdefghijkefghijklfghijklmghijklmnhijklmnoijklmnopjklmnopqklmnopqrlmnopqrsmnopqrstnopqrstu")) =
  "8e959b75dae313da8cf4f72814fc143f8f7779c6eb9f7fa17299aeadb6889018501d289e4900f7e4331b99dec4b5433ac7d329eeb6dd26545e96e55b874be909"

/-! ### HMAC (RFC 4231 test cases 1, 2, 6) -/
#guard hexOf (hmac .sha256 (List.replicate 20 0x0b) (str "Hi There")) =
  "b0344c61d8db38535ca8afceaf0bf12b881dc200c9833da726e9376c2e32cff7"
#guard hexOf (hmac .sha256 (str "Jefe") (str "what do ya want for nothing?")) =
  "5bdcc146bf60754e6a042426089575c75a003f089d2739839dec58b964ec3843"
#guard hexOf (hmac .sha384 (str "Jefe") (str "what do ya want for nothing?")) =
  "af45d2e376484031617f78d2b58a6b1b9c7ef464f5a01b47e42ec3736322445e8e2240ca5e69e2c78b3239ecfab21649"
#guard hexOf (hmac .sha512 (str "Jefe") (str "what do ya want for nothing?")) =
  "164b7a7bfcf819e2e395fbe73b56e0a387bd64222e831fd610270cd7ea2505549758bf75c05a994a6d034f65f8f0e6fdcaeab1a34d4a6b4b636e070a38bce737"
#guard hexOf (hmac .sha256 (List.replicate 131 0xaa) (str "Test Using Larger Than Block-Size Key - Hash Key First")) =
  "60e431591ee0b67f0d8a26aacbf5b77f8e0bc6213728c5140546040f0ee37f54"

/-! ### HKDF (RFC 5869 A.1, A.3) -/
#guard hexOf (hkdfExtract .sha256 (seq 0 13) (List.replicate 22 0x0b)) =
  "077709362c2e32df0ddc3f0dc47bba6390b6c73bb50f9c3122ec844ad7c2b3e5"
#guard hexOf (hkdf .sha256 (List.replicate 22 0x0b) (seq 0 13) (seq 0xf0 10) 42) =
  "3cb25f25faacd57a90434f64d0362f2a2d2d0a90cf1a5a4c5db02d56ecc4c5bf34007208d5b887185865"
#guard hexOf (hkdf .sha256 (List.replicate 22 0x0b) [] [] 42) =
  "8da4e775a563c18f715f802a063c5a31b8a11f5c5ee1879ec3454e5f3c738d2d9d201395faa4b61a96c8"
#guard hkdf .sha256 [1] [] [] (255 * 32 + 1) = []

/-! ### AES (FIPS 197 App. C) and the S-box corners (Figure 7) -/
#guard Aes.sbox.get! 0 = 0x63 ∧ Aes.sbox.get! 1 = 0x7c ∧ Aes.sbox.get! 0x53 = 0xed ∧ Aes.sbox.get! 255 = 0x16
#guard Aes.invSbox.get! 0x63 = 0 ∧ Aes.invSbox.get! 0 = 0x52
#guard hexOf (aesEncryptBlock (seq 0 16) (hx "00112233445566778899aabbccddeeff")) = "69c4e0d86a7b0430d8cdb78070b4c55a"
#guard hexOf (aesEncryptBlock (seq 0 24) (hx "00112233445566778899aabbccddeeff")) = "dda97ca4864cdfe06eaf70a0ec0d7191"
#guard hexOf (aesEncryptBlock (seq 0 32) (hx "00112233445566778899aabbccddeeff")) = "8ea2b7ca516745bfeafc49904b496089"
#guard hexOf (aesDecryptBlock (seq 0 16) (hx "69c4e0d86a7b0430d8cdb78070b4c55a")) = "00112233445566778899aabbccddeeff"
#guard hexOf (aesDecryptBlock (seq 0 24) (hx "dda97ca4864cdfe06eaf70a0ec0d7191")) = "00112233445566778899aabbccddeeff"
#guard hexOf (aesDecryptBlock (seq 0 32) (hx "8ea2b7ca516745bfeafc49904b496089")) = "00112233445566778899aabbccddeeff"
#guard aesEncryptBlock (seq 0 17) (seq 0 16) = [] ∧ aesEncryptBlock (seq 0 16) (seq 0 15) = []

/-! ### CBC (SP 800-38A F.2.1 / F.2.2) -/
private def cbcKey := hx "2b7e151628aed2a6abf7158809cf4f3c"
private def cbcPt := hx ("6bc1bee22e409f96e93d7e117393172aae2d8a571e03ac9c9eb76fac45af8e51" ++
  "30c81c46a35ce411e5fbc1191a0a52eff69f2445df4f9b17ad2b417be66c3710")
private def cbcCt := hx ("7649abac8119b246cee98e9b12e9197d5086cb9b507219ee95db113a917678b2" ++
  "73bed6b8e3c1743b7116e69e222295163ff1caa1681fac09120eca307586e1a7")
#guard cbcEncrypt cbcKey (seq 0 16) cbcPt = cbcCt
#guard cbcDecrypt cbcKey (seq 0 16) cbcCt = cbcPt

/-! ### GCM (test cases 1, 2, 4 with a 96-bit IV; 6 with a 480-bit IV) -/
#guard hexOf (gcmSeal (zeros 16) (zeros 12) [] []) = "58e2fccefa7e3061367f1d57a4e7455a"
#guard hexOf (gcmSeal (zeros 16) (zeros 12) (zeros 16) []) =
  "0388dace60b6a392f328c2b971b2fe78ab6e47d42cec13bdf53a67b21257bddf"
private def gcmK := hx "feffe9928665731c6d6a8f9467308308"
private def gcmP := hx ("d9313225f88406e5a55909c5aff5269a86a7a9531534f7da2e4c303d8a318a72" ++
  "1c3c0c95956809532fcf0e2449a6b525b16aedf5aa0de657ba637b39")
private def gcmA := hx "feedfacedeadbeeffeedfacedeadbeefabaddad2"
private def gcmC4 := hx ("42831ec2217774244b7221b784d0d49ce3aa212f2c02a4e035c17e2329aca12e" ++
  "21d514b25466931c7d8f6a5aac84aa051ba30b396a0aac973d58e091" ++ "5bc94fbc3221a5db94fae95ae7121a47")
#guard gcmSeal gcmK (hx "cafebabefacedbaddecaf888") gcmP gcmA = gcmC4
#guard gcmOpen gcmK (hx "cafebabefacedbaddecaf888") gcmC4 gcmA = some gcmP
#guard gcmOpen gcmK (hx "cafebabefacedbaddecaf888") gcmC4 (gcmA ++ [0]) = none
#guard (gcmSeal gcmK (hx ("9313225df88406e555909c5aff5269aa6a7a9538534f7da1e4c303d2a318a728" ++
    "c3c0c95156809539fcf0e2429a6b525416aedbf5a0de6a57a637b39b")) gcmP gcmA).drop 60 =
  hx "619cc5aefffe0bfa462af43c1699d050"

/-! ### ChaCha20 block (RFC 8439 §2.3.2), Poly1305 (§2.5.2), AEAD (§2.8.2), HChaCha20, XChaCha20-Poly1305 -/
#guard baToList (ChaCha.keystream (toBA (seq 0 32)) (toBA (hx "000000090000004a00000000")) 1 64) =
  hx ("10f1e7e4d13b5915500fdd1fa32071c4c7d1f4c733c068030422aa9ac3d46c4e" ++
      "d2826446079faa0914c2d705d98b02a2b5129cd1de164eb9cbd083e8a2503c4e")
#guard ChaCha.poly1305 (toBA (hx "85d6be7857556d337f4452fe42d506a80103808afb0db2fd4abff6af4149f51b"))
    (toBA (str "Cryptographic Forum Research Group")) = hx "a8061dc1305136c6c22b8baf0c0127a9"
private def ccK := seq 0x80 32
private def ccP := str "Ladies and Gentlemen of the class of '99: If I could offer you only one tip for the future, sunscreen would be it."
private def ccA := hx "50515253c0c1c2c3c4c5c6c7"
private def ccC := hx ("d31a8d34648e60db7b86afbc53ef7ec2a4aded51296e08fea9e2b5a736ee62d6" ++
  "3dbea45e8ca9671282fafb69da92728b1a71de0a9e060b2905d6a5b67ecd3b36" ++
  "92ddbd7f2d778b8c9803aee328091b58fab324e4fad675945585808b4831d7bc" ++
  "3ff4def08e4b7a9de576d26586cec64b6116" ++ "1ae10b594f09e26a7e902ecbd0600691")
#guard chacha20Poly1305Seal ccK (hx "070000004041424344454647") ccP ccA = ccC
#guard chacha20Poly1305Open ccK (hx "070000004041424344454647") ccC ccA = some ccP
#guard chacha20Poly1305Open ccK (hx "070000004041424344454648") ccC ccA = none
#guard ChaCha.hchacha20 (toBA (seq 0 32)) (toBA (hx "000000090000004a0000000031415927")) =
  hx "82413b4227b27bfed30e42508a877d73a0f9e4d58a74a853c12ec41326d3ecdc"
private def xcN := seq 0x40 24
#guard (xchacha20Poly1305Seal ccK xcN ccP ccA).take 16 = hx "bd6d179d3e83d43b9576579493c0e939"
#guard (xchacha20Poly1305Seal ccK xcN ccP ccA).drop ccP.length = hx "c0875924c1c7987947deafd8780acf49"
#guard xchacha20Poly1305Open ccK xcN (xchacha20Poly1305Seal ccK xcN ccP ccA) ccA = some ccP

/-! ### AES key wrap (RFC 3394 §4.1, §4.3, §4.6) -/
#guard kwWrap (seq 0 16) (hx "00112233445566778899aabbccddeeff") =
  hx "1fa68b0a8112b447aef34bd8fb5a7b829d3e862371d2cfe5"
#guard kwWrap (seq 0 32) (hx "00112233445566778899aabbccddeeff") =
  hx "64e8c3f9ce0f5ba263e9777905818a2a93c8191e7d6e8ae7"
#guard kwWrap (seq 0 32) (hx "00112233445566778899aabbccddeeff000102030405060708090a0b0c0d0e0f") =
  hx "28c9f404c4b810f4cbccb35cfb87f8263f5786e2d80ed326cbc7f0e71a99f43bfb988b9b7a02dd21"
#guard kwUnwrap (seq 0 16) (hx "1fa68b0a8112b447aef34bd8fb5a7b829d3e862371d2cfe5") =
  some (hx "00112233445566778899aabbccddeeff")
#guard kwUnwrap (seq 0 16) (hx "1fa68b0a8112b447aef34bd8fb5a7b829d3e862371d2cfe4") = none
#guard kwUnwrap (seq 0 16) (seq 0 16) = none ∧ kwWrap (seq 0 16) (seq 0 8) = []

/-! ### AES_128_CBC_HMAC_SHA_256 (RFC 7518 App. B.1) -/
private def chP := str "A cipher system must not be required to be secret, and it must be able to fall into the hands of the enemy without inconvenience"
private def chA := str "The second principle of Auguste Kerckhoffs"
private def chIV := hx "1af38c2dc2b96ffdd86694092341bc04"
#guard (cbcHmacSeal .sha256 (seq 0 32) chIV chP chA).2 = hx "652c3fa36b0a7c5b3219fab3a30bc1c4"
#guard ((cbcHmacSeal .sha256 (seq 0 32) chIV chP chA).1.take 16) = hx "c80edfa32ddf39d5ef00c0b468834279"
#guard (cbcHmacSeal .sha256 (seq 0 32) chIV chP chA).1.length = 144
#guard (let r := cbcHmacSeal .sha256 (seq 0 32) chIV chP chA
        cbcHmacOpen .sha256 (seq 0 32) chIV r.1 chA r.2) = some chP
#guard pkcs7Pad (seq 0 10) = seq 0 10 ++ List.replicate 6 6 ∧ pkcs7Unpad (pkcs7Pad (seq 0 16)) = some (seq 0 16)
#guard pkcs7Unpad [] = none ∧ pkcs7Unpad (List.replicate 16 0) = none ∧ pkcs7Unpad (List.replicate 16 17) = none

/-! ### base64 (RFC 4648 §10) -/
#guard base64Std [] = "" ∧ base64Std (str "f") = "Zg==" ∧ base64Std (str "fo") = "Zm8=" ∧
  base64Std (str "foo") = "Zm9v" ∧ base64Std (str "foob") = "Zm9vYg==" ∧
  base64Std (str "fooba") = "Zm9vYmE=" ∧ base64Std (str "foobar") = "Zm9vYmFy"
#guard base64StdDecode "Zm9vYmE=" = some (str "fooba") ∧ base64StdDecode "Zg==" = some (str "f") ∧
  base64StdDecode "" = some [] ∧ base64StdDecode "Zg=" = none ∧ base64StdDecode "Zg" = none ∧
  base64StdDecode "Z===" = none ∧ base64StdDecode "Zm9v\nYmFy\r\n" = some (str "foobar")

/-! ### the line protocol -/
#guard selfTestLine "hash alg=sha256 msg=616263" =
  "ok out=ba7816bf8f01cfea414140de5dae2223b00361a396177a9cb410ff61f20015ad"
#guard selfTestLine "gcmopen key=00 nonce=00 ct=00 ad=" = "fail"
#guard selfTestLine "frobnicate x=1" = "bad-op"

end Kit.Crypto.Vectors
