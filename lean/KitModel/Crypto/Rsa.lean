/-
RSA (RFC 8017 / PKCS #1 v2.2) written from the RFC text, over `Nat`:
I2OSP / OS2IP (§4), RSAEP/RSADP/RSASP1/RSAVP1 (§5, square-and-multiply), MGF1 (§B.2.1),
RSAES-OAEP (§7.1), RSAES-PKCS1-v1_5 (§7.2), RSASSA-PSS with EMSA-PSS (§8.1, §9.1),
RSASSA-PKCS1-v1_5 with EMSA-PKCS1-v1_5 (§8.2, §9.2).

Independent of Go's crypto/rsa: it is the "other implementation" for C03's interop clause
(RS*/PS* signatures, RSA1_5 / RSA-OAEP[-256/384/512] encryption).  The signature functions take
the DIGEST (as dapr/kit's SignPrivateKey/VerifyPublicKey and Go's rsa.SignPKCS1v15/SignPSS do), not
the message.  Randomness (PS bytes, OAEP seed, PSS salt) is an explicit argument.  Core Lean only.
-/
import KitModel.Crypto.Sha1

namespace Kit.Crypto

/-! ### integers and octet strings (§4) -/

/-- OS2IP: big-endian value of an octet string. -/
def os2ip (bs : Bytes) : Nat := bs.foldl (fun acc b => acc * 256 + b.toNat) 0

/-- I2OSP of `x mod 256^len` (the caller checks `x < 256^len` where the RFC says "integer too large"). -/
def i2osp : Nat → Nat → Bytes
  | 0, _ => []
  | len + 1, x => i2osp len (x / 256) ++ [UInt8.ofNat (x % 256)]

def modPowAux : Nat → Nat → Nat → Nat → Nat → Nat
  | 0, _, _, acc, _ => acc
  | f + 1, b, e, acc, m =>
    if e = 0 then acc
    else modPowAux f (b * b % m) (e / 2) (if e % 2 = 1 then acc * b % m else acc) m

/-- `b ^ e mod m` by square-and-multiply (the exponent doubles as fuel: `e / 2 < e`). -/
def modPow (b e m : Nat) : Nat := modPowAux e (b % m) e 1 m % m

/-- Length in bits / in octets of a modulus. -/
def bitLen (n : Nat) : Nat := if n = 0 then 0 else Nat.log2 n + 1
def octLen (n : Nat) : Nat := (bitLen n + 7) / 8

/-! ### hashes -/

inductive RsaHash where
  | sha1 | sha256 | sha384 | sha512
  deriving Repr, DecidableEq

def RsaHash.size : RsaHash → Nat
  | .sha1 => 20 | .sha256 => 32 | .sha384 => 48 | .sha512 => 64

def RsaHash.hash : RsaHash → Bytes → Bytes
  | .sha1 => Kit.Crypto.sha1 | .sha256 => Kit.Crypto.sha256 | .sha384 => Kit.Crypto.sha384 | .sha512 => Kit.Crypto.sha512

/-- DER prefix of `DigestInfo` (§9.2 note 1). -/
def RsaHash.digestInfoPrefix : RsaHash → Bytes
  | .sha1 => [0x30, 0x21, 0x30, 0x09, 0x06, 0x05, 0x2b, 0x0e, 0x03, 0x02, 0x1a, 0x05, 0x00, 0x04, 0x14]
  | .sha256 => [0x30, 0x31, 0x30, 0x0d, 0x06, 0x09, 0x60, 0x86, 0x48, 0x01, 0x65, 0x03, 0x04, 0x02, 0x01, 0x05, 0x00, 0x04, 0x20]
  | .sha384 => [0x30, 0x41, 0x30, 0x0d, 0x06, 0x09, 0x60, 0x86, 0x48, 0x01, 0x65, 0x03, 0x04, 0x02, 0x02, 0x05, 0x00, 0x04, 0x30]
  | .sha512 => [0x30, 0x51, 0x30, 0x0d, 0x06, 0x09, 0x60, 0x86, 0x48, 0x01, 0x65, 0x03, 0x04, 0x02, 0x03, 0x05, 0x00, 0x04, 0x40]

def xorB (a b : Bytes) : Bytes := List.zipWith (· ^^^ ·) a b

/-- MGF1 (§B.2.1): `Hash(seed ‖ C)` for `C = 0, 1, …` as 4 octets, truncated to `len`. -/
def mgf1 (h : RsaHash) (seed : Bytes) (len : Nat) : Bytes :=
  let blocks := (len + h.size - 1) / h.size
  (((List.range blocks).map fun c => h.hash (seed ++ i2osp 4 c)).flatten).take len

/-! ### RSASSA-PKCS1-v1_5 (§8.2, §9.2) -/

/-- EMSA-PKCS1-v1_5 of a digest: `00 01 FF…FF 00 ‖ DigestInfo`, at least 8 `FF`. -/
def emsaPkcs1v15 (h : RsaHash) (digest : Bytes) (k : Nat) : Option Bytes :=
  let t := h.digestInfoPrefix ++ digest
  if k < t.length + 11 then none
  else some ([0x00, 0x01] ++ List.replicate (k - t.length - 3) 0xff ++ [0x00] ++ t)

/-- RSASSA-PKCS1-V1_5-VERIFY on a digest. -/
def rsaVerifyPkcs1v15 (n e : Nat) (h : RsaHash) (digest sig : Bytes) : Bool :=
  let k := octLen n
  if digest.length ≠ h.size ∨ sig.length ≠ k ∨ os2ip sig ≥ n then false
  else
    match emsaPkcs1v15 h digest k with
    | none => false
    | some em => i2osp k (modPow (os2ip sig) e n) == em

/-- RSASSA-PKCS1-V1_5-SIGN on a digest (deterministic). -/
def rsaSignPkcs1v15 (n d : Nat) (h : RsaHash) (digest : Bytes) : Option Bytes :=
  let k := octLen n
  if digest.length ≠ h.size then none
  else (emsaPkcs1v15 h digest k).map fun em => i2osp k (modPow (os2ip em) d n)

/-! ### RSASSA-PSS (§8.1, §9.1), MGF1 with the same hash -/

/-- Clear the leftmost `8·emLen − emBits` bits of the first octet. -/
def clearTopBits (bs : Bytes) (emLen emBits : Nat) : Bytes :=
  match bs with
  | [] => []
  | b :: rest => (b &&& UInt8.ofNat (255 / 2 ^ (8 * emLen - emBits))) :: rest

/-- EMSA-PSS-ENCODE of a digest with an explicit salt. -/
def emsaPssEncode (h : RsaHash) (mHash salt : Bytes) (emBits : Nat) : Option Bytes :=
  let emLen := (emBits + 7) / 8
  if mHash.length ≠ h.size ∨ emLen < h.size + salt.length + 2 then none
  else
    let hh := h.hash (List.replicate 8 0 ++ mHash ++ salt)
    let db := List.replicate (emLen - salt.length - h.size - 2) 0 ++ [0x01] ++ salt
    let maskedDB := clearTopBits (xorB db (mgf1 h hh (emLen - h.size - 1))) emLen emBits
    some (maskedDB ++ hh ++ [0xbc])

/-- EMSA-PSS-VERIFY of a digest.  `sLen = none`: the salt length is recovered from `DB` (what
Go's `PSSSaltLengthAuto` does when verifying); `some s`: it must be `s`. -/
def emsaPssVerify (h : RsaHash) (mHash em : Bytes) (emBits : Nat) (sLen : Option Nat) : Bool :=
  let emLen := (emBits + 7) / 8
  if mHash.length ≠ h.size ∨ em.length ≠ emLen ∨ emLen < h.size + 2 then false
  else if em.getLast? ≠ some 0xbc then false
  else
    let maskedDB := em.take (emLen - h.size - 1)
    let hh := (em.drop (emLen - h.size - 1)).take h.size
    -- the leftmost bits that must be zero
    if clearTopBits maskedDB emLen emBits ≠ maskedDB then false
    else
      let db := clearTopBits (xorB maskedDB (mgf1 h hh (emLen - h.size - 1))) emLen emBits
      let zeros := db.takeWhile (· == 0)
      let rest := db.drop zeros.length
      match rest with
      | 0x01 :: salt =>
        (match sLen with
          | some s => salt.length == s
          | none => true) &&
        h.hash (List.replicate 8 0 ++ mHash ++ salt) == hh
      | _ => false

/-- RSASSA-PSS-VERIFY on a digest. -/
def rsaVerifyPss (n e : Nat) (h : RsaHash) (digest sig : Bytes) (sLen : Option Nat) : Bool :=
  let k := octLen n
  let emBits := bitLen n - 1
  let emLen := (emBits + 7) / 8
  if sig.length ≠ k ∨ os2ip sig ≥ n then false
  else
    let m := modPow (os2ip sig) e n
    if m ≥ 256 ^ emLen then false
    else emsaPssVerify h digest (i2osp emLen m) emBits sLen

/-- RSASSA-PSS-SIGN on a digest with an explicit salt. -/
def rsaSignPss (n d : Nat) (h : RsaHash) (digest salt : Bytes) : Option Bytes :=
  (emsaPssEncode h digest salt (bitLen n - 1)).map fun em => i2osp (octLen n) (modPow (os2ip em) d n)

/-! ### RSAES-PKCS1-v1_5 (§7.2) -/

/-- `ps` are the caller's non-zero padding octets (`k − mLen − 3` of them, at least 8). -/
def rsaEncryptPkcs1v15 (n e : Nat) (msg ps : Bytes) : Option Bytes :=
  let k := octLen n
  if msg.length + 11 > k ∨ ps.length ≠ k - msg.length - 3 ∨ ps.any (· == 0) then none
  else some (i2osp k (modPow (os2ip ([0x00, 0x02] ++ ps ++ [0x00] ++ msg)) e n))

def rsaDecryptPkcs1v15 (n d : Nat) (ct : Bytes) : Option Bytes :=
  let k := octLen n
  if ct.length ≠ k ∨ k < 11 ∨ os2ip ct ≥ n then none
  else
    match i2osp k (modPow (os2ip ct) d n) with
    | 0x00 :: 0x02 :: rest =>
      let ps := rest.takeWhile (· != 0)
      if ps.length < 8 ∨ ps.length = rest.length then none
      else some (rest.drop (ps.length + 1))
    | _ => none

/-! ### RSAES-OAEP (§7.1), MGF1 and label hash with the same hash -/

def rsaEncryptOaep (n e : Nat) (h : RsaHash) (label msg seed : Bytes) : Option Bytes :=
  let k := octLen n
  if msg.length + 2 * h.size + 2 > k ∨ seed.length ≠ h.size then none
  else
    let db := h.hash label ++ List.replicate (k - msg.length - 2 * h.size - 2) 0 ++ [0x01] ++ msg
    let maskedDB := xorB db (mgf1 h seed (k - h.size - 1))
    let maskedSeed := xorB seed (mgf1 h maskedDB h.size)
    some (i2osp k (modPow (os2ip ([0x00] ++ maskedSeed ++ maskedDB)) e n))

def rsaDecryptOaep (n d : Nat) (h : RsaHash) (label ct : Bytes) : Option Bytes :=
  let k := octLen n
  if ct.length ≠ k ∨ k < 2 * h.size + 2 ∨ os2ip ct ≥ n then none
  else
    match i2osp k (modPow (os2ip ct) d n) with
    | y :: rest =>
      let maskedSeed := rest.take h.size
      let maskedDB := rest.drop h.size
      let seed := xorB maskedSeed (mgf1 h maskedDB h.size)
      let db := xorB maskedDB (mgf1 h seed (k - h.size - 1))
      let lHash' := db.take h.size
      let after := db.drop h.size
      let zeros := after.takeWhile (· == 0)
      match after.drop zeros.length with
      | 0x01 :: msg => if y == 0 ∧ lHash' == h.hash label then some msg else none
      | _ => none
    | [] => none

end Kit.Crypto
