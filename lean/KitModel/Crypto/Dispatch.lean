/-
Line protocol for the crypto primitives (`kitdrv crypto`, used by `harness/cmd/cryptodiff`).

One request per line: `op key=value …`, byte fields in hex.  Answers: `ok out=<hex>` (plus
`tag=<hex>` for `cbchmacseal`), `fail` (the operation is defined but rejects these arguments:
wrong sizes, authentication failure, bad padding, undecodable base64), or `bad-op` (unknown
operation, missing or malformed field).

  hash alg= msg=                      hmac alg= key= msg=
  hkdf alg= secret= salt= info= len=<decimal>
  aesenc|aesdec key= block=           cbcenc key= iv= pt=       cbcdec key= iv= ct=
  gcmseal|chachaseal|xchachaseal key= nonce= pt= ad=
  gcmopen|chachaopen|xchachaopen key= nonce= ct=<ct‖tag> ad=
  kwwrap kek= cek=                    kwunwrap kek= wrapped=
  cbchmacseal alg= key= iv= pt= ad=   cbchmacopen alg= key= iv= ct= ad= tag=
  b64enc data=<bytes>  → out=<hex of the ASCII text>      b64dec data=<hex of the text> → out=<bytes>
-/
import KitModel.Crypto.Sha2
import KitModel.Crypto.Hmac
import KitModel.Crypto.Aes
import KitModel.Crypto.Gcm
import KitModel.Crypto.ChaCha
import KitModel.Crypto.KeyWrap
import KitModel.Crypto.CbcHmac
import KitModel.Crypto.Base64

namespace Kit.Crypto

def parseAlg : String → Option HashAlg
  | "sha256" => some .sha256
  | "sha384" => some .sha384
  | "sha512" => some .sha512
  | _ => none

private def okOut (b : Bytes) : String := "ok out=" ++ hexOf b
private def optOut : Option Bytes → String
  | some b => okOut b
  | none => "fail"

private def fld (l : Line) (k : String) : Option Bytes := (l.get? k).bind unhex
private def alg (l : Line) : Option HashAlg := (l.get? "alg").bind parseAlg

/-- Runs one request; `none` = `bad-op`. -/
def dispatch (l : Line) : Option String :=
  match l.op with
  | "hash" => do
    let h ← alg l; let m ← fld l "msg"
    pure (okOut (hash h m))
  | "hmac" => do
    let h ← alg l; let k ← fld l "key"; let m ← fld l "msg"
    pure (okOut (hmac h k m))
  | "hkdf" => do
    let h ← alg l; let s ← fld l "secret"; let salt ← fld l "salt"; let info ← fld l "info"
    let n ← l.nat? "len"
    pure (if n > 255 * h.size then "fail" else okOut (hkdf h s salt info n))
  | "aesenc" => do
    let k ← fld l "key"; let b ← fld l "block"
    let r := aesEncryptBlock k b
    pure (if r.isEmpty then "fail" else okOut r)
  | "aesdec" => do
    let k ← fld l "key"; let b ← fld l "block"
    let r := aesDecryptBlock k b
    pure (if r.isEmpty then "fail" else okOut r)
  | "cbcenc" => do
    let k ← fld l "key"; let iv ← fld l "iv"; let p ← fld l "pt"
    pure (if cbcArgsOk k iv p then okOut (cbcEncrypt k iv p) else "fail")
  | "cbcdec" => do
    let k ← fld l "key"; let iv ← fld l "iv"; let c ← fld l "ct"
    pure (if cbcArgsOk k iv c then okOut (cbcDecrypt k iv c) else "fail")
  | "gcmseal" => do
    let k ← fld l "key"; let n ← fld l "nonce"; let p ← fld l "pt"; let a ← fld l "ad"
    let r := gcmSeal k n p a
    pure (if r.isEmpty then "fail" else okOut r)
  | "gcmopen" => do
    let k ← fld l "key"; let n ← fld l "nonce"; let c ← fld l "ct"; let a ← fld l "ad"
    pure (optOut (gcmOpen k n c a))
  | "chachaseal" => do
    let k ← fld l "key"; let n ← fld l "nonce"; let p ← fld l "pt"; let a ← fld l "ad"
    let r := chacha20Poly1305Seal k n p a
    pure (if r.isEmpty then "fail" else okOut r)
  | "chachaopen" => do
    let k ← fld l "key"; let n ← fld l "nonce"; let c ← fld l "ct"; let a ← fld l "ad"
    pure (optOut (chacha20Poly1305Open k n c a))
  | "xchachaseal" => do
    let k ← fld l "key"; let n ← fld l "nonce"; let p ← fld l "pt"; let a ← fld l "ad"
    let r := xchacha20Poly1305Seal k n p a
    pure (if r.isEmpty then "fail" else okOut r)
  | "xchachaopen" => do
    let k ← fld l "key"; let n ← fld l "nonce"; let c ← fld l "ct"; let a ← fld l "ad"
    pure (optOut (xchacha20Poly1305Open k n c a))
  | "kwwrap" => do
    let k ← fld l "kek"; let c ← fld l "cek"
    let r := kwWrap k c
    pure (if r.isEmpty then "fail" else okOut r)
  | "kwunwrap" => do
    let k ← fld l "kek"; let w ← fld l "wrapped"
    pure (optOut (kwUnwrap k w))
  | "cbchmacseal" => do
    let h ← alg l; let k ← fld l "key"; let iv ← fld l "iv"; let p ← fld l "pt"; let a ← fld l "ad"
    if cbcHmacArgsOk h k iv then
      let r := cbcHmacSeal h k iv p a
      pure ("ok out=" ++ hexOf r.1 ++ " tag=" ++ hexOf r.2)
    else pure "fail"
  | "cbchmacopen" => do
    let h ← alg l; let k ← fld l "key"; let iv ← fld l "iv"; let c ← fld l "ct"; let a ← fld l "ad"
    let t ← fld l "tag"
    pure (optOut (cbcHmacOpen h k iv c a t))
  | "b64enc" => do
    let d ← fld l "data"
    pure (okOut (base64Std d).toUTF8.toList)
  | "b64dec" => do
    let d ← fld l "data"
    pure (optOut (base64StdDecode (String.ofList (d.map fun b => Char.ofNat b.toNat))))
  | _ => none

/-- Executes one `op key=value…` line and renders the answer line. -/
def selfTestLine (line : String) : String :=
  (dispatch (parseLine line)).getD "bad-op"

end Kit.Crypto
