/-
Ed25519 (RFC 8032 §5.1) over `Nat`: twisted Edwards arithmetic in extended coordinates (the unified
addition law of §5.1.4), point decoding with the square root of §5.1.3, deterministic signing
(§5.1.6) and verification (§5.1.7, comparing the encoding of `[S]B − [k]A` with `R` as Go's
crypto/ed25519 does, which also rejects non-canonical `R` and `S ≥ L`).  Independent of Go: the
"other implementation" for C03's interop clause for EdDSA.  Core Lean only.
-/
import KitModel.Crypto.Rsa

namespace Kit.Crypto.Ed25519

def p : Nat := 2 ^ 255 - 19
/-- Group order. -/
def L : Nat := 2 ^ 252 + 27742317777372353535851937790883648493
/-- `d = −121665/121666`. -/
def d : Nat := (p - 121665) * modPow 121666 (p - 2) p % p
/-- A square root of −1. -/
def sqrtM1 : Nat := modPow 2 ((p - 1) / 4) p

structure Pt where
  x : Nat
  y : Nat
  z : Nat
  t : Nat

def Pt.zero : Pt := ⟨0, 1, 1, 0⟩

@[inline] def sub (a b : Nat) : Nat := (a + p - b % p) % p

/-- Unified addition (RFC 8032 §5.1.4). -/
def add (P Q : Pt) : Pt :=
  let a := sub P.y P.x * sub Q.y Q.x % p
  let b := (P.y + P.x) * (Q.y + Q.x) % p
  let c := P.t * (2 * d % p) % p * Q.t % p
  let dd := P.z * 2 % p * Q.z % p
  let e := sub b a
  let f := sub dd c
  let g := (dd + c) % p
  let h := (b + a) % p
  ⟨e * f % p, g * h % p, f * g % p, e * h % p⟩

def mulAux (P : Pt) (k : Nat) : Nat → Pt → Pt
  | 0, acc => acc
  | i + 1, acc =>
    let acc := add acc acc
    mulAux P k i (if k / 2 ^ i % 2 = 1 then add acc P else acc)

def mul (k : Nat) (P : Pt) : Pt := mulAux P k (bitLen k) Pt.zero

def neg (P : Pt) : Pt := ⟨(p - P.x % p) % p, P.y, P.z, (p - P.t % p) % p⟩

/-- Little-endian integer of an octet string / its inverse. -/
def leToNat (bs : Bytes) : Nat := os2ip bs.reverse
def natToLe (len x : Nat) : Bytes := (i2osp len x).reverse

/-- §5.1.2 encoding: `y` little-endian, the sign of `x` in the top bit. -/
def encode (P : Pt) : Bytes :=
  let zi := modPow P.z (p - 2) p
  let x := P.x * zi % p
  let y := P.y * zi % p
  natToLe 32 (y + (x % 2) * 2 ^ 255)

/-- §5.1.3 decoding; `none` if the octets are not a point. -/
def decode (bs : Bytes) : Option Pt :=
  if bs.length ≠ 32 then none
  else
    let v := leToNat bs
    let sign := v / 2 ^ 255
    let y := v % 2 ^ 255
    if y ≥ p then none
    else
      let u := sub (y * y % p) 1
      let w := (d * (y * y % p) + 1) % p
      -- x = (u/w)^((p+3)/8), computed as u w³ (u w⁷)^((p−5)/8)
      let w3 := w * w % p * w % p
      let w7 := w3 * w3 % p * w % p
      let x0 := u * w3 % p * modPow (u * w7 % p) ((p - 5) / 8) p % p
      let wx2 := w * (x0 * x0 % p) % p
      let x1 :=
        if wx2 = u then some x0
        else if wx2 = (p - u) % p then some (x0 * sqrtM1 % p)
        else none
      match x1 with
      | none => none
      | some x =>
        if x = 0 ∧ sign = 1 then none
        else
          let x := if x % 2 ≠ sign then (p - x) % p else x
          some ⟨x, y, 1, x * y % p⟩

def basePoint : Pt :=
  let y := 4 * modPow 5 (p - 2) p % p
  match decode (natToLe 32 y) with
  | some b => b
  | none => Pt.zero

/-- The secret scalar (clamped) and the prefix of a 32-byte seed (§5.1.5). -/
def expand (seed : Bytes) : Nat × Bytes :=
  let h := sha512 seed
  let a := leToNat (h.take 32)
  let a := a % 2 ^ 254 - a % 8 + 2 ^ 254
  (a, h.drop 32)

def publicKey (seed : Bytes) : Bytes := encode (mul (expand seed).1 basePoint)

/-- §5.1.6 (deterministic). -/
def sign (seed msg : Bytes) : Bytes :=
  let (a, prefix_) := expand seed
  let pk := encode (mul a basePoint)
  let r := leToNat (sha512 (prefix_ ++ msg)) % L
  let rEnc := encode (mul r basePoint)
  let k := leToNat (sha512 (rEnc ++ pk ++ msg)) % L
  rEnc ++ natToLe 32 ((r + k * a) % L)

/-- §5.1.7, in the form Go uses: `S < L`, `A` decodes, and `encode([S]B − [k]A) = R` octet for octet. -/
def verify (pk msg sig : Bytes) : Bool :=
  if sig.length ≠ 64 ∨ pk.length ≠ 32 then false
  else
    let rEnc := sig.take 32
    let s := leToNat (sig.drop 32)
    if s ≥ L then false
    else
      match decode pk with
      | none => false
      | some A =>
        let k := leToNat (sha512 (rEnc ++ pk ++ msg)) % L
        encode (add (mul s basePoint) (mul k (neg A))) == rEnc

end Kit.Crypto.Ed25519
