/-
HMAC (RFC 2104 / FIPS 198-1) and HKDF (RFC 5869) over the SHA-2 family.
-/
import KitModel.Crypto.Sha2

namespace Kit.Crypto

/-- RFC 2104 §2: keys longer than the block size are hashed; then zero-padded to the block size. -/
def hmacKeyBlock (h : HashAlg) (key : Bytes) : Bytes :=
  let k := if key.length > h.blockSize then hash h key else key
  k ++ zeros (h.blockSize - k.length)

/-- `H((K ⊕ opad) ‖ H((K ⊕ ipad) ‖ msg))`. -/
def hmac (h : HashAlg) (key msg : Bytes) : Bytes :=
  let k := hmacKeyBlock h key
  let inner := hash h (k.map (· ^^^ 0x36) ++ msg)
  hash h (k.map (· ^^^ 0x5c) ++ inner)

/-- RFC 5869 §2.2.  An empty salt is `HashLen` zero bytes. -/
def hkdfExtract (h : HashAlg) (salt ikm : Bytes) : Bytes :=
  hmac h (if salt.isEmpty then zeros h.size else salt) ikm

/-- `T(1) ‖ … ‖ T(n)`; `i` is the index of the next block, `prev = T(i-1)`. -/
def hkdfExpandAux (h : HashAlg) (prk info : Bytes) : Nat → Nat → Bytes → Bytes → Bytes
  | 0, _, _, acc => acc
  | n + 1, i, prev, acc =>
    let t := hmac h prk (prev ++ info ++ [UInt8.ofNat i])
    hkdfExpandAux h prk info n (i + 1) t (acc ++ t)

/-- RFC 5869 §2.3.  `len > 255·HashLen` is not allowed by the RFC: the result is then empty. -/
def hkdfExpand (h : HashAlg) (prk info : Bytes) (len : Nat) : Bytes :=
  if len > 255 * h.size then []
  else (hkdfExpandAux h prk info ((len + h.size - 1) / h.size) 1 [] []).take len

/-- Extract-then-expand. -/
def hkdf (h : HashAlg) (secret salt info : Bytes) (len : Nat) : Bytes :=
  hkdfExpand h (hkdfExtract h salt secret) info len

end Kit.Crypto
