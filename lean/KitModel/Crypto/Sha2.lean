/-
SHA-256 / SHA-384 / SHA-512 written from FIPS 180-4.

The round constants and initial hash values are *computed* from their definition in the standard
(fractional parts of the cube / square roots of the first primes, §4.2.2, §4.2.3, §5.3) rather than
copied as literals; `Vectors.lean` checks a few of them and the digests against published values.
-/
import KitModel.Crypto.Util

namespace Kit.Crypto

inductive HashAlg where
  | sha256 | sha384 | sha512
  deriving Repr, DecidableEq, Inhabited

/-- Digest size in bytes. -/
def HashAlg.size : HashAlg → Nat
  | .sha256 => 32
  | .sha384 => 48
  | .sha512 => 64

/-- Input block size in bytes (the `B` of RFC 2104). -/
def HashAlg.blockSize : HashAlg → Nat
  | .sha256 => 64
  | .sha384 => 128
  | .sha512 => 128

/-! ### constants from their definition -/

def isPrime (n : Nat) : Bool :=
  n ≥ 2 && (List.range (n - 2)).all fun i => n % (i + 2) != 0

/-- The first `k` primes (k ≤ 80 is all FIPS 180-4 needs: the 80th prime is 409). -/
def firstPrimes (k : Nat) : List Nat := ((List.range 420).filter isPrime).take k

def irootAux (k n : Nat) : Nat → Nat → Nat → Nat
  | 0, lo, _ => lo
  | f + 1, lo, hi =>
    if hi - lo ≤ 1 then lo
    else
      let mid := (lo + hi) / 2
      if mid ^ k ≤ n then irootAux k n f mid hi else irootAux k n f lo mid

/-- `⌊n^(1/k)⌋` for `n < 2^(70·k)` (binary search). -/
def iroot (k n : Nat) : Nat := irootAux k n 80 0 (2 ^ 70)

/-- First `bits` bits of the fractional part of the `k`-th root of `p`. -/
def fracRoot (k bits p : Nat) : Nat := iroot k (p <<< (k * bits)) % 2 ^ bits

def K256 : Array UInt32 := ((firstPrimes 64).map fun p => (fracRoot 3 32 p).toUInt32).toArray
def H256 : Array UInt32 := ((firstPrimes 8).map fun p => (fracRoot 2 32 p).toUInt32).toArray
def K512 : Array UInt64 := ((firstPrimes 80).map fun p => (fracRoot 3 64 p).toUInt64).toArray
def H512 : Array UInt64 := ((firstPrimes 8).map fun p => (fracRoot 2 64 p).toUInt64).toArray
def H384 : Array UInt64 := (((firstPrimes 16).drop 8).map fun p => (fracRoot 2 64 p).toUInt64).toArray

/-! ### SHA-256 (§4.1.2, §6.2) -/

@[inline] def rotr32 (x : UInt32) (n : UInt32) : UInt32 := (x >>> n) ||| (x <<< (32 - n))
@[inline] def rotl32 (x : UInt32) (n : UInt32) : UInt32 := (x <<< n) ||| (x >>> (32 - n))
@[inline] def rotr64 (x : UInt64) (n : UInt64) : UInt64 := (x >>> n) ||| (x <<< (64 - n))

namespace Sha256
@[inline] def ch (x y z : UInt32) : UInt32 := (x &&& y) ^^^ (~~~x &&& z)
@[inline] def maj (x y z : UInt32) : UInt32 := (x &&& y) ^^^ (x &&& z) ^^^ (y &&& z)
@[inline] def bsig0 (x : UInt32) : UInt32 := rotr32 x 2 ^^^ rotr32 x 13 ^^^ rotr32 x 22
@[inline] def bsig1 (x : UInt32) : UInt32 := rotr32 x 6 ^^^ rotr32 x 11 ^^^ rotr32 x 25
@[inline] def ssig0 (x : UInt32) : UInt32 := rotr32 x 7 ^^^ rotr32 x 18 ^^^ (x >>> 3)
@[inline] def ssig1 (x : UInt32) : UInt32 := rotr32 x 17 ^^^ rotr32 x 19 ^^^ (x >>> 10)

/-- Message schedule `W_0 … W_63` of the 64-byte block at offset `off`. -/
def schedule (m : ByteArray) (off : Nat) : Array UInt32 :=
  let w := loopN 16 (fun i (w : Array UInt32) => w.push (be32At m (off + 4 * i))) (Array.emptyWithCapacity 64)
  loopN 48 (fun j (w : Array UInt32) =>
    let t := j + 16
    w.push (ssig1 w[t-2]! + w[t-7]! + ssig0 w[t-15]! + w[t-16]!)) w

structure St where
  a : UInt32
  b : UInt32
  c : UInt32
  d : UInt32
  e : UInt32
  f : UInt32
  g : UInt32
  h : UInt32

def rounds (k w : Array UInt32) : Nat → Nat → UInt32 → UInt32 → UInt32 → UInt32 →
    UInt32 → UInt32 → UInt32 → UInt32 → St
  | 0, _, a, b, c, d, e, f, g, h => ⟨a, b, c, d, e, f, g, h⟩
  | n + 1, t, a, b, c, d, e, f, g, h =>
    let t1 := h + bsig1 e + ch e f g + k[t]! + w[t]!
    let t2 := bsig0 a + maj a b c
    rounds k w n (t + 1) (t1 + t2) a b c (d + t1) e f g

def compress (k : Array UInt32) (s : St) (m : ByteArray) (off : Nat) : St :=
  let w := schedule m off
  let r := rounds k w 64 0 s.a s.b s.c s.d s.e s.f s.g s.h
  ⟨s.a + r.a, s.b + r.b, s.c + r.c, s.d + r.d, s.e + r.e, s.f + r.f, s.g + r.g, s.h + r.h⟩

/-- §5.1.1 padding: `1` bit, zeros up to 56 mod 64, 64-bit big-endian bit length. -/
def pad (msg : Bytes) : ByteArray :=
  let l := msg.length
  pushBE64 (toBA (msg ++ 0x80 :: zeros (padLen (l + 9) 64))) (l * 8).toUInt64

def digest (msg : Bytes) : Bytes :=
  let m := pad msg
  let k := K256
  let h := H256
  let s0 : St := ⟨h[0]!, h[1]!, h[2]!, h[3]!, h[4]!, h[5]!, h[6]!, h[7]!⟩
  let s := loopN (m.size / 64) (fun i s => compress k s m (64 * i)) s0
  be32Bytes s.a ++ be32Bytes s.b ++ be32Bytes s.c ++ be32Bytes s.d ++
  be32Bytes s.e ++ be32Bytes s.f ++ be32Bytes s.g ++ be32Bytes s.h
end Sha256

/-! ### SHA-512 / SHA-384 (§4.1.3, §6.4, §6.5) -/

namespace Sha512
@[inline] def ch (x y z : UInt64) : UInt64 := (x &&& y) ^^^ (~~~x &&& z)
@[inline] def maj (x y z : UInt64) : UInt64 := (x &&& y) ^^^ (x &&& z) ^^^ (y &&& z)
@[inline] def bsig0 (x : UInt64) : UInt64 := rotr64 x 28 ^^^ rotr64 x 34 ^^^ rotr64 x 39
@[inline] def bsig1 (x : UInt64) : UInt64 := rotr64 x 14 ^^^ rotr64 x 18 ^^^ rotr64 x 41
@[inline] def ssig0 (x : UInt64) : UInt64 := rotr64 x 1 ^^^ rotr64 x 8 ^^^ (x >>> 7)
@[inline] def ssig1 (x : UInt64) : UInt64 := rotr64 x 19 ^^^ rotr64 x 61 ^^^ (x >>> 6)

def schedule (m : ByteArray) (off : Nat) : Array UInt64 :=
  let w := loopN 16 (fun i (w : Array UInt64) => w.push (be64At m (off + 8 * i))) (Array.emptyWithCapacity 80)
  loopN 64 (fun j (w : Array UInt64) =>
    let t := j + 16
    w.push (ssig1 w[t-2]! + w[t-7]! + ssig0 w[t-15]! + w[t-16]!)) w

structure St where
  a : UInt64
  b : UInt64
  c : UInt64
  d : UInt64
  e : UInt64
  f : UInt64
  g : UInt64
  h : UInt64

def rounds (k w : Array UInt64) : Nat → Nat → UInt64 → UInt64 → UInt64 → UInt64 →
    UInt64 → UInt64 → UInt64 → UInt64 → St
  | 0, _, a, b, c, d, e, f, g, h => ⟨a, b, c, d, e, f, g, h⟩
  | n + 1, t, a, b, c, d, e, f, g, h =>
    let t1 := h + bsig1 e + ch e f g + k[t]! + w[t]!
    let t2 := bsig0 a + maj a b c
    rounds k w n (t + 1) (t1 + t2) a b c (d + t1) e f g

def compress (k : Array UInt64) (s : St) (m : ByteArray) (off : Nat) : St :=
  let w := schedule m off
  let r := rounds k w 80 0 s.a s.b s.c s.d s.e s.f s.g s.h
  ⟨s.a + r.a, s.b + r.b, s.c + r.c, s.d + r.d, s.e + r.e, s.f + r.f, s.g + r.g, s.h + r.h⟩

/-- §5.1.2 padding: `1` bit, zeros up to 112 mod 128, 128-bit big-endian bit length. -/
def pad (msg : Bytes) : ByteArray :=
  let l := msg.length
  let bits := l * 8
  pushBE64 (pushBE64 (toBA (msg ++ 0x80 :: zeros (padLen (l + 17) 128))) (bits >>> 64).toUInt64) bits.toUInt64

/-- All eight output words (64 bytes); SHA-384 keeps the first 48. -/
def digestWith (h : Array UInt64) (msg : Bytes) : Bytes :=
  let m := pad msg
  let k := K512
  let s0 : St := ⟨h[0]!, h[1]!, h[2]!, h[3]!, h[4]!, h[5]!, h[6]!, h[7]!⟩
  let s := loopN (m.size / 128) (fun i s => compress k s m (128 * i)) s0
  be64Bytes s.a ++ be64Bytes s.b ++ be64Bytes s.c ++ be64Bytes s.d ++
  be64Bytes s.e ++ be64Bytes s.f ++ be64Bytes s.g ++ be64Bytes s.h
end Sha512

def sha256 (msg : Bytes) : Bytes := Sha256.digest msg
def sha512 (msg : Bytes) : Bytes := Sha512.digestWith H512 msg
def sha384 (msg : Bytes) : Bytes := (Sha512.digestWith H384 msg).take 48

def hash : HashAlg → Bytes → Bytes
  | .sha256 => sha256
  | .sha384 => sha384
  | .sha512 => sha512

end Kit.Crypto
