/-
AES-128/192/256 block cipher written from FIPS 197, plus CBC mode (NIST SP 800-38A §6.2).

The S-box is computed from its definition (§5.1.1: multiplicative inverse in GF(2^8) followed by the
affine map); the round function uses the usual 32-bit "T-table" formulation of
SubBytes∘ShiftRows∘MixColumns, and decryption uses the Equivalent Inverse Cipher (§5.3.5).
State columns are big-endian 32-bit words.
-/
import KitModel.Crypto.Util
import KitModel.Crypto.Sha2

namespace Kit.Crypto

namespace Aes

/-! ### GF(2^8), S-box and tables -/

def xtime (x : UInt8) : UInt8 := (x <<< 1) ^^^ (if x &&& 0x80 != 0 then 0x1b else 0)

def gmulAux : Nat → UInt8 → UInt8 → UInt8 → UInt8
  | 0, r, _, _ => r
  | n + 1, r, a, b => gmulAux n (if b &&& 1 != 0 then r ^^^ a else r) (xtime a) (b >>> 1)

/-- Multiplication in GF(2^8) modulo x^8 + x^4 + x^3 + x + 1. -/
def gmul (a b : UInt8) : UInt8 := gmulAux 8 0 a b

def gpow (a : UInt8) (n : Nat) : UInt8 := loopN n (fun _ r => gmul r a) 1

/-- Multiplicative inverse (`a^254 = a^2·a^4·a^8·a^16·a^32·a^64·a^128`), with `0 ↦ 0`. -/
def ginv (a : UInt8) : UInt8 :=
  let a2 := gmul a a
  let a4 := gmul a2 a2
  let a8 := gmul a4 a4
  let a16 := gmul a8 a8
  let a32 := gmul a16 a16
  let a64 := gmul a32 a32
  let a128 := gmul a64 a64
  gmul (gmul (gmul a2 a4) (gmul a8 a16)) (gmul (gmul a32 a64) a128)

def rotl8 (x n : UInt8) : UInt8 := (x <<< n) ||| (x >>> (8 - n))

def sboxByte (x : UInt8) : UInt8 :=
  let b := ginv x
  b ^^^ rotl8 b 1 ^^^ rotl8 b 2 ^^^ rotl8 b 3 ^^^ rotl8 b 4 ^^^ 0x63

def sbox : ByteArray :=
  loopN 256 (fun i (t : ByteArray) => t.push (sboxByte (UInt8.ofNat i))) (ByteArray.emptyWithCapacity 256)

def invSbox : ByteArray :=
  loopN 256 (fun i (t : ByteArray) => t.set! (sbox.get! i).toNat (UInt8.ofNat i))
    (toBA (zeros 256))

@[inline] def word (b0 b1 b2 b3 : UInt8) : UInt32 :=
  (b0.toUInt32 <<< 24) ||| (b1.toUInt32 <<< 16) ||| (b2.toUInt32 <<< 8) ||| b3.toUInt32

/-- `Te0[x]` = MixColumns of the column `(S[x],0,0,0)`. -/
def te0 : Array UInt32 :=
  loopN 256 (fun i (t : Array UInt32) =>
    let s := sbox.get! i
    t.push (word (gmul s 2) s s (gmul s 3))) (Array.emptyWithCapacity 256)
def te1 : Array UInt32 := te0.map (rotr32 · 8)
def te2 : Array UInt32 := te0.map (rotr32 · 16)
def te3 : Array UInt32 := te0.map (rotr32 · 24)

/-- `Td0[x]` = InvMixColumns of the column `(InvS[x],0,0,0)`. -/
def td0 : Array UInt32 :=
  loopN 256 (fun i (t : Array UInt32) =>
    let s := invSbox.get! i
    t.push (word (gmul s 14) (gmul s 9) (gmul s 13) (gmul s 11))) (Array.emptyWithCapacity 256)
def td1 : Array UInt32 := td0.map (rotr32 · 8)
def td2 : Array UInt32 := td0.map (rotr32 · 16)
def td3 : Array UInt32 := td0.map (rotr32 · 24)

@[inline] def b0 (w : UInt32) : Nat := (w >>> 24).toNat
@[inline] def b1 (w : UInt32) : Nat := ((w >>> 16) &&& 0xff).toNat
@[inline] def b2 (w : UInt32) : Nat := ((w >>> 8) &&& 0xff).toNat
@[inline] def b3 (w : UInt32) : Nat := (w &&& 0xff).toNat

/-! ### key expansion (§5.2) -/

def subWord (w : UInt32) : UInt32 :=
  word (sbox.get! (b0 w)) (sbox.get! (b1 w)) (sbox.get! (b2 w)) (sbox.get! (b3 w))

def rcon (j : Nat) : UInt32 := (gpow 2 (j - 1)).toUInt32 <<< 24

/-- `w[0 … 4(Nr+1)-1]` for a key of `4·Nk` bytes. -/
def expandEnc (key : ByteArray) : Array UInt32 :=
  let nk := key.size / 4
  let total := 4 * (nk + 7)
  let w := loopN nk (fun i (w : Array UInt32) => w.push (be32At key (4 * i))) (Array.emptyWithCapacity total)
  loopN (total - nk) (fun j (w : Array UInt32) =>
    let i := j + nk
    let temp := w[i-1]!
    let temp :=
      if i % nk == 0 then subWord (rotl32 temp 8) ^^^ rcon (i / nk)
      else if nk > 6 && i % nk == 4 then subWord temp
      else temp
    w.push (w[i-nk]! ^^^ temp)) w

/-- InvMixColumns of one column, via `Td[S[·]]`. -/
def invMixWord (w : UInt32) : UInt32 :=
  td0[(sbox.get! (b0 w)).toNat]! ^^^ td1[(sbox.get! (b1 w)).toNat]! ^^^
  td2[(sbox.get! (b2 w)).toNat]! ^^^ td3[(sbox.get! (b3 w)).toNat]!

/-- Decryption key schedule of the Equivalent Inverse Cipher, laid out in order of use. -/
def expandDec (ek : Array UInt32) (nr : Nat) : Array UInt32 :=
  loopN (4 * (nr + 1)) (fun j (d : Array UInt32) =>
    let r := j / 4
    let w := ek[4 * (nr - r) + j % 4]!
    d.push (if r == 0 || r == nr then w else invMixWord w)) (Array.emptyWithCapacity (4 * (nr + 1)))

structure Key where
  nr : Nat
  ek : Array UInt32
  dk : Array UInt32

def mkKey (key : Bytes) : Key :=
  let k := toBA key
  let nr := k.size / 4 + 6
  let ek := expandEnc k
  { nr := nr, ek := ek, dk := expandDec ek nr }

/-! ### cipher (§5.1) and inverse cipher (§5.3.5) -/

/-- A 128-bit block / state as four big-endian column words. -/
structure W4 where
  a : UInt32
  b : UInt32
  c : UInt32
  d : UInt32
  deriving Inhabited

def W4.toBytes (s : W4) : Bytes := be32Bytes s.a ++ be32Bytes s.b ++ be32Bytes s.c ++ be32Bytes s.d

@[inline] def W4.xor (x y : W4) : W4 := ⟨x.a ^^^ y.a, x.b ^^^ y.b, x.c ^^^ y.c, x.d ^^^ y.d⟩

@[inline] def loadW4 (m : ByteArray) (off : Nat) : W4 :=
  ⟨be32At m off, be32At m (off + 4), be32At m (off + 8), be32At m (off + 12)⟩

@[inline] def pushW4 (o : ByteArray) (s : W4) : ByteArray :=
  pushBE32 (pushBE32 (pushBE32 (pushBE32 o s.a) s.b) s.c) s.d

def encRounds (rk : Array UInt32) : Nat → Nat → UInt32 → UInt32 → UInt32 → UInt32 → W4
  | 0, k, s0, s1, s2, s3 =>
    ⟨word (sbox.get! (b0 s0)) (sbox.get! (b1 s1)) (sbox.get! (b2 s2)) (sbox.get! (b3 s3)) ^^^ rk[k]!,
     word (sbox.get! (b0 s1)) (sbox.get! (b1 s2)) (sbox.get! (b2 s3)) (sbox.get! (b3 s0)) ^^^ rk[k+1]!,
     word (sbox.get! (b0 s2)) (sbox.get! (b1 s3)) (sbox.get! (b2 s0)) (sbox.get! (b3 s1)) ^^^ rk[k+2]!,
     word (sbox.get! (b0 s3)) (sbox.get! (b1 s0)) (sbox.get! (b2 s1)) (sbox.get! (b3 s2)) ^^^ rk[k+3]!⟩
  | n + 1, k, s0, s1, s2, s3 =>
    encRounds rk n (k + 4)
      (te0[b0 s0]! ^^^ te1[b1 s1]! ^^^ te2[b2 s2]! ^^^ te3[b3 s3]! ^^^ rk[k]!)
      (te0[b0 s1]! ^^^ te1[b1 s2]! ^^^ te2[b2 s3]! ^^^ te3[b3 s0]! ^^^ rk[k+1]!)
      (te0[b0 s2]! ^^^ te1[b1 s3]! ^^^ te2[b2 s0]! ^^^ te3[b3 s1]! ^^^ rk[k+2]!)
      (te0[b0 s3]! ^^^ te1[b1 s0]! ^^^ te2[b2 s1]! ^^^ te3[b3 s2]! ^^^ rk[k+3]!)

def encryptW (k : Key) (x : W4) : W4 :=
  let rk := k.ek
  encRounds rk (k.nr - 1) 4 (x.a ^^^ rk[0]!) (x.b ^^^ rk[1]!) (x.c ^^^ rk[2]!) (x.d ^^^ rk[3]!)

def decRounds (rk : Array UInt32) : Nat → Nat → UInt32 → UInt32 → UInt32 → UInt32 → W4
  | 0, k, s0, s1, s2, s3 =>
    ⟨word (invSbox.get! (b0 s0)) (invSbox.get! (b1 s3)) (invSbox.get! (b2 s2)) (invSbox.get! (b3 s1)) ^^^ rk[k]!,
     word (invSbox.get! (b0 s1)) (invSbox.get! (b1 s0)) (invSbox.get! (b2 s3)) (invSbox.get! (b3 s2)) ^^^ rk[k+1]!,
     word (invSbox.get! (b0 s2)) (invSbox.get! (b1 s1)) (invSbox.get! (b2 s0)) (invSbox.get! (b3 s3)) ^^^ rk[k+2]!,
     word (invSbox.get! (b0 s3)) (invSbox.get! (b1 s2)) (invSbox.get! (b2 s1)) (invSbox.get! (b3 s0)) ^^^ rk[k+3]!⟩
  | n + 1, k, s0, s1, s2, s3 =>
    decRounds rk n (k + 4)
      (td0[b0 s0]! ^^^ td1[b1 s3]! ^^^ td2[b2 s2]! ^^^ td3[b3 s1]! ^^^ rk[k]!)
      (td0[b0 s1]! ^^^ td1[b1 s0]! ^^^ td2[b2 s3]! ^^^ td3[b3 s2]! ^^^ rk[k+1]!)
      (td0[b0 s2]! ^^^ td1[b1 s1]! ^^^ td2[b2 s0]! ^^^ td3[b3 s3]! ^^^ rk[k+2]!)
      (td0[b0 s3]! ^^^ td1[b1 s2]! ^^^ td2[b2 s1]! ^^^ td3[b3 s0]! ^^^ rk[k+3]!)

def decryptW (k : Key) (x : W4) : W4 :=
  let rk := k.dk
  decRounds rk (k.nr - 1) 4 (x.a ^^^ rk[0]!) (x.b ^^^ rk[1]!) (x.c ^^^ rk[2]!) (x.d ^^^ rk[3]!)

end Aes

/-- AES key sizes in bytes. -/
def validAesKeyLen (n : Nat) : Bool := n == 16 || n == 24 || n == 32

/-- One AES block encryption.  Key of 16/24/32 bytes, block of 16 bytes; otherwise `[]`. -/
def aesEncryptBlock (key block : Bytes) : Bytes :=
  if validAesKeyLen key.length && block.length == 16 then
    (Aes.encryptW (Aes.mkKey key) (Aes.loadW4 (toBA block) 0)).toBytes
  else []

/-- One AES block decryption.  Key of 16/24/32 bytes, block of 16 bytes; otherwise `[]`. -/
def aesDecryptBlock (key block : Bytes) : Bytes :=
  if validAesKeyLen key.length && block.length == 16 then
    (Aes.decryptW (Aes.mkKey key) (Aes.loadW4 (toBA block) 0)).toBytes
  else []

/-- Preconditions of CBC: valid key, 16-byte IV, whole blocks. -/
def cbcArgsOk (key iv data : Bytes) : Bool :=
  validAesKeyLen key.length && iv.length == 16 && data.length % 16 == 0

/-- CBC encryption without padding (SP 800-38A §6.2).  `[]` if the preconditions fail. -/
def cbcEncrypt (key iv pt : Bytes) : Bytes :=
  if cbcArgsOk key iv pt then
    let k := Aes.mkKey key
    let p := toBA pt
    let r := loopN (p.size / 16) (fun i (s : ByteArray × Aes.W4) =>
      let c := Aes.encryptW k ((Aes.loadW4 p (16 * i)).xor s.2)
      (Aes.pushW4 s.1 c, c)) (ByteArray.emptyWithCapacity p.size, Aes.loadW4 (toBA iv) 0)
    baToList r.1
  else []

/-- CBC decryption without padding.  `[]` if the preconditions fail. -/
def cbcDecrypt (key iv ct : Bytes) : Bytes :=
  if cbcArgsOk key iv ct then
    let k := Aes.mkKey key
    let c := toBA ct
    let r := loopN (c.size / 16) (fun i (s : ByteArray × Aes.W4) =>
      let x := Aes.loadW4 c (16 * i)
      (Aes.pushW4 s.1 ((Aes.decryptW k x).xor s.2), x)) (ByteArray.emptyWithCapacity c.size, Aes.loadW4 (toBA iv) 0)
    baToList r.1
  else []

end Kit.Crypto
