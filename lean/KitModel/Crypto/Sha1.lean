/-
SHA-1 written from FIPS 180-4 §6.1 (needed only as the hash of the JOSE name `RSA-OAEP`).
Core Lean only.
-/
import KitModel.Crypto.Sha2

namespace Kit.Crypto

namespace Sha1

/-- §4.1.1 `f_t` and §4.2.1 `K_t`. -/
@[inline] def f (t : Nat) (b c d : UInt32) : UInt32 :=
  if t < 20 then (b &&& c) ^^^ (~~~b &&& d)
  else if t < 40 then b ^^^ c ^^^ d
  else if t < 60 then (b &&& c) ^^^ (b &&& d) ^^^ (c &&& d)
  else b ^^^ c ^^^ d

@[inline] def k (t : Nat) : UInt32 :=
  if t < 20 then 0x5a827999 else if t < 40 then 0x6ed9eba1 else if t < 60 then 0x8f1bbcdc else 0xca62c1d6

/-- Message schedule `W_0 … W_79` of the 64-byte block at offset `off`. -/
def schedule (m : ByteArray) (off : Nat) : Array UInt32 :=
  let w := loopN 16 (fun i (w : Array UInt32) => w.push (be32At m (off + 4 * i))) (Array.emptyWithCapacity 80)
  loopN 64 (fun j (w : Array UInt32) =>
    let t := j + 16
    w.push (rotl32 (w[t-3]! ^^^ w[t-8]! ^^^ w[t-14]! ^^^ w[t-16]!) 1)) w

structure St where
  a : UInt32
  b : UInt32
  c : UInt32
  d : UInt32
  e : UInt32

def rounds (w : Array UInt32) : Nat → Nat → UInt32 → UInt32 → UInt32 → UInt32 → UInt32 → St
  | 0, _, a, b, c, d, e => ⟨a, b, c, d, e⟩
  | n + 1, t, a, b, c, d, e =>
    let tmp := rotl32 a 5 + f t b c d + e + k t + w[t]!
    rounds w n (t + 1) tmp a (rotl32 b 30) c d

def compress (s : St) (m : ByteArray) (off : Nat) : St :=
  let w := schedule m off
  let r := rounds w 80 0 s.a s.b s.c s.d s.e
  ⟨s.a + r.a, s.b + r.b, s.c + r.c, s.d + r.d, s.e + r.e⟩

def digest (msg : Bytes) : Bytes :=
  let m := Sha256.pad msg   -- §5.1.1: the same padding as SHA-256
  let s0 : St := ⟨0x67452301, 0xefcdab89, 0x98badcfe, 0x10325476, 0xc3d2e1f0⟩
  let s := loopN (m.size / 64) (fun i s => compress s m (64 * i)) s0
  be32Bytes s.a ++ be32Bytes s.b ++ be32Bytes s.c ++ be32Bytes s.d ++ be32Bytes s.e

end Sha1

def sha1 (msg : Bytes) : Bytes := Sha1.digest msg

end Kit.Crypto
