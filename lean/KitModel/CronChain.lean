import KitModel.Generated.C05
/-
Executable model of the job wrappers of /repo/cron/chain.go as job transformers:
`SkipIfStillRunning`, `DelayIfStillRunning(WithClock)`, `Recover`.  Core Lean only.

One state describes every invocation of ONE wrapped job (`Chain.Then(j)` builds the wrapper
once; the scheduler then calls `wrapped.Run()` from a fresh goroutine per activation, so
invocations overlap whenever the inner job blocks).

* Skip:    `ch` is a 1-slot channel holding a token.  `select { case v := <-ch: j.Run(); ch <- v;
           default: logger.Info("skip") }` — the token is put back only on normal return of `j`.
* Delay:   `start := clk.Now(); mu.Lock(); defer mu.Unlock(); if clk.Since(start) > time.Minute
           { logger.Info("delay", …) }; j.Run()` — the unlock is deferred (also runs on panic).
* Recover: `defer func() { if r := recover(); r != nil { logger.Error(err, "panic", …) } }();
           j.Run()`.

T1: whether Skip puts the token back in a deferred function (`G.skipTokenDeferred`) and whether
Delay's unlock is deferred (`G.delayUnlockDeferred`) are read from the facts regenerated from
chain.go (`KitModel/Generated/C05.lean`); the rest of the shape is pinned by
`chain_source_shape_as_modelled`.

`free` is "the token is in the channel" (skip) / "the mutex is unlocked" (delay).
Times are seconds; one minute = 60.
-/
namespace Kit.CronChain

inductive Kind where
  | skip | delay | recover
  deriving DecidableEq, Repr

/-- Program counter of one invocation of the wrapper. -/
inductive IPc where
  /-- `wrapped.Run()` was called at clock `t` (delay: `start := clk.Now()`), gate not passed yet -/
  | called (t : Nat)
  /-- the inner job runs; `b` = how many inner runs began before this one -/
  | running (b : Nat)
  /-- the wrapper returned normally after running the inner job -/
  | returned
  /-- the wrapper returned without running the inner job -/
  | skipped
  /-- the wrapper was left by a panic (propagated to its caller) -/
  | panicked
  deriving DecidableEq, Repr

structure State where
  kind : Kind
  clock : Nat
  free : Bool
  invs : List IPc
  begins : Nat
  skipLogs : Nat
  delayLogs : Nat
  panicLogs : Nat
  deriving DecidableEq, Repr

def init (k : Kind) (t0 : Nat) : State :=
  { kind := k, clock := t0, free := true, invs := [], begins := 0, skipLogs := 0, delayLogs := 0,
    panicLogs := 0 }

inductive Label where
  /-- a goroutine calls `wrapped.Run()` -/
  | call
  /-- invocation `i` passes the gate (takes the token / the mutex / nothing) or is turned away -/
  | enter (i : Nat)
  /-- the inner job of invocation `i` returns (`panics = false`) or panics -/
  | finish (i : Nat) (panics : Bool)
  | advance (t : Nat)
  deriving DecidableEq, Repr

def step (s : State) : Label → Option State
  | .call => some { s with invs := s.invs ++ [.called s.clock] }
  | .enter i =>
    match s.invs[i]? with
    | some (.called t) =>
      match s.kind with
      | .skip =>
        if s.free then
          some { s with free := false, invs := s.invs.set i (.running s.begins), begins := s.begins + 1 }
        else
          some { s with invs := s.invs.set i .skipped, skipLogs := s.skipLogs + 1 }
      | .delay =>
        if s.free then
          some { s with free := false, invs := s.invs.set i (.running s.begins), begins := s.begins + 1,
                        delayLogs := s.delayLogs + (if s.clock - t > 60 then 1 else 0) }
        else none   -- blocked in mu.Lock()
      | .recover =>
        some { s with invs := s.invs.set i (.running s.begins), begins := s.begins + 1 }
    | _ => none
  | .finish i panics =>
    match s.invs[i]? with
    | some (.running _) =>
      match s.kind with
      | .skip =>
        if panics then   -- `ch <- v` after `j.Run()` is not reached; only a deferred send would be
          some { s with free := if Kit.Generated.C05.skipTokenDeferred then true else s.free,
                        invs := s.invs.set i .panicked }
        else some { s with free := true, invs := s.invs.set i .returned }
      | .delay =>
        some { s with free := if panics && !Kit.Generated.C05.delayUnlockDeferred then s.free else true,
                      invs := s.invs.set i (if panics then .panicked else .returned) }
      | .recover =>
        some { s with invs := s.invs.set i .returned,
                      panicLogs := s.panicLogs + (if panics then 1 else 0) }
    | _ => none
  | .advance t => if t < s.clock then none else some { s with clock := t }

inductive Reach : State → Prop where
  | init (k : Kind) (t0 : Nat) : Reach (init k t0)
  | step {s s' : State} (l : Label) : Reach s → step s l = some s' → Reach s'

def isRunning : IPc → Bool
  | .running _ => true
  | _ => false

/-- number of inner-job instances running right now -/
def runningCount (s : State) : Nat := s.invs.countP isRunning
def skippedCount (s : State) : Nat := s.invs.countP (· == .skipped)
def panickedCount (s : State) : Nat := s.invs.countP (· == .panicked)

/-- `Chain.Then` (chain.go:51): `for i := range c.wrappers { j = c.wrappers[len(c.wrappers)-i-1](j) }`,
i.e. the wrappers are applied from the last to the first. -/
def thenChain {J : Type} (ws : List (J → J)) (j : J) : J :=
  ws.reverse.foldl (fun acc w => w acc) j

/-! ### trace acceptor used by `kitdrv C05 chain` -/

inductive Obs where
  | call
  /-- an inner run began (it is the `b`-th, counted by the model) -/
  | begin
  /-- the harness lets the `b`-th inner run return / panic -/
  | release (b : Nat) (panics : Bool)
  /-- `wrapped.Run()` of call number `i` came back normally / by panic -/
  | ret (i : Nat) (panicked : Bool)
  | advance (t : Nat)
  /-- logger counters observed so far -/
  | logs (skip delay panic : Nat)
  /-- no further inner run begins although nothing is held back by the harness -/
  | settled
  deriving DecidableEq, Repr

def calledIdx (s : State) : List Nat :=
  (List.range s.invs.length).filter fun i => match s.invs[i]? with
    | some (.called _) => true
    | _ => false

def obsSucc (s : State) : Obs → List State
  | .call => (step s .call).toList
  | .begin => (calledIdx s).filterMap fun i =>
      match step s (.enter i) with
      | some s' => (match s'.invs[i]? with
          | some (.running _) => some s'
          | _ => none)
      | none => none
  | .release b p =>
    (List.range s.invs.length).filterMap fun i =>
      if s.invs[i]? == some (.running b) then step s (.finish i p) else none
  | .ret i p =>
    -- a call that never began its inner run came back: it must have been turned away now
    let s1 : Option State := match s.invs[i]? with
      | some (.called _) => step s (.enter i)
      | _ => some s
    match s1 with
    | some s' =>
      (match s'.invs[i]? with
       | some .returned => if p then [] else [s']
       | some .skipped => if p then [] else [s']
       | some .panicked => if p then [s'] else []
       | _ => [])
    | none => []
  | .advance t => (step s (.advance t)).toList
  | .logs a b c => if s.skipLogs == a && s.delayLogs == b && s.panicLogs == c then [s] else []
  | .settled =>
    -- every call still at the gate must really be blocked (delay with the mutex taken)
    if (calledIdx s).all (fun i => (step s (.enter i)).isNone) then [s] else []

def dedup : List State → List State
  | [] => []
  | x :: xs => if xs.contains x then dedup xs else x :: dedup xs

def acceptStep (ss : List State) (o : Obs) : List State := dedup (ss.flatMap fun s => obsSucc s o)

end Kit.CronChain
