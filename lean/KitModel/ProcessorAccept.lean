import KitModel.Processor
/-!
# Trace acceptor for the processor LTS (property C06, correspondence T2)

The harness records *observable events* of a real execution; `accepts cfg tr` decides whether the
LTS `Kit.Processor.lts cfg` can exhibit them: it keeps the set of model states compatible with the
events so far (ghost log stripped, so the set stays small), closed under the *hidden* internal
labels, and maps every event to the candidate labels that may explain it in a given state.
`kitdrv C06` only parses lines into `Obs` and prints the outcome of `simStep`.

Soundness (`KitProofs/Props/C06.lean`, `accepted_trace_has_run`): an accepted trace is the
observable projection of a real run of `step` from `init`.
-/
namespace Kit.Processor
open Kit.Queue

variable {κ ν : Type} [DecidableEq κ] [DecidableEq ν]

/-- What `process()` did inside an `Enqueue`/`Dequeue` body (reported by the hooks). -/
inductive POut where
  | spawn | reset | none
  deriving Repr, DecidableEq

/-- Observable events.  `enq … peeked/popped/stale` are raised under `p.lock` (exact order);
`exec` is stamped atomically with the clock; `park`/`unpark`/`quiet` observe the state. -/
inductive Obs (κ ν : Type) where
  | enq (k : κ) (t : Int) (v : ν) (id : Nat) (first : Bool) (out : POut)
  | deq (k : κ) (first : Bool) (out : POut)
  | adv (t : Int)
  | newtimer (dur created : Int)
  | peeked (id : Option Nat)
  | popped (id : Nat)
  | stale (id : Nat)
  | exec (id : Nat) (k : κ) (t : Int) (now : Int)
  | ret (id : Nat)
  | closecall | closeret | closeret2
  | park (p : String) (id : Option Nat)
  | unpark
  | quiet
  deriving Repr, DecidableEq

/-- Labels the harness does not log.  While the loop goroutine is held at a hook (`frozen`) only
the steps of a `Close` in progress remain. -/
def hiddenLabels (frozen : Bool) : List (Label κ ν) :=
  [.closeStopCh, .closeTake] ++
  (if frozen then [] else
    [.pollStop, .pollReset, .pollNone, .decide, .timerFire, .recvReset, .recvStop, .release])

/-- The simulation works on states without their ghost history. -/
def strip (s : State κ ν) : State κ ν := { s with log := [], readAt := 0, armAt := 0 }

def dedup (xs : List (State κ ν)) : List (State κ ν) :=
  xs.foldl (fun acc x => if acc.contains x then acc else acc ++ [x]) []

/-- One hidden step from `s` (stripped). -/
def hiddenSucc (cfg : Cfg) (frozen : Bool) (s : State κ ν) : List (State κ ν) :=
  (hiddenLabels frozen).filterMap fun l => (step cfg s l).map strip

def closureFuel (cfg : Cfg) (frozen : Bool) : Nat → List (State κ ν) → List (State κ ν) → List (State κ ν)
  | 0, seen, _ => seen
  | fuel + 1, seen, frontier =>
    let next := frontier.flatMap (hiddenSucc cfg frozen)
    let fresh := (dedup next).filter (fun s => !seen.contains s)
    if fresh.isEmpty then seen else closureFuel cfg frozen fuel (seen ++ fresh) fresh

/-- Closure of a set of states under hidden steps. -/
def closure (cfg : Cfg) (frozen : Bool) (ss : List (State κ ν)) : List (State κ ν) :=
  let ss := dedup (ss.map strip)
  closureFuel cfg frozen 64 ss ss

/-- What `process(isNext)` does in a state with that token/reset (`called` = it is called at all). -/
def outOf (tok : Token) (reset called first : Bool) : POut :=
  if !called then .none
  else match tok with
    | .free => .spawn
    | _ => if first && !reset then .reset else .none

/-- Does the program counter agree with a goroutine held at hook point `p`? -/
def parkOK (cfg : Cfg) (p : String) (id : Option Nat) (pc : Pc κ ν) : Bool :=
  let idOk (r : Item κ ν) : Bool := id == some r.id
  match p, pc with
  | "loop.peeked", .peeked r => idOk r
  | "loop.peeked", .absent => id.isNone && cfg.fixed
  | "loop.peeked", .exiting => id.isNone && !cfg.fixed
  | "loop.sawEmpty", .absent => cfg.fixed
  | "loop.sawEmpty", .exiting => !cfg.fixed
  | "loop.beforeArm", .polled r => idOk r
  | "loop.beforeTimer", .arming r => idOk r
  | "loop.parked", .armed r => idOk r
  | "loop.fired", .firing r => idOk r
  | "loop.reset", .top => true
  | "loop.exit", .exiting => true
  | "execute.popped", .popped r => idOk r
  | "cb", .running r => idOk r
  | "process.resetSent", _ => true
  | "process.tokenTaken", _ => true
  | "enqueue.afterStoppedCheck", _ => true
  | "close.afterCAS", _ => true
  | _, _ => false

/-- Candidate explanations of an event in state `s`: `some l` = the step `l` happened,
`none` = nothing happened, the event only observes `s`.  `[]` = the event is impossible in `s`. -/
def evCands (cfg : Cfg) (e : Obs κ ν) (s : State κ ν) : List (Option (Label κ ν)) :=
  match e with
  | .enq k t v id first out =>
    if s.nextId = id ∧ outOf s.token s.reset true first = out then [some (.enqueue k t v first)] else []
  | .deq k first out =>
    if outOf s.token s.reset first true = out then [some (.dequeue k first)] else []
  | .adv t => [some (.advance t)]
  | .newtimer dur created =>
    match s.pc with
    | .arming _ => if s.timer = dur ∧ s.now = created then [some .arm] else []
    | _ => []
  | .peeked (some id) => (s.q.filter (fun r => r.id = id)).map fun r => some (.peek (some r))
  | .peeked none => [some (.peek none)]
  | .popped id =>
    match s.pc with
    | .firing r => if r.id = id then [some (.execCheck (some r))] else []
    | _ => []
  | .stale id =>
    match s.pc with
    | .firing r =>
      if r.id = id then
        ((none :: s.q.map some).filter (fun hd => hd ≠ some r)).map fun hd => some (.execCheck hd)
      else []
    | _ => []
  | .exec id k t now =>
    match s.pc with
    | .popped r => if r.id = id ∧ r.key = k ∧ r.time = t ∧ s.now = now then [some .cbStart] else []
    | _ => []
  | .ret id =>
    match s.pc with
    | .running r => if r.id = id then [some .cbReturn] else []
    | _ => []
  | .closecall => [some .closeBegin]
  | .closeret => [some .closeReturn]
  | .closeret2 => [some .closeAgain]
  | .park p id => if (parkPoints.contains p || p == "cb") && parkOK cfg p id s.pc then [none] else []
  | .unpark => [none]
  | .quiet => if (taus cfg s).isEmpty then [none] else []

/-- Successor states of `s` under the event (stripped). -/
def evSucc (cfg : Cfg) (e : Obs κ ν) (s : State κ ν) : List (State κ ν) :=
  (evCands cfg e s).filterMap fun c =>
    match c with
    | some l => (step cfg s l).map strip
    | none => some s

/-- Does this park hold the goroutine that the model still regards as the loop? -/
def freezes (cfg : Cfg) (p : String) (id : Option Nat) : Bool :=
  match p with
  | "loop.sawEmpty" => !cfg.fixed
  | "process.resetSent" => false
  | "process.tokenTaken" => false
  | "enqueue.afterStoppedCheck" => false
  | "close.afterCAS" => false
  | "loop.peeked" => id.isSome || !cfg.fixed
  | _ => true

/-- Whether the loop is frozen after the event. -/
def nextFrozen (cfg : Cfg) (frozen : Bool) : Obs κ ν → Bool
  | .park p id => freezes cfg p id
  | .unpark => false
  | _ => frozen

/-- The simulation state: compatible model states and whether the loop goroutine is held. -/
structure Sim (κ ν : Type) where
  states : List (State κ ν)
  frozen : Bool

def simInit (cfg : Cfg) : Sim κ ν := { states := closure cfg false [init], frozen := false }

def simStep (cfg : Cfg) (sim : Sim κ ν) (e : Obs κ ν) : Sim κ ν :=
  let fr := nextFrozen cfg sim.frozen e
  { states := closure cfg fr (sim.states.flatMap (evSucc cfg e)), frozen := fr }

def simRun (cfg : Cfg) (sim : Sim κ ν) (tr : List (Obs κ ν)) : Sim κ ν := tr.foldl (simStep cfg) sim

/-- The trace is accepted: some model state is compatible with all of it. -/
def accepts (cfg : Cfg) (tr : List (Obs κ ν)) : Bool := !(simRun cfg (simInit cfg) tr).states.isEmpty

end Kit.Processor
