import KitModel.NoPanic
/-!
C07 — a small semantics of the `reflect` operations dapr/kit calls, with their documented panic
conditions, and call-by-call models of the reflection prefixes of `config.decodeString`,
`metadata.DecodeMetadata`, `metadata.resolveAliases` / `resolveAliasesInType`, plus the tiny
"guard ⇒ site in range" models of a few crypto sites.
-/
namespace Kit.NoPanic.Reflect
open Kit Kit.NoPanic

inductive K where
  | invalid | bool | int | float | string | ptr | iface | map | slice | struct | func | chan | array | other
  deriving Repr, DecidableEq

/-- kinds whose values can be nil -/
inductive NK where
  | ptr | iface | map | slice | func | chan
  deriving Repr, DecidableEq

def NK.kind : NK → K
  | .ptr => .ptr | .iface => .iface | .map => .map | .slice => .slice | .func => .func | .chan => .chan

def nilable : K → Bool
  | .ptr | .iface | .map | .slice | .func | .chan => true
  | _ => false

/-- kinds of the values that are neither pointers nor interfaces -/
inductive LK where
  | bool | int | float | string | map | slice | struct | func | chan | array | other
  deriving Repr, DecidableEq

def LK.kind : LK → K
  | .bool => .bool | .int => .int | .float => .float | .string => .string | .map => .map | .slice => .slice
  | .struct => .struct | .func => .func | .chan => .chan | .array => .array | .other => .other

/-- run-time values as `reflect.Value` presents them -/
inductive RV where
  | zero                    -- the zero reflect.Value (IsValid() == false)
  | nilOf (k : NK)          -- a nil pointer / interface / map / slice / func / chan
  | ptrTo (v : RV)          -- a non-nil pointer
  | ifaceOf (v : RV)        -- an interface-typed location holding a (non-interface) value
  | leaf (k : LK)           -- any other non-nil value of kind `k`
  deriving Repr

def RV.kind : RV → K
  | .zero => .invalid
  | .nilOf k => k.kind
  | .ptrTo _ => .ptr
  | .ifaceOf _ => .iface
  | .leaf k => k.kind

def RV.isValid : RV → Bool
  | .zero => false
  | _ => true

def RV.depth : RV → Nat
  | .ptrTo v => v.depth + 1
  | .ifaceOf v => v.depth + 1
  | _ => 0

/-- `Value.Elem()`: "It panics if the type's Kind is not Interface or Pointer"; nil → zero Value. -/
def rElem : RV → Outcome RV
  | .ptrTo v => .ok v
  | .ifaceOf v => .ok v
  | .nilOf .ptr => .ok .zero
  | .nilOf .iface => .ok .zero
  | _ => .panic "reflect: call of reflect.Value.Elem on a Value that is neither Interface nor Pointer"

/-- `Value.IsNil()`: "The argument must be a chan, func, interface, map, pointer, or slice value" -/
def rIsNil : RV → Outcome Bool
  | .nilOf _ => .ok true
  | .ptrTo _ => .ok false
  | .ifaceOf _ => .ok false
  | .leaf k => if nilable k.kind then .ok false else .panic "reflect: call of reflect.Value.IsNil on a non-nilable Value"
  | .zero => .panic "reflect: call of reflect.Value.IsNil on zero Value"

/-- `Value.Interface()` on an exported path -/
def rInterface : RV → Outcome Unit
  | .zero => .panic "reflect: call of reflect.Value.Interface on zero Value"
  | _ => .ok ()

/-! ### `config.decodeString`: the pointer prefix, call by call -/

/-- `for inner.Kind() == reflect.Interface && !inner.IsNil() { inner = inner.Elem() }` -/
def unwrapIface : Nat → RV → Outcome RV
  | 0, v =>
    if v.kind = .iface then (rIsNil v).bind fun n => if n then .ok v else .panic "loop bound exceeded" else .ok v
  | fuel + 1, v =>
    if v.kind = .iface then
      (rIsNil v).bind fun n => if n then .ok v else (rElem v).bind fun v' => unwrapIface fuel v'
    else .ok v

/-- `some ()` = the hook goes on with the dereferenced value, `none` = `return data, nil`. -/
def decodePtrPrefix (data : RV) : Outcome (Option Unit) :=
  (rElem data).bind fun elem =>                      -- elem := reflect.ValueOf(data).Elem()
    (unwrapIface elem.depth elem).bind fun inner =>
      if !inner.isValid then .ok none
      else if inner.kind = .iface ∨ inner.kind = .ptr then
        (rIsNil inner).bind fun n =>
          if n then .ok none else (rInterface elem).bind fun _ => .ok (some ())
      else (rInterface elem).bind fun _ => .ok (some ())   -- data = elem.Interface()

/-- the code as found: `data = reflect.ValueOf(data).Elem().Interface()`; the value it yields is
then given to mapstructure, which calls `.Type()` on `reflect.ValueOf(nil)` when it is nil. -/
def decodePtrPrefixOld (data : RV) : Outcome Unit :=
  (rElem data).bind fun elem =>
    (rInterface elem).bind fun _ =>
      match elem with
      | .nilOf _ => .panic "reflect: call of reflect.Value.Type on zero Value (in mapstructure)"
      | .ifaceOf (.nilOf _) => .panic "reflect: call of reflect.Value.Type on zero Value (in mapstructure)"
      | _ => .ok ()

/-! ### `metadata.DecodeMetadata`: the struct branch, call by call -/

structure PropsField where
  found : Bool             -- Type().FieldByName("Properties")
  viaNilEmbeddedPtr : Bool -- the index path crosses a nil embedded pointer
  kind : K
  canInterface : Bool      -- not obtained through an unexported field
  isMapStringString : Bool -- the comma-ok assertion

/-- `Value.Type()` -/
def vType (k : K) : Outcome Unit :=
  if k = .invalid then .panic "reflect: call of reflect.Value.Type on zero Value" else .ok ()
/-- `Type.FieldByName` / `Value.FieldByIndexErr`: "It panics if the type's Kind is not Struct" -/
def needStruct (k : K) : Outcome Unit :=
  if k = .struct then .ok () else .panic "reflect: call on a non-struct"
/-- `Value.Interface()` with `CanInterface` -/
def vInterface (valid can : Bool) : Outcome Unit :=
  if valid && can then .ok () else .panic "reflect.Value.Interface: cannot return value"

def decodeMetadataStruct (inputKind : K) (p : PropsField) : Outcome Unit :=
  if inputKind = .struct then
    (vType inputKind).bind fun _ =>
      (needStruct inputKind).bind fun _ =>             -- Type().FieldByName
        if p.found then
          (needStruct inputKind).bind fun _ =>         -- FieldByIndexErr
            let errNil := p.viaNilEmbeddedPtr
            if !errNil && p.kind = .map && p.canInterface then
              (vInterface (!errNil) p.canInterface).bind fun _ => .ok ()
            else .ok ()
        else .ok ()
  else .ok ()

/-! ### `metadata.resolveAliases` / `resolveAliasesInType` on types -/

/-- non-nil `reflect.Type`s, as far as these functions look -/
inductive RT where
  | ptr (elem : RT)
  | struct (fields : List (Bool × RT))   -- (has tag `mapstructure:",squash"`, field type)
  | other
  deriving Repr

def RT.kind : RT → K
  | .ptr _ => .ptr
  | .struct _ => .struct
  | .other => .other

/-- `t.Kind()` where `t` may be the nil `reflect.Type` (`reflect.TypeOf(nil)`) -/
def tKind : Option RT → Outcome K
  | none => .panic "nil pointer dereference (method call on a nil reflect.Type)"
  | some t => .ok t.kind

/-- `t.Kind()`, `t.Implements(u)`, `reflect.PtrTo(t)`, `reflect.New(t)`: the calls on a `reflect.Type`
that panic exactly for the nil Type -/
def typeCall (t : Option RT) : Outcome Unit := (tKind t).bind fun _ => .ok ()

/-- the type calls of a decode hook `func(f, t reflect.Type, data any)`: mapstructure passes
`from.Type()` and `to.Type()` of valid Values, which are never nil -/
def hookTypeCalls (f t : Option RT) : Outcome Unit :=
  (typeCall t).bind fun _ => (typeCall f).bind fun _ => (typeCall f).bind fun _ => (typeCall t).bind fun _ =>
    (typeCall t).bind fun _ => typeCall t

/-- `t.Elem()`: "It panics if the type's Kind is not Array, Chan, Map, Pointer, or Slice" -/
def tElem : RT → Outcome RT
  | .ptr e => .ok e
  | _ => .panic "reflect: Elem of invalid type"

mutual
/-- `resolveAliasesInType`: `t.NumField()`, `t.Field(i)` for `i < NumField`, recursion on squash fields -/
def aliasesInType : RT → Outcome Unit
  | .struct fields => aliasesFields fields
  | _ => .panic "reflect: NumField of non-struct type"
def aliasesFields : List (Bool × RT) → Outcome Unit
  | [] => .ok ()
  | (squash, ft) :: rest =>
    if squash then (aliasesInType ft).bind fun _ => aliasesFields rest else aliasesFields rest
end

def resolveAliases (dup : Bool) (t : Option RT) : Outcome Unit :=
  if dup then .err "duplicate key"
  else
    (tKind t).bind fun k =>
      if k ≠ .ptr then (tKind t).bind fun _ => .err "not a pointer"
      else match t with
        | none => .panic "unreachable"
        | some t0 =>
          (tElem t0).bind fun t1 =>
            (tKind (some t1)).bind fun k1 =>
              (if k1 = .ptr then tElem t1 else .ok t1).bind fun t2 =>
                (tKind (some t2)).bind fun k2 =>
                  if k2 ≠ .struct then (tKind (some t2)).bind fun _ => .err "not a struct"
                  else aliasesInType t2

mutual
/-- every `,squash` field is struct-typed, recursively (what mapstructure itself requires) -/
def RT.squashOK : RT → Bool
  | .struct fields => fieldsOK fields
  | _ => true
def fieldsOK : List (Bool × RT) → Bool
  | [] => true
  | (squash, ft) :: rest =>
    (if squash then (match ft with | .struct _ => ft.squashOK | _ => false) else true) && fieldsOK rest
end

/-! ### tiny "guard ⇒ in range" models of crypto sites -/

/-- `NewAESCBCAEAD`: `p.key[0:p.macKeySize]`, `p.key[len(p.key)-p.encKeySize:]` after `len(p.key) != l` -/
def newAESCBCAEAD (keyLen enc mac : Nat) : Outcome Unit :=
  if keyLen ≠ enc + mac then .err "key must be l bytes long"
  else (sliceChk keyLen 0 mac).bind fun _ => sliceChk keyLen ((keyLen : Int) - enc) keyLen

/-- the `dst` growth of `Seal`/`Open`: `if cap(dst) >= dstLen+size { dst = dst[:dstLen+size] } else { make }; out := dst[dstLen:]` -/
def growDst (cap dstLen size : Nat) : Outcome Nat :=
  (if cap ≥ dstLen + size then (sliceChk cap 0 (dstLen + size : Nat)).bind fun _ => .ok (dstLen + size)
   else makeChk (dstLen + size : Nat)).bind fun n => (sliceChk n dstLen n).bind fun _ => .ok n

/-- `verifyPublicKeyEdDSA` after fix 2829ef0; `ed25519.Verify` panics unless the key has 32 bytes -/
def verifyEd25519 (rawOK : Bool) (keyLen : Nat) : Outcome Unit :=
  if !rawOK || keyLen ≠ 32 then .err "ErrKeyTypeMismatch"
  else if keyLen ≠ 32 then .panic "ed25519: bad public key length" else .ok ()

end Kit.NoPanic.Reflect
