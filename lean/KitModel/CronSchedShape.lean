/-
The source text the model `KitModel/CronSched.lean` was written against: the canonical listing
(gofmt, comments and logger calls removed, as (depth, line)) of every function of cron/cron.go the
model covers, with the model label that covers it.  `KitProofs.Props.C05.source_shape_as_modelled`
states that the listings regenerated from the working tree (`KitModel/Generated/C05.lean`) are
these, and that every derived fact has the value the model assumes.  Core Lean only.
-/
namespace Kit.CronSched.Shape

/-- `run` — start-up (`now := c.now()`, every `Next := Schedule.Next(now)`) = label `boot`;
top of the outer loop (sort, no timer when empty / head zero, else
`NewTimer(entries[0].Next.Sub(now))`) = label `arm` (`sortBT`, `armTimer`); the `select`:
`now = <-timerCh` + wake-up loop = label `wake` (`wakeLoop`: break at the first entry with
`Next.After(now) || Next.IsZero()`, else startJob, `Prev = Next`, `Next = Schedule.Next(now)`);
`<-c.add` = label `add` (rendezvous) then `refresh (some …)` (`now = c.now()`, Next, append);
`<-c.snapshot` = label `snapshot` (reply, `continue`: no re-arm, `now` untouched);
`<-c.stop` = label `stop` (timer stopped/drained, `return`: pc := off);
`<-c.remove` = label `remove` (rendezvous) then `refresh none` (`now = c.now()`);
after the select the timer is stopped and drained (leaving `parked` discards the timer), `break`
= back to `arm`.  The two verifhook points are the harness's quiescence markers. -/
def run : List (Nat × String) := [
  (0, "func (c *Cron) run() {"),
  (1, "now := c.now()"),
  (1, "for _, entry := range c.entries {"),
  (2, "entry.Next = entry.Schedule.Next(now)"),
  (1, "}"),
  (1, "for {"),
  (2, "sort.Sort(byTime(c.entries))"),
  (2, "var ("),
  (3, "timer clock.Timer"),
  (3, "timerCh <-chan time.Time"),
  (2, ")"),
  (2, "if len(c.entries) == 0 || c.entries[0].Next.IsZero() {"),
  (3, "timerCh = make(chan time.Time)"),
  (2, "} else {"),
  (3, "timer = c.clk.NewTimer(c.entries[0].Next.Sub(now))"),
  (3, "timerCh = timer.C()"),
  (2, "}"),
  (2, "for {"),
  (3, "verifhook.Point(\"cron.run.armed\", timer != nil)"),
  (3, "select {"),
  (3, "case now = <-timerCh:"),
  (4, "timer = nil"),
  (4, "now = now.In(c.location)"),
  (4, "for _, e := range c.entries {"),
  (5, "if e.Next.After(now) || e.Next.IsZero() {"),
  (6, "break"),
  (5, "}"),
  (5, "c.startJob(e.WrappedJob)"),
  (5, "e.Prev = e.Next"),
  (5, "e.Next = e.Schedule.Next(now)"),
  (4, "}"),
  (4, "verifhook.Point(\"cron.run.woke\", now)"),
  (3, "case newEntry := <-c.add:"),
  (4, "now = c.now()"),
  (4, "newEntry.Next = newEntry.Schedule.Next(now)"),
  (4, "c.entries = append(c.entries, newEntry)"),
  (3, "case replyChan := <-c.snapshot:"),
  (4, "replyChan <- c.entrySnapshot()"),
  (4, "continue"),
  (3, "case <-c.stop:"),
  (4, "if timer != nil && !timer.Stop() {"),
  (5, "<-timer.C()"),
  (4, "}"),
  (4, "return"),
  (3, "case id := <-c.remove:"),
  (4, "now = c.now()"),
  (4, "c.removeEntry(id)"),
  (3, "}"),
  (3, "if timer != nil && !timer.Stop() {"),
  (4, "<-timer.C()"),
  (4, "timer = nil"),
  (3, "}"),
  (3, "break"),
  (2, "}"),
  (1, "}"),
  (0, "}")
]

/-- `startJob` — `jobWaiter.Add(1)` synchronously in the loop (the job is in `jobs`, state `launched`, as part of `wake`), the goroutine runs the job (`jobBegin`) and `Done` is deferred (`jobDone`). -/
def startJob : List (Nat × String) := [
  (0, "func (c *Cron) startJob(j Job) {"),
  (1, "c.jobWaiter.Add(1)"),
  (1, "go func() {"),
  (2, "defer c.jobWaiter.Done()"),
  (2, "j.Run()"),
  (1, "}()"),
  (0, "}")
]

/-- `Stop` — under `runningMu`; if running: rendezvous on `c.stop`, then `running = false` (label `stop`, one atomic step); the context is cancelled by a goroutine after `jobWaiter.Wait()` (`ctxs`: `created` → `ctxWait` → `waiting`/`done`). -/
def Stop : List (Nat × String) := [
  (0, "func (c *Cron) Stop() context.Context {"),
  (1, "c.runningMu.Lock()"),
  (1, "defer c.runningMu.Unlock()"),
  (1, "if c.running {"),
  (2, "c.stop <- struct{}{}"),
  (2, "c.running = false"),
  (1, "}"),
  (1, "ctx, cancel := context.WithCancel(context.Background())"),
  (1, "go func() {"),
  (2, "c.jobWaiter.Wait()"),
  (2, "cancel()"),
  (1, "}()"),
  (1, "return ctx"),
  (0, "}")
]

/-- `Schedule` — under `runningMu`; `nextID++`; not running: append (Next zero); running: rendezvous on `c.add` (label `add`). -/
def Schedule : List (Nat × String) := [
  (0, "func (c *Cron) Schedule(schedule Schedule, cmd Job) EntryID {"),
  (1, "c.runningMu.Lock()"),
  (1, "defer c.runningMu.Unlock()"),
  (1, "c.nextID++"),
  (1, "entry := &Entry{"),
  (2, "ID: c.nextID,"),
  (2, "Schedule: schedule,"),
  (2, "WrappedJob: c.chain.Then(cmd),"),
  (2, "Job: cmd,"),
  (1, "}"),
  (1, "if !c.running {"),
  (2, "c.entries = append(c.entries, entry)"),
  (1, "} else {"),
  (2, "c.add <- entry"),
  (1, "}"),
  (1, "return entry.ID"),
  (0, "}")
]

/-- `Remove` — under `runningMu`; running: rendezvous on `c.remove`; else `removeEntry` (label `remove`). -/
def Remove : List (Nat × String) := [
  (0, "func (c *Cron) Remove(id EntryID) {"),
  (1, "c.runningMu.Lock()"),
  (1, "defer c.runningMu.Unlock()"),
  (1, "if c.running {"),
  (2, "c.remove <- id"),
  (1, "} else {"),
  (2, "c.removeEntry(id)"),
  (1, "}"),
  (0, "}")
]

/-- `Entries` — under `runningMu`; running: ask the loop (label `snapshot`, enabled only while parked); else copy directly. -/
def Entries : List (Nat × String) := [
  (0, "func (c *Cron) Entries() []Entry {"),
  (1, "c.runningMu.Lock()"),
  (1, "defer c.runningMu.Unlock()"),
  (1, "if c.running {"),
  (2, "replyChan := make(chan []Entry, 1)"),
  (2, "c.snapshot <- replyChan"),
  (2, "return <-replyChan"),
  (1, "}"),
  (1, "return c.entrySnapshot()"),
  (0, "}")
]

/-- `Start` — under `runningMu`; no-op when running; else `running = true; go c.run()` (label `start`: pc := boot). -/
def Start : List (Nat × String) := [
  (0, "func (c *Cron) Start() {"),
  (1, "c.runningMu.Lock()"),
  (1, "defer c.runningMu.Unlock()"),
  (1, "if c.running {"),
  (2, "return"),
  (1, "}"),
  (1, "c.running = true"),
  (1, "go c.run()"),
  (0, "}")
]

/-- `Run` — same as `Start` but runs the loop in the caller (not exercised separately). -/
def Run : List (Nat × String) := [
  (0, "func (c *Cron) Run() {"),
  (1, "c.runningMu.Lock()"),
  (1, "if c.running {"),
  (2, "c.runningMu.Unlock()"),
  (2, "return"),
  (1, "}"),
  (1, "c.running = true"),
  (1, "c.runningMu.Unlock()"),
  (1, "c.run()"),
  (0, "}")
]

/-- `now()` — the injected clock (location does not change the instant). -/
def nowFn : List (Nat × String) := [
  (0, "func (c *Cron) now() time.Time {"),
  (1, "return c.clk.Now().In(c.location)"),
  (0, "}")
]

/-- `removeEntry` — filter by id (`entries.filter (·.id ≠ id)`). -/
def removeEntry : List (Nat × String) := [
  (0, "func (c *Cron) removeEntry(id EntryID) {"),
  (1, "var entries []*Entry"),
  (1, "for _, e := range c.entries {"),
  (2, "if e.ID != id {"),
  (3, "entries = append(entries, e)"),
  (2, "}"),
  (1, "}"),
  (1, "c.entries = entries"),
  (0, "}")
]

/-- `entrySnapshot` — copy of the entries in slice order (`snapshotOf`). -/
def entrySnapshot : List (Nat × String) := [
  (0, "func (c *Cron) entrySnapshot() []Entry {"),
  (1, "entries := make([]Entry, len(c.entries))"),
  (1, "for i, e := range c.entries {"),
  (2, "entries[i] = *e"),
  (1, "}"),
  (1, "return entries"),
  (0, "}")
]

/-- `byTime.Less` — zero sorts last (`less`). -/
def Less : List (Nat × String) := [
  (0, "func (s byTime) Less(i, j int) bool {"),
  (1, "if s[i].Next.IsZero() {"),
  (2, "return false"),
  (1, "}"),
  (1, "if s[j].Next.IsZero() {"),
  (2, "return true"),
  (1, "}"),
  (1, "return s[i].Next.Before(s[j].Next)"),
  (0, "}")
]

/-- job waiter `Add` (`jobs` grows). -/
def waiterAdd : List (Nat × String) := [
  (0, "func (w *jobWaiter) Add(delta int) {"),
  (1, "w.mu.Lock()"),
  (1, "w.n += delta"),
  (1, "w.mu.Unlock()"),
  (0, "}")
]

/-- job waiter `Done` — when the count reaches zero every waiter is released at that moment (`jobDone`: `releaseWaiting` when `jobs` becomes empty). -/
def waiterDone : List (Nat × String) := [
  (0, "func (w *jobWaiter) Done() {"),
  (1, "w.mu.Lock()"),
  (1, "w.n--"),
  (1, "if w.n == 0 {"),
  (2, "for _, ch := range w.waiters {"),
  (3, "close(ch)"),
  (2, "}"),
  (2, "w.waiters = nil"),
  (1, "}"),
  (1, "w.mu.Unlock()"),
  (0, "}")
]

/-- job waiter `Wait` — returns at once when the count is zero, else registers and blocks (`ctxWait`: `done` if `jobs` is empty else `waiting`). -/
def waiterWait : List (Nat × String) := [
  (0, "func (w *jobWaiter) Wait() {"),
  (1, "w.mu.Lock()"),
  (1, "if w.n == 0 {"),
  (2, "w.mu.Unlock()"),
  (2, "return"),
  (1, "}"),
  (1, "ch := make(chan struct{})"),
  (1, "w.waiters = append(w.waiters, ch)"),
  (1, "w.mu.Unlock()"),
  (1, "<-ch"),
  (0, "}")
]

/-- `Chain.Then` — wrappers applied from the last to the first (`Kit.CronChain.thenChain`). -/
def chainThen : List (Nat × String) := [
  (0, "func (c Chain) Then(j Job) Job {"),
  (1, "for i := range c.wrappers {"),
  (2, "j = c.wrappers[len(c.wrappers)-i-1](j)"),
  (1, "}"),
  (1, "return j"),
  (0, "}")
]

/-- `Recover` — deferred `recover()`; a panic is logged with `logger.Error(err, "panic", …)` and swallowed (`Kind.recover`: `finish i true` → `returned`, `panicLogs + 1`). -/
def chainRecover : List (Nat × String) := [
  (0, "func Recover(logger Logger) JobWrapper {"),
  (1, "return func(j Job) Job {"),
  (2, "return FuncJob(func() {"),
  (3, "defer func() {"),
  (4, "if r := recover(); r != nil {"),
  (5, "const size = 64 << 10"),
  (5, "buf := make([]byte, size)"),
  (5, "buf = buf[:runtime.Stack(buf, false)]"),
  (5, "err, ok := r.(error)"),
  (5, "if !ok {"),
  (6, "err = fmt.Errorf(\"%v\", r)"),
  (5, "}"),
  (5, "logger.Error(err, \"panic\", \"stack\", \"...\\n\"+string(buf))"),
  (4, "}"),
  (3, "}()"),
  (3, "j.Run()"),
  (2, "})"),
  (1, "}"),
  (0, "}")
]

/-- `DelayIfStillRunningWithClock` — `start := clk.Now()` (`called t`), `mu.Lock()` (`enter` enabled only while `free`), deferred unlock (`finish` frees also on panic), "delay" logged iff `clk.Since(start) > time.Minute` (`clock - t > 60`). -/
def chainDelay : List (Nat × String) := [
  (0, "func DelayIfStillRunningWithClock(logger Logger, clk clock.Clock) JobWrapper {"),
  (1, "return func(j Job) Job {"),
  (2, "var mu sync.Mutex"),
  (2, "return FuncJob(func() {"),
  (3, "start := clk.Now()"),
  (3, "mu.Lock()"),
  (3, "defer mu.Unlock()"),
  (3, "if dur := clk.Since(start); dur > time.Minute {"),
  (4, "logger.Info(\"delay\", \"duration\", dur)"),
  (3, "}"),
  (3, "j.Run()"),
  (2, "})"),
  (1, "}"),
  (0, "}")
]

/-- `SkipIfStillRunning` — 1-slot channel with one token; `select` with default: token taken → run, then `ch <- v` (not deferred: lost on panic); no token → `logger.Info("skip")`. -/
def chainSkip : List (Nat × String) := [
  (0, "func SkipIfStillRunning(logger Logger) JobWrapper {"),
  (1, "return func(j Job) Job {"),
  (2, "ch := make(chan struct{}, 1)"),
  (2, "ch <- struct{}{}"),
  (2, "return FuncJob(func() {"),
  (3, "select {"),
  (3, "case v := <-ch:"),
  (4, "j.Run()"),
  (4, "ch <- v"),
  (3, "default:"),
  (4, "logger.Info(\"skip\")"),
  (3, "}"),
  (2, "})"),
  (1, "}"),
  (0, "}")
]

end Kit.CronSched.Shape
