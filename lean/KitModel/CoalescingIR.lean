/-
A small statement language for the arithmetic / guard blocks of `events/ratelimiting/coalescing.go`.
`harness/cmd/factgen_c09` translates the source blocks into terms of this language
(`KitModel/Generated/C09.lean`); `KitModel/Coalescing.lean` *runs* those terms, so the model's guards
and assignments are the ones the source has now.  Core Lean only.
-/
namespace Kit.Coalescing

/-! ### float64(int64) for non-negative values -/

/-- `float64(n)` (IEEE-754 binary64, round to nearest, ties to even) of an integer `0 ≤ n`,
given again as an integer (every binary64 value ≥ 2^52 is an integer). -/
def f64OfNat (n : Nat) : Nat :=
  if n < 2 ^ 53 then n
  else
    let sh := n.log2 - 52
    let q := n / 2 ^ sh
    let r := n % 2 ^ sh
    let half := 2 ^ (sh - 1)
    let q' := if half < r ∨ (r = half ∧ q % 2 = 1) then q + 1 else q
    q' * 2 ^ sh

/-- 2^63: first value that does not fit `int64`/`time.Duration`/`int`. -/
def int64Lim : Nat := 2 ^ 63

structure Config where
  /-- `initialDelay` in ns (> 0 enforced by `NewCoalescing`). -/
  initial : Nat
  /-- `maxDelay` in ns (≥ initial enforced by `NewCoalescing`). -/
  max : Nat
  /-- `MaxPendingEvents` (`none` = unset; > 0 enforced by `NewCoalescing`). -/
  cap : Option Nat
  deriving Repr, DecidableEq, BEq, Hashable

namespace IR

/-- Operands: fields of `coalescing` and integer literals. -/
inductive Var where
  | pending          -- c.pendingEvents
  | cur              -- c.currentDur
  | factor           -- c.backoffFactor
  | initial          -- c.initialDelay
  | max              -- c.maxDelay
  | cap              -- *c.maxPendingEvents
  | lit (n : Nat)
  deriving Repr, DecidableEq

inductive Cmp where
  | lt | le | gt | ge | eq | ne
  deriving Repr, DecidableEq

structure Guard where
  op : Cmp
  l : Var
  r : Var
  deriving Repr, DecidableEq

/-- Right-hand sides. -/
inductive Rhs where
  | var (v : Var)                      -- `x = v`
  | mulLit (v : Var) (k : Nat)         -- `v * k`        (from `v *= k`)
  | addLit (v : Var) (k : Nat)         -- `v + k`        (from `v++`)
  | durOfFloatProduct (a b : Var)      -- `time.Duration(float64(a) * float64(b))`
  deriving Repr, DecidableEq

inductive Stmt where
  | assign (x : Var) (e : Rhs)
  | ifThen (g : Guard) (body : List Stmt)
  deriving Repr

/-- The mutable fields the blocks touch, plus "left the int64 range". -/
structure Env where
  pending : Nat
  cur : Nat
  factor : Nat
  ovf : Bool := false
  deriving Repr, DecidableEq

def Var.eval (cfg : Config) (e : Env) : Var → Nat
  | .pending => e.pending
  | .cur => e.cur
  | .factor => e.factor
  | .initial => cfg.initial
  | .max => cfg.max
  | .cap => cfg.cap.getD 0
  | .lit n => n

def Cmp.eval : Cmp → Nat → Nat → Bool
  | .lt, a, b => decide (a < b)
  | .le, a, b => decide (a ≤ b)
  | .gt, a, b => decide (b < a)
  | .ge, a, b => decide (b ≤ a)
  | .eq, a, b => decide (a = b)
  | .ne, a, b => decide (a ≠ b)

def Guard.eval (cfg : Config) (e : Env) (g : Guard) : Bool :=
  g.op.eval (g.l.eval cfg e) (g.r.eval cfg e)

/-- Value and "does not fit int64". `durOfFloatProduct a b` is exact when `b` is a power of two
(the only use: `b = backoffFactor`) and the product is below 2^63. -/
def Rhs.eval (cfg : Config) (e : Env) : Rhs → Nat × Bool
  | .var v => (v.eval cfg e, false)
  | .mulLit v k => let x := v.eval cfg e * k; (x, decide (int64Lim ≤ x))
  | .addLit v k => (v.eval cfg e + k, false)   -- counters (`pendingEvents++`): 2^63 increments are out of reach
  | .durOfFloatProduct a b =>
    let x := f64OfNat (a.eval cfg e) * b.eval cfg e
    (x, decide (int64Lim ≤ x))

/-- Assignment to a field; assigning to anything else (config fields, literals) is not a shape the
translator emits and is a no-op here. -/
def Env.set (e : Env) (x : Var) (v : Nat × Bool) : Env :=
  match x with
  | .pending => { e with pending := v.1, ovf := e.ovf || v.2 }
  | .cur => { e with cur := v.1, ovf := e.ovf || v.2 }
  | .factor => { e with factor := v.1, ovf := e.ovf || v.2 }
  | _ => e

mutual
def Stmt.exec (cfg : Config) : Stmt → Env → Env
  | .assign x rhs, e => e.set x (rhs.eval cfg e)
  | .ifThen g body, e => if g.eval cfg e then Stmt.execList cfg body e else e
def Stmt.execList (cfg : Config) : List Stmt → Env → Env
  | [], e => e
  | s :: ss, e => Stmt.execList cfg ss (Stmt.exec cfg s e)
end

end IR
end Kit.Coalescing
