import KitModel.SpiffeTA
import KitModel.Generated.C19
/-!
Reads the statement order back out of the trust-bundle-source LTS (`Kit.Spiffe.TA.step`) by running
it, in the vocabulary of the generated facts about `trustanchors/file.go`
(`Kit.Generated.C19.TSync`), and normalises the source facts to the same vocabulary
(`KitProofs.Props.C19TA.ta_source_shape_as_modelled`).  Core Lean only.
-/
namespace Kit.Spiffe.TA.Shape
open Kit.Generated.C19

/-- What one transition of the Run goroutine did (`deferCloseClosed` = the deferred
`close(closeCh)` running). -/
def runEffects (s t : St) : List TSync :=
  (if !s.running && t.running then [.cas] else []) ++
  (if !s.wPend && t.wPend then [.lock] else []) ++
  (if s.bundle != t.bundle then [.setBundle] else []) ++
  (if s.wHeld && !t.wHeld then [.unlock] else []) ++
  (if !s.ready && t.ready then [.closeReady] else []) ++
  (if !s.closed && t.closed then [.deferCloseClosed] else [])

def walkRun : Nat → St → List TSync
  | 0, _ => []
  | n + 1, s =>
    match step s .run with
    | some t => runEffects s t ++ walkRun n t
    | none => []

/-- `Run` when the file holds a good bundle / garbage; the end of `Run` from the reload loop; a reload. -/
def modelRunOk : List TSync := walkRun 30 { run := .called, file := .ver 1 }
def modelRunGarbage : List TSync := walkRun 30 { run := .called, file := .garbage }
def loopState : St := { running := true, ready := true, bundle := some 1, file := .ver 1, run := .loop }
def modelStop : List TSync :=
  match step loopState .stop with
  | some t => walkRun 30 t
  | none => []
def modelReload : List TSync :=
  match step loopState (.fileWrite (.ver 2)) with
  | some t => walkRun 30 t
  | none => []

/-- A reader: what its select waits for (probed), then its statements. -/
def consEffects (pc : ConsPc) : List TSync × Option ConsPc :=
  let mk (ready closed wPend : Bool) : St :=
    { ready := ready, closed := closed, wPend := wPend, bundle := some 7, readers := 5, cons := [pc] }
  match pc with
  | .bCall _ =>
    let byReady := (step (mk true false false) (.cons 0)).isSome && (step (mk false false false) (.cons 0)).isNone
    let byClosed := (step (mk false true false) (.consClosed 0)).isSome && (step (mk false false false) (.consClosed 0)).isNone
    let byCtx := (step (mk false false false) (.ctxDone 0)).isSome
    let noLock := (step (mk true false true) (.cons 0)).isSome          -- the select does not need the lock
    (if byReady && byClosed && noLock then [if byCtx then .selectCtxClosedOrReady else .selectClosedOrReady] else [],
     (step (mk true false false) (.cons 0)).bind (·.cons[0]?))
  | _ =>
    match step (mk true false false) (.cons 0) with
    | none => ([], none)
    | some t =>
      let needsLock := (step (mk true false true) (.cons 0)).isNone
      let next := t.cons[0]?
      ((if needsLock ∧ 5 < t.readers then [.rlock] else []) ++
       (if !(mk true false false).wPend && t.wPend then [.lock] else []) ++
       (if next = some (.bUnlock (some 7)) then [.readBundle] else []) ++
       (if t.readers < 5 then [.deferRUnlock] else []) ++
       (if (mk true false false).wHeld && !t.wHeld then [.unlock] else []), next)

def walkCons : Nat → ConsPc → List TSync
  | 0, _ => []
  | n + 1, pc =>
    match consEffects pc with
    | (effs, some pc') => effs ++ walkCons n pc'
    | (effs, none) => effs

def modelGet (ctx : Bool) : List TSync := walkCons 10 (.bCall ctx)

/-- `Watch` registering: announce, acquire (readers = 0 in the probe), unlock. -/
def modelWatch : List TSync :=
  let s0 : St := { cons := [.sCall] }
  match step s0 (.cons 0) with
  | none => []
  | some s1 =>
    match step s1 (.cons 0) with
    | none => []
    | some s2 =>
      match step s2 (.cons 0) with
      | none => []
      | some s3 =>
        (if !s0.wPend && s1.wPend then [.lock] else []) ++ (if s2.wHeld && !s3.wHeld then [.unlock] else [])

/-! ### from the source facts -/

def isSync : TSync → Bool
  | .cas | .lock | .unlock | .setBundle | .closeReady | .rlock | .readBundle
  | .selectClosedOrReady | .selectCtxClosedOrReady => true
  | _ => false

/-- `updateAnchors` when everything succeeds / when decoding fails: the deferred `Unlock` runs last. -/
def updOk : List TSync := (taUpdate.filter isSync) ++ (if taUpdate.contains .deferUnlock then [.unlock] else [])
def updErr : List TSync :=
  ((taUpdate.takeWhile (· != .setPem)).filter isSync) ++ (if taUpdate.contains .deferUnlock then [.unlock] else [])

/-- `Run` with `updateOrRet` expanded. -/
def expandRun (upd : List TSync) (l : List TSync) : List TSync :=
  l.flatMap fun x => if x == .updateOrRet then upd else if isSync x then [x] else []

def srcRunOk : List TSync := expandRun updOk (taRun.takeWhile (· != .runWatcherAndReloadLoop))
def srcRunGarbage : List TSync :=
  expandRun updErr (taRun.takeWhile (· != .newWatcher)) ++ (if taRun.contains .deferCloseClosed then [.deferCloseClosed] else [])

/-- A deferred `RUnlock` runs at the return. -/
def resolveDefer (body : List TSync) : List TSync :=
  body.filter isSync ++ (if body.contains .deferRUnlock then [.deferRUnlock] else [])

/-- `a` occurs before `b`. -/
def before (a b : TSync) (l : List TSync) : Bool :=
  match l.idxOf? a, l.idxOf? b with
  | some i, some j => i < j
  | _, _ => false

/-- In the model the Run goroutine waits for the subscribers (`uNotify`) while it holds the write
lock, and cannot pass while a subscriber is stalled. -/
def modelNotifiesUnderLock : Bool :=
  let s : St := { running := true, wHeld := true, bundle := some 1, file := .ver 1, run := .uNotify false }
  (step s .run).isSome && (step { s with subBlocked := true } .run).isNone &&
  (match step { s with run := .uSet false 1 } .run with | some t => t.run == .uNotify false && t.wHeld | none => false)

def follows (a b : TSync) : List TSync → Bool
  | x :: y :: rest => (x == a && y == b) || follows a b (y :: rest)
  | _ => false

end Kit.Spiffe.TA.Shape
