/-! Vocabulary of the facts `factgen_c15` extracts from ttlcache.go (hand-written, fixed):
comparison operators as data, with their meaning on integers. `KitModel/Generated/C15.lean`
(regenerated from the source on every run) instantiates them; the model is written over those. -/
namespace Kit.TTLCache.Src

inductive Cmp where
  | lt | le | gt | ge | eq | ne
  deriving DecidableEq, Repr

/-- `c.rel a b` : `a c b`. -/
@[reducible] def Cmp.rel : Cmp → Int → Int → Prop
  | .lt, a, b => a < b
  | .le, a, b => a ≤ b
  | .gt, a, b => b < a
  | .ge, a, b => b ≤ a
  | .eq, a, b => a = b
  | .ne, a, b => a ≠ b

instance (c : Cmp) (a b : Int) : Decidable (c.rel a b) := by
  cases c <;> simp only [Cmp.rel] <;> infer_instance

end Kit.TTLCache.Src
