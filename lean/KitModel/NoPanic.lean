import KitModel.Go.Prelude
/-!
C07 — shared primitives for the "cannot panic" models.

Every Go operation that can panic is a function into `Kit.Outcome`; a model written with these
primitives panics exactly where the Go code would.  Indices are `Nat` where the Go value is
provably non-negative (only incremented from 0) and `Int` where a subtraction could go negative.
Loops carry a fuel argument; running out of fuel is reported as a panic ("loop bound exceeded"),
so the theorem `¬ isPanic` also gives the iteration bound.
-/
namespace Kit.NoPanic
open Kit

/-- `s[i]` -/
def idx (s : Bytes) (i : Nat) : Outcome UInt8 :=
  if h : i < s.length then .ok s[i] else .panic "index out of range"

/-- `s[lo:hi]` -/
def slice (s : Bytes) (lo hi : Nat) : Outcome Bytes :=
  if lo ≤ hi ∧ hi ≤ s.length then .ok ((s.drop lo).take (hi - lo)) else .panic "slice bounds out of range"

/-- `s[i]` with a possibly negative Go `int` index -/
def idxI (n : Nat) (i : Int) : Outcome Unit :=
  if 0 ≤ i ∧ i < n then .ok () else .panic "index out of range"

/-- `x[lo:hi]` on a slice of length/capacity `n`, only the bounds check -/
def sliceChk (n : Nat) (lo hi : Int) : Outcome Unit :=
  if 0 ≤ lo ∧ lo ≤ hi ∧ hi ≤ n then .ok () else .panic "slice bounds out of range"

/-- `make([]T, n)` -/
def makeChk (n : Int) : Outcome Nat :=
  if 0 ≤ n then .ok n.toNat else .panic "makeslice: len out of range"

def errFmt {α : Type} (msg : String) : Outcome α := .err msg

theorem idx_ok {s : Bytes} {i : Nat} (h : i < s.length) : idx s i = .ok s[i] := by
  simp [idx, h]

theorem slice_ok {s : Bytes} {lo hi : Nat} (h1 : lo ≤ hi) (h2 : hi ≤ s.length) :
    slice s lo hi = .ok ((s.drop lo).take (hi - lo)) := by
  simp [slice, h1, h2]

@[simp] theorem isPanic_ok {α} (a : α) : (Outcome.ok a).isPanic = false := rfl
@[simp] theorem isPanic_err {α} (e : String) : (Outcome.err e : Outcome α).isPanic = false := rfl
@[simp] theorem isPanic_panic {α} (e : String) : (Outcome.panic e : Outcome α).isPanic = true := rfl
@[simp] theorem bind_ok {α β} (a : α) (f : α → Outcome β) : (Outcome.ok a).bind f = f a := rfl
@[simp] theorem bind_err {α β} (e : String) (f : α → Outcome β) : (Outcome.err e).bind f = .err e := rfl
@[simp] theorem bind_panic {α β} (e : String) (f : α → Outcome β) : (Outcome.panic e).bind f = .panic e := rfl

/-- `strconv.Atoi` on a 64-bit platform: optional sign, one or more decimal digits, value in int64. -/
def digitsVal : List UInt8 → Nat → Option Nat
  | [], acc => some acc
  | c :: cs, acc => if 48 ≤ c.toNat ∧ c.toNat ≤ 57 then digitsVal cs (acc * 10 + (c.toNat - 48)) else none

def atoi (s : Bytes) : Option Int :=
  match s with
  | [] => none
  | c :: rest =>
    let (neg, ds) := if c == 45 then (true, rest) else if c == 43 then (false, rest) else (false, s)
    match ds with
    | [] => none
    | _ =>
      match digitsVal ds 0 with
      | none => none
      | some v =>
        if neg then (if v ≤ 9223372036854775808 then some (-(v : Int)) else none)
        else (if v ≤ 9223372036854775807 then some (v : Int) else none)

/-- two's-complement wrap of a Go `int`/`int64`/`time.Duration` result -/
def wrap64 (x : Int) : Int := (x + 9223372036854775808) % 18446744073709551616 - 9223372036854775808

end Kit.NoPanic
