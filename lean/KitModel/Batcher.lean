import KitModel.Processor
/-!
# Model of `events/batcher/batcher.go` (property C10): a labelled transition system

The batcher is the **composition** of the C06 processor LTS (`KitModel/Processor.lean`, the loop
after its `fix:` commit) with the batcher's own state:

* `p`       — the state of `b.queue`, a `queue.Processor`; the batcher drives it through the
              processor's own `step` (label `.proc l`), so every reachable batcher state projects to
              a reachable processor state and the C06 theorems apply to `s.p` unchanged;
* `subs`    — every subscriber ever accepted, index = `id` (`currentID` = `subs.length`; never
              shrinks; `eventChs` = the subscribers whose forwarder is not `done`, in this order).
              Per subscriber: the `cap`-slot buffered channel (`buf`, FIFO, oldest first), the
              forwarder's program counter (with the value in its hand), the list already handed to
              the user channel, `ctx` ended?, exit channel closed? (repaired code only), ghost
              `joinedAt`, `missed`;
* `epc`     — `execute`, the processor's callback: waiting for `b.lock`, or holding it with the
              index of the next subscriber of the fan-out.  **`b.lock` is held exactly while
              `epc = sending …`**: every other critical section (`subscribe`, the forwarder's
              removal, `Close`'s section) is one atomic step that requires `lockFree`;
* `closed`  — `b.closed` and `closeCh` (set/closed together under the lock);
* `bc`      — program counter of the `Close` call (`queue.Close()` is tracked by `p.cpc`);
* `waitS/retS` — `Subscribe` calls waiting for the lock / finished, return not yet observed;
* ghost `out` (items fanned out, oldest first) and `calls` (item id ↦ clock value of its `Batch`).

`Batch(key, value)` is the processor's `enqueue key (now + interval) value` (same key replaces =
debounce).  Environment actions: `Batch`, clock advance, `Subscribe` call, `cancel i` (a
subscriber's context ends), `fwdDeliver i` (the reader of subscriber `i` takes the value the
forwarder holds), `Close` call.  Everything else is internal.

`Cfg.fixed = false` is the fan-out as found (select on the buffer and `closeCh` only; the forwarder
just takes the lock on exit); `fixed = true` is the repaired code: a per-subscriber exit channel,
closed by the forwarder *before* it takes the lock and selected by `execute`.
-/
namespace Kit.Batcher
open Kit.Queue Kit.Processor

deriving instance Hashable for Kit.Queue.Item
deriving instance Hashable for Kit.Processor.Token
deriving instance Hashable for Kit.Processor.Pc
deriving instance Hashable for Kit.Processor.ClosePc
deriving instance Hashable for Kit.Processor.Event
deriving instance Hashable for Kit.Processor.State

abbrev It := Item Nat Nat
abbrev PState := Processor.State Nat Nat
abbrev PLabel := Processor.Label Nat Nat

/-- The repaired processor loop (C06). -/
abbrev pcfg : Processor.Cfg := ⟨true⟩

structure Cfg where
  /-- `true`: the fan-out after the `fix:` commit. -/
  fixed : Bool
  /-- capacity of the per-subscriber buffered channel (`make(chan T, 50)`) -/
  cap : Nat
  /-- the batching interval, nanoseconds -/
  interval : Int
  deriving Repr, DecidableEq

/-- Program counter of a subscriber's forwarder goroutine. -/
inductive FPc where
  | idle                 -- in the outer select
  | holding (x : It)     -- took `x` from the buffer; in the inner select
  | exiting              -- left the loop; the deferred function has not started
  | wantLock             -- (repaired: exit channel closed;) waiting for `b.lock`
  | done                 -- user channel closed, removed from `eventChs`, `wg.Done()`
  deriving Repr, DecidableEq, Hashable

structure Sub where
  buf : List It
  pc : FPc
  delivered : List It
  ctxDone : Bool
  exitClosed : Bool
  joinedAt : Nat
  missed : Bool
  deriving Repr, DecidableEq, Hashable

def Sub.new (joinedAt : Nat) : Sub :=
  { buf := [], pc := .idle, delivered := [], ctxDone := false, exitClosed := false,
    joinedAt := joinedAt, missed := false }

/-- Still in `eventChs`. -/
def Sub.inList (u : Sub) : Bool := u.pc != .done

def Sub.hand (u : Sub) : List It :=
  match u.pc with
  | .holding x => [x]
  | _ => []

/-- Everything pushed to this subscriber and not dropped, oldest first. -/
def Sub.seq (u : Sub) : List It := u.delivered ++ u.hand ++ u.buf

/-- `execute` (the processor callback). -/
inductive EPc where
  | idle
  | waiting (r : It)              -- called; about to `b.lock.Lock()`
  | sending (r : It) (i : Nat)    -- lock held; next subscriber of the fan-out is `subs[i]`
  deriving Repr, DecidableEq, Hashable

/-- The `Close` call. -/
inductive CPc where
  | idle        -- not called
  | inQueue     -- inside `b.queue.Close()`
  | waiting     -- closeCh closed; in `b.wg.Wait()`
  | returned
  deriving Repr, DecidableEq, Hashable

structure State where
  p : PState
  subs : List Sub
  epc : EPc
  closed : Bool
  bc : CPc
  waitS : Nat
  retS : Nat
  out : List It
  calls : List (Nat × Int)
  deriving Repr, DecidableEq, Hashable

inductive Label where
  | proc (l : PLabel)
  | execLock | send | skipExit | skipClose | skipGone
  | subCall | subAcquire | subReturn
  | cancel (i : Nat)
  | fwdTake (i : Nat) | fwdDeliver (i : Nat) | fwdDropCtx (i : Nat) | fwdDropClose (i : Nat)
  | fwdExitCtx (i : Nat) | fwdExitClose (i : Nat) | fwdCloseExit (i : Nat) | fwdRemove (i : Nat)
  | closeCall | closeLock | closeReturn
  deriving Repr, DecidableEq

def init : State :=
  { p := Processor.init, subs := [], epc := .idle, closed := false, bc := .idle,
    waitS := 0, retS := 0, out := [], calls := [] }

/-- `b.lock` is free. -/
def lockFree (s : State) : Bool :=
  match s.epc with
  | .sending _ _ => false
  | _ => true

def allDone (s : State) : Bool := s.subs.all (fun u => u.pc == .done)

def setSub (s : State) (i : Nat) (u : Sub) : State := { s with subs := s.subs.set i u }

/-! ### the processor part -/

/-- Steps of `b.queue`.  The batcher never calls `Dequeue`; `Enqueue` is only called by `Batch`
with `now + interval`; `Close` of the queue is only entered through `closeCall`; the callback is
`execute`: it starts at `cbStart` and the loop continues (`cbReturn`) when the fan-out is over and
the lock released. -/
def procStep (cfg : Cfg) (s : State) (l : PLabel) : Option State :=
  match l with
  | .dequeue _ _ => none
  | .closeBegin => none
  | .enqueue k t v first =>
    if t = s.p.now + cfg.interval then
      (Processor.step pcfg s.p (.enqueue k t v first)).map fun p' =>
        { s with p := p', calls := (s.p.nextId, s.p.now) :: s.calls }
    else none
  | .cbStart =>
    match s.p.pc with
    | .popped r => (Processor.step pcfg s.p .cbStart).map fun p' => { s with p := p', epc := .waiting r }
    | _ => none
  | .cbReturn =>
    match s.epc with
    | .sending _ i =>
      if s.subs.length ≤ i then
        (Processor.step pcfg s.p .cbReturn).map fun p' => { s with p := p', epc := .idle }
      else none
    | _ => none
  | l => (Processor.step pcfg s.p l).map fun p' => { s with p := p' }

/-! ### `execute` -/

def execLock (s : State) : Option State :=
  match s.epc with
  | .waiting r =>
    if s.closed then some { s with epc := .sending r s.subs.length }
    else some { s with epc := .sending r 0, out := s.out ++ [r] }
  | _ => none

def send (cfg : Cfg) (s : State) : Option State :=
  match s.epc with
  | .sending r i =>
    match s.subs[i]? with
    | some u =>
      if u.inList ∧ u.buf.length < cfg.cap then
        some { s with subs := s.subs.set i { u with buf := u.buf ++ [r] }, epc := .sending r (i + 1) }
      else none
    | none => none
  | _ => none

def skipExit (s : State) : Option State :=
  match s.epc with
  | .sending r i =>
    match s.subs[i]? with
    | some u =>
      if u.inList ∧ u.exitClosed then
        some { s with subs := s.subs.set i { u with missed := true }, epc := .sending r (i + 1) }
      else none
    | none => none
  | _ => none

def skipClose (s : State) : Option State :=
  match s.epc with
  | .sending r i =>
    match s.subs[i]? with
    | some u =>
      if u.inList ∧ s.closed then
        some { s with subs := s.subs.set i { u with missed := true }, epc := .sending r (i + 1) }
      else none
    | none => none
  | _ => none

def skipGone (s : State) : Option State :=
  match s.epc with
  | .sending r i =>
    match s.subs[i]? with
    | some u =>
      if u.inList = false then
        some { s with subs := s.subs.set i { u with missed := true }, epc := .sending r (i + 1) }
      else none
    | none => none
  | _ => none

/-! ### `Subscribe` -/

def subCall (s : State) : Option State := some { s with waitS := s.waitS + 1 }

def subAcquire (s : State) : Option State :=
  if 0 < s.waitS ∧ lockFree s then
    if s.closed then some { s with waitS := s.waitS - 1, retS := s.retS + 1 }
    else some { s with waitS := s.waitS - 1, retS := s.retS + 1, subs := s.subs ++ [Sub.new s.out.length] }
  else none

def subReturn (s : State) : Option State :=
  if 0 < s.retS then some { s with retS := s.retS - 1 } else none

/-! ### subscribers -/

def cancel (s : State) (i : Nat) : Option State :=
  match s.subs[i]? with
  | some u => some (setSub s i { u with ctxDone := true })
  | none => none

def fwdTake (s : State) (i : Nat) : Option State :=
  match s.subs[i]? with
  | some u =>
    match u.pc, u.buf with
    | .idle, x :: rest => some (setSub s i { u with pc := .holding x, buf := rest })
    | _, _ => none
  | none => none

def fwdDeliver (s : State) (i : Nat) : Option State :=
  match s.subs[i]? with
  | some u =>
    match u.pc with
    | .holding x => some (setSub s i { u with pc := .idle, delivered := u.delivered ++ [x] })
    | _ => none
  | none => none

def fwdDropCtx (s : State) (i : Nat) : Option State :=
  match s.subs[i]? with
  | some u =>
    match u.pc with
    | .holding _ => if u.ctxDone then some (setSub s i { u with pc := .idle, missed := true }) else none
    | _ => none
  | none => none

def fwdDropClose (s : State) (i : Nat) : Option State :=
  match s.subs[i]? with
  | some u =>
    match u.pc with
    | .holding _ => if s.closed then some (setSub s i { u with pc := .idle, missed := true }) else none
    | _ => none
  | none => none

def fwdExitCtx (s : State) (i : Nat) : Option State :=
  match s.subs[i]? with
  | some u =>
    match u.pc with
    | .idle => if u.ctxDone then some (setSub s i { u with pc := .exiting }) else none
    | _ => none
  | none => none

def fwdExitClose (s : State) (i : Nat) : Option State :=
  match s.subs[i]? with
  | some u =>
    match u.pc with
    | .idle => if s.closed then some (setSub s i { u with pc := .exiting }) else none
    | _ => none
  | none => none

/-- The start of the deferred function: the repaired code closes the exit channel here. -/
def fwdCloseExit (cfg : Cfg) (s : State) (i : Nat) : Option State :=
  match s.subs[i]? with
  | some u =>
    match u.pc with
    | .exiting => some (setSub s i { u with pc := .wantLock, exitClosed := cfg.fixed })
    | _ => none
  | none => none

/-- `lock; close(ch); remove from eventChs; unlock; wg.Done()`. -/
def fwdRemove (s : State) (i : Nat) : Option State :=
  match s.subs[i]? with
  | some u =>
    match u.pc with
    | .wantLock => if lockFree s then some (setSub s i { u with pc := .done }) else none
    | _ => none
  | none => none

/-! ### `Close` -/

def closeCall (s : State) : Option State :=
  match s.bc with
  | .idle => (Processor.step pcfg s.p .closeBegin).map fun p' => { s with p := p', bc := .inQueue }
  | _ => none

def closeLock (s : State) : Option State :=
  match s.bc with
  | .inQueue =>
    if s.p.cpc = .returned ∧ lockFree s then some { s with closed := true, bc := .waiting } else none
  | _ => none

def closeReturn (s : State) : Option State :=
  match s.bc with
  | .waiting => if allDone s then some { s with bc := .returned } else none
  | _ => none

def step (cfg : Cfg) (s : State) : Label → Option State
  | .proc l => procStep cfg s l
  | .execLock => execLock s
  | .send => send cfg s
  | .skipExit => skipExit s
  | .skipClose => skipClose s
  | .skipGone => skipGone s
  | .subCall => subCall s
  | .subAcquire => subAcquire s
  | .subReturn => subReturn s
  | .cancel i => cancel s i
  | .fwdTake i => fwdTake s i
  | .fwdDeliver i => fwdDeliver s i
  | .fwdDropCtx i => fwdDropCtx s i
  | .fwdDropClose i => fwdDropClose s i
  | .fwdExitCtx i => fwdExitCtx s i
  | .fwdExitClose i => fwdExitClose s i
  | .fwdCloseExit i => fwdCloseExit cfg s i
  | .fwdRemove i => fwdRemove s i
  | .closeCall => closeCall s
  | .closeLock => closeLock s
  | .closeReturn => closeReturn s

/-- The transition system of one batcher. -/
def lts (cfg : Cfg) : LTS State Label := { init := init, step := step cfg }

/-- Internal labels: everything except the environment's `Batch`, clock advance, `Subscribe`
call/return, `cancel`, a reader taking a value (`fwdDeliver`), and the `Close` call. -/
def Label.isInternal : Label → Bool
  | .proc l => l.isInternal
  | .subCall | .subReturn | .cancel _ | .fwdDeliver _ | .closeCall => false
  | _ => true

/-- Candidate internal labels in `s`. -/
def tauCandidates (s : State) : List Label :=
  (Processor.tauCandidates s.p).map .proc ++
  [.execLock, .send, .skipExit, .skipClose, .skipGone, .subAcquire, .closeLock, .closeReturn] ++
  (List.range s.subs.length).flatMap fun i =>
    [.fwdTake i, .fwdDropCtx i, .fwdDropClose i, .fwdExitCtx i, .fwdExitClose i, .fwdCloseExit i, .fwdRemove i]

/-- Enabled internal labels. -/
def taus (cfg : Cfg) (s : State) : List Label :=
  (tauCandidates s).filter (fun l => (step cfg s l).isSome)

/-- Run a list of labels. -/
def runFrom (cfg : Cfg) (s : State) : List Label → Option State
  | [] => some s
  | a :: as => (step cfg s a).bind fun s' => runFrom cfg s' as

/-- The pending part of subscriber `i`'s sequence: the item being fanned out, not yet at `i`. -/
def pend (s : State) (i : Nat) : List It :=
  match s.epc with
  | .sending r j => if j ≤ i then [r] else []
  | _ => []

end Kit.Batcher
