import KitModel.Go.Prelude
import KitModel.Generated.C12
/-!
# Model of `concurrency.RunnerManager` and `concurrency.RunnerCloserManager` (property C12)

Two labelled transition systems (core Lean only; executed by `kitdrv C12`).

## `RM` — `runner.go`

```go
func (r *RunnerManager) Add(runner ...Runner) error {          -- `addCall k` (caller arrives)
    r.lock.Lock(); defer r.lock.Unlock()                        -- `addDo k`: one atomic section
    if r.running.Load() { return ErrManagerAlreadyStarted }    --   (G.addChecksRunningUnderLock)
    r.runners = append(r.runners, runner...); return nil }     -- `addRet ok` (the call returns)
func (r *RunnerManager) Run(ctx context.Context) error {       -- `runCall` (caller arrives)
    r.lock.Lock()                                               -- `runCas` / `runRejected`: one atomic
    if !r.running.CompareAndSwap(false, true) { r.lock.Unlock(); return ErrManagerAlreadyStarted }
    runners := r.runners; r.lock.Unlock()                       --   section (G.runCasAndSnapshotUnderLock)
    ctx, cancel := context.WithCancel(ctx); defer cancel()
    errCh := make(chan error)
    for _, runner := range runners { go func(runner Runner) {   -- `spawn` (one per iteration)
        defer cancel()                                            -- `cancelBy i` (after the send!)
        rErr := runner(ctx)                                       -- `start i` … `ctxDone i` … `ret i v`
        if rErr != nil && !errors.Is(rErr, context.Canceled) { errCh <- rErr; return }
        errCh <- nil }(runner) }                                  -- `deliver i` (rendez-vous with the collector)
    errObjs := make([]error, 0)
    for i := 0; i < len(runners); i++ { err := <-errCh; if err != nil { errObjs = append(errObjs, err) } }
    return errors.Join(errObjs...) }                              -- `runRet` (+ deferred cancel)
```

Runner bodies are the environment: once started a runner may return any value at any time
(`ret i v`), and may observe `ctx.Done()` (`ctxDone i`) only when the context really is cancelled.
The harness behaviours (return nil / error / Canceled at once, or only after `ctx.Done()`) are
particular environments, so every theorem covers them all.

`G` = `Kit.Generated.C12`, the facts `factgen_c12` re-extracts from the source on every run: the
guards and constants below that the source determines are *those definitions* (the `running` test
and the snapshot of the runners are made under the lock — otherwise `addDo` is not an atomic step
and the model refuses it; the deferred `cancel()` calls; the `Canceled` filter; the bounds of the
collection loop).  `RMRacy` at the end of this file is the code before the `fix:` commit, where
`Add` tested `running` before taking the lock and `Run` read `r.runners` unlocked.

## `RCM` — `closer.go`
see the comment at `RCM.step`.
-/
namespace Kit.Runner

namespace G
export Kit.Generated.C12 (addChecksRunningUnderLock runCasAndSnapshotUnderLock runDefersCancel
  goroutineDefersCancel filterDropsCanceled collectStart collectBoundPlus collectBoundMinus
  addCloserRechecksClosingUnderLock acceptedCloserShapes closeRunnerMinRunners closerLoopStart
  closerLoopBoundPlus closeFatalAtPlus)
end G

/-- What a runner returns: `nil`, a real error (identified by a number) or something that
`errors.Is(_, context.Canceled)`. -/
inductive Ret where
  | nil
  | err (e : Nat)
  | canceled
  deriving DecidableEq, Repr, Hashable

/-- Identity under which `context.Canceled` shows up in a joined error. -/
def canceledId : Nat := 999

/-- The error that survives the filter `rErr != nil && !errors.Is(rErr, context.Canceled)`. -/
def Ret.real : Ret → Option Nat
  | .err e => some e
  | .canceled => if G.filterDropsCanceled then none else some canceledId
  | .nil => none

/-- Program counter of the goroutine `Run` spawns for one runner. -/
inductive RPc where
  | idle                    -- registered, body not entered yet
  | started                 -- inside `runner(ctx)`
  | returned (v : Ret)      -- body returned `v`; blocked on `errCh <-`
  | delivered (v : Ret)     -- collector received it; deferred `cancel()` not yet run
  | done (v : Ret)          -- goroutine finished (deferred `cancel()` has run)
  deriving DecidableEq, Repr, Hashable

def RPc.isDelivered : RPc → Bool
  | .delivered _ | .done _ => true
  | _ => false

/-- The real error this goroutine has handed to the collector (if any). -/
def RPc.deliveredReal : RPc → Option Nat
  | .delivered v | .done v => v.real
  | _ => none

def RPc.isDone : RPc → Bool
  | .done _ => true
  | _ => false

inductive RunPc where
  | idle | active | finished
  deriving DecidableEq, Repr, Hashable

structure RM where
  pcs : List RPc := []            -- r.runners (one goroutine pc per registered runner)
  running : Bool := false         -- r.running
  pend : Nat := 0                 -- Run callers that have not done their CAS yet
  addPend : List Nat := []        -- Add(k runners) callers waiting for the lock
  addOk : Nat := 0                -- Add callers that registered their runners and have not returned yet
  addRej : Nat := 0               -- Add callers that found `running` set and have not returned yet
  runPc : RunPc := .idle          -- the Run call that won the CAS
  spawned : Nat := 0              -- loop index of the `go func` loop
  collected : Nat := 0            -- loop index of the collection loop
  errs : List Nat := []           -- errObjs, in arrival order
  result : Option (List Nat) := none  -- errors.Join(errObjs...) as returned by Run
  parentCancelled : Bool := false -- the ctx passed to Run
  cancelCalled : Bool := false    -- cancel() of the derived ctx
  deriving DecidableEq, Repr, Hashable

/-- `ctx.Done()` of the derived context is closed. -/
def RM.cancelled (s : RM) : Bool := s.parentCancelled || s.cancelCalled

inductive RLabel where
  | addCall (k : Nat)           -- a goroutine calls Add(k runners)
  | addDo (k : Nat)             -- its locked section: test `running`, append
  | addRet (ok : Bool)          -- an Add call returns nil (`ok`) / ErrManagerAlreadyStarted
  | runCall                     -- a goroutine calls Run
  | runCas                      -- its CompareAndSwap succeeds
  | runRejected                 -- its CompareAndSwap fails: returns ErrManagerAlreadyStarted
  | spawn                       -- one iteration of the `go func` loop
  | start (i : Nat)             -- runner i's body is entered
  | ctxDone (i : Nat)           -- runner i's body observes ctx.Done()
  | ret (i : Nat) (v : Ret)     -- runner i's body returns v
  | deliver (i : Nat)           -- `errCh <- …` of goroutine i meets `<-errCh` of the collector
  | cancelBy (i : Nat)          -- deferred cancel() of goroutine i
  | runRet                      -- Run returns errors.Join(errObjs...) (and its deferred cancel())
  | parentCancel                -- the caller's ctx is cancelled
  deriving DecidableEq, Repr, Hashable

/-- `Add` and the start of `Run` exclude each other (both facts come from the source). -/
def addAtomic : Bool := G.addChecksRunningUnderLock && G.runCasAndSnapshotUnderLock

/-- Number of results the collection loop receives for `n` runners:
`for i := collectStart; i < n + collectBoundPlus - collectBoundMinus; i++`. -/
def collectTarget (n : Nat) : Nat := n + G.collectBoundPlus - G.collectBoundMinus - G.collectStart

def RM.step (s : RM) : RLabel → Option RM
  | .addCall k => some { s with addPend := s.addPend ++ [k] }
  | .addDo k =>
    if addAtomic = true ∧ k ∈ s.addPend then
      if s.running then some { s with addPend := s.addPend.erase k, addRej := s.addRej + 1 }
      else some { s with addPend := s.addPend.erase k, addOk := s.addOk + 1
                         pcs := s.pcs ++ List.replicate k .idle }
    else none
  | .addRet ok =>
    if ok then (if s.addOk > 0 then some { s with addOk := s.addOk - 1 } else none)
    else (if s.addRej > 0 then some { s with addRej := s.addRej - 1 } else none)
  | .runCall => some { s with pend := s.pend + 1 }
  | .runCas =>
    if s.pend > 0 ∧ s.running = false then
      some { s with pend := s.pend - 1, running := true, runPc := .active }
    else none
  | .runRejected =>
    if s.pend > 0 ∧ s.running = true then some { s with pend := s.pend - 1 } else none
  | .spawn =>
    if s.runPc = .active ∧ s.spawned < s.pcs.length then some { s with spawned := s.spawned + 1 }
    else none
  | .start i =>
    if i < s.spawned ∧ s.pcs[i]? = some .idle then some { s with pcs := s.pcs.set i .started }
    else none
  | .ctxDone i =>
    if s.pcs[i]? = some .started ∧ s.cancelled = true then some s else none
  | .ret i v =>
    if s.pcs[i]? = some .started then some { s with pcs := s.pcs.set i (.returned v) } else none
  | .deliver i =>
    match s.pcs[i]? with
    | some (.returned v) =>
      if s.runPc = .active ∧ s.spawned = s.pcs.length then
        some { s with pcs := s.pcs.set i (.delivered v)
                      collected := s.collected + 1
                      errs := match v.real with
                        | some e => s.errs ++ [e]
                        | none => s.errs }
      else none
    | _ => none
  | .cancelBy i =>
    match s.pcs[i]? with
    | some (.delivered v) =>
      some { s with pcs := s.pcs.set i (.done v), cancelCalled := G.goroutineDefersCancel || s.cancelCalled }
    | _ => none
  | .runRet =>
    if s.runPc = .active ∧ s.spawned = s.pcs.length ∧ s.collected = collectTarget s.pcs.length then
      some { s with runPc := .finished, result := some s.errs
                    cancelCalled := G.runDefersCancel || s.cancelCalled }
    else none
  | .parentCancel => some { s with parentCancelled := true }

/-- Internal (unobserved) labels that may be enabled in `s`. -/
def RM.taus (s : RM) : List RLabel :=
  [.runCas, .spawn] ++ s.addPend.eraseDups.map (fun k => .addDo k)
  ++ (List.range s.pcs.length).flatMap (fun i => [.deliver i, .cancelBy i])

inductive RM.Reach : RM → Prop where
  | init : RM.Reach {}
  | step {s s' : RM} (a : RLabel) : RM.Reach s → s.step a = some s' → RM.Reach s'

/-- Reflexive-transitive closure of the step relation. -/
inductive RM.Steps : RM → RM → Prop where
  | refl (s : RM) : RM.Steps s s
  | tail {s t u : RM} (a : RLabel) : RM.Steps s t → t.step a = some u → RM.Steps s u

/-!
## `RCM` — `closer.go`

```go
func (c *RunnerCloserManager) Add(runner ...Runner) error {       -- `addCall k`
    if c.running.Load() { return ErrManagerAlreadyStarted }       -- `addOuterCheck k` (→ `addRetRejOuter`)
    return c.mngr.Add(runner...) }                                -- `inner (addDo k)`, `inner (addRet ok)`
func (c *RunnerCloserManager) AddCloser(closers ...any) error {   -- `acCall`
    if c.closing.Load() { return ErrManagerAlreadyClosed }        -- `acCheck` (passes) / `acRejectEarly`
    c.mngr.lock.Lock(); defer c.mngr.lock.Unlock()                -- needs the lock Run holds while closing
    if c.closing.Load() { return ErrManagerAlreadyClosed }        -- `acRejectLate`  (only if cfg.recheck: the
    … c.closers = append(c.closers, …) … }                        -- `acAppend`       line added by the fix);
                                                                  -- `acRetOk` = the call returns nil
func (c *RunnerCloserManager) Run(ctx context.Context) error {    -- `runCall`
    if !c.running.CompareAndSwap(false, true) { return ErrManagerAlreadyStarted }  -- `runCas` / `runRejected`
    defer close(c.stopped)
    if len(c.mngr.runners) > 0 { c.mngr.Add(func(ctx) error { select { case <-ctx.Done(): case <-c.closeCh: }; return nil }) }
                                                                  -- `prepare` (the extra runner has index closeIdx)
    errCh := make(chan error, len(c.closers))
    go func() { errCh <- c.mngr.Run(ctx) }()                      -- `launch`; then `inner _` steps of RM
    rErr := <-errCh                                               -- `gotInner`
    c.mngr.lock.Lock(); defer c.mngr.lock.Unlock(); c.closing.Store(true)   -- `lockClosing`
    errs := make([]error, len(c.closers)+1); errs[0] = rErr
    for _, closer := range c.closers { go func(closer func() error) { errCh <- closer() }(closer) }
                                                                  -- `cspawn`; `cstart j`, `cret j v`; fatal closer: `farm` …
    for i := 1; i < len(c.closers)+1; i++ {
        if i == len(c.closers) { close(c.closeFatalShutdown) }    -- `closeFatal`
        errs[i] = <-errCh }                                       -- `ccollect j` / `fcollect`
    c.retErr = errors.Join(errs...); return c.retErr }            -- `finish` (retErr, unlock, close(stopped)); `runRet`
func (c *RunnerCloserManager) Close() error {                     -- `closeCall`
    if c.closed.CompareAndSwap(false, true) { close(c.closeCh) }  -- `closeS1`
    if c.running.CompareAndSwap(false, true) { close(c.stopped) } -- `closeS2`
    c.WaitUntilShutdown(); return c.retErr }                      -- `closeRet`
// the closer registered by NewRunnerCloserManager when gracePeriod != nil (it is c.closers[0]):
func() { t := c.clock.NewTimer(*gracePeriod); defer t.Stop()      -- `farm`
         select { case <-t.C(): c.fatalShutdownFn()               -- `fenterFire` | parked + `tick` ⇒ willFire; `ffire`
                  case <-c.closeFatalShutdown: } }                -- `fenterStop` | parked + `closeFatal` ⇒ ready
```

`select` semantics: a goroutine that reaches the `select` with several cases ready picks any of them
(`fenterFire` / `fenterStop` both enabled); one that finds none ready parks (`fpark`) and is then
committed by the *first* of the two events (timer expiry = `tick`, `close` = `closeFatal`).
Any number of `Run`, `Close`, `AddCloser` callers: anonymous counters per program point.
-/

/-- A closer returns nil (`none`) or an error (`some e`); nothing is filtered. -/
abbrev CRet := Option Nat

inductive CPc where
  | idle | started
  | returned (v : CRet)
  | collected (v : CRet)
  deriving DecidableEq, Repr, Hashable

def CPc.isCollected : CPc → Bool
  | .collected _ => true
  | _ => false

def CPc.collectedErr : CPc → Option Nat
  | .collected v => v
  | _ => none

def CPc.hasReturned : CPc → Bool
  | .returned _ | .collected _ => true
  | _ => false

/-- The fatal-shutdown closer. -/
inductive FPc where
  | idle                 -- not started (or no grace period configured)
  | armed (dl : Nat)     -- timer created, deadline dl; `select` not reached yet
  | parked (dl : Nat)    -- blocked in `select`, nothing was ready
  | willFire             -- committed to `case <-t.C()`
  | ready                -- returned nil (after firing, or through closeFatalShutdown)
  | collected
  deriving DecidableEq, Repr, Hashable

/-- Program counter of the `Run` call that won the CAS. -/
inductive OPc where
  | idle | entered | prepared | launched | gotInner | closing | finished | returned
  deriving DecidableEq, Repr, Hashable

def OPc.rank : OPc → Nat
  | .idle => 0 | .entered => 1 | .prepared => 2 | .launched => 3
  | .gotInner => 4 | .closing => 5 | .finished => 6 | .returned => 7

/-- What the fatal closer's `select` saw at the instant it committed. -/
structure Decision where
  fire : Bool       -- took `case <-t.C()`
  expired : Bool    -- the timer had expired at that instant
  closed : Bool     -- closeFatalShutdown was closed at that instant
  deriving DecidableEq, Repr, Hashable

structure Cfg where
  grace : Option Nat := none   -- grace period (clock units); none = infinite
  /-- AddCloser re-checks `closing` under the lock: read from the source (`true` = repaired code). -/
  recheck : Bool := G.addCloserRechecksClosingUnderLock
  deriving DecidableEq, Repr

def Cfg.off (c : Cfg) : Nat := if c.grace.isSome then 1 else 0

structure RCM where
  inner : RM := {}
  closeIdx : Option Nat := none   -- index of the runner that waits for closeCh
  cpcs : List CPc := []           -- user closers (c.closers without the fatal closer)
  running : Bool := false
  closing : Bool := false
  closed : Bool := false          -- closeCh closed
  stopped : Bool := false         -- stopped closed
  closeWon : Bool := false        -- ghost: a Close call won the `running` CAS
  lock : Bool := false            -- mngr.lock held by Run
  opc : OPc := .idle
  pendRun : Nat := 0
  cl0 : Nat := 0
  cl1 : Nat := 0
  cl2 : Nat := 0                  -- Close callers: called / after closed-CAS / waiting on stopped
  ac0 : Nat := 0
  ac1 : Nat := 0
  ac2 : Nat := 0                  -- AddCloser callers: called / passed the first check / appended
  addOuter : List Nat := []       -- Add(k) callers that have not tested c.running yet
  addRejOuter : Nat := 0          -- Add callers rejected by that test, not returned yet
  rErr : List Nat := []
  nclosers : Nat := 0             -- len(c.closers) seen by Run under the lock
  cspawned : Nat := 0
  ccollected : Nat := 0
  cerrs : List Nat := []
  cfs : Bool := false             -- closeFatalShutdown closed
  fpc : FPc := .idle
  fired : Bool := false           -- fatalShutdownFn was called
  deadline : Option Nat := none
  decision : Option Decision := none
  now : Nat := 0
  retErr : List Nat := []
  deriving DecidableEq, Repr, Hashable

inductive Label where
  | inner (a : RLabel)
  | addCall (k : Nat) | addOuterCheck (k : Nat) | addRetRejOuter
  | acCall | acCheck | acRejectEarly | acAppend | acRetOk | acRejectLate
  | runCall | runCas | runRejected
  | prepare | launch | gotInner | lockClosing | cspawn
  | cstart (j : Nat) | cret (j : Nat) (v : CRet) | ccollect (j : Nat)
  | farm | fenterFire | fenterStop | fpark | ffire | fcollect
  | closeFatal | finish | runRet
  | closeCall | closeS1 | closeS2 | closeRet
  | tick (d : Nat)
  deriving DecidableEq, Repr, Hashable

/-- Inner labels that do not need the inner `Run` to have been launched. -/
def RLabel.anytime : RLabel → Bool
  | .parentCancel | .addDo _ | .addRet _ => true
  | _ => false

/-- Which RM labels the closer manager can perform on its inner manager, and when. -/
def RCM.innerAllowed (s : RCM) : RLabel → Bool
  | .addCall _ | .runCall | .runRejected => false
  | .addDo _ => !s.lock            -- mngr.lock is the inner manager's lock; Run holds it while closing
  | .ctxDone i => s.closeIdx != some i
  | .ret i v => if s.closeIdx = some i then v = .nil && (s.inner.cancelled || s.closed) else true
  | _ => true

def timerExpired (now : Nat) (dl : Nat) : Bool := decide (dl ≤ now)

/-! The closer collection loop
`for i := closerLoopStart; i < len(c.closers) + closerLoopBoundPlus; i++ {
   if i == len(c.closers) + closeFatalAtPlus { close(c.closeFatalShutdown) }; errs[i] = <-errCh }`
with `i = closerLoopStart + ccollected` and `len(c.closers) = nclosers` (constants from the source). -/

/-- The loop condition holds: another iteration will run. -/
def RCM.inLoop (s : RCM) : Bool :=
  decide (G.closerLoopStart + s.ccollected < s.nclosers + G.closerLoopBoundPlus)

/-- This iteration is the one that closes `closeFatalShutdown` before receiving. -/
def RCM.atCloseFatal (s : RCM) : Bool :=
  decide (G.closerLoopStart + s.ccollected = s.nclosers + G.closeFatalAtPlus)

/-- The collector is at `errs[i] = <-errCh` of the current iteration. -/
def RCM.canReceive (s : RCM) : Bool := s.inLoop && (!s.atCloseFatal || s.cfs)

def RCM.step (cfg : Cfg) (s : RCM) : Label → Option RCM
  | .inner a =>
    if s.innerAllowed a = true ∧ (a.anytime = true ∨ s.opc.rank ≥ 3) then
      (s.inner.step a).map fun r => { s with inner := r }
    else none
  | .addCall k => some { s with addOuter := s.addOuter ++ [k] }
  | .addOuterCheck k =>
    if k ∈ s.addOuter then
      if s.running then some { s with addOuter := s.addOuter.erase k, addRejOuter := s.addRejOuter + 1 }
      else some { s with addOuter := s.addOuter.erase k
                         inner := { s.inner with addPend := s.inner.addPend ++ [k] } }
    else none
  | .addRetRejOuter =>
    if s.addRejOuter > 0 then some { s with addRejOuter := s.addRejOuter - 1 } else none
  | .acCall => some { s with ac0 := s.ac0 + 1 }
  | .acCheck =>
    if s.ac0 > 0 ∧ s.closing = false then some { s with ac0 := s.ac0 - 1, ac1 := s.ac1 + 1 } else none
  | .acRejectEarly =>
    if s.ac0 > 0 ∧ s.closing = true then some { s with ac0 := s.ac0 - 1 } else none
  | .acAppend =>
    if s.ac1 > 0 ∧ s.lock = false ∧ (cfg.recheck = false ∨ s.closing = false) then
      some { s with ac1 := s.ac1 - 1, ac2 := s.ac2 + 1, cpcs := s.cpcs ++ [.idle] }
    else none
  | .acRetOk => if s.ac2 > 0 then some { s with ac2 := s.ac2 - 1 } else none
  | .acRejectLate =>
    if s.ac1 > 0 ∧ s.lock = false ∧ cfg.recheck = true ∧ s.closing = true then
      some { s with ac1 := s.ac1 - 1 }
    else none
  | .runCall => some { s with pendRun := s.pendRun + 1 }
  | .runCas =>
    if s.pendRun > 0 ∧ s.running = false then
      some { s with pendRun := s.pendRun - 1, running := true, opc := .entered }
    else none
  | .runRejected =>
    if s.pendRun > 0 ∧ s.running = true then some { s with pendRun := s.pendRun - 1 } else none
  | .prepare =>
    if s.opc = .entered then
      if G.closeRunnerMinRunners ≤ s.inner.pcs.length then
        some { s with opc := .prepared, closeIdx := some s.inner.pcs.length
                      inner := { s.inner with pcs := s.inner.pcs ++ [.idle] } }
      else some { s with opc := .prepared }
    else none
  | .launch =>
    if s.opc = .prepared then
      some { s with opc := .launched, inner := { s.inner with pend := s.inner.pend + 1 } }
    else none
  | .gotInner =>
    if s.opc = .launched ∧ s.inner.runPc = .finished then
      some { s with opc := .gotInner, rErr := s.inner.errs }
    else none
  | .lockClosing =>
    if s.opc = .gotInner then
      some { s with opc := .closing, lock := true, closing := true
                    nclosers := s.cpcs.length + cfg.off }
    else none
  | .cspawn =>
    if s.opc = .closing ∧ s.cspawned < s.nclosers then some { s with cspawned := s.cspawned + 1 }
    else none
  | .cstart j =>
    if s.opc = .closing ∧ j + cfg.off < s.cspawned ∧ s.cpcs[j]? = some .idle then
      some { s with cpcs := s.cpcs.set j .started }
    else none
  | .cret j v =>
    if s.cpcs[j]? = some .started then some { s with cpcs := s.cpcs.set j (.returned v) } else none
  | .ccollect j =>
    match s.cpcs[j]? with
    | some (.returned v) =>
      if s.opc = .closing ∧ s.cspawned = s.nclosers ∧ s.canReceive = true then
        some { s with cpcs := s.cpcs.set j (.collected v)
                      ccollected := s.ccollected + 1
                      cerrs := match v with
                        | some e => s.cerrs ++ [e]
                        | none => s.cerrs }
      else none
    | _ => none
  | .farm =>
    match cfg.grace with
    | some g =>
      if s.opc = .closing ∧ 0 < s.cspawned ∧ s.fpc = .idle then
        some { s with fpc := .armed (s.now + g), deadline := some (s.now + g) }
      else none
    | none => none
  | .fenterFire =>
    match s.fpc with
    | .armed dl =>
      if dl ≤ s.now then
        some { s with fpc := .willFire, decision := some ⟨true, true, s.cfs⟩ }
      else none
    | _ => none
  | .fenterStop =>
    match s.fpc with
    | .armed dl =>
      if s.cfs = true then
        some { s with fpc := .ready, decision := some ⟨false, timerExpired s.now dl, true⟩ }
      else none
    | _ => none
  | .fpark =>
    match s.fpc with
    | .armed dl => if s.now < dl ∧ s.cfs = false then some { s with fpc := .parked dl } else none
    | _ => none
  | .ffire =>
    if s.fpc = .willFire then some { s with fpc := .ready, fired := true } else none
  | .fcollect =>
    if s.fpc = .ready ∧ s.opc = .closing ∧ s.cspawned = s.nclosers ∧ s.canReceive = true then
      some { s with fpc := .collected, ccollected := s.ccollected + 1 }
    else none
  | .closeFatal =>
    if s.opc = .closing ∧ s.cspawned = s.nclosers ∧ s.inLoop = true ∧ s.atCloseFatal = true
        ∧ s.cfs = false then
      match s.fpc with
      | .parked _ => some { s with cfs := true, fpc := .ready, decision := some ⟨false, false, true⟩ }
      | _ => some { s with cfs := true }
    else none
  | .finish =>
    if s.opc = .closing ∧ s.cspawned = s.nclosers ∧ s.inLoop = false then
      some { s with opc := .finished, retErr := s.rErr ++ s.cerrs, stopped := true, lock := false }
    else none
  | .runRet => if s.opc = .finished then some { s with opc := .returned } else none
  | .closeCall => some { s with cl0 := s.cl0 + 1 }
  | .closeS1 =>
    if s.cl0 > 0 then some { s with cl0 := s.cl0 - 1, cl1 := s.cl1 + 1, closed := true } else none
  | .closeS2 =>
    if s.cl1 > 0 then
      if s.running then some { s with cl1 := s.cl1 - 1, cl2 := s.cl2 + 1 }
      else some { s with cl1 := s.cl1 - 1, cl2 := s.cl2 + 1, running := true, stopped := true, closeWon := true }
    else none
  | .closeRet =>
    if s.cl2 > 0 ∧ s.stopped = true then some { s with cl2 := s.cl2 - 1 } else none
  | .tick d =>
    match s.fpc with
    | .parked dl =>
      if dl ≤ s.now + d then
        some { s with now := s.now + d, fpc := .willFire, decision := some ⟨true, true, false⟩ }
      else some { s with now := s.now + d }
    | _ => some { s with now := s.now + d }

/-- Internal (unobserved) labels that may be enabled in `s`: everything except API call/return
events, user runner/closer body events, the fatal action and clock ticks. Body events of the
extra closeCh runner are internal too. -/
def RCM.taus (s : RCM) : List Label :=
  (s.addOuter.eraseDups.map fun k => .addOuterCheck k) ++ (s.inner.addPend.eraseDups.map fun k => .inner (.addDo k)) ++
  [.acCheck, .acAppend, .runCas, .prepare, .launch, .gotInner, .lockClosing, .cspawn, .farm, .fenterFire,
   .fenterStop, .fpark, .fcollect, .closeFatal, .finish, .closeS1, .closeS2,
   .inner .runCas, .inner .spawn, .inner .runRet]
  ++ (List.range s.inner.pcs.length).flatMap (fun i => [.inner (.deliver i), .inner (.cancelBy i)])
  ++ (match s.closeIdx with
      | some i => [.inner (.start i), .inner (.ret i .nil)]
      | none => [])
  ++ (List.range s.cpcs.length).map (fun j => .ccollect j)

inductive RCM.Reach (cfg : Cfg) : RCM → Prop where
  | init : RCM.Reach cfg {}
  | step {s s' : RCM} (a : Label) : RCM.Reach cfg s → s.step cfg a = some s' → RCM.Reach cfg s'

inductive RCM.Steps (cfg : Cfg) : RCM → RCM → Prop where
  | refl (s : RCM) : RCM.Steps cfg s s
  | tail {s t u : RCM} (a : Label) : RCM.Steps cfg s t → t.step cfg a = some u → RCM.Steps cfg s u

/-- Run a list of labels (used for witnesses and by the driver). -/
def RCM.runLabels (cfg : Cfg) (s : RCM) : List Label → Option RCM
  | [] => some s
  | a :: as => (s.step cfg a).bind fun s' => RCM.runLabels cfg s' as

def RM.runLabels (s : RM) : List RLabel → Option RM
  | [] => some s
  | a :: as => (s.step a).bind fun s' => RM.runLabels s' as

end Kit.Runner

namespace Kit.Runner

/-! ## `RMRacy` — `RunnerManager` before the `fix:` commit (witness model only)

`Add` tested `running` and *then* took the lock (`addCheck`, `addAppend`), `Run` ranged over
`r.runners` without the lock (`snap` = what it saw) and its collection loop re-read
`len(r.runners)` on every iteration.  Only what the two witnesses need is modelled. -/

structure RMRacy where
  pcs : List RPc := []
  running : Bool := false
  passed : Nat := 0          -- Add(1 runner) callers between their test and their append
  accepted : Nat := 0        -- Add calls that returned nil
  active : Bool := false
  snap : Nat := 0            -- number of runners the spawn loop ranged over
  collected : Nat := 0
  returned : Bool := false
  deriving DecidableEq, Repr

inductive RacyLabel where
  | addCheck | addAppend | runCas | start (i : Nat) | ret (i : Nat) | deliver (i : Nat) | runRet
  deriving DecidableEq, Repr

def RMRacy.step (s : RMRacy) : RacyLabel → Option RMRacy
  | .addCheck => if s.running then none else some { s with passed := s.passed + 1 }
  | .addAppend =>
    if s.passed > 0 then
      some { s with passed := s.passed - 1, accepted := s.accepted + 1, pcs := s.pcs ++ [.idle] }
    else none
  | .runCas =>
    if s.running then none else some { s with running := true, active := true, snap := s.pcs.length }
  | .start i =>
    if s.active = true ∧ i < s.snap ∧ s.pcs[i]? = some .idle then some { s with pcs := s.pcs.set i .started }
    else none
  | .ret i => if s.pcs[i]? = some .started then some { s with pcs := s.pcs.set i (.returned .nil) } else none
  | .deliver i =>
    if s.active = true ∧ s.pcs[i]? = some (.returned .nil) ∧ s.collected < s.pcs.length then
      some { s with pcs := s.pcs.set i (.done .nil), collected := s.collected + 1 }
    else none
  | .runRet =>
    if s.active = true ∧ ¬ (s.collected < s.pcs.length) then some { s with active := false, returned := true }
    else none

def RMRacy.runLabels (s : RMRacy) : List RacyLabel → Option RMRacy
  | [] => some s
  | a :: as => (s.step a).bind fun s' => RMRacy.runLabels s' as

/-- Executions with their event log (most recent event first). -/
inductive RCM.Exec (cfg : Cfg) : List Label → RCM → Prop where
  | init : RCM.Exec cfg [] {}
  | step {tr : List Label} {s s' : RCM} (a : Label) :
      RCM.Exec cfg tr s → s.step cfg a = some s' → RCM.Exec cfg (a :: tr) s'

inductive RM.Exec : List RLabel → RM → Prop where
  | init : RM.Exec [] {}
  | step {tr : List RLabel} {s s' : RM} (a : RLabel) :
      RM.Exec tr s → s.step a = some s' → RM.Exec (a :: tr) s'

end Kit.Runner
