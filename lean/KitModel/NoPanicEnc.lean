import KitModel.NoPanic
/-!
C07 — `/repo/schemes/enc/v1/{algorithms,ciphers,manifest}.go` (`Validate`, `UnmarshalJSON`,
`New…FromID`) and `/repo/streams/uppercase_transformer.go`.
-/
namespace Kit.NoPanic.Enc
open Kit Kit.NoPanic

/-! ### KeyAlgorithm / Cipher -/

def keyAlgValidate (a : String) : Outcome String :=
  if a == "A256KW" || a == "A128CBC-NOPAD" || a == "A192CBC-NOPAD" || a == "A256CBC-NOPAD" || a == "RSA-OAEP-256" then .ok a
  else if a == "AES" then .ok "A256KW"
  else if a == "RSA" then .ok "RSA-OAEP-256"
  else .err "algorithm is not supported"

def keyAlgID (a : String) : Nat :=
  if a == "A256KW" || a == "AES" then 1
  else if a == "A128CBC-NOPAD" then 2
  else if a == "A192CBC-NOPAD" then 3
  else if a == "A256CBC-NOPAD" then 4
  else if a == "RSA-OAEP-256" || a == "RSA" then 5
  else 0

def keyAlgFromID (id : Int) : Outcome String :=
  if id == 1 then .ok "A256KW" else if id == 2 then .ok "A128CBC-NOPAD" else if id == 3 then .ok "A192CBC-NOPAD"
  else if id == 4 then .ok "A256CBC-NOPAD" else if id == 5 then .ok "RSA-OAEP-256" else .err "algorithm ID is not supported"

def nullLit : Bytes := [110, 117, 108, 108]

/-- `(*KeyAlgorithm).UnmarshalJSON` -/
def keyAlgUnmarshal (data : Bytes) : Outcome String :=
  if data == [] || data == nullLit then .err "value is empty"
  else match atoi data with
    | none => .err "failed to parse value as number"
    | some id => keyAlgFromID id

def cipherValidate (c : String) : Outcome String :=
  if c == "AES-GCM" || c == "CHACHA20-POLY1305" then .ok c else .err "cipher is not supported"

def cipherID (c : String) : Nat :=
  if c == "AES-GCM" then 1 else if c == "CHACHA20-POLY1305" then 2 else 0

def cipherFromID (id : Int) : Outcome String :=
  if id == 1 then .ok "AES-GCM" else if id == 2 then .ok "CHACHA20-POLY1305" else .err "cipher ID is not supported"

def cipherUnmarshal (data : Bytes) : Outcome String :=
  if data == [] || data == nullLit then .err "value is empty"
  else match atoi data with
    | none => .err "failed to parse value as number"
    | some id => cipherFromID id

/-! ### Manifest.Validate (only the lengths of the byte fields matter) -/

def noncePrefixLength : Nat := 7

def manifestValidate (kw : String) (wfkLen : Nat) (cph : String) (npLen : Nat) : Outcome (String × String) :=
  (keyAlgValidate kw).bind fun kw' =>
    if wfkLen == 0 then .err "wrapped file key is empty"
    else (cipherValidate cph).bind fun cph' =>
      if npLen != noncePrefixLength then .err "nonce prefix is invalid" else .ok (kw', cph')

/-! ### RuneToUppercase / UppercaseTransformer -/

inductive Upper where
  | bytes (b : Bytes)
  | delegated -- `strings.Map(unicode.ToUpper, string([]rune{c}))`
  deriving Repr, DecidableEq

/-- `c` is a Go `rune` (int32, may be negative); `byte(c)` truncates. -/
def runeToUppercase (c : Int) : Upper :=
  if c < 128 then
    let b := (c % 256).toNat
    if 97 ≤ b ∧ b ≤ 122 then .bytes [UInt8.ofNat (b - 32)] else .bytes [UInt8.ofNat b]
  else .delegated

/-- The transformer's pull loop: `readRune` consumes `k ≥ 1` bytes of a non-empty input (the
`bufio.Reader.ReadRune` contract, invalid UTF-8 included: one byte, U+FFFD); the loop ends at
end of input.  Returns the number of iterations. -/
def upperLoop (runeLen : Bytes → Nat) : Nat → Bytes → Nat → Outcome Nat
  | 0, rest, n => if rest.length > 0 then .panic "loop bound exceeded" else .ok n
  | fuel + 1, rest, n =>
    if rest.length > 0 then upperLoop runeLen fuel (rest.drop (max 1 (runeLen rest))) (n + 1) else .ok n

end Kit.NoPanic.Enc
