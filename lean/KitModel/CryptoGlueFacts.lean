/-
Types of the facts that `harness/cmd/factgen_c03` extracts from /repo/crypto (T1 tie of C03).
`KitModel/Generated/C03.lean` is written in terms of these; `KitModel/CryptoGlue.lean`
interprets them.  Core Lean only.
-/
namespace Kit.CryptoGlue.Facts

/-- Integer expressions occurring in the guard prefixes of the symmetric helpers. -/
inductive Term where
  /-- `len(v)` of a parameter -/
  | len (v : String)
  /-- integer literal, or a package constant resolved by factgen (`aes.BlockSize` …) -/
  | lit (n : Nat)
  /-- `expectedKeySize(algorithm)` -/
  | keySize
  /-- `aead.NonceSize()` -/
  | aeadNonceSize
  /-- `aead.Overhead()` -/
  | aeadOverhead
  /-- `a % b` -/
  | mod (a b : Term)
  deriving Repr, DecidableEq

inductive Cond where
  | ne (a b : Term)
  | eq (a b : Term)
  | lt (a b : Term)
  deriving Repr, DecidableEq

/-- One statement of a helper's guard prefix. -/
inductive Step where
  /-- `if c { return nil…, err }`; when `only ≠ []` the `if` sits inside
      `switch algorithm { case only…: if c { … } }` and applies to those names only. -/
  | guard (only : List String) (c : Cond) (err : String)
  /-- `x, err := callee(…); if err != nil { return nil…, e }`; `e = ""` means the callee's
      error is returned unchanged. -/
  | try_ (callee : String) (e : String)
  deriving Repr, DecidableEq

/-- `switch algorithm { case names…: return callee(…, extra) … default: return …, dflt }`. -/
structure Switch where
  cases : List (List String × String × String)
  dflt : String
  deriving Repr, DecidableEq

/-- `switch alg[lo:hi]` (or `alg[len(alg)-lo:]` when `fromEnd`) with integer results. -/
structure SliceTable where
  fromEnd : Bool
  lo : Nat
  hi : Nat
  cases : List (String × Nat)
  dflt : Nat
  deriving Repr, DecidableEq

/-- One case of `getAESCBCHMACCipher`: name, required `len(key)`, constructor. -/
structure CbcHmacCase where
  name : String
  keyLen : Nat
  ctor : String
  deriving Repr, DecidableEq

/-- One case of `getChaCha20Poly1305Cipher`: names, constructor, required `len(nonce)`. -/
structure ChaChaCase where
  names : List String
  ctor : String
  nonceLen : Nat
  deriving Repr, DecidableEq

/-- Parameter literal of an `aescbcaead.NewAESCBC…` constructor. -/
structure AeadParams where
  ctor : String
  hashBits : Nat
  encKeySize : Nat
  macKeySize : Nat
  tagSize : Nat
  deriving Repr, DecidableEq

/-- An asymmetric helper (`encryptPublicKeyRSAOAEP`, `verifyPublicKeyEdDSA`, …): the Go type the
JWK is converted to with `key.Raw`, the only sentinel its error returns name, the stdlib
function it ends in, and whether `errors.Is(err, rsa.ErrVerification)` is mapped to `nil`. -/
structure AsymHelper where
  name : String
  rawType : String
  guardErr : String
  stdCall : String
  mapsErrVerification : Bool
  /-- the `key.Raw` guard also contains `….Curve != curve` -/
  checksCurve : Bool
  deriving Repr, DecidableEq

end Kit.CryptoGlue.Facts
