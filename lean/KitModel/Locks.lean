import KitModel.Locks.Kernel
import KitModel.Locks.FifoMutex
import KitModel.Locks.FifoMap
import KitModel.Locks.CMap
import KitModel.Locks.Context
import KitModel.Locks.OuterCancel
import KitModel.Locks.Acceptor
