/-
Sequential specifications of `cmap.Map`, `cmap.AtomicValue`, `cmap.Atomic` (counter map) and
`slice.Slice`; the generic transition system of an object all of whose operations are critical
sections of one RW lock; the atomic ("linearized") transition system of a specification; and an
executable linearizability checker for stamped histories.  Core Lean only.
-/
namespace Kit.Containers

/-! ### specifications

`exec s i r = some s'` : in state `s`, operation `i` may answer `r` and leaves `s'`.
Deterministic once the answer is fixed; the answer itself may be a free choice (the address of
a freshly allocated counter). -/

structure Spec (σ ι ρ : Type) where
  init : σ
  exec : σ → ι → ρ → Option σ

/-- a specification given by a total function -/
def Spec.ofFun {σ ι ρ : Type} [DecidableEq ρ] (init : σ) (f : σ → ι → σ × ρ) : Spec σ ι ρ where
  init := init
  exec s i r := if (f s i).2 = r then some (f s i).1 else none

def upd {β : Type} (f : Nat → β) (t : Nat) (v : β) : Nat → β := fun x => if x = t then v else f x

/-! ### runs of a labelled transition relation -/

inductive Run {C L : Type} (step : C → L → C → Prop) : C → List L → C → Prop where
  | nil (c : C) : Run step c [] c
  | cons {c c' c'' : C} {l : L} {ls : List L} : step c l c' → Run step c' ls c'' → Run step c (l :: ls) c''

/-! ### history events (what a client can observe) -/

inductive Ev (ι ρ : Type) where
  | inv (t : Nat) (i : ι)
  | ret (t : Nat) (r : ρ)
  deriving Repr, DecidableEq

/-! ### the atomic object of a specification: every operation takes effect at one instant (`lin`)
between its invocation and its response.  A history is linearizable iff it is the history of a run
of this system. -/

inductive SStat (ι ρ : Type) where
  | idle
  | pend (i : ι)
  | done (r : ρ)

structure SCfg (σ ι ρ : Type) where
  st : σ
  thr : Nat → SStat ι ρ

inductive SLabel (ι ρ : Type) where
  | inv (t : Nat) (i : ι)
  | lin (t : Nat) (i : ι) (r : ρ)
  | ret (t : Nat) (r : ρ)

namespace Spec
variable {σ ι ρ : Type}

def cfg0 (S : Spec σ ι ρ) : SCfg σ ι ρ := { st := S.init, thr := fun _ => .idle }

inductive Step (S : Spec σ ι ρ) : SCfg σ ι ρ → SLabel ι ρ → SCfg σ ι ρ → Prop where
  | inv {c : SCfg σ ι ρ} {t : Nat} {i : ι} : c.thr t = .idle →
      Step S c (.inv t i) { c with thr := upd c.thr t (.pend i) }
  | lin {c : SCfg σ ι ρ} {t : Nat} {i : ι} {r : ρ} {s' : σ} : c.thr t = .pend i → S.exec c.st i r = some s' →
      Step S c (.lin t i r) { st := s', thr := upd c.thr t (.done r) }
  | ret {c : SCfg σ ι ρ} {t : Nat} {r : ρ} : c.thr t = .done r →
      Step S c (.ret t r) { c with thr := upd c.thr t .idle }

end Spec

def SLabel.hist {ι ρ : Type} : SLabel ι ρ → Option (Ev ι ρ)
  | .inv t i => some (.inv t i)
  | .lin _ _ _ => none
  | .ret t r => some (.ret t r)

/-- the sequential history witnessed by a run: the `lin` events in order -/
def SLabel.seq {ι ρ : Type} : SLabel ι ρ → Option (Nat × ι × ρ)
  | .lin t i r => some (t, i, r)
  | _ => none

/-- `Linearizable S H`: `H` is the history of some run of the atomic object of `S`. -/
def Linearizable {σ ι ρ : Type} (S : Spec σ ι ρ) (H : List (Ev ι ρ)) : Prop :=
  ∃ tr c, Run S.Step S.cfg0 tr c ∧ tr.filterMap SLabel.hist = H

/-- legal sequential execution of the specification -/
def Spec.Legal {σ ι ρ : Type} (S : Spec σ ι ρ) : σ → List (Nat × ι × ρ) → σ → Prop
  | s, [], s' => s = s'
  | s, (_, i, r) :: rest, s' => ∃ m, S.exec s i r = some m ∧ Spec.Legal S m rest s'

/-! ### implementation: every operation is a sequence of critical sections; a section either
finishes the operation with a result (`inl r`) or hands over to a later section (`inr k`). -/

structure Impl (σ ι ρ κ : Type) where
  start : ι → κ
  opOf : κ → ι
  sect : κ → σ → σ → (ρ ⊕ κ) → Prop

inductive IStat (ρ κ : Type) where
  | idle
  | run (k : κ)
  | done (r : ρ)

structure ICfg (σ ρ κ : Type) where
  st : σ
  thr : Nat → IStat ρ κ

inductive ILabel (ι ρ : Type) where
  | inv (t : Nat) (i : ι)
  | commit (t : Nat) (i : ι) (r : ρ)   -- a section that finishes the operation
  | defer (t : Nat)                    -- a section that hands over to a later one
  | ret (t : Nat) (r : ρ)

namespace Impl
variable {σ ι ρ κ : Type}

def cfg0 (_I : Impl σ ι ρ κ) (init : σ) : ICfg σ ρ κ := { st := init, thr := fun _ => .idle }

/-- Sections are atomic: this is what holding the lock provides (read sections may overlap in
real time, but they do not write, so any interleaving of them equals a serial one). -/
inductive Step (I : Impl σ ι ρ κ) : ICfg σ ρ κ → ILabel ι ρ → ICfg σ ρ κ → Prop where
  | inv {c : ICfg σ ρ κ} {t : Nat} {i : ι} : c.thr t = .idle →
      Step I c (.inv t i) { c with thr := upd c.thr t (.run (I.start i)) }
  | commit {c : ICfg σ ρ κ} {t : Nat} {k : κ} {r : ρ} {s' : σ} : c.thr t = .run k → I.sect k c.st s' (.inl r) →
      Step I c (.commit t (I.opOf k) r) { st := s', thr := upd c.thr t (.done r) }
  | defer {c : ICfg σ ρ κ} {t : Nat} {k k' : κ} {s' : σ} : c.thr t = .run k → I.sect k c.st s' (.inr k') →
      Step I c (.defer t) { st := s', thr := upd c.thr t (.run k') }
  | ret {c : ICfg σ ρ κ} {t : Nat} {r : ρ} : c.thr t = .done r →
      Step I c (.ret t r) { c with thr := upd c.thr t .idle }

/-- The linearization-point condition: the section that finishes an operation performs exactly
the specified effect of that operation on the state it finds; a section that hands over leaves
the state unchanged and stays with the same operation. -/
structure Atomic (I : Impl σ ι ρ κ) (S : Spec σ ι ρ) : Prop where
  start_op : ∀ i, I.opOf (I.start i) = i
  commit : ∀ k s s' r, I.sect k s s' (.inl r) → S.exec s (I.opOf k) r = some s'
  defer : ∀ k s s' k', I.sect k s s' (.inr k') → s' = s ∧ I.opOf k' = I.opOf k

/-- every operation is exactly one critical section -/
def single (S : Spec σ ι ρ) : Impl σ ι ρ ι where
  start := id
  opOf := id
  sect i s s' out := ∃ r, out = .inl r ∧ S.exec s i r = some s'

end Impl

def ILabel.hist {ι ρ : Type} : ILabel ι ρ → Option (Ev ι ρ)
  | .inv t i => some (.inv t i)
  | .ret t r => some (.ret t r)
  | _ => none

/-- the witness: finishing sections become linearization points, in the order they ran -/
def ILabel.toSpec {ι ρ : Type} : ILabel ι ρ → Option (SLabel ι ρ)
  | .inv t i => some (.inv t i)
  | .commit t i r => some (.lin t i r)
  | .defer _ => none
  | .ret t r => some (.ret t r)

/-! ### finite maps as sorted association lists (canonical, so `==` is extensional equality) -/

def aget {β : Type} : List (Nat × β) → Nat → Option β
  | [], _ => none
  | (k, v) :: m, x => if x = k then some v else aget m x

def aput {β : Type} : List (Nat × β) → Nat → β → List (Nat × β)
  | [], x, v => [(x, v)]
  | (k, w) :: m, x, v => if x < k then (x, v) :: (k, w) :: m else if x = k then (k, v) :: m else (k, w) :: aput m x v

def adel {β : Type} : List (Nat × β) → Nat → List (Nat × β)
  | [], _ => []
  | (k, w) :: m, x => if x = k then m else (k, w) :: adel m x

/-! ### `cmap.Map[K,T]` with `K = T = Nat` -/

inductive MapOp where
  | clear | delete (k : Nat) | load (k : Nat) | loadAndDelete (k : Nat) | range
  | store (k v : Nat) | len | keys
  deriving Repr, DecidableEq

/-- results of all four objects share one type -/
inductive Ret where
  | unit
  | val (v : Int) (ok : Bool)
  | int (n : Int)
  | list (xs : List Int)
  deriving Repr, DecidableEq

def natList (xs : List Nat) : Ret := .list (xs.map Int.ofNat)
def pairList (xs : List (Nat × Nat)) : Ret := .list (xs.flatMap fun p => [Int.ofNat p.1, Int.ofNat p.2])

abbrev MapSt := List (Nat × Nat)

def mapApply (m : MapSt) : MapOp → MapSt × Ret
  | .clear => ([], .unit)
  | .delete k => (adel m k, .unit)
  | .load k => (m, match aget m k with | some v => .val v true | none => .val 0 false)
  | .loadAndDelete k => (adel m k, match aget m k with | some v => .val v true | none => .val 0 false)
  | .range => (m, pairList m)         -- `Range` with a callback that never stops; pairs sorted by key
  | .store k v => (aput m k v, .unit)
  | .len => (m, .int m.length)
  | .keys => (m, natList (m.map (·.1)))  -- sorted

def mapSpec : Spec MapSt MapOp Ret := Spec.ofFun [] mapApply

/-! ### `cmap.AtomicValue[T]` with `T = Int` (values kept far from overflow by the harness) -/

inductive CtrOp where
  | load | store (v : Int) | add (v : Int)
  deriving Repr, DecidableEq

def ctrApply (c : Int) : CtrOp → Int × Ret
  | .load => (c, .int c)
  | .store v => (v, .unit)
  | .add v => (c + v, .int (c + v))

def ctrSpec : Spec Int CtrOp Ret := Spec.ofFun 0 ctrApply

/-! ### `cmap.Atomic[K,T]`: key ↦ counter address, address ↦ counter value.
`*AtomicValue` results are addresses (naturals named by the harness in order of first sight);
a fresh address is any address not allocated before. -/

inductive AMOp where
  | get (k : Nat) | getOrCreate (k : Nat) (c : Int) | delete (k : Nat) | forEach | clear
  | cload (p : Nat) | cstore (p : Nat) (v : Int) | cadd (p : Nat) (v : Int)
  deriving Repr, DecidableEq

structure AMSt where
  items : List (Nat × Nat)
  ctr : List (Nat × Int)
  deriving Repr, DecidableEq

def amExec (s : AMSt) : AMOp → Ret → Option AMSt
  | .get k, r =>
    match aget s.items k with
    | some p => if r = .val p true then some s else none
    | none => if r = .val 0 false then some s else none
  | .getOrCreate k c, r =>
    match aget s.items k with
    | some p => if r = .int p then some s else none
    | none =>
      match r with
      | .int (.ofNat p) =>
        match aget s.ctr p with
        | some _ => none
        | none => some { items := aput s.items k p, ctr := aput s.ctr p c }
      | _ => none
  | .delete k, r => if r = .unit then some { s with items := adel s.items k } else none
  | .forEach, r => if r = pairList s.items then some s else none
  | .clear, r => if r = .unit then some { s with items := [] } else none
  | .cload p, r =>
    match aget s.ctr p with
    | some v => if r = .int v then some s else none
    | none => none
  | .cstore p v, r =>
    match aget s.ctr p with
    | some _ => if r = .unit then some { s with ctr := aput s.ctr p v } else none
    | none => none
  | .cadd p d, r =>
    match aget s.ctr p with
    | some v => if r = .int (v + d) then some { s with ctr := aput s.ctr p (v + d) } else none
    | none => none

def amSpec : Spec AMSt AMOp Ret := { init := { items := [], ctr := [] }, exec := amExec }

/-- program counters of the counter map: all methods are one section, `GetOrCreate` is a read
section (`first`) followed, on a miss, by a write section that looks again (`second`). -/
inductive AMK where
  | first (i : AMOp)
  | second (k : Nat) (c : Int)

def amImpl : Impl AMSt AMOp Ret AMK where
  start := .first
  opOf
    | .first i => i
    | .second k c => .getOrCreate k c
  sect
    | .first (.getOrCreate k c), s, s', out =>
      s' = s ∧ (match aget s.items k with
                | some p => out = .inl (.int p)
                | none => out = .inr (.second k c))
    | .first i, s, s', out => ∃ r, out = .inl r ∧ amExec s i r = some s'
    | .second k c, s, s', out => ∃ r, out = .inl r ∧ amExec s (.getOrCreate k c) r = some s'

/-! ### `slice.Slice[T]` with `T = Nat` -/

inductive SlOp where
  | append (xs : List Nat) | len | slice
  deriving Repr, DecidableEq

def slApply (s : List Nat) : SlOp → List Nat × Ret
  | .append xs => (s ++ xs, .int (s ++ xs).length)
  | .len => (s, .int s.length)
  | .slice => (s, natList s)

def slSpec : Spec (List Nat) SlOp Ret := Spec.ofFun [] slApply

/-! ### lock discipline facts (shape of what `factgen_c14` extracts from the Go source) -/

inductive LockMode where
  | rlock | lock
  deriving Repr, DecidableEq

/-- one critical section of a method -/
structure Section where
  mode : LockMode
  deferred : Bool      -- released by `defer` (else by an explicit call on every path)
  released : Bool      -- a matching release exists
  writes : Bool        -- assigns / deletes / clears / appends to a guarded field inside the section
  deriving Repr, DecidableEq

structure MethodFact where
  recv : String
  method : String
  sections : List Section
  touchesOutside : Bool   -- guarded field mentioned outside every section
  deriving Repr, DecidableEq

inductive Shape where
  | read | write | readThenWrite | other
  deriving Repr, DecidableEq

def MethodFact.wellLocked (m : MethodFact) : Bool :=
  !m.sections.isEmpty && !m.touchesOutside &&
  m.sections.all fun s => s.released && (!s.writes || s.mode == .lock)

def MethodFact.shape (m : MethodFact) : Shape :=
  match m.sections with
  | [s] => if s.writes then .write else if s.mode == .rlock then .read else .write
  | [a, b] => if !a.writes && a.mode == .rlock && b.mode == .lock then .readThenWrite else .other
  | _ => .other

/-- what the models above assume about each method (receiver type, method, shape): `read` = the
operation never changes the state (the code may hold either lock mode), `write` = one section under
the write lock, `readThenWrite` = read section, then a write section that looks again. -/
def expectedShapes : List (String × String × Shape) := [
  ("mapimpl", "Clear", .write), ("mapimpl", "Delete", .write), ("mapimpl", "Load", .read),
  ("mapimpl", "LoadAndDelete", .write), ("mapimpl", "Range", .read), ("mapimpl", "Store", .write),
  ("mapimpl", "Len", .read), ("mapimpl", "Keys", .read),
  ("AtomicValue", "Load", .read), ("AtomicValue", "Store", .write), ("AtomicValue", "Add", .write),
  ("atomicMap", "Get", .read), ("atomicMap", "GetOrCreate", .readThenWrite),
  ("atomicMap", "Delete", .write), ("atomicMap", "ForEach", .read), ("atomicMap", "Clear", .write),
  ("slice", "Append", .write), ("slice", "Len", .read), ("slice", "Slice", .read)]

def mapMethod : MapOp → String
  | .clear => "Clear" | .delete _ => "Delete" | .load _ => "Load" | .loadAndDelete _ => "LoadAndDelete"
  | .range => "Range" | .store _ _ => "Store" | .len => "Len" | .keys => "Keys"
def ctrMethod : CtrOp → String
  | .load => "Load" | .store _ => "Store" | .add _ => "Add"
def slMethod : SlOp → String
  | .append _ => "Append" | .len => "Len" | .slice => "Slice"
/-- receiver and method of a counter-map operation (counter operations go to the counter's own lock) -/
def amMethod : AMOp → String × String
  | .get _ => ("atomicMap", "Get") | .getOrCreate _ _ => ("atomicMap", "GetOrCreate")
  | .delete _ => ("atomicMap", "Delete") | .forEach => ("atomicMap", "ForEach") | .clear => ("atomicMap", "Clear")
  | .cload _ => ("AtomicValue", "Load") | .cstore _ _ => ("AtomicValue", "Store") | .cadd _ _ => ("AtomicValue", "Add")

/-- does the extracted shape of a method provide what the model assumes? -/
def Shape.provides : Shape → Shape → Bool
  | .read, .read => true
  | .write, .read => true      -- holding the write lock while only reading is fine
  | .write, .write => true
  | .readThenWrite, .readThenWrite => true
  | _, _ => false

def factFor (facts : List MethodFact) (recv method : String) : Option MethodFact :=
  facts.find? fun f => f.recv == recv && f.method == method

/-- every method the models rely on exists in the source with a well-formed lock discipline of the
assumed shape, and the source has no method on these types that the models do not know. -/
def factsMatch (facts : List MethodFact) : Bool :=
  facts.all (·.wellLocked) &&
  expectedShapes.all (fun e =>
    match factFor facts e.1 e.2.1 with
    | some f => f.shape.provides e.2.2
    | none => false) &&
  facts.all (fun f => expectedShapes.any fun e => e.1 == f.recv && e.2.1 == f.method)

def shapeOf (facts : List (String × String × Shape)) (recv method : String) : Shape :=
  match facts.find? fun f => f.1 == recv && f.2.1 == method with
  | some f => f.2.2
  | none => .other

/-- where a slice stored into a guarded slice field comes from -/
inductive StoreKind where
  | appendOwn    -- `append(recv.f…, …)`: values copied into the container's own storage
  | fresh        -- `make`, `nil`, a literal, `append(<fresh>, …)`
  | paramAlias   -- a parameter slice (or re-slice / `append(param, …)`): shares the caller's array
  deriving Repr, DecidableEq

structure FieldStore where
  recv : String
  method : String
  field : String
  kind : StoreKind
  deriving Repr, DecidableEq

/-- the container owns its storage: no assignment makes a field share a caller's backing array,
and `slice.Append` (the one method that stores caller data) is among the classified assignments -/
def storesOwned (fs : List FieldStore) : Bool :=
  fs.all (fun f => f.kind != .paramAlias) &&
  fs.any (fun f => f.recv == "slice" && f.method == "Append" && f.field == "data")

/-! ### facts about `ring/buffered.go` (shape of what `factgen_c14` extracts) -/

/-- thresholds, offsets and guards of `Buffered`, and every place that writes `b.end` -/
structure BufferedFacts where
  minInitial : Int          -- `if initialSize < C { initialSize = C }`
  minBuffer : Int           -- `if bufferSize < C { bufferSize = C }`
  endInit : Int             -- `end:` in the literal `NewBuffered` returns
  growWhenEndGeLen : Bool   -- `if b.end >= b.ring.Len()`
  growAt : Int              -- `b.ring.Move(b.end + growAt).Link(New(b.bsize))`
  emptyGuard : Bool         -- `RemoveFront` starts with `if b.end == 0 { return nil }`
  shrinkFactor : Int        -- `b.ring.Len()-b.end > b.bsize*shrinkFactor`
  shrinkStrict : Bool       -- `>` (true) or `>=` (false)
  shrinkAt : Int            -- `b.ring.Move(b.end + shrinkAt).Unlink(b.bsize)`
  endWrites : List (String × String)   -- (function, how) for every write of the field `end`
  deriving Repr, DecidableEq

/-- what the proofs about `Buffered` are written for -/
def expectedBuffered : BufferedFacts :=
  { minInitial := 1, minBuffer := 1, endInit := 0, growWhenEndGeLen := true, growAt := -1,
    emptyGuard := true, shrinkFactor := 2, shrinkStrict := true, shrinkAt := 0,
    endWrites := [("NewBuffered", "init"), ("AppendBack", "inc"), ("RemoveFront", "dec")] }

/-! ### executable linearizability checker

Input: a complete history in real-time order; each invocation already carries the result its
response will deliver (a hint for the search: soundness does not depend on it, the response is
checked against it).  The checker propagates the set of configurations of the atomic object
compatible with the prefix read so far, closing under `lin` steps after each invocation. -/

inductive HEv (ι ρ : Type) where
  | inv (t : Nat) (i : ι) (r : ρ)
  | ret (t : Nat) (r : ρ)
  deriving Repr

/-- the client-visible event of a checker input event -/
def HEv.toEv {ι ρ : Type} : HEv ι ρ → Ev ι ρ
  | .inv t i _ => .inv t i
  | .ret t r => .ret t r

inductive CStat (ι ρ : Type) where
  | pend (i : ι) (r : ρ)
  | done (r : ρ)
  deriving DecidableEq, Repr

structure CCfg (σ ι ρ : Type) where
  st : σ
  thr : List (Nat × CStat ι ρ)
  deriving DecidableEq, Repr

def lookupT {β : Type} : List (Nat × β) → Nat → Option β
  | [], _ => none
  | (u, x) :: r, t => if u = t then some x else lookupT r t

def setT {β : Type} : List (Nat × β) → Nat → β → List (Nat × β)
  | [], _, _ => []
  | (u, y) :: r, t, x => if u = t then (u, x) :: r else (u, y) :: setT r t x

section checker
variable {σ ι ρ : Type} [DecidableEq σ] [DecidableEq ι] [DecidableEq ρ]

def dedupe {β : Type} [DecidableEq β] : List β → List β
  | [] => []
  | x :: xs => let r := dedupe xs; if x ∈ r then r else x :: r

/-- all ways to linearize one pending operation of `c` -/
def linSucc (S : Spec σ ι ρ) (c : CCfg σ ι ρ) : List (CCfg σ ι ρ) :=
  c.thr.filterMap fun e =>
    match lookupT c.thr e.1 with
    | some (CStat.pend i r) =>
      match S.exec c.st i r with
      | some s' => some { st := s', thr := setT c.thr e.1 (.done r) }
      | none => none
    | _ => none

def linClose (S : Spec σ ι ρ) : Nat → List (CCfg σ ι ρ) → List (CCfg σ ι ρ)
  | 0, cs => cs
  | f + 1, cs => linClose S f (dedupe (cs ++ cs.flatMap (linSucc S)))

def maxLen (cs : List (CCfg σ ι ρ)) : Nat := cs.foldl (fun n c => max n c.thr.length) 0

/-- the configurations after the event itself, before closing under `lin` -/
def linEvent0 (cs : List (CCfg σ ι ρ)) : HEv ι ρ → List (CCfg σ ι ρ)
  | .inv t i r =>
    cs.filterMap fun c =>
      match lookupT c.thr t with
      | some _ => none
      | none => some { c with thr := c.thr ++ [(t, .pend i r)] }
  | .ret t r =>
    cs.filterMap fun c =>
      match lookupT c.thr t with
      | some (CStat.done r') => if r' = r then some { c with thr := c.thr.filter (fun e => e.1 != t) } else none
      | _ => none

def linEvent (S : Spec σ ι ρ) (cs : List (CCfg σ ι ρ)) (ev : HEv ι ρ) : List (CCfg σ ι ρ) :=
  let cs := linEvent0 cs ev
  linClose S (maxLen cs) cs

/-- is the input complete and consistently annotated (every response carries the result announced
at its invocation, one operation in flight per thread, nothing in flight at the end)?  Only then
is a `false` of `linCheck` a verdict "not linearizable". -/
def wellAnnotatedB (pend : List (Nat × ρ)) : List (HEv ι ρ) → Bool
  | [] => pend.isEmpty
  | .inv t _ k :: rest => (lookupT pend t).isNone && wellAnnotatedB ((t, k) :: pend) rest
  | .ret t r :: rest => decide (lookupT pend t = some r) && wellAnnotatedB (pend.filter (fun e => e.1 != t)) rest

/-- `true` iff the stamped history is linearizable w.r.t. `S` -/
def linCheck (S : Spec σ ι ρ) (h : List (HEv ι ρ)) : Bool :=
  !(h.foldl (linEvent S) [{ st := S.init, thr := [] }]).isEmpty

end checker

end Kit.Containers
