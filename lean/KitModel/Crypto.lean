/- Umbrella import for the executable crypto specifications (`Kit.Crypto`). -/
import KitModel.Crypto.Util
import KitModel.Crypto.Sha2
import KitModel.Crypto.Hmac
import KitModel.Crypto.Aes
import KitModel.Crypto.Gcm
import KitModel.Crypto.ChaCha
import KitModel.Crypto.KeyWrap
import KitModel.Crypto.CbcHmac
import KitModel.Crypto.Base64
import KitModel.Crypto.Dispatch
