/-
Model of `events/ratelimiting/coalescing.go` (dapr/kit), after the repair of `Close`
(`fix: ratelimiting …`): a labelled transition system over the fields of `coalescing`
plus counters for the helper goroutines it starts.  Core Lean only.

Correspondence of labels to code:
* `runCall`/`run`   – a `Run(ctx, ch)` call was issued / that call won `running.CompareAndSwap(false, true)`
                      and passed the prologue (`wg.Add(1)`; returns nil at once when already closed).
* `runErrRet`       – a `Run` call that lost the compare-and-swap returned "already running" (any
                      number of further `Run` calls, at any time, also after `Close`).
* `add`             – body of `Add()` (one critical section of `c.lock`): refused when closed, else
                      `pendingEvents++` and a token goroutine is started.
* `top`             – loop head: re-reads `c.timer.C()` under `RLock` and parks in the `select`.
* `deliver`         – `case <-c.inputCh` + `handleInputCh` (one critical section).
* `expire`          – `case <-timerCh` + `handleTimerFired` (one critical section); enabled as soon as
                      `now ≥ deadline` (the fake clock fires a timer exactly then, also for `d ≤ 0`).
* `tokenGiveUp`     – token goroutine takes `case <-c.closeCh`.
* `exitLoop`        – `case <-ctx.Done()` / `case <-c.closeCh` in the run loop (then `defer cancel()`).
* `advance t`       – the injected clock is moved to `t`.
* `close`/`closeRet`– `Close()` up to and including `c.lock.Unlock()` / `c.wg.Wait()` returned.
* `cancel`          – the context given to `Run` is cancelled.
* `consume`         – the consumer receives from the event channel (a sender goroutine finishes).
* `senderGiveUp`    – a sender goroutine takes `case <-ctx.Done()`.
* `runRet`          – `Run` returned.
-/
import KitModel.CoalescingIR
import KitModel.Generated.C09
namespace Kit.Coalescing
open IR

/-! `f64OfNat`, `int64Lim`, `Config` and the statement language live in `KitModel/CoalescingIR.lean`;
the guards and assignments below are the terms `harness/cmd/factgen_c09` extracts from the source
(`Kit.Generated.C09`), run by `IR.Stmt.execList`. -/

/-- What `NewCoalescing` accepts. -/
def Config.valid (c : Config) : Prop :=
  0 < c.initial ∧ c.initial ≤ c.max ∧ ∀ m, c.cap = some m → 0 < m

instance (c : Config) : Decidable c.valid := by
  unfold Config.valid
  cases h : c.cap with
  | none => exact decidable_of_iff (0 < c.initial ∧ c.initial ≤ c.max) (by simp)
  | some m => exact decidable_of_iff (0 < c.initial ∧ c.initial ≤ c.max ∧ 0 < m) (by simp)

/-- Program counter of the `Run` goroutine. -/
inductive Loop where
  | off   -- `Run` has not passed its prologue
  | top   -- at the loop head (about to re-read the timer channel and select)
  | sel   -- parked in the `select`
  | done  -- left the loop (inner context cancelled by `defer cancel()`)
  deriving Repr, DecidableEq, BEq, Hashable

structure State where
  /-- `pendingEvents`. -/
  pending : Nat := 0
  /-- token goroutines started by `Add` that have neither handed over their token nor given up. -/
  tokens : Nat := 0
  /-- `hasTimer`/`timer`: deadline of the window timer. Fired-but-unhandled ⇔ `deadline ≤ now`. -/
  timer : Option Nat := none
  /-- `currentDur`. -/
  cur : Nat
  /-- `backoffFactor`. -/
  factor : Nat := 1
  /-- set when the back-off arithmetic left the `int64` range: from then on the model does not
  claim to describe the code (`backoff_no_overflow` shows when this cannot happen). -/
  ovf : Bool := false
  /-- signals started (`fireEvent` with `pendingEvents > 0`). -/
  fires : Nat := 0
  /-- sender goroutines blocked on the event channel. -/
  senders : Nat := 0
  /-- signals received by the consumer. -/
  consumed : Nat := 0
  /-- senders that gave up because the context was done. -/
  dropped : Nat := 0
  /-- accepted `Add` calls. -/
  adds : Nat := 0
  now : Nat := 0
  /-- `closeCh` closed. -/
  closed : Bool := false
  /-- context passed to `Run` cancelled. -/
  cancelled : Bool := false
  /-- `Run` calls issued that have not done their compare-and-swap yet. -/
  runCalls : Nat := 0
  /-- the `running` flag (set by the one `Run` call that wins). -/
  casDone : Bool := false
  /-- `Run` calls that returned "already running". -/
  runErrReturned : Nat := 0
  loop : Loop := .off
  /-- `Close` calls inside `wg.Wait()`. -/
  closeWaiting : Nat := 0
  closeReturned : Nat := 0
  runReturned : Bool := false
  /-- ghost: tokens that extended the current window (0 when it was opened). -/
  wk : Nat := 0
  /-- ghost: clock value at which the timer was last armed. -/
  armedAt : Nat := 0
  deriving Repr, DecidableEq, BEq, Hashable

/-- The fields the source blocks read and write, as an `IR.Env`. -/
def State.env (s : State) : Env := { pending := s.pending, cur := s.cur, factor := s.factor }

/-- Write an `IR.Env` back (the overflow flag is sticky). -/
def State.withEnv (s : State) (e : Env) : State :=
  { s with pending := e.pending, cur := e.cur, factor := e.factor, ovf := s.ovf || e.ovf }

/-- `NewCoalescing`'s literal: `currentDur`, `backoffFactor` as in the source; everything else zero. -/
def init (cfg : Config) : State :=
  { cur := Generated.C09.initCur.eval cfg { pending := 0, cur := 0, factor := 0 },
    factor := Generated.C09.initFactor }

inductive Label where
  | runCall | run | runErrRet | add | top | deliver | tokenGiveUp | expire | exitLoop
  | advance (t : Nat)
  | close | closeRet | cancel | consume | senderGiveUp | runRet
  deriving Repr, DecidableEq

/-! ### the handlers -/

/-- `fireEvent`: the source's guard (`Generated.C09.fireGuard`), its field assignments
(`fireZero`), then `wg.Add(1)` and the sender goroutine. -/
def fire (cfg : Config) (s : State) : State :=
  if Generated.C09.fireGuard.eval cfg s.env then
    { s.withEnv (Stmt.execList cfg Generated.C09.fireZero s.env) with
      fires := s.fires + 1, senders := s.senders + 1 }
  else s

/-- `c.maxPendingEvents != nil && <Generated.C09.capGuard>`. -/
def capReached (cfg : Config) (s : State) : Bool :=
  match cfg.cap with
  | none => false
  | some _ => Generated.C09.capGuard.eval cfg s.env

/-- The back-off block of `handleInputCh` (`Generated.C09.backoffBlock`), today:
```
if c.currentDur < c.maxDelay {
    c.backoffFactor *= 2
    c.currentDur = time.Duration(float64(c.initialDelay) * float64(c.backoffFactor))
    if c.currentDur > c.maxDelay { c.currentDur = c.maxDelay }
}
```
`backoffFactor` is a power of two (theorem `backoff_no_overflow`), so `float64(backoffFactor)` and
the product are exact as long as they stay below 2^63; outside that range (`int` wraps, the
float→int conversion is implementation defined) the model only raises `ovf` (third component).
Result: (`currentDur`, `backoffFactor`, left the int64 range). -/
def backoffVals (cfg : Config) (cur factor : Nat) : Nat × Nat × Bool :=
  let e := Stmt.execList cfg Generated.C09.backoffBlock { pending := 0, cur := cur, factor := factor }
  (e.cur, e.factor, e.ovf)

/-- `handleInputCh` (the token has been taken, the loop returns to its head afterwards).
Timer durations are the arguments the source passes (`newTimerArg`, `resetTimerArg`). -/
def handleInput (cfg : Config) (s : State) : State :=
  let s1 := { s with tokens := s.tokens - 1, loop := .top }
  match s.timer with
  | none =>
    fire cfg
      { s1 with timer := some (s.now + Generated.C09.newTimerArg.eval cfg s.env),
                armedAt := s.now, wk := 0 }
  | some _ =>
    if capReached cfg s then fire cfg s1
    else
      let b := backoffVals cfg s.cur s.factor
      { s1 with cur := b.1, factor := b.2.1, ovf := s.ovf || b.2.2,
                timer := some (s.now + Generated.C09.resetTimerArg.eval cfg
                                 { pending := s.pending, cur := b.1, factor := b.2.1 }),
                armedAt := s.now, wk := s.wk + 1 }

/-- `handleTimerFired` = `fireEvent` + `reset` (`Generated.C09.resetBlock`, timer cleared). -/
def handleTimer (cfg : Config) (s : State) : State :=
  let s1 := fire cfg s
  { s1.withEnv (Stmt.execList cfg Generated.C09.resetBlock s1.env) with
    timer := none, loop := .top, wk := 0 }

/-- The run loop is inside its `for`. -/
def State.running (s : State) : Bool := decide (s.loop = .top ∨ s.loop = .sel)

/-- The context the sender goroutines watch (child of the caller's, cancelled when `Run` returns). -/
def State.ctxDone (s : State) : Bool := s.cancelled || decide (s.loop = .done)

/-- `wg` counter: run loop + token goroutines + sender goroutines. -/
def State.helpers (s : State) : Nat := s.tokens + s.senders + (if s.running then 1 else 0)

/-! ### transitions -/

def step (cfg : Config) (s : State) : Label → Option State
  | .runCall => some { s with runCalls := s.runCalls + 1 }
  | .run =>
    if 0 < s.runCalls ∧ s.casDone = false then
      some { s with runCalls := s.runCalls - 1, casDone := true,
                    loop := if s.closed then .done else .top }
    else none
  | .runErrRet =>
    if 0 < s.runCalls ∧ s.casDone = true then
      some { s with runCalls := s.runCalls - 1, runErrReturned := s.runErrReturned + 1 }
    else none
  | .add =>
    if s.closed then some s
    else some { s.withEnv (Stmt.execList cfg Generated.C09.addBlock s.env) with
                tokens := s.tokens + 1, adds := s.adds + 1 }
  | .top => if s.loop = .top then some { s with loop := .sel } else none
  | .deliver => if s.loop = .sel ∧ 0 < s.tokens then some (handleInput cfg s) else none
  | .tokenGiveUp => if s.closed ∧ 0 < s.tokens then some { s with tokens := s.tokens - 1 } else none
  | .expire =>
    match s.timer with
    | some d => if s.loop = .sel ∧ d ≤ s.now then some (handleTimer cfg s) else none
    | none => none
  | .exitLoop =>
    if s.loop = .sel ∧ (s.closed ∨ s.cancelled) then some { s with loop := .done } else none
  | .advance t => if s.now ≤ t then some { s with now := t } else none
  | .close => some { s with closed := true, closeWaiting := s.closeWaiting + 1 }
  | .closeRet =>
    if 0 < s.closeWaiting ∧ s.helpers = 0 then
      some { s with closeWaiting := s.closeWaiting - 1, closeReturned := s.closeReturned + 1 }
    else none
  | .cancel => some { s with cancelled := true }
  | .consume =>
    if 0 < s.senders then some { s with senders := s.senders - 1, consumed := s.consumed + 1 }
    else none
  | .senderGiveUp =>
    if 0 < s.senders ∧ s.ctxDone then
      some { s with senders := s.senders - 1, dropped := s.dropped + 1 }
    else none
  | .runRet =>
    if s.loop = .done ∧ ¬ s.runReturned then some { s with runReturned := true } else none

/-- Labels of the component's own goroutines (everything but API calls, the clock and the consumer). -/
def Label.internal : Label → Bool
  | .run | .top | .deliver | .tokenGiveUp | .expire | .exitLoop | .senderGiveUp => true
  | _ => false

/-- Reachable states. -/
inductive Reach (cfg : Config) : State → Prop where
  | init : Reach cfg (init cfg)
  | step {s s' : State} (l : Label) : Reach cfg s → step cfg s l = some s' → Reach cfg s'

/-- Invariant principle. -/
theorem reach_inv {cfg : Config} (Inv : State → Prop) (h0 : Inv (init cfg))
    (hs : ∀ s l s', Reach cfg s → Inv s → step cfg s l = some s' → Inv s') :
    ∀ s, Reach cfg s → Inv s := by
  intro s h
  induction h with
  | init => exact h0
  | step l hr hst ih => exact hs _ l _ hr ih hst

/-- Execution of a list of labels. -/
def exec (cfg : Config) : State → List Label → Option State
  | s, [] => some s
  | s, l :: ls => (step cfg s l).bind fun s' => exec cfg s' ls

theorem reach_exec {cfg : Config} {s s' : State} (ls : List Label) :
    Reach cfg s → exec cfg s ls = some s' → Reach cfg s' := by
  induction ls generalizing s with
  | nil => intro h e; simp [exec] at e; exact e ▸ h
  | cons l ls ih =>
    intro h e
    simp only [exec] at e
    cases hst : step cfg s l with
    | none => simp [hst] at e
    | some s1 =>
      simp [hst] at e
      exact ih (Reach.step l h hst) e

/-! ### the code before the repair: `Close` waited while holding `c.lock`

Only what the witness needs: the run loop's position, the lock, tokens.  `closeCall` closes
`closeCh`, takes `c.lock` and waits for `wg` *with the lock held*; the loop head needs `RLock`,
the handlers and `Add` need `Lock`. -/
namespace Legacy

structure LState where
  loop : Loop := .top
  tokens : Nat := 0
  closed : Bool := false
  /-- `Close` is inside `c.wg.Wait()` holding `c.lock`. -/
  closeHoldsLock : Bool := false
  closeReturned : Bool := false
  deriving Repr, DecidableEq

inductive LLabel where
  | add | top | deliver | tokenGiveUp | exitLoop | closeCall | closeRet
  deriving Repr, DecidableEq

def lstep (s : LState) : LLabel → Option LState
  | .add => if s.closeHoldsLock then none else some { s with tokens := s.tokens + 1 }
  | .top => if s.loop = .top ∧ ¬ s.closeHoldsLock then some { s with loop := .sel } else none
  | .deliver =>
    if s.loop = .sel ∧ 0 < s.tokens ∧ ¬ s.closeHoldsLock then
      some { s with tokens := s.tokens - 1, loop := .top } else none
  | .tokenGiveUp => if s.closed ∧ 0 < s.tokens then some { s with tokens := s.tokens - 1 } else none
  | .exitLoop => if s.loop = .sel ∧ s.closed then some { s with loop := .done } else none
  | .closeCall =>
    if s.closed then none else some { s with closed := true, closeHoldsLock := true }
  | .closeRet =>
    if s.closeHoldsLock ∧ s.tokens = 0 ∧ s.loop = .done then
      some { s with closeHoldsLock := false, closeReturned := true } else none

def lexec : LState → List LLabel → Option LState
  | s, [] => some s
  | s, l :: ls => (lstep s l).bind fun s' => lexec s' ls

end Legacy

end Kit.Coalescing
