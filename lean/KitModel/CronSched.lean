import KitModel.Generated.C05
/-
Executable model of the run loop of `cron.Cron` (/repo/cron/cron.go: Schedule, Remove, Entries,
Start, run, startJob, Stop).  Core Lean only.

The model is a labelled transition system.  API calls whose effect happens in one rendezvous with
the scheduler goroutine are single labels (`add`, `remove`, `snapshot`, `stop`, `start`); the
scheduler goroutine carries a program counter `Pc`, and the places where it reads the clock are
separate internal labels (`boot`, `refresh`, `arm`) so that the clock may advance between any two
of them (`advance t`).  A timer wake-up is the label `wake`; it is enabled exactly when the armed
timer has put a value into its channel, and it is *not* forced to happen before a pending API
request: both `select` cases are ready and Go picks either.

The loop variable `now` is kept exactly as the code keeps it: it is the value read from the timer
channel (the clock value at the instant the timer fired, which is stale if the clock moved on
before the loop ran) or `c.now()` after an add/remove.  The timer is armed for
`entries[0].Next.Sub(now)`, i.e. its deadline is `clock-at-arming + (Next - now)`.

T1: the branches whose shape has plausible variants in the source are stated over the facts
regenerated from cron/cron.go on every run (`KitModel/Generated/C05.lean`, abbreviated `G`):
whether the add / remove branches and the top of the outer loop execute `now = c.now()`
(`G.addRefreshesNow`, `G.removeRefreshesNow`, `G.armRefreshesNow`) and the argument of
`e.Schedule.Next(…)` in the wake-up loop (`G.wakeNextArg`).  The remaining shape (channel
capacities, select cases and exits, break condition, statement order, Stop, startJob, the job
waiter, hook sites, and the full canonical text of every function) is pinned by
`source_shape_as_modelled` in `KitProofs/Props/C05.lean` against `KitModel/CronSchedShape.lean`.

Schedules are arbitrary functions: `S sid t` is `Schedule.Next(t)` of the schedule with index
`sid`; time `0` is Go's zero `time.Time` ("never").  All theorems quantify over `S`.
-/
namespace Kit.CronSched

/-- Times are natural numbers (`0` = Go's zero `time.Time`); written `Nat` below so that
`omega` sees them. -/
abbrev Time := Nat

/-- `Schedule.Next` for every schedule index. -/
abbrev Scheds := Nat → Nat → Nat

/-- cron.go:69 `Entry` (ID, Schedule, Next, Prev). -/
structure Entry where
  id : Nat
  sid : Nat
  next : Nat
  prev : Nat
  deriving Repr, DecidableEq

/-- A `clock.Timer` created by `c.clk.NewTimer(d)`; `armedAt` is the clock value at creation
(ghost, used only by theorems), `fired` the value sitting in / taken from its 1-slot channel. -/
structure Timer where
  armedAt : Nat
  deadline : Nat
  fired : Option Nat
  deriving Repr, DecidableEq

/-- Timer semantics shared with the harness clock: a timer fires as soon as `now ≥ deadline`
and sends the clock value of that instant; a fired timer keeps its value. -/
def Timer.tick (tm : Timer) (t : Nat) : Timer :=
  match tm.fired with
  | some _ => tm
  | none => if tm.deadline ≤ t then { tm with fired := some t } else tm

/-- Program counter of the scheduler goroutine. -/
inductive Pc where
  /-- no scheduler goroutine (`running = false`) -/
  | off
  /-- `go c.run()` issued; `now := c.now()` and the initial `Next` computation not yet done -/
  | boot
  /-- a request was received on `c.add` (`some (id, sid)`) or `c.remove` (`none`);
      `now = c.now()` not yet executed -/
  | refresh (pending : Option (Nat × Nat))
  /-- about to `sort.Sort` and arm the timer (top of the outer `for`) -/
  | arm
  /-- blocked in the `select`; `none` = the never-firing channel of the "no entries" branch -/
  | parked (timer : Option Timer)
  deriving Repr, DecidableEq

inductive JobSt where
  /-- `startJob` ran (`jobWaiter.Add(1)`, `go func`) — the job function has not begun yet -/
  | launched
  /-- the job function is running; it read the clock value `c` when it began -/
  | begun (c : Nat)
  deriving Repr, DecidableEq

/-- An outstanding job goroutine (counted by `jobWaiter`). -/
structure Job where
  eid : Nat
  act : Nat
  wake : Nat
  st : JobSt
  deriving Repr, DecidableEq

/-- The goroutine behind the context returned by `Stop`: `jobWaiter.Wait(); cancel()`. -/
inductive CtxSt where
  | created
  | waiting
  | done
  deriving Repr, DecidableEq

/-- History records (ghost): every computation of a `Next` and every job launch. -/
inductive Rec where
  /-- `Next := a` computed from `t` (`run` start-up or add), `a = S sid t` -/
  | sched (id sid t a : Nat)
  /-- activation `a` of entry `id` launched at a wake with loop `now = w`, clock `c` -/
  | run (id sid a w c : Nat)
  deriving Repr, DecidableEq

def Rec.id : Rec → Nat
  | .sched id _ _ _ => id
  | .run id _ _ _ _ => id
def Rec.sid : Rec → Nat
  | .sched _ sid _ _ => sid
  | .run _ sid _ _ _ => sid
/-- the argument from which the entry's *following* `Next` was computed -/
def Rec.basis : Rec → Nat
  | .sched _ _ t _ => t
  | .run _ _ _ w _ => w
def Rec.isRun : Rec → Bool
  | .run .. => true
  | _ => false
/-- the activation a `run` record launched (0 for `sched`) -/
def Rec.act : Rec → Nat
  | .run _ _ a _ _ => a
  | _ => 0

structure State where
  clock : Nat
  running : Bool
  nextID : Nat
  entries : List Entry
  /-- the loop variable `now` of `run()` -/
  now : Nat
  pc : Pc
  jobs : List Job
  ctxs : List CtxSt
  /-- newest first -/
  log : List Rec
  deriving Repr, DecidableEq

def init (t0 : Nat) : State :=
  { clock := t0, running := false, nextID := 0, entries := [], now := 0, pc := .off,
    jobs := [], ctxs := [], log := [] }

inductive Label where
  | add (sid : Nat)
  | remove (id : Nat)
  | snapshot
  | stop
  | start
  | advance (t : Nat)
  | boot
  | refresh
  | arm
  | wake
  | jobBegin (i : Nat)
  | jobDone (i : Nat)
  | ctxWait (k : Nat)
  deriving Repr, DecidableEq

/-! ### `byTime` ordering and the sort -/

/-- cron.go:102 `byTime.Less`: zero sorts last. -/
def less (a b : Entry) : Bool :=
  if a.next = 0 then false else if b.next = 0 then true else a.next < b.next

def insertBT (e : Entry) : List Entry → List Entry
  | [] => [e]
  | x :: xs => if less e x then e :: x :: xs else x :: insertBT e xs

/-- `sort.Sort(byTime(c.entries))`.  Go's sort is not stable; every theorem uses only that the
result is a permutation ordered by `less`, so the choice among ties is immaterial. -/
def sortBT : List Entry → List Entry
  | [] => []
  | e :: es => insertBT e (sortBT es)

/-! ### the wake-up loop (cron.go:296-304) -/

/-- `for _, e := range c.entries { if e.Next.After(now) || e.Next.IsZero() { break } … }`.
Returns the updated entries and the entries (old values) whose job was started. -/
def wakeNextBasis (now : Nat) (e : Entry) : Nat :=
  match Kit.Generated.C05.wakeNextArg with
  | .now => now
  | .prev => e.next   -- `e.Prev` right after `e.Prev = e.Next`

def wakeLoop (S : Scheds) (now : Nat) : List Entry → List Entry × List Entry
  | [] => ([], [])
  | e :: rest =>
    if now < e.next ∨ e.next = 0 then (e :: rest, [])
    else
      let r := wakeLoop S now rest
      ({ e with prev := e.next, next := S e.sid (wakeNextBasis now e) } :: r.1, e :: r.2)

def launchJob (w : Nat) (e : Entry) : Job := { eid := e.id, act := e.next, wake := w, st := .launched }
def runRec (w c : Nat) (e : Entry) : Rec := .run e.id e.sid e.next w c
def schedRec (t : Nat) (e : Entry) : Rec := .sched e.id e.sid t e.next

/-- Arming (cron.go:277-284). -/
def armTimer (clock now : Nat) : List Entry → Option Timer
  | [] => none
  | e :: _ =>
    if e.next = 0 then none
    else
      let d := clock + e.next - now
      some { armedAt := clock, deadline := d, fired := if d ≤ clock then some clock else none }

def isParked : Pc → Bool
  | .parked _ => true
  | _ => false

def releaseWaiting (cs : List CtxSt) : List CtxSt :=
  cs.map fun c => match c with
    | .waiting => .done
    | c => c

/-- One transition; `none` = the label is not enabled (an API call on a running Cron is enabled
only while the loop is in its `select`). -/
def step (S : Scheds) (s : State) : Label → Option State
  | .add sid =>
    let id := s.nextID + 1
    if s.running then
      if isParked s.pc then some { s with nextID := id, pc := .refresh (some (id, sid)) } else none
    else
      some { s with nextID := id, entries := s.entries ++ [{ id := id, sid := sid, next := 0, prev := 0 }] }
  | .remove id =>
    if s.running then
      if isParked s.pc then
        some { s with entries := s.entries.filter (fun e => e.id ≠ id), pc := .refresh none }
      else none
    else some { s with entries := s.entries.filter (fun e => e.id ≠ id) }
  | .snapshot =>
    if s.running then (if isParked s.pc then some s else none) else some s
  | .start =>
    if s.running then some s else some { s with running := true, pc := .boot }
  | .stop =>
    if s.running then
      if isParked s.pc then
        some { s with running := false, pc := .off, ctxs := s.ctxs ++ [.created] }
      else none
    else some { s with ctxs := s.ctxs ++ [.created] }
  | .advance t =>
    if t < s.clock then none
    else
      match s.pc with
      | .parked (some tm) => some { s with clock := t, pc := .parked (some (tm.tick t)) }
      | _ => some { s with clock := t }
  | .boot =>
    match s.pc with
    | .boot =>
      let es := s.entries.map fun e => { e with next := S e.sid s.clock }
      some { s with now := s.clock, entries := es, pc := .arm,
                    log := es.map (schedRec s.clock) ++ s.log }
    | _ => none
  | .refresh =>
    match s.pc with
    | .refresh none =>
      some { s with now := if Kit.Generated.C05.removeRefreshesNow then s.clock else s.now, pc := .arm }
    | .refresh (some (id, sid)) =>
      let t := if Kit.Generated.C05.addRefreshesNow then s.clock else s.now
      let e : Entry := { id := id, sid := sid, next := S sid t, prev := 0 }
      some { s with now := t, entries := s.entries ++ [e], pc := .arm,
                    log := schedRec t e :: s.log }
    | _ => none
  | .arm =>
    match s.pc with
    | .arm =>
      let now := if Kit.Generated.C05.armRefreshesNow then s.clock else s.now
      let es := sortBT s.entries
      some { s with now := now, entries := es, pc := .parked (armTimer s.clock now es) }
    | _ => none
  | .wake =>
    match s.pc with
    | .parked (some tm) =>
      match tm.fired with
      | some v =>
        let r := wakeLoop S v s.entries
        some { s with now := v, entries := r.1, pc := .arm,
                      jobs := s.jobs ++ r.2.map (launchJob v),
                      log := r.2.map (runRec v s.clock) ++ s.log }
      | none => none
    | _ => none
  | .jobBegin i =>
    match s.jobs[i]? with
    | some j =>
      match j.st with
      | .launched => some { s with jobs := s.jobs.set i { j with st := .begun s.clock } }
      | _ => none
    | none => none
  | .jobDone i =>
    match s.jobs[i]? with
    | some j =>
      match j.st with
      | .begun _ =>
        let js := s.jobs.eraseIdx i
        some { s with jobs := js, ctxs := if js.isEmpty then releaseWaiting s.ctxs else s.ctxs }
      | _ => none
    | none => none
  | .ctxWait k =>
    match s.ctxs[k]? with
    | some .created => some { s with ctxs := s.ctxs.set k (if s.jobs.isEmpty then .done else .waiting) }
    | _ => none

/-- What `Entries()` returns in state `s` (cron.go:372 `entrySnapshot`). -/
def snapshotOf (s : State) : List Entry := s.entries

/-- Run a history; `none` if some label was not enabled. -/
def runFrom (S : Scheds) (s : State) : List Label → Option State
  | [] => some s
  | l :: ls => match step S s l with
    | some s' => runFrom S s' ls
    | none => none

/-- States reachable from some initial clock value. -/
inductive Reach (S : Scheds) : State → Prop where
  | init (t0 : Nat) : Reach S (init t0)
  | step {s s' : State} (l : Label) : Reach S s → step S s l = some s' → Reach S s'

/-- Labels of the scheduler goroutine and the Stop-context goroutines (not controlled by callers). -/
def internalLabels (s : State) : List Label :=
  [.boot, .refresh, .arm, .wake] ++ (List.range s.ctxs.length).map .ctxWait

end Kit.CronSched
