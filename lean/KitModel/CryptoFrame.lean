import KitModel.SliceHeap
/-!
The `[]byte`-taking helpers of `github.com/dapr/kit/crypto`, `crypto/aeskw`, `crypto/padding`,
`crypto/aescbcaead` as heap transformers (property C17).

Every function follows the Go source statement by statement **as far as memory goes**: which
slices it allocates, appends to, copies into, re-slices, passes as `dst` to the standard library.
Values produced by cryptographic primitives are abstract (`Env.stream`); byte-exact where the Go
code itself is byte-exact (PKCS#7 padding, key-wrap counters, xor).

`Version.orig` is the code as found (kept for the witness theorems); `Version.fixed` is the code
after the two `fix:` commits in `/repo/crypto` — what the frame theorems are about:
* `padding.PadPKCS7` returned `append(buf, padding...)`      → pads into a fresh buffer;
* `decryptSymmetricAEAD` / `decryptSymmetricChaCha20Poly1305` did
  `ciphertext = append(ciphertext, tag...)`                  → build `ciphertext‖tag` in a new slice.
Core Lean only.
-/
namespace Kit.CryptoFrame
open Kit Kit.SH

inductive Version where
  | orig | fixed
  deriving DecidableEq, Repr

/-! ### error classes (canonical names shared with the harness) -/

def eKeyTypeMismatch := "KeyTypeMismatch"
def eInvalidNonce := "InvalidNonce"
def eInvalidTag := "InvalidTag"
def eInvalidPlaintextLength := "InvalidPlaintextLength"
def eInvalidCiphertextLength := "InvalidCiphertextLength"
def eUnsupportedAlgorithm := "UnsupportedAlgorithm"
def ePKCS7BlockSize := "pkcs7BlockSize"
def ePKCS7Padding := "pkcs7Padding"
def eOther := "other"

/-- `if err != nil { panic(err) }` -/
def orPanic (m : M α) : M α := fun h =>
  match m h with
  | (.err e, h') => (.panic e, h')
  | r => r

/-- `if err != nil { return nil, e }` (an error is replaced by a sentinel) -/
def mapErr (e : String) (m : M α) : M α := fun h =>
  match m h with
  | (.err _, h') => (.err e, h')
  | r => r

/-- `if c { return …, e }` -/
def failIf (c : Bool) (e : String) : M Unit := if c then fail e else pure ()
def panicIf (c : Bool) (w : String) : M Unit := if c then goPanic w else pure ()

/-- the slices are handed to code that, by contract, only reads them (`h.Write(x)`,
`rsa.VerifyPKCS1v15(…, digest, sig)`, `jwk.ParseKey(raw)` …) -/
def touch (xs : List Slice) : M Unit := loop xs fun x => do
  let _ ← readS x
  pure ()

/-! ## crypto/padding -/

/-- `padding.PadPKCS7(buf, size)` -/
def padPKCS7 (v : Version) (buf : Slice) (size : Int) : M Slice := do
  failIf (size ≤ 1 || size ≥ 256) ePKCS7BlockSize
  let sz := size.toNat
  let bufLen := buf.len
  let padLen := sz - bufLen % sz
  let padding ← bytesRepeat (UInt8.ofNat padLen) padLen
  match v with
  | .orig => do
    -- return append(buf, padding...), nil
    let pad ← readS padding
    append buf pad
  | .fixed => do
    -- out := make([]byte, bufLen+padLen); copy(out, buf); copy(out[bufLen:], padding)
    let out ← make (bufLen + padLen)
    let _ ← copyS out buf
    let tail ← resliceFrom out bufLen
    let _ ← copyS tail padding
    pure out

/-- `padding.UnpadPKCS7(buf, size)`: reads, returns a sub-slice of `buf` -/
def unpadPKCS7 (buf : Slice) (size : Int) : M Slice := do
  failIf (size ≤ 1 || size ≥ 256) ePKCS7BlockSize
  let sz := size.toNat
  let l := buf.len
  if l = 0 then alloc []          -- return []byte{}, nil
  else do
    failIf (l % sz != 0) ePKCS7Padding
    let bs ← readS buf
    let padLen := (bs.getLast?.getD 0).toNat          -- int(buf[l-1])
    failIf (padLen == 0 || padLen > sz) ePKCS7Padding
    failIf ((bs.drop (l - padLen)).any (· != UInt8.ofNat padLen)) ePKCS7Padding
    reslice buf 0 (l - padLen)

/-! ## crypto/aeskw -/

def defaultIV : List UInt8 := List.replicate 8 0xA6

/-- big-endian 8 bytes (`binary.BigEndian.PutUint64`) -/
def be64 (t : Nat) : List UInt8 :=
  (List.range 8).map fun k => UInt8.ofNat (t / 256 ^ (7 - k))

/-- `out = append(out, array...)` for each remaining array -/
def appendAll (out : Slice) : List Slice → M Slice
  | [] => pure out
  | a :: rest => do
    let vals ← readS a
    let out ← append out vals
    appendAll out rest

/-- `arrConcat(arrays...)` -/
def arrConcat (arrays : List Slice) : M Slice :=
  match arrays with
  | [] => goPanic "index out of range [0]"
  | a0 :: rest => do
    let out ← make a0.len
    let _ ← copyS out a0
    appendAll out rest

/-- `arrXor(arrL, arrR)` -/
def arrXor (arrL arrR : Slice) : M Slice := do
  let out ← make arrL.len
  panicIf (decide (arrR.len < arrL.len)) "index out of range"
  let l ← readS arrL
  let r ← readS arrR
  writeAt out 0 (List.zipWith (· ^^^ ·) l r)
  pure out

/-- `aeskw.Wrap(block, cek)` -/
def wrap (env : Env) (cek : Slice) : M Slice := do
  failIf (cek.len % 8 != 0) eOther
  failIf (decide (cek.len < 16)) eOther
  let a ← make 8
  writeAt a 0 defaultIV                       -- copy(a, defaultIV)
  let n := cek.len / 8
  let r ← collect (List.range n) fun i => do
    let ri ← make 8
    let src ← resliceFrom cek (i * 8)
    let _ ← copyS ri src
    pure ri
  loop (List.range 6) fun j =>
    loop (List.range n) fun i0 => do           -- i = i0 + 1
      let ri := r.getD i0 Slice.nil
      let b ← arrConcat [a, ri]
      blockCrypt env b b
      let tBytes ← make 8
      writeAt tBytes 0 (be64 (n * j + i0 + 1))
      let bl ← reslice b 0 (b.len / 2)
      let x ← arrXor bl tBytes
      let _ ← copyS a x
      let bh ← resliceFrom b (b.len / 2)
      let _ ← copyS ri bh
      pure ()
  let c ← make ((n + 1) * 8)
  let _ ← copyS c a
  loop (List.range n) fun i0 => do             -- c[(i*8)+j] = r[i-1][j]
    let vals ← readS (r.getD i0 Slice.nil)
    writeAt c ((i0 + 1) * 8) vals
  pure c

/-- `aeskw.Unwrap(block, cipherText)` -/
def unwrap (env : Env) (cipherText : Slice) : M Slice := do
  failIf (decide (cipherText.len < 24) || cipherText.len % 8 != 0) eOther
  let a ← make 8
  let n := cipherText.len / 8 - 1
  let r ← collect (List.range n) fun i => do
    let ri ← make 8
    let src ← resliceFrom cipherText ((i + 1) * 8)
    let _ ← copyS ri src
    pure ri
  let hd ← reslice cipherText 0 8
  let _ ← copyS a hd
  loop (List.range 6).reverse fun j =>
    loop (List.range n).reverse fun i0 => do
      let ri := r.getD i0 Slice.nil
      let tBytes ← make 8
      writeAt tBytes 0 (be64 (n * j + i0 + 1))
      let x ← arrXor a tBytes
      let b ← arrConcat [x, ri]
      blockCrypt env b b
      let bl ← reslice b 0 (b.len / 2)
      let _ ← copyS a bl
      let bh ← resliceFrom b (b.len / 2)
      let _ ← copyS ri bh
      pure ()
  failIf (!env.authOk) eOther                  -- subtle.ConstantTimeCompare(a, defaultIV) != 1
  arrConcat r

/-! ## crypto/aescbcaead -/

structure AEADParams where
  encKeySize : Nat
  macKeySize : Nat
  tagSize : Nat
  hashSize : Nat
  deriving Repr, DecidableEq

def paramsAESCBC128SHA256 : AEADParams := ⟨16, 16, 16, 32⟩
def paramsAESCBC192SHA384 : AEADParams := ⟨24, 24, 24, 48⟩
def paramsAESCBC256SHA384 : AEADParams := ⟨32, 24, 24, 48⟩
def paramsAESCBC256SHA512 : AEADParams := ⟨32, 32, 32, 64⟩

/-- the `*aesCBCAEAD` value: the parameters and two sub-slices OF THE CALLER'S KEY -/
structure CbcAead where
  p : AEADParams
  encKey : Slice
  macKey : Slice
  deriving Repr

/-- `NewAESCBCAEAD(p)` (reached through `NewAESCBC128SHA256(key)` …): reads `len(key)`, keeps
two sub-slices of it -/
def newAESCBCAEAD (p : AEADParams) (key : Slice) : M CbcAead := do
  let l := p.encKeySize + p.macKeySize
  failIf (key.len != l) eOther
  let macKey ← reslice key 0 p.macKeySize
  let encKey ← resliceFrom key (key.len - p.encKeySize)
  pure ⟨p, encKey, macKey⟩

/-- `aead.hmacTag(hmac.New(…), additionalData, nonce, ciphertext, l)` -/
def hmacTag (env : Env) (a : CbcAead) (additionalData nonce ciphertext : Slice) : M Slice := do
  let al ← make 8
  writeAt al 0 (be64 (additionalData.len * 8))
  touch [additionalData, nonce, ciphertext, al]   -- h.Write(…) four times: reads
  let sum ← hashSum env a.p.hashSize
  reslice sum 0 a.p.tagSize

/-- the `if cap(dst) >= dstLen+size { dst = dst[:dstLen+size] } else { d := make…; copy(d, dst) }` block -/
def growDst (dst : Slice) (size : Nat) : M Slice :=
  if dst.cap ≥ dst.len + size then reslice dst 0 (dst.len + size)
  else do
    let d ← make (dst.len + size)
    let _ ← copyS d dst
    pure d

/-- `(*aesCBCAEAD).Seal(dst, nonce, plaintext, additionalData)` -/
def cbcSeal (v : Version) (env : Env) (a : CbcAead) (dst nonce plaintext additionalData : Slice) :
    M Slice := do
  panicIf (nonce.len != 16) "invalid nonce"
  orPanic (aesNewCipher a.encKey eOther)
  let plaintext ← orPanic (padPKCS7 v plaintext 16)
  let size := plaintext.len + a.p.tagSize
  let dstLen := dst.len
  let dst ← growDst dst size
  let out ← resliceFrom dst dstLen
  let body ← reslice out 0 (out.len - a.p.tagSize)
  cryptBlocks env body plaintext
  let tag ← hmacTag env a additionalData nonce body
  let tl ← resliceFrom out (out.len - a.p.tagSize)
  let _ ← copyS tl tag
  pure dst

/-- `(*aesCBCAEAD).Open(dst, nonce, ciphertext, additionalData)` -/
def cbcOpen (env : Env) (a : CbcAead) (dst nonce ciphertext additionalData : Slice) : M Slice := do
  failIf (nonce.len != 16) eOther              -- "invalid nonce size" (/repo c71e752)
  failIf (decide (ciphertext.len < a.p.tagSize)) eOther
  let _ciphertextTag ← resliceFrom ciphertext (ciphertext.len - a.p.tagSize)
  let ciphertext ← reslice ciphertext 0 (ciphertext.len - a.p.tagSize)
  let _expectTag ← hmacTag env a additionalData nonce ciphertext
  failIf (!env.authOk) eOther                  -- !hmac.Equal(ciphertextTag, expectTag)
  failIf (ciphertext.len % 16 != 0) eOther     -- an authenticated body must be whole AES blocks
  let size := ciphertext.len
  let dstLen := dst.len
  let dst ← growDst dst size
  let out ← resliceFrom dst dstLen
  aesNewCipher a.encKey eOther
  panicIf (nonce.len != 16) "cipher.NewCBCDecrypter: IV length must equal block size"
  cryptBlocks env out ciphertext
  let out ← unpadPKCS7 out 16
  reslice dst 0 (dstLen + out.len)

/-- cells the AEAD's `Seal` may write: `size` bytes of `dst`'s spare capacity, if they fit -/
def dstRange (dst : Slice) (size : Nat) : List (Nat × Nat × Nat) :=
  if dst.cap ≥ dst.len + size then [(dst.arr, dst.off + dst.len, dst.off + dst.len + size)] else []

def paddedLen (n : Nat) : Nat := n + (16 - n % 16)

def cbcSealMayWrite (a : CbcAead) (dst plaintext : Slice) : List (Nat × Nat × Nat) :=
  dstRange dst (paddedLen plaintext.len + a.p.tagSize)

def cbcOpenMayWrite (a : CbcAead) (dst ciphertext : Slice) : List (Nat × Nat × Nat) :=
  dstRange dst (ciphertext.len - a.p.tagSize)

/-! ## crypto (symmetric.go) -/

inductive KeyKind where
  | oct | rsaPriv | rsaPub | ecPriv | ecPub | edPriv | edPub | okpOther
  deriving DecidableEq, Repr

/-- a `jwk.Key`: its kind and, for symmetric keys, the slice `key.Raw(&keyBytes)` yields — jwx
hands out the very slice given to `jwk.FromRaw`, i.e. caller memory with its capacity -/
structure Key where
  kind : KeyKind
  raw : Slice
  deriving Repr

/-- a `cipher.AEAD` value as the helpers see it -/
inductive Aead where
  | std (nonceSize overhead : Nat)       -- cipher.NewGCM, chacha20poly1305.New / NewX
  | cbcHmac (a : CbcAead)
  deriving Repr

def Aead.nonceSize : Aead → Nat
  | .std ns _ => ns
  | .cbcHmac _ => 16
def Aead.overhead : Aead → Nat
  | .std _ ov => ov
  | .cbcHmac a => a.p.tagSize

def Aead.seal (v : Version) (env : Env) (ae : Aead) (dst nonce plaintext ad : Slice) : M Slice :=
  match ae with
  | .std ns ov => do
    panicIf (nonce.len != ns) "incorrect nonce length"
    stdSeal env dst plaintext ov
  | .cbcHmac a => cbcSeal v env a dst nonce plaintext ad

def Aead.open (env : Env) (ae : Aead) (dst nonce ciphertext ad : Slice) : M Slice :=
  match ae with
  | .std ns ov => do
    panicIf (nonce.len != ns) "incorrect nonce length"
    stdOpen env dst ciphertext ov eOther
  | .cbcHmac a => cbcOpen env a dst nonce ciphertext ad

def algsCBC := ["A128CBC", "A192CBC", "A256CBC"]
def algsCBCNoPad := ["A128CBC-NOPAD", "A192CBC-NOPAD", "A256CBC-NOPAD"]
def algsGCM := ["A128GCM", "A192GCM", "A256GCM"]
def algsCBCHMAC := ["A128CBC-HS256", "A192CBC-HS384", "A256CBC-HS512"]
def algsKW := ["A128KW", "A192KW", "A256KW"]
def algsGCMKW := ["A128GCMKW", "A192GCMKW", "A256GCMKW"]
def algsChaCha := ["C20P", "C20PKW", "XC20P", "XC20PKW"]
def algsECDH := ["ECDH-ES", "ECDH-ES+A128KW", "ECDH-ES+A192KW", "ECDH-ES+A256KW"]
def algsRSAOAEPSHA2 := ["RSA-OAEP-256", "RSA-OAEP-384", "RSA-OAEP-512"]
def algsRSAEnc := ["RSA1_5", "RSA-OAEP"] ++ algsRSAOAEPSHA2
def algsRS := ["RS256", "RS384", "RS512"]
def algsPS := ["PS256", "PS384", "PS512"]
def algsES := ["ES256", "ES384", "ES512"]

/-- `expectedKeySize(alg)`: `alg[1:4]` -/
def expectedKeySize (alg : String) : Nat :=
  let mid := (alg.toList.drop 1).take 3
  if mid = "128".toList then 16 else if mid = "192".toList then 24
  else if mid = "256".toList then 32 else 0

def encryptSymmetricAESCBC (v : Version) (env : Env) (plaintext : Slice) (alg : String)
    (key iv : Slice) : M Slice := do
  failIf (key.len != expectedKeySize alg) eKeyTypeMismatch
  failIf (iv.len != 16) eInvalidNonce
  failIf (algsCBCNoPad.contains alg && plaintext.len % 16 != 0) eInvalidPlaintextLength
  aesNewCipher key eKeyTypeMismatch
  let plaintext ← if algsCBCNoPad.contains alg then pure plaintext else padPKCS7 v plaintext 16
  let ciphertext ← make plaintext.len
  cryptBlocks env ciphertext plaintext
  pure ciphertext

def decryptSymmetricAESCBC (env : Env) (ciphertext : Slice) (alg : String) (key iv : Slice) :
    M Slice := do
  failIf (key.len != expectedKeySize alg) eKeyTypeMismatch
  failIf (iv.len != 16) eInvalidNonce
  failIf (ciphertext.len % 16 != 0) eInvalidCiphertextLength
  aesNewCipher key eKeyTypeMismatch
  let plaintext ← make ciphertext.len
  cryptBlocks env plaintext ciphertext
  if algsCBCNoPad.contains alg then pure plaintext else unpadPKCS7 plaintext 16

def encryptSymmetricAEAD (v : Version) (env : Env) (ae : Aead) (plaintext nonce ad : Slice) :
    M (Slice × Slice) := do
  failIf (nonce.len != ae.nonceSize) eInvalidNonce
  let out ← ae.seal v env Slice.nil nonce plaintext ad
  let tagSize := ae.overhead
  let c ← reslice out 0 (out.len - tagSize)
  let t ← resliceFrom out (out.len - tagSize)
  pure (c, t)

/-- the `ciphertext‖tag` step of the two AEAD decrypt helpers -/
def joinTag (v : Version) (ciphertext tag : Slice) : M Slice := do
  let tagBytes ← readS tag
  match v with
  | .orig => append ciphertext tagBytes      -- ciphertext = append(ciphertext, tag...)
  | .fixed => do
    -- sealed := make([]byte, 0, len(ciphertext)+len(tag)); append(append(sealed, ciphertext...), tag...)
    let s ← makeCap (ciphertext.len + tag.len)
    let ct ← readS ciphertext
    let s ← append s ct
    append s tagBytes

def decryptSymmetricAEAD (v : Version) (env : Env) (ae : Aead) (ciphertext nonce tag ad : Slice) :
    M Slice := do
  failIf (nonce.len != ae.nonceSize) eInvalidNonce
  failIf (tag.len != ae.overhead) eInvalidTag
  let ciphertext ← joinTag v ciphertext tag
  ae.open env Slice.nil nonce ciphertext ad

def getAESCBCHMACCipher (alg : String) (key : Slice) : M Aead := do
  if alg = "A128CBC-HS256" then do
    failIf (key.len != 32) eKeyTypeMismatch
    let a ← mapErr eKeyTypeMismatch (newAESCBCAEAD paramsAESCBC128SHA256 key)
    pure (.cbcHmac a)
  else if alg = "A192CBC-HS384" then do
    failIf (key.len != 48) eKeyTypeMismatch
    let a ← mapErr eKeyTypeMismatch (newAESCBCAEAD paramsAESCBC192SHA384 key)
    pure (.cbcHmac a)
  else if alg = "A256CBC-HS512" then do
    failIf (key.len != 64) eKeyTypeMismatch
    let a ← mapErr eKeyTypeMismatch (newAESCBCAEAD paramsAESCBC256SHA512 key)
    pure (.cbcHmac a)
  else fail eOther

def getChaCha20Poly1305Cipher (alg : String) (key nonce : Slice) : M Aead := do
  if alg = "C20P" ∨ alg = "C20PKW" then do
    failIf (key.len != 32) eOther              -- chacha20poly1305.New(key)
    failIf (nonce.len != 12) eInvalidNonce
    pure (.std 12 16)
  else if alg = "XC20P" ∨ alg = "XC20PKW" then do
    failIf (key.len != 32) eOther
    failIf (nonce.len != 24) eInvalidNonce
    pure (.std 24 16)
  else fail eOther

def encryptSymmetricAESGCM (v : Version) (env : Env) (plaintext : Slice) (alg : String)
    (key nonce ad : Slice) : M (Slice × Slice) := do
  failIf (key.len != expectedKeySize alg) eKeyTypeMismatch
  aesNewCipher key eKeyTypeMismatch
  encryptSymmetricAEAD v env (.std 12 16) plaintext nonce ad

def decryptSymmetricAESGCM (v : Version) (env : Env) (ciphertext : Slice) (alg : String)
    (key nonce tag ad : Slice) : M Slice := do
  failIf (key.len != expectedKeySize alg) eKeyTypeMismatch
  aesNewCipher key eKeyTypeMismatch
  decryptSymmetricAEAD v env (.std 12 16) ciphertext nonce tag ad

def encryptSymmetricAESCBCHMAC (v : Version) (env : Env) (plaintext : Slice) (alg : String)
    (key nonce ad : Slice) : M (Slice × Slice) := do
  let ae ← getAESCBCHMACCipher alg key
  encryptSymmetricAEAD v env ae plaintext nonce ad

def decryptSymmetricAESCBCHMAC (v : Version) (env : Env) (ciphertext : Slice) (alg : String)
    (key nonce tag ad : Slice) : M Slice := do
  let ae ← getAESCBCHMACCipher alg key
  decryptSymmetricAEAD v env ae ciphertext nonce tag ad

def encryptSymmetricAESKW (env : Env) (plaintext : Slice) (alg : String) (key : Slice) : M Slice := do
  failIf (key.len != expectedKeySize alg) eKeyTypeMismatch
  aesNewCipher key eKeyTypeMismatch
  wrap env plaintext

def decryptSymmetricAESKW (env : Env) (ciphertext : Slice) (alg : String) (key : Slice) : M Slice := do
  failIf (key.len != expectedKeySize alg) eKeyTypeMismatch
  aesNewCipher key eKeyTypeMismatch
  unwrap env ciphertext

def encryptSymmetricChaCha20Poly1305 (v : Version) (env : Env) (plaintext : Slice) (alg : String)
    (key nonce ad : Slice) : M (Slice × Slice) := do
  failIf (key.len != 32) eKeyTypeMismatch
  let ae ← getChaCha20Poly1305Cipher alg key nonce
  let out ← ae.seal v env Slice.nil nonce plaintext ad
  let c ← reslice out 0 (out.len - 16)
  let t ← resliceFrom out (out.len - 16)
  pure (c, t)

def decryptSymmetricChaCha20Poly1305 (v : Version) (env : Env) (ciphertext : Slice) (alg : String)
    (key nonce tag ad : Slice) : M Slice := do
  failIf (key.len != 32) eKeyTypeMismatch
  let ae ← getChaCha20Poly1305Cipher alg key nonce
  failIf (tag.len != ae.overhead) eInvalidTag
  let ciphertext ← joinTag v ciphertext tag
  ae.open env Slice.nil nonce ciphertext ad

/-- `crypto.EncryptSymmetric(plaintext, algorithm, key, nonce, associatedData)`; the result is
`(ciphertext, tag)` -/
def encryptSymmetric (v : Version) (env : Env) (plaintext : Slice) (alg : String) (key : Key)
    (nonce ad : Slice) : M (Slice × Slice) := do
  failIf (key.kind != .oct) eKeyTypeMismatch
  let keyBytes := key.raw
  if algsCBC.contains alg || algsCBCNoPad.contains alg then do
    let c ← encryptSymmetricAESCBC v env plaintext alg keyBytes nonce
    pure (c, Slice.nil)
  else if algsGCM.contains alg then encryptSymmetricAESGCM v env plaintext alg keyBytes nonce ad
  else if algsCBCHMAC.contains alg then encryptSymmetricAESCBCHMAC v env plaintext alg keyBytes nonce ad
  else if algsKW.contains alg then do
    let c ← encryptSymmetricAESKW env plaintext alg keyBytes
    pure (c, Slice.nil)
  else if algsChaCha.contains alg then
    encryptSymmetricChaCha20Poly1305 v env plaintext alg keyBytes nonce ad
  else fail eUnsupportedAlgorithm

/-- `crypto.DecryptSymmetric(ciphertext, algorithm, key, nonce, tag, associatedData)` -/
def decryptSymmetric (v : Version) (env : Env) (ciphertext : Slice) (alg : String) (key : Key)
    (nonce tag ad : Slice) : M Slice := do
  failIf (key.kind != .oct) eKeyTypeMismatch
  let keyBytes := key.raw
  if algsCBC.contains alg || algsCBCNoPad.contains alg then
    decryptSymmetricAESCBC env ciphertext alg keyBytes nonce
  else if algsGCM.contains alg then decryptSymmetricAESGCM v env ciphertext alg keyBytes nonce tag ad
  else if algsCBCHMAC.contains alg then
    decryptSymmetricAESCBCHMAC v env ciphertext alg keyBytes nonce tag ad
  else if algsKW.contains alg then decryptSymmetricAESKW env ciphertext alg keyBytes
  else if algsChaCha.contains alg then
    decryptSymmetricChaCha20Poly1305 v env ciphertext alg keyBytes nonce tag ad
  else fail eUnsupportedAlgorithm

/-! ## crypto (asymmetric_enc.go, asymmetric_sig.go): the standard library does all the work;
by contract it reads its `[]byte` inputs and returns new arrays -/

def KeyKind.isRSA : KeyKind → Bool
  | .rsaPriv | .rsaPub => true
  | _ => false

/-- `rsa.EncryptPKCS1v15 / EncryptOAEP / DecryptPKCS1v15 / DecryptOAEP / SignPKCS1v15 / SignPSS /
ecdsa.SignASN1`: reads its inputs; result in a new array, or an error -/
def asymPrim (env : Env) (outLen : Nat) : M Slice :=
  if env.primOk then freshResult env outLen else fail eOther

/-- `encryptPublicKeyRSAPKCS1v15(plaintext, key)`: `key.Raw(&rsa.PublicKey{})`, `rsa.EncryptPKCS1v15` -/
def encryptPublicKeyRSAPKCS1v15 (env : Env) (outLen : Nat) (plaintext : Slice) (key : Key) : M Slice := do
  failIf (!key.kind.isRSA) eKeyTypeMismatch
  touch [plaintext]                                 -- rsa.EncryptPKCS1v15(rand, key, plaintext)
  asymPrim env outLen

/-- `encryptPublicKeyRSAOAEP(plaintext, key, hash, label)` -/
def encryptPublicKeyRSAOAEP (env : Env) (outLen : Nat) (plaintext : Slice) (key : Key) (label : Slice) :
    M Slice := do
  failIf (!key.kind.isRSA) eKeyTypeMismatch
  touch [plaintext, label]                          -- rsa.EncryptOAEP(h, rand, key, plaintext, label)
  asymPrim env outLen

/-- `crypto.EncryptPublicKey(plaintext, algorithm, key, associatedData)` -/
def encryptPublicKey (env : Env) (outLen : Nat) (plaintext : Slice) (alg : String) (key : Key)
    (ad : Slice) : M Slice :=
  -- key.PublicKey() succeeds for every kind of jwk.Key (a symmetric key is returned as is)
  if alg = "RSA1_5" then encryptPublicKeyRSAPKCS1v15 env outLen plaintext key
  else if alg = "RSA-OAEP" then encryptPublicKeyRSAOAEP env outLen plaintext key ad
  else if algsRSAOAEPSHA2.contains alg then encryptPublicKeyRSAOAEP env outLen plaintext key ad
  else fail eUnsupportedAlgorithm

/-- `decryptPrivateKeyRSAPKCS1v15(ciphertext, key)`: `key.Raw(&rsa.PrivateKey{})`, `rsa.DecryptPKCS1v15` -/
def decryptPrivateKeyRSAPKCS1v15 (env : Env) (outLen : Nat) (ciphertext : Slice) (key : Key) : M Slice := do
  failIf (key.kind != .rsaPriv) eKeyTypeMismatch
  touch [ciphertext]                                -- rsa.DecryptPKCS1v15(rand, key, ciphertext)
  asymPrim env outLen

/-- `decryptPrivateKeyRSAOAEP(ciphertext, key, hash, label)` -/
def decryptPrivateKeyRSAOAEP (env : Env) (outLen : Nat) (ciphertext : Slice) (key : Key) (label : Slice) :
    M Slice := do
  failIf (key.kind != .rsaPriv) eKeyTypeMismatch
  touch [ciphertext, label]                         -- rsa.DecryptOAEP(h, rand, key, ciphertext, label)
  asymPrim env outLen

/-- `crypto.DecryptPrivateKey(ciphertext, algorithm, key, associatedData)` -/
def decryptPrivateKey (env : Env) (outLen : Nat) (ciphertext : Slice) (alg : String) (key : Key)
    (ad : Slice) : M Slice :=
  if alg = "RSA1_5" then decryptPrivateKeyRSAPKCS1v15 env outLen ciphertext key
  else if alg = "RSA-OAEP" then decryptPrivateKeyRSAOAEP env outLen ciphertext key ad
  else if algsRSAOAEPSHA2.contains alg then decryptPrivateKeyRSAOAEP env outLen ciphertext key ad
  else fail eUnsupportedAlgorithm

def signPrivateKeyRSAPKCS1v15 (env : Env) (outLen : Nat) (digest : Slice) (key : Key) : M Slice := do
  failIf (key.kind != .rsaPriv) eKeyTypeMismatch
  touch [digest]
  asymPrim env outLen

def signPrivateKeyRSAPSS (env : Env) (outLen : Nat) (digest : Slice) (key : Key) : M Slice := do
  failIf (key.kind != .rsaPriv) eKeyTypeMismatch
  touch [digest]
  asymPrim env outLen

def signPrivateKeyECDSA (env : Env) (outLen : Nat) (digest : Slice) (key : Key) : M Slice := do
  failIf (key.kind != .ecPriv) eKeyTypeMismatch
  touch [digest]
  asymPrim env outLen

def signPrivateKeyEdDSA (env : Env) (outLen : Nat) (message : Slice) (key : Key) : M Slice := do
  failIf (key.kind != .edPriv) eKeyTypeMismatch
  touch [message]
  freshResult env outLen                            -- ed25519.Sign never fails

/-- `crypto.SignPrivateKey(digest, algorithm, key)` -/
def signPrivateKey (env : Env) (outLen : Nat) (digest : Slice) (alg : String) (key : Key) : M Slice :=
  if algsRS.contains alg then signPrivateKeyRSAPKCS1v15 env outLen digest key
  else if algsPS.contains alg then signPrivateKeyRSAPSS env outLen digest key
  else if algsES.contains alg then signPrivateKeyECDSA env outLen digest key
  else if alg = "EdDSA" then signPrivateKeyEdDSA env outLen digest key
  else fail eUnsupportedAlgorithm

def verifyPublicKeyRSAPKCS1v15 (env : Env) (digest signature : Slice) (key : Key) : M Bool := do
  failIf (!key.kind.isRSA) eKeyTypeMismatch
  touch [digest, signature]
  pure env.sigOk

def verifyPublicKeyRSAPSS (env : Env) (digest signature : Slice) (key : Key) : M Bool := do
  failIf (!key.kind.isRSA) eKeyTypeMismatch
  touch [digest, signature]
  pure env.sigOk

def verifyPublicKeyECDSA (env : Env) (digest signature : Slice) (key : Key) : M Bool := do
  failIf (!(key.kind == .ecPriv || key.kind == .ecPub)) eKeyTypeMismatch
  touch [digest, signature]
  pure env.sigOk

def verifyPublicKeyEdDSA (env : Env) (mesage signature : Slice) (key : Key) : M Bool := do
  failIf (!(key.kind == .edPriv || key.kind == .edPub)) eKeyTypeMismatch
  touch [mesage, signature]
  pure env.sigOk

/-- `crypto.VerifyPublicKey(digest, signature, algorithm, key)` -/
def verifyPublicKey (env : Env) (digest signature : Slice) (alg : String) (key : Key) : M Bool :=
  if algsRS.contains alg then verifyPublicKeyRSAPKCS1v15 env digest signature key
  else if algsPS.contains alg then verifyPublicKeyRSAPSS env digest signature key
  else if algsES.contains alg then verifyPublicKeyECDSA env digest signature key
  else if alg = "EdDSA" then verifyPublicKeyEdDSA env digest signature key
  else fail eUnsupportedAlgorithm

/-! ## crypto (crypto.go) -/

def algsEncryptSymmetric : List String :=
  algsCBC ++ algsCBCNoPad ++ algsGCM ++ algsCBCHMAC ++ algsKW ++ algsGCMKW ++ algsChaCha
def algsEncryptAsymmetric : List String := algsECDH ++ algsRSAEnc

/-- `crypto.Encrypt(plaintext, algorithm, key, nonce, associatedData)` -/
def encrypt (v : Version) (env : Env) (outLen : Nat) (plaintext : Slice) (alg : String) (key : Key)
    (nonce ad : Slice) : M (Slice × Slice) := do
  if algsEncryptSymmetric.contains alg then encryptSymmetric v env plaintext alg key nonce ad
  else if algsEncryptAsymmetric.contains alg then do
    let c ← encryptPublicKey env outLen plaintext alg key ad
    pure (c, Slice.nil)
  else fail eUnsupportedAlgorithm

/-- `crypto.Decrypt(ciphertext, algorithm, key, nonce, tag, associatedData)` -/
def decrypt (v : Version) (env : Env) (outLen : Nat) (ciphertext : Slice) (alg : String) (key : Key)
    (nonce tag ad : Slice) : M Slice := do
  if algsEncryptSymmetric.contains alg then decryptSymmetric v env ciphertext alg key nonce tag ad
  else if algsEncryptAsymmetric.contains alg then decryptPrivateKey env outLen ciphertext alg key ad
  else fail eUnsupportedAlgorithm

/-! ## crypto (keys.go) -/

/-- `crypto.ParseKey(raw, contentType)`: jwx parsers read `raw`; the symmetric-key fallback
base64-decodes into a new buffer (and `jwk.FromRaw(raw)` keeps `raw` itself) -/
def parseSymmetricKey (env : Env) (raw : Slice) : M Unit := do
  touch [raw]
  -- trimmedRaw := bytes.TrimRight(raw, "\n=") is a sub-slice (no write)
  let dst ← make (raw.len * 6 / 8)
  writeAt dst 0 (env.bytes dst.len)              -- base64.RawStdEncoding.Decode(dst, trimmedRaw)
  writeAt dst 0 (env.bytes dst.len)              -- base64.RawURLEncoding.Decode(dst, trimmedRaw)
  if env.primOk then pure () else fail eOther    -- jwk.FromRaw(dst[:n]) / jwk.FromRaw(raw)

def parseKey (env : Env) (raw : Slice) (_contentType : String) : M Unit := do
  failIf (raw.len == 0) eOther
  touch [raw]
  -- jwk.ParseKey(raw[, WithPEM]) for JSON / PEM input only reads; otherwise:
  parseSymmetricKey env raw

/-! ## one entry point for every exported function (what `kitdrv C17` runs) -/

inductive RetV where
  | slices (l : List Slice)
  | bool (b : Bool)
  deriving Repr

/-- a call of an exported function: its name as `package.Func`, the non-slice parameters and the
`[]byte` arguments by Go parameter name (`key` = the octets of a symmetric `jwk.Key`) -/
structure Call where
  fn : String
  alg : String
  v : Version
  size : Int
  ctype : String
  kind : KeyKind
  env : Env
  outLen : Nat
  arg : String → Slice

def cbcParamsOf (alg : String) : Option AEADParams :=
  if alg = "A128CBC-HS256" then some paramsAESCBC128SHA256
  else if alg = "A192CBC-HS384" then some paramsAESCBC192SHA384
  else if alg = "A256CBC-HS384" then some paramsAESCBC256SHA384
  else if alg = "A256CBC-HS512" then some paramsAESCBC256SHA512
  else none

def Call.key (c : Call) : Key := ⟨c.kind, c.arg "key"⟩

def one (m : M Slice) : M RetV := do
  let r ← m
  pure (.slices [r])

def two (m : M (Slice × Slice)) : M RetV := do
  let r ← m
  pure (.slices [r.1, r.2])

def fnNames : List String :=
  ["padding.PadPKCS7", "padding.UnpadPKCS7", "aeskw.Wrap", "aeskw.Unwrap", "aescbcaead.New",
   "aescbcaead.Seal", "aescbcaead.Open", "crypto.Encrypt", "crypto.EncryptSymmetric",
   "crypto.Decrypt", "crypto.DecryptSymmetric", "crypto.EncryptPublicKey",
   "crypto.DecryptPrivateKey", "crypto.SignPrivateKey", "crypto.VerifyPublicKey", "crypto.ParseKey"]

def runCall (c : Call) : M RetV :=
  let a := c.arg
  if c.fn = "padding.PadPKCS7" then one (padPKCS7 c.v (a "buf") c.size)
  else if c.fn = "padding.UnpadPKCS7" then one (unpadPKCS7 (a "buf") c.size)
  else if c.fn = "aeskw.Wrap" then one (wrap c.env (a "cek"))
  else if c.fn = "aeskw.Unwrap" then one (unwrap c.env (a "cipherText"))
  else if c.fn = "aescbcaead.New" then
    match cbcParamsOf c.alg with
    | none => fail eOther
    | some p => do
      let _ ← newAESCBCAEAD p (a "key")
      pure (.slices [])
  else if c.fn = "aescbcaead.Seal" then
    match cbcParamsOf c.alg with
    | none => fail eOther
    | some p => do
      let ae ← newAESCBCAEAD p (a "key")
      one (cbcSeal c.v c.env ae (a "dst") (a "nonce") (a "plaintext") (a "additionalData"))
  else if c.fn = "aescbcaead.Open" then
    match cbcParamsOf c.alg with
    | none => fail eOther
    | some p => do
      let ae ← newAESCBCAEAD p (a "key")
      one (cbcOpen c.env ae (a "dst") (a "nonce") (a "ciphertext") (a "additionalData"))
  else if c.fn = "crypto.Encrypt" then
    two (encrypt c.v c.env c.outLen (a "plaintext") c.alg c.key (a "nonce") (a "associatedData"))
  else if c.fn = "crypto.EncryptSymmetric" then
    two (encryptSymmetric c.v c.env (a "plaintext") c.alg c.key (a "nonce") (a "associatedData"))
  else if c.fn = "crypto.Decrypt" then
    one (decrypt c.v c.env c.outLen (a "ciphertext") c.alg c.key (a "nonce") (a "tag") (a "associatedData"))
  else if c.fn = "crypto.DecryptSymmetric" then
    one (decryptSymmetric c.v c.env (a "ciphertext") c.alg c.key (a "nonce") (a "tag") (a "associatedData"))
  else if c.fn = "crypto.EncryptPublicKey" then
    one (encryptPublicKey c.env c.outLen (a "plaintext") c.alg c.key (a "associatedData"))
  else if c.fn = "crypto.DecryptPrivateKey" then
    one (decryptPrivateKey c.env c.outLen (a "ciphertext") c.alg c.key (a "associatedData"))
  else if c.fn = "crypto.SignPrivateKey" then
    one (signPrivateKey c.env c.outLen (a "digest") c.alg c.key)
  else if c.fn = "crypto.VerifyPublicKey" then do
    let b ← verifyPublicKey c.env (a "digest") (a "signature") c.alg c.key
    pure (.bool b)
  else if c.fn = "crypto.ParseKey" then do
    parseKey c.env (a "raw") c.ctype
    pure (.slices [])
  else fail "unknown-function"

/-- the cells a call may write, as `(array, lo, hi)` ranges: nothing, except the part of an
explicitly passed AEAD `dst`'s spare capacity that receives the output -/
def mayWrite (c : Call) : List (Nat × Nat × Nat) :=
  if c.fn = "aescbcaead.Seal" then
    match cbcParamsOf c.alg with
    | none => []
    | some p => dstRange (c.arg "dst") (paddedLen (c.arg "plaintext").len + p.tagSize)
  else if c.fn = "aescbcaead.Open" then
    match cbcParamsOf c.alg with
    | none => []
    | some p => dstRange (c.arg "dst") ((c.arg "ciphertext").len - p.tagSize)
  else []

/-! ## the dispatch tables the model implements, in the shape `factgen_c17` extracts them from
the `switch algorithm` statements (compared with `Generated.C17.switches` by a `decide`d theorem) -/

def dispatchTables : List (String × List (List String)) := [
  ("Decrypt", [algsEncryptSymmetric, algsEncryptAsymmetric]),
  ("DecryptPrivateKey", [["RSA1_5"], ["RSA-OAEP"], algsRSAOAEPSHA2]),
  ("DecryptSymmetric", [algsCBC ++ algsCBCNoPad, algsGCM, algsCBCHMAC, algsKW, algsChaCha]),
  ("Encrypt", [algsEncryptSymmetric, algsEncryptAsymmetric]),
  ("EncryptPublicKey", [["RSA1_5"], ["RSA-OAEP"], algsRSAOAEPSHA2]),
  ("EncryptSymmetric", [algsCBC ++ algsCBCNoPad, algsGCM, algsCBCHMAC, algsKW, algsChaCha]),
  ("SignPrivateKey", [algsRS, algsPS, algsES, ["EdDSA"]]),
  ("VerifyPublicKey", [algsRS, algsPS, algsES, ["EdDSA"]])]

/-- same algorithms in a case clause, in any order -/
def sameSet (a b : List String) : Bool := a.all b.contains && b.all a.contains

def sameClauses : List (List String) → List (List String) → Bool
  | [], [] => true
  | a :: as, b :: bs => sameSet a b && sameClauses as bs
  | _, _ => false

def sameTables : List (String × List (List String)) → List (String × List (List String)) → Bool
  | [], [] => true
  | (f, cs) :: as, (g, ds) :: bs => f == g && sameClauses cs ds && sameTables as bs
  | _, _ => false

/-! ## the registry: one entry per Go function that receives caller slices

`params` are the `[]byte` parameters in source order — exactly what `factgen_c17` extracts; `run`
is the model of the call with its slice arguments taken BY THOSE NAMES (`key.octets` = the octets of
a symmetric `jwk.Key`, `recv.encKey`/`recv.macKey` = the receiver's sub-slices of the caller's key);
`writeSites` are the sites of the Go body (as `factgen_c17` reports them) through which the model
writes caller memory — only an explicit `dst`. The T1 obligation of a generated signature is
computed from the signature (`frameStmt` in `KitProofs/Props/C17.lean`), not stated per entry. -/

/-- the non-slice parameters / context of a call -/
structure NonSlice where
  alg : String
  size : Int
  ctype : String
  kind : KeyKind
  outLen : Nat
  cbc : AEADParams
  aead : Aead

structure ModelEntry where
  pkg : String
  recv : String
  name : String
  params : List String
  writeSites : List (String × String × String)
  run : Env → NonSlice → (String → Slice) → M Unit

def discard (m : M α) : M Unit := do
  let _ ← m
  pure ()

def recvAead (ns : NonSlice) (a : String → Slice) : CbcAead := ⟨ns.cbc, a "recv.encKey", a "recv.macKey"⟩
def jwkOf (ns : NonSlice) (a : String → Slice) : Key := ⟨ns.kind, a "key.octets"⟩

def models : List ModelEntry := [
  ⟨"aescbcaead", "", "NewAESCBC128SHA256", ["key"], [],
    fun _ _ a => discard (newAESCBCAEAD paramsAESCBC128SHA256 (a "key"))⟩,
  ⟨"aescbcaead", "", "NewAESCBC192SHA384", ["key"], [],
    fun _ _ a => discard (newAESCBCAEAD paramsAESCBC192SHA384 (a "key"))⟩,
  ⟨"aescbcaead", "", "NewAESCBC256SHA384", ["key"], [],
    fun _ _ a => discard (newAESCBCAEAD paramsAESCBC256SHA384 (a "key"))⟩,
  ⟨"aescbcaead", "", "NewAESCBC256SHA512", ["key"], [],
    fun _ _ a => discard (newAESCBCAEAD paramsAESCBC256SHA512 (a "key"))⟩,
  ⟨"aescbcaead", "", "NewAESCBCAEAD", ["p.key"], [],
    fun _ ns a => discard (newAESCBCAEAD ns.cbc (a "p.key"))⟩,
  ⟨"aescbcaead", "aesCBCAEAD", "Open", ["dst", "nonce", "ciphertext", "additionalData"],
    [("pass", ".CryptBlocks#0", "dst"), ("reslice", "dst[:dstLen+len(out)]", "dst"),
     ("reslice", "dst[:dstLen+size]", "dst")],
    fun env ns a => discard (cbcOpen env (recvAead ns a) (a "dst") (a "nonce") (a "ciphertext") (a "additionalData"))⟩,
  ⟨"aescbcaead", "aesCBCAEAD", "Seal", ["dst", "nonce", "plaintext", "additionalData"],
    [("pass", ".CryptBlocks#0", "dst"), ("pass", "copy#0", "dst"), ("reslice", "dst[:dstLen+size]", "dst"),
     ("reslice", "out[:len(out)-aead.tagSize]", "dst")],
    fun env ns a => discard (cbcSeal .fixed env (recvAead ns a) (a "dst") (a "nonce") (a "plaintext") (a "additionalData"))⟩,
  ⟨"aescbcaead", "aesCBCAEAD", "hmacTag", ["additionalData", "nonce", "ciphertext"], [],
    fun env ns a => discard (hmacTag env (recvAead ns a) (a "additionalData") (a "nonce") (a "ciphertext"))⟩,
  ⟨"aeskw", "", "Unwrap", ["cipherText"], [], fun env _ a => discard (unwrap env (a "cipherText"))⟩,
  ⟨"aeskw", "", "Wrap", ["cek"], [], fun env _ a => discard (wrap env (a "cek"))⟩,
  ⟨"aeskw", "", "arrConcat", ["arrays..."], [],
    fun _ _ a => discard (arrConcat [a "arrays.0", a "arrays.1", a "arrays.2"])⟩,
  ⟨"aeskw", "", "arrXor", ["arrL", "arrR"], [], fun _ _ a => discard (arrXor (a "arrL") (a "arrR"))⟩,
  ⟨"crypto", "", "Decrypt", ["ciphertext", "nonce", "tag", "associatedData"], [],
    fun env ns a => discard (decrypt .fixed env ns.outLen (a "ciphertext") ns.alg (jwkOf ns a) (a "nonce") (a "tag") (a "associatedData"))⟩,
  ⟨"crypto", "", "DecryptPrivateKey", ["ciphertext", "associatedData"], [],
    fun env ns a => discard (decryptPrivateKey env ns.outLen (a "ciphertext") ns.alg (jwkOf ns a) (a "associatedData"))⟩,
  ⟨"crypto", "", "DecryptSymmetric", ["ciphertext", "nonce", "tag", "associatedData"], [],
    fun env ns a => discard (decryptSymmetric .fixed env (a "ciphertext") ns.alg (jwkOf ns a) (a "nonce") (a "tag") (a "associatedData"))⟩,
  ⟨"crypto", "", "Encrypt", ["plaintext", "nonce", "associatedData"], [],
    fun env ns a => discard (encrypt .fixed env ns.outLen (a "plaintext") ns.alg (jwkOf ns a) (a "nonce") (a "associatedData"))⟩,
  ⟨"crypto", "", "EncryptPublicKey", ["plaintext", "associatedData"], [],
    fun env ns a => discard (encryptPublicKey env ns.outLen (a "plaintext") ns.alg (jwkOf ns a) (a "associatedData"))⟩,
  ⟨"crypto", "", "EncryptSymmetric", ["plaintext", "nonce", "associatedData"], [],
    fun env ns a => discard (encryptSymmetric .fixed env (a "plaintext") ns.alg (jwkOf ns a) (a "nonce") (a "associatedData"))⟩,
  ⟨"crypto", "", "ParseKey", ["raw"], [], fun env ns a => parseKey env (a "raw") ns.ctype⟩,
  ⟨"crypto", "", "SignPrivateKey", ["digest"], [],
    fun env ns a => discard (signPrivateKey env ns.outLen (a "digest") ns.alg (jwkOf ns a))⟩,
  ⟨"crypto", "", "VerifyPublicKey", ["digest", "signature"], [],
    fun env ns a => discard (verifyPublicKey env (a "digest") (a "signature") ns.alg (jwkOf ns a))⟩,
  ⟨"crypto", "", "decryptPrivateKeyRSAOAEP", ["ciphertext", "label"], [],
    fun env ns a => discard (decryptPrivateKeyRSAOAEP env ns.outLen (a "ciphertext") (jwkOf ns a) (a "label"))⟩,
  ⟨"crypto", "", "decryptPrivateKeyRSAPKCS1v15", ["ciphertext"], [],
    fun env ns a => discard (decryptPrivateKeyRSAPKCS1v15 env ns.outLen (a "ciphertext") (jwkOf ns a))⟩,
  ⟨"crypto", "", "decryptSymmetricAEAD", ["ciphertext", "nonce", "tag", "associatedData"], [],
    fun env ns a => discard (decryptSymmetricAEAD .fixed env ns.aead (a "ciphertext") (a "nonce") (a "tag") (a "associatedData"))⟩,
  ⟨"crypto", "", "decryptSymmetricAESCBC", ["ciphertext", "key", "iv"], [],
    fun env ns a => discard (decryptSymmetricAESCBC env (a "ciphertext") ns.alg (a "key") (a "iv"))⟩,
  ⟨"crypto", "", "decryptSymmetricAESCBCHMAC", ["ciphertext", "key", "nonce", "tag", "associatedData"], [],
    fun env ns a => discard (decryptSymmetricAESCBCHMAC .fixed env (a "ciphertext") ns.alg (a "key") (a "nonce") (a "tag") (a "associatedData"))⟩,
  ⟨"crypto", "", "decryptSymmetricAESGCM", ["ciphertext", "key", "nonce", "tag", "associatedData"], [],
    fun env ns a => discard (decryptSymmetricAESGCM .fixed env (a "ciphertext") ns.alg (a "key") (a "nonce") (a "tag") (a "associatedData"))⟩,
  ⟨"crypto", "", "decryptSymmetricAESKW", ["ciphertext", "key"], [],
    fun env ns a => discard (decryptSymmetricAESKW env (a "ciphertext") ns.alg (a "key"))⟩,
  ⟨"crypto", "", "decryptSymmetricChaCha20Poly1305", ["ciphertext", "key", "nonce", "tag", "associatedData"], [],
    fun env ns a => discard (decryptSymmetricChaCha20Poly1305 .fixed env (a "ciphertext") ns.alg (a "key") (a "nonce") (a "tag") (a "associatedData"))⟩,
  ⟨"crypto", "", "encryptPublicKeyRSAOAEP", ["plaintext", "label"], [],
    fun env ns a => discard (encryptPublicKeyRSAOAEP env ns.outLen (a "plaintext") (jwkOf ns a) (a "label"))⟩,
  ⟨"crypto", "", "encryptPublicKeyRSAPKCS1v15", ["plaintext"], [],
    fun env ns a => discard (encryptPublicKeyRSAPKCS1v15 env ns.outLen (a "plaintext") (jwkOf ns a))⟩,
  ⟨"crypto", "", "encryptSymmetricAEAD", ["plaintext", "nonce", "associatedData"], [],
    fun env ns a => discard (encryptSymmetricAEAD .fixed env ns.aead (a "plaintext") (a "nonce") (a "associatedData"))⟩,
  ⟨"crypto", "", "encryptSymmetricAESCBC", ["plaintext", "key", "iv"], [],
    fun env ns a => discard (encryptSymmetricAESCBC .fixed env (a "plaintext") ns.alg (a "key") (a "iv"))⟩,
  ⟨"crypto", "", "encryptSymmetricAESCBCHMAC", ["plaintext", "key", "nonce", "associatedData"], [],
    fun env ns a => discard (encryptSymmetricAESCBCHMAC .fixed env (a "plaintext") ns.alg (a "key") (a "nonce") (a "associatedData"))⟩,
  ⟨"crypto", "", "encryptSymmetricAESGCM", ["plaintext", "key", "nonce", "associatedData"], [],
    fun env ns a => discard (encryptSymmetricAESGCM .fixed env (a "plaintext") ns.alg (a "key") (a "nonce") (a "associatedData"))⟩,
  ⟨"crypto", "", "encryptSymmetricAESKW", ["plaintext", "key"], [],
    fun env ns a => discard (encryptSymmetricAESKW env (a "plaintext") ns.alg (a "key"))⟩,
  ⟨"crypto", "", "encryptSymmetricChaCha20Poly1305", ["plaintext", "key", "nonce", "associatedData"], [],
    fun env ns a => discard (encryptSymmetricChaCha20Poly1305 .fixed env (a "plaintext") ns.alg (a "key") (a "nonce") (a "associatedData"))⟩,
  ⟨"crypto", "", "getAESCBCHMACCipher", ["key"], [], fun _ ns a => discard (getAESCBCHMACCipher ns.alg (a "key"))⟩,
  ⟨"crypto", "", "getChaCha20Poly1305Cipher", ["key", "nonce"], [],
    fun _ ns a => discard (getChaCha20Poly1305Cipher ns.alg (a "key") (a "nonce"))⟩,
  ⟨"crypto", "", "parseSymmetricKey", ["raw"], [], fun env _ a => parseSymmetricKey env (a "raw")⟩,
  ⟨"crypto", "", "signPrivateKeyECDSA", ["digest"], [],
    fun env ns a => discard (signPrivateKeyECDSA env ns.outLen (a "digest") (jwkOf ns a))⟩,
  ⟨"crypto", "", "signPrivateKeyEdDSA", ["message"], [],
    fun env ns a => discard (signPrivateKeyEdDSA env ns.outLen (a "message") (jwkOf ns a))⟩,
  ⟨"crypto", "", "signPrivateKeyRSAPKCS1v15", ["digest"], [],
    fun env ns a => discard (signPrivateKeyRSAPKCS1v15 env ns.outLen (a "digest") (jwkOf ns a))⟩,
  ⟨"crypto", "", "signPrivateKeyRSAPSS", ["digest"], [],
    fun env ns a => discard (signPrivateKeyRSAPSS env ns.outLen (a "digest") (jwkOf ns a))⟩,
  ⟨"crypto", "", "verifyPublicKeyECDSA", ["digest", "signature"], [],
    fun env ns a => discard (verifyPublicKeyECDSA env (a "digest") (a "signature") (jwkOf ns a))⟩,
  ⟨"crypto", "", "verifyPublicKeyEdDSA", ["mesage", "signature"], [],
    fun env ns a => discard (verifyPublicKeyEdDSA env (a "mesage") (a "signature") (jwkOf ns a))⟩,
  ⟨"crypto", "", "verifyPublicKeyRSAPKCS1v15", ["digest", "signature"], [],
    fun env ns a => discard (verifyPublicKeyRSAPKCS1v15 env (a "digest") (a "signature") (jwkOf ns a))⟩,
  ⟨"crypto", "", "verifyPublicKeyRSAPSS", ["digest", "signature"], [],
    fun env ns a => discard (verifyPublicKeyRSAPSS env (a "digest") (a "signature") (jwkOf ns a))⟩,
  ⟨"padding", "", "PadPKCS7", ["buf"], [], fun _ ns a => discard (padPKCS7 .fixed (a "buf") ns.size)⟩,
  ⟨"padding", "", "UnpadPKCS7", ["buf"], [], fun _ ns a => discard (unpadPKCS7 (a "buf") ns.size)⟩]

/-- CONTRACT (trusted, exercised by the canary monitor): passing caller memory at these argument
positions of these callees only READS it; re-slicing with these bounds stays within the length
(guarded just before in the source); these struct fields keep a sub-slice for later reads.
Anything not listed — `copy#0`, `append#0`, `.Seal#0`, `.Open#0`, `.CryptBlocks#0`, `.Sum#0`,
`slices.Insert#0`, `slices.Grow#0`, an index assignment … — counts as a write and must be a
declared `writeSites` entry of the function's model (which may name `dst` only). -/
def readOnlyContract : List (String × String) := [
  ("pass", ".CryptBlocks#1"), ("pass", ".Decode#1"), ("pass", ".Open#1"), ("pass", ".Open#2"),
  ("pass", ".Open#3"), ("pass", ".Seal#1"), ("pass", ".Seal#2"), ("pass", ".Seal#3"),
  ("pass", ".Write#0"), ("pass", "aes.NewCipher#0"), ("pass", "append#1"),
  ("pass", "bytes.TrimRight#0"), ("pass", "chacha20poly1305.New#0"), ("pass", "chacha20poly1305.NewX#0"),
  ("pass", "cipher.NewCBCDecrypter#1"), ("pass", "cipher.NewCBCEncrypter#1"), ("pass", "copy#1"),
  ("pass", "ecdsa.SignASN1#2"), ("pass", "ecdsa.VerifyASN1#1"), ("pass", "ecdsa.VerifyASN1#2"),
  ("pass", "ed25519.Sign#1"), ("pass", "ed25519.Verify#1"), ("pass", "ed25519.Verify#2"),
  ("pass", "hmac.Equal#0"), ("pass", "hmac.Equal#1"), ("pass", "hmac.New#1"),
  ("pass", "jwk.FromRaw#0"), ("pass", "jwk.ParseKey#0"), ("pass", "panic#0"),
  ("pass", "rsa.DecryptOAEP#3"), ("pass", "rsa.DecryptOAEP#4"), ("pass", "rsa.DecryptPKCS1v15#2"),
  ("pass", "rsa.EncryptOAEP#3"), ("pass", "rsa.EncryptOAEP#4"), ("pass", "rsa.EncryptPKCS1v15#2"),
  ("pass", "rsa.SignPKCS1v15#3"), ("pass", "rsa.SignPSS#3"), ("pass", "rsa.VerifyPKCS1v15#2"),
  ("pass", "rsa.VerifyPKCS1v15#3"), ("pass", "rsa.VerifyPSS#2"), ("pass", "rsa.VerifyPSS#3"),
  ("pass", "subtle.ConstantTimeCompare#0"), ("pass", "subtle.ConstantTimeCompare#1"),
  ("reslice", "buf[:l-padLen]"), ("reslice", "cipherText[:8]"),
  ("reslice", "ciphertext[:len(ciphertext)-aead.tagSize]"), ("reslice", "p.key[0:p.macKeySize]"),
  ("reslice", "raw[0:5]"),
  ("retain", "encKey"), ("retain", "key"), ("retain", "macKey")]

def siteAllowed (e : ModelEntry) (s : String × String × String) : Bool :=
  s.1 == "internal" || readOnlyContract.contains (s.1, s.2.1) || e.writeSites.contains s

/-- all sites of the Go body are read-only by contract or declared writes of the model; declared
writes exist in the body and flow from the explicit `dst` only -/
def sitesOK (key : String × String × String) (ss : List (String × String × String)) : Bool :=
  match models.find? (fun e => e.pkg == key.1 && e.recv == key.2.1 && e.name == key.2.2) with
  | none => false
  | some e => ss.all (siteAllowed e) && e.writeSites.all (fun w => ss.contains w && w.2.2 == "dst")
      && (e.writeSites.isEmpty || e.params.contains "dst")

end Kit.CryptoFrame
