import KitModel.Go.Prelude
import KitModel.Generated.C16
/-!
Executable model of `github.com/dapr/kit/streams`:
`LimitReadCloser`, `MultiReaderCloser`, `TeeReadCloser` over *scripted sources*.

A scripted source is the model of "an `io.Reader` and every way it may split its bytes":
content, a finite script of per-read caps (0 = a zero-length read), whether the terminal
condition (EOF or an error) is returned together with the last data or alone, and a counter of
`Close` calls.  The Go harness (`harness/cmd/c16`) implements the very same source in Go, so both
sides consume identical scripts.

`Version.orig` is the code as found (kept for the witness theorems), `Version.fixed` is the code
after the `fix:` commits in `/repo/streams` (what the property theorems are about).
Core Lean only.
-/
namespace Kit.Streams

/-- Errors as seen by a consumer (canonical enum shared with the harness). -/
inductive Err where
  | eof          -- io.EOF
  | boom         -- the scripted source's own mid-stream error
  | tooLarge     -- streams.ErrStreamTooLarge
  | closedPipe   -- io.ErrClosedPipe (TeeReadCloser after Close/Stop)
  | srcClosed    -- scripted source read after it was closed
  | wfail        -- the scripted writer's error
  | bodyClosed   -- http.ErrBodyReadAfterClose (MultiReaderCloser.Read treats it as EOF, no Close)
  | panic        -- the call panicked (recovered by the harness)
  | stuck        -- model only: consumer loop ran out of fuel (proved unreachable)
  deriving DecidableEq, Repr, Inhabited

def Err.name : Err → String
  | .eof => "eof" | .boom => "boom" | .tooLarge => "toolarge" | .closedPipe => "closedpipe"
  | .srcClosed => "srcclosed" | .wfail => "wfail" | .bodyClosed => "bodyclosed" | .panic => "panic" | .stuck => "stuck"

def showErr : Option Err → String
  | none => "nil"
  | some e => e.name

inductive Version where
  | orig | fixed
  deriving DecidableEq, Repr

/-- Which version the current source of `/repo/streams` is, according to the facts `factgen_c16`
re-extracts on every run (T1): the too-large guard, the clip guard, whether `WriteTo` closes.
`none` = a mixture the theorems do not cover. -/
def sourceVersion : Option Version :=
  match Generated.C16.limitTooLargeOnEOF, Generated.C16.limitClipOverflowSafe,
        Generated.C16.writeToClosesCopied with
  | true, true, true => some .fixed
  | false, false, false => some .orig
  | _, _, _ => none

/-! ### which methods are modelled
`io.Copy` / `io.CopyBuffer` take a `WriteTo` (source) or `ReadFrom` (destination) fast path when
the method exists, so the *method set* of each reader type is part of its observable behaviour.
These are the method sets this file models (sorted, as `factgen_c16` emits them); property
theorem `method_sets_as_modelled` requires the regenerated facts to equal them, so a new method
(e.g. a `WriteTo` on the limit reader) breaks the obligation instead of going unmodelled. -/

/-- `limitReadCloser`: `Limit.read`, `Limit.close`. No `WriteTo`: `io.Copy` goes through `Read`. -/
def Limit.modelledMethods : List String := ["Close", "Read"]
/-- `MultiReaderCloser`: `Multi.read`, `Multi.close`, `Multi.writeTo` (= `WriteTo` + `writeToWithBuffer`). -/
def Multi.modelledMethods : List String := ["Close", "Read", "WriteTo", "writeToWithBuffer"]
/-- `TeeReadCloser`: `Tee.read`, `Tee.close`, `Tee.stop`. -/
def Tee.modelledMethods : List String := ["Close", "Read", "Stop"]

/-- The regenerated method sets, embedded fields and constructor return types are exactly the
modelled ones. -/
def methodSetsAsModelled : Bool :=
  Generated.C16.limitReadCloserMethods == Limit.modelledMethods &&
  Generated.C16.multiReaderCloserMethods == Multi.modelledMethods &&
  Generated.C16.teeReadCloserMethods == Tee.modelledMethods &&
  Generated.C16.limitReadCloserEmbedded == [] &&
  Generated.C16.multiReaderCloserEmbedded == [] &&
  Generated.C16.teeReadCloserEmbedded == [] &&
  Generated.C16.limitReadCloserReturns == ["limitReadCloser"] &&
  Generated.C16.newMultiReaderCloserReturns == ["MultiReaderCloser"] &&
  Generated.C16.newTeeReadCloserReturns == ["TeeReadCloser"]

/-! ### scripted source -/

structure Src where
  rest : Bytes            -- bytes not yet delivered
  script : List Nat       -- cap of each coming read (0 = zero-length read); exhausted = no cap
  withData : Bool         -- terminal returned in the same call as the last data
  term : Err              -- terminal condition (`eof`, or `boom` = error at offset |content|)
  closable : Bool         -- implements io.Closer
  closes : Nat            -- Close calls so far
  hasWriteTo : Bool := false  -- also implements io.WriterTo (like strings.Reader, bytes.Buffer, *os.File)
  deriving DecidableEq, Repr

def Src.close (s : Src) : Src := { s with closes := s.closes + 1 }

/-- `if c, ok := r.(io.Closer); ok { c.Close() }` -/
def Src.closeIfCloser (s : Src) : Src := if s.closable then s.close else s

/-- one read once the cap `k = min(len(p), script cap)` is known -/
def Src.deliver (s : Src) (k : Nat) : Src × Bytes × Option Err :=
  if k = 0 then (s, [], none)
  else if s.rest = [] then (s, [], some s.term)
  else
    let r := s.rest.drop k
    ({ s with rest := r }, s.rest.take k, if r = [] ∧ s.withData = true then some s.term else none)

/-- `Read(p)` with `len(p) = m`. -/
def Src.read (s : Src) (m : Nat) : Src × Bytes × Option Err :=
  if 0 < s.closes then (s, [], some .srcClosed)
  else match s.script with
    | [] => s.deliver m
    | c :: sc => { s with script := sc }.deliver (min m c)

/-! ### scripted writer (obeys the io.Writer contract: a short write carries an error) -/

structure Wr where
  got : Bytes
  cap : Option Nat        -- bytes still accepted before failing; none = never fails
  closable : Bool
  closes : Nat
  readFromBuf : Nat := 0  -- > 0: also implements io.ReaderFrom, reading with buffers of this size
  deriving DecidableEq, Repr

def Wr.write (w : Wr) (d : Bytes) : Wr × Nat × Option Err :=
  match w.cap with
  | none => ({ w with got := w.got ++ d }, d.length, none)
  | some c =>
    if d.length ≤ c then ({ w with got := w.got ++ d, cap := some (c - d.length) }, d.length, none)
    else ({ w with got := w.got ++ d.take c, cap := some 0 }, c, some .wfail)

def Wr.closeIfCloser (w : Wr) : Wr := if w.closable then { w with closes := w.closes + 1 } else w

/-! ### consumer loop: `for { n, err := r.Read(buf); out = append(out, buf[:n]...); if err != nil { break } }`
The i-th read uses buffer size `bufs[i]`, then `dflt` for ever. -/

def drain {σ : Type} (read : σ → Nat → σ × Bytes × Option Err) :
    Nat → σ → List Nat → Nat → σ × Bytes × Err
  | 0, s, _, _ => (s, [], .stuck)
  | fuel + 1, s, bufs, dflt =>
    match read s (bufs.headD dflt) with
    | (s', d, some e) => (s', d, e)
    | (s', d, none) =>
      match drain read fuel s' bufs.tail dflt with
      | (s'', ds, e) => (s'', d ++ ds, e)

/-- reads needed at most to exhaust a source: every read with a non-empty buffer either uses up a
script step or delivers a byte or returns the terminal. -/
def Src.size (s : Src) : Nat := s.script.length + s.rest.length

/-! ### LimitReadCloser (limitreadcloser.go) -/

structure Limit where
  src : Src
  n : Int                 -- l.N
  closed : Bool
  deriving DecidableEq, Repr

def Limit.new (s : Src) (n : Int) : Limit := { src := s, n := n, closed := false }

/-- `if err == nil` (orig) / `if err == nil || err == io.EOF` (fixed) `{ err = ErrStreamTooLarge }` -/
def tooLargeErr (v : Version) (e : Option Err) : Option Err :=
  match v, e with
  | _, none => some .tooLarge
  | .fixed, some .eof => some .tooLarge
  | _, some e => some e

def maxInt64 : Int := 9223372036854775807
def minInt64 : Int := -9223372036854775808

/-- two's-complement wrap of an `int64` result -/
def wrapInt64 (x : Int) : Int := (x + 9223372036854775808) % 18446744073709551616 - 9223372036854775808

/-- The buffer clip at the top of `Read`; `none` = the slice expression panics.
orig:  `if int64(len(p)) > l.N+1 { p = p[0:l.N+1] }`   (`l.N+1` wraps for `l.N = MaxInt64`)
fixed: `if int64(len(p))-1 > l.N { p = p[0:l.N+1] }`   (no intermediate can overflow: `len(p) ≥ 1`) -/
def clip (v : Version) (n : Int) (m : Nat) : Option Nat :=
  match v with
  | .orig =>
    let n1 := wrapInt64 (n + 1)
    if (m : Int) > n1 then (if n1 < 0 then none else some n1.toNat) else some m
  | .fixed => if (m : Int) - 1 > n then some (n + 1).toNat else some m

def Limit.read (v : Version) (l : Limit) (m : Nat) : Limit × Bytes × Option Err :=
  if l.n < 0 then (l, [], some .tooLarge)
  else if m = 0 then (l, [], none)
  else if l.closed then (l, [], some .eof)
  else
    match clip v l.n m with
    | none => (l, [], some .panic)
    | some m' =>
    match l.src.read m' with
    | (s', d, e) =>
      let n' := l.n - (d.length : Int)
      if n' < 0 then
        let d' := if n' = -1 then d.dropLast else d
        ({ src := s'.close, n := n', closed := true }, d', tooLargeErr v e)
      else ({ l with src := s', n := n' }, d, e)

def Limit.close (l : Limit) : Limit :=
  if l.closed then l else { l with closed := true, src := l.src.close }

/-- Any way of using a limit reader: reads with any buffer sizes and `Close`s, in any order. -/
inductive LimitOp where
  | read (m : Nat)
  | close

def Limit.run (v : Version) : Limit → List LimitOp → Limit
  | l, [] => l
  | l, .read m :: ops => Limit.run v (Limit.read v l m).1 ops
  | l, .close :: ops => Limit.run v l.close ops

def Limit.fuel (l : Limit) (bufs : List Nat) : Nat := l.src.size + bufs.length + 1

/-- consume until the first error with the given buffer sizes -/
def Limit.consume (v : Version) (l : Limit) (bufs : List Nat) (dflt : Nat) : Limit × Bytes × Err :=
  drain (Limit.read v) (l.fuel bufs) l bufs dflt

/-! ### MultiReaderCloser (multireadercloser.go)
`readers` = `mr.readers`; `done` collects the sources already dropped from the list, in order,
so that their Close counts stay observable. (`http.ErrBodyReadAfterClose` is not modelled.) -/

structure Multi where
  readers : List Src
  done : List Src
  deriving DecidableEq, Repr

def Multi.new (rs : List Src) : Multi := { readers := rs, done := [] }

def Multi.readLoop (m : Nat) : List Src → List Src → Multi × Bytes × Option Err
  | [], dn => ({ readers := [], done := dn }, [], some .eof)
  | r :: rs, dn =>
    match r.read m with
    | (r', d, some .eof) =>
      -- close it (if a closer) and drop it
      if d ≠ [] then
        ({ readers := rs, done := dn ++ [r'.closeIfCloser] }, d, if rs = [] then some .eof else none)
      else Multi.readLoop m rs (dn ++ [r'.closeIfCloser])
    | (r', d, some .bodyClosed) =>
      -- `errors.Is(err, http.ErrBodyReadAfterClose)`: same as EOF, but the body is NOT closed again
      if d ≠ [] then
        ({ readers := rs, done := dn ++ [r'] }, d, if rs = [] then some .eof else none)
      else Multi.readLoop m rs (dn ++ [r'])
    | (r', d, e) => ({ readers := r' :: rs, done := dn }, d, e)

def Multi.read (M : Multi) (m : Nat) : Multi × Bytes × Option Err :=
  Multi.readLoop m M.readers M.done

def Multi.close (M : Multi) : Multi :=
  { readers := [], done := M.done ++ M.readers.map Src.closeIfCloser }

/-- `io.CopyBuffer(w, r, buf)` for a source without WriteTo and a writer without ReadFrom. -/
def copyLoop (m : Nat) : Nat → Src → Wr → Src × Wr × Option Err
  | 0, s, w => (s, w, some .stuck)
  | fuel + 1, s, w =>
    match s.read m with
    | (s', d, er) =>
      if d ≠ [] then
        match w.write d with
        | (w', _, some ew) => (s', w', some ew)
        | (w', _, none) =>
          match er with
          | some .eof => (s', w', none)
          | some e => (s', w', some e)
          | none => copyLoop m fuel s' w'
      else
        match er with
        | some .eof => (s', w, none)
        | some e => (s', w, some e)
        | none => copyLoop m fuel s' w

/-- `make([]byte, 1024*32)` in `WriteTo` — regenerated from the source on every run (T1). -/
def copyBufSize : Nat := Generated.C16.writeToBufSize

/-- a terminal as an `io.Copy`-style result: EOF is success -/
def errOfTerm (e : Err) : Option Err := if e = .eof then none else some e

/-- `WriteTo(w)` of a source that implements `io.WriterTo` (strings.Reader, bytes.Buffer style):
everything that remains goes to the writer in ONE `Write`; the source advances by what the writer
accepted; the result is the writer's error, else the source's own terminal (nil for EOF).  The
script plays no role (no `Read` is issued). -/
def Src.writeTo (s : Src) (w : Wr) : Src × Wr × Option Err :=
  if 0 < s.closes then (s, w, some .srcClosed)
  else if s.rest = [] then (s, w, errOfTerm s.term)
  else
    match w.write s.rest with
    | (w', nw, some ew) => ({ s with rest := s.rest.drop nw }, w', some ew)
    | (w', nw, none) => ({ s with rest := s.rest.drop nw }, w', errOfTerm s.term)

/-- `io.CopyBuffer(w, r, buf)`:
`if wt, ok := src.(WriterTo); ok { return wt.WriteTo(dst) }`,
`if rf, ok := dst.(ReaderFrom); ok { return rf.ReadFrom(src) }` (the scripted writer's `ReadFrom`
is the same read/write loop with its own buffer size), else the generic loop with `buf`. -/
def copyBuffer (s : Src) (w : Wr) : Src × Wr × Option Err :=
  if s.hasWriteTo then s.writeTo w
  else if 0 < w.readFromBuf then copyLoop w.readFromBuf (s.size + 1) s w
  else copyLoop copyBufSize (s.size + 1) s w

def Multi.writeLoop (v : Version) : List Src → List Src → Wr → Multi × Wr × Option Err
  | [], dn, w => ({ readers := [], done := dn }, w, none)
  | r :: rs, dn, w =>
    match copyBuffer r w with
    | (r', w', some e) => ({ readers := r' :: rs, done := dn }, w', some e)
    | (r', w', none) =>
      let r'' := match v with
        | .orig => r'
        | .fixed => r'.closeIfCloser
      Multi.writeLoop v rs (dn ++ [r'']) w'

/-- `WriteTo(w)` — the path `io.Copy(w, mr)` takes. -/
def Multi.writeTo (v : Version) (M : Multi) (w : Wr) : Multi × Wr × Option Err :=
  Multi.writeLoop v M.readers M.done w

def Multi.size (M : Multi) : Nat := (M.readers.map (fun s => s.size + 1)).sum

def Multi.fuel (M : Multi) (bufs : List Nat) : Nat := M.size + bufs.length + 1

def Multi.consume (M : Multi) (bufs : List Nat) (dflt : Nat) : Multi × Bytes × Err :=
  drain Multi.read (M.fuel bufs) M bufs dflt

/-- Any way of using a multi reader before `Close`: reads with any buffer sizes and `WriteTo`s
into any writers, interleaved. -/
inductive MultiOp where
  | read (m : Nat)
  | writeTo (w : Wr)

def Multi.run (v : Version) : Multi → List MultiOp → Multi
  | M, [] => M
  | M, .read m :: ops => Multi.run v (M.read m).1 ops
  | M, .writeTo w :: ops => Multi.run v (M.writeTo v w).1 ops

/-- Close counts of all sources, in the original order. -/
def Multi.closeCounts (M : Multi) : List Nat := (M.done ++ M.readers).map (·.closes)

/-! ### TeeReadCloser (teereadcloser.go) -/

structure Tee where
  src : Src
  rOpen : Bool            -- t.r != nil
  w : Wr
  wOpen : Bool            -- t.w != nil
  eof : Bool
  deriving DecidableEq, Repr

def Tee.new (s : Src) (w : Wr) : Tee := { src := s, rOpen := true, w := w, wOpen := true, eof := false }

def Tee.read (t : Tee) (m : Nat) : Tee × Bytes × Option Err :=
  if t.rOpen = false ∨ t.wOpen = false then (t, [], some .closedPipe)
  else if t.eof then (t, [], some .eof)
  else
    match t.src.read m with
    | (s', d, e) =>
      let eof' := t.eof || (e == some .eof)
      if d ≠ [] then
        match t.w.write d with
        | (w', nw, some ew) => ({ t with src := s', w := w', eof := eof' }, d.take nw, some ew)
        | (w', _, none) => ({ t with src := s', w := w', eof := eof' }, d, e)
      else ({ t with src := s', eof := eof' }, d, e)

def Tee.close (t : Tee) : Tee :=
  { t with
    src := if t.rOpen then t.src.closeIfCloser else t.src
    w := if t.wOpen then t.w.closeIfCloser else t.w
    rOpen := false, wOpen := false }

def Tee.stop (t : Tee) : Tee :=
  { t with w := if t.wOpen then t.w.closeIfCloser else t.w, wOpen := false }

/-! #### TeeReadCloser used from several goroutines
Every method body runs under `t.lock` (`Lock(); defer Unlock()`), so a call is: wait for the lock,
run the whole body, unlock.  `TeeConc` is that transition system for any number of goroutines. -/

inductive TeeOp where
  | read (m : Nat)
  | close
  | stop
  deriving DecidableEq, Repr

/-- the body of one method call -/
def Tee.apply (t : Tee) : TeeOp → Tee × Bytes × Option Err
  | .read m => t.read m
  | .close => (t.close, [], none)
  | .stop => (t.stop, [], none)

structure TeeConc where
  tee : Tee
  holder : Option Nat                                 -- goroutine inside the critical section
  waiting : List (Nat × TeeOp)                        -- calls blocked in `t.lock.Lock()`
  result : Option (Bytes × Option Err)                -- what the holder's body returned
  returned : List (Nat × TeeOp × Bytes × Option Err)  -- completed calls, latest first
  deriving Repr

inductive TeeLabel where
  | call (g : Nat) (op : TeeOp)    -- goroutine g invokes a method: blocks on the mutex
  | enter (g : Nat) (op : TeeOp)   -- g gets the mutex and runs the body
  | leave (g : Nat) (op : TeeOp)   -- deferred Unlock, return

def TeeConc.init (t : Tee) : TeeConc :=
  { tee := t, holder := none, waiting := [], result := none, returned := [] }

def TeeConc.step (c : TeeConc) : TeeLabel → Option TeeConc
  | .call g op => some { c with waiting := c.waiting ++ [(g, op)] }
  | .enter g op =>
    if c.holder = none ∧ (g, op) ∈ c.waiting then
      match c.tee.apply op with
      | (t', d, e) => some { c with tee := t', holder := some g, waiting := c.waiting.erase (g, op),
                                    result := some (d, e) }
    else none
  | .leave g op =>
    match c.holder, c.result with
    | some h, some (d, e) =>
      if h = g then some { c with holder := none, result := none, returned := (g, op, d, e) :: c.returned }
      else none
    | _, _ => none

/-- run a schedule; `none` if some label is not enabled -/
def TeeConc.run : TeeConc → List TeeLabel → Option TeeConc
  | c, [] => some c
  | c, l :: ls => match c.step l with
    | some c' => TeeConc.run c' ls
    | none => none

/-- states reachable from a fresh `TeeConc.init t0` under any schedule, any number of goroutines -/
inductive TeeConc.Reach (t0 : Tee) : TeeConc → Prop where
  | init : TeeConc.Reach t0 (TeeConc.init t0)
  | step {c c' : TeeConc} (l : TeeLabel) : TeeConc.Reach t0 c → c.step l = some c' → TeeConc.Reach t0 c'

/-- bytes handed to callers by the completed calls, oldest first -/
def TeeConc.returnedData (c : TeeConc) : Bytes :=
  (c.returned.reverse.map (fun x => x.2.2.1)).flatten

/-- bytes the call inside the critical section is about to return -/
def TeeConc.pendingData (c : TeeConc) : Bytes :=
  match c.result with
  | some (d, _) => d
  | none => []

/-- the sequence of method bodies executed so far is a plain op sequence on the tee -/
def Tee.runOps : Tee → List TeeOp → Tee
  | t, [] => t
  | t, op :: ops => Tee.runOps (t.apply op).1 ops

def Tee.fuel (t : Tee) (bufs : List Nat) : Nat := t.src.size + bufs.length + 1

def Tee.consume (t : Tee) (bufs : List Nat) (dflt : Nat) : Tee × Bytes × Err :=
  drain Tee.read (t.fuel bufs) t bufs dflt

end Kit.Streams
