/-
Model of dapr/kit `crypto` glue code (property C03): everything between the public API
(`Encrypt`, `EncryptSymmetric`, `SignPrivateKey`, …) and the cryptographic primitives.

* primitives are parameters (`Prims`): AES block cipher, stdlib GCM / ChaCha20-Poly1305 AEADs,
  HMAC.  The driver instantiates them with `Kit.Crypto.*`; the theorems quantify over them.
* hand-written, as the Go code computes them: RFC 3394 `wrap`/`unwrap` (aeskw/keywrap.go),
  PKCS#7 `pad`/`unpad` (padding/pkcs7_padding.go), CBC, `cbcHmacSeal/Open`
  (aescbcaead/aescbcaead.go), the AEAD helpers' split/re-join (symmetric.go).
* interpreted from `KitModel/Generated/C03.lean` (facts regenerated from /repo on every run):
  dispatch switches, `expectedKeySize`/`getSHAHash` tables, guard prefixes of every helper,
  cipher tables of `getAESCBCHMACCipher`/`getChaCha20Poly1305Cipher`/aescbcaead constructors.

Core Lean only.
-/
import KitModel.Go.Prelude
import KitModel.CryptoGlueFacts
import KitModel.Generated.C03

namespace Kit.CryptoGlue
open Kit Kit.CryptoGlue.Facts

/-! ### error classes (the harness maps Go errors to the same strings) -/

def eKeyTypeMismatch := "ErrKeyTypeMismatch"
def eInvalidNonce := "ErrInvalidNonce"
def eInvalidTag := "ErrInvalidTag"
def eInvalidPlaintextLength := "ErrInvalidPlaintextLength"
def eInvalidCiphertextLength := "ErrInvalidCiphertextLength"
def eUnsupportedAlgorithm := "ErrUnsupportedAlgorithm"
/-- aeskw: "cek must be …" / "wrapped key must be …" -/
def eKwSize := "kw:size"
/-- aeskw: "integrity check failed - unexpected IV" -/
def eKwIntegrity := "kw:integrity"
/-- padding.ErrInvalidPKCS7Padding -/
def ePkcs7 := "pkcs7:padding"
/-- padding.ErrInvalidPKCS7BlockSize -/
def ePkcs7Size := "pkcs7:blocksize"
/-- "message authentication failed" of any AEAD -/
def eAuth := "aead:auth"
/-- aescbcaead.Open: "invalid ciphertext size" / "invalid nonce size" -/
def eAeadSize := "aead:size"
/-- "invalid algorithm" of the two cipher getters -/
def eInvalidAlgorithm := "invalid algorithm"

/-! ### bytes -/

/-- `binary.BigEndian.PutUint64(b, uint64(t))`. -/
def be64 (t : Nat) : Bytes :=
  [UInt8.ofNat (t / 2 ^ 56 % 256), UInt8.ofNat (t / 2 ^ 48 % 256), UInt8.ofNat (t / 2 ^ 40 % 256),
   UInt8.ofNat (t / 2 ^ 32 % 256), UInt8.ofNat (t / 2 ^ 24 % 256), UInt8.ofNat (t / 2 ^ 16 % 256),
   UInt8.ofNat (t / 2 ^ 8 % 256), UInt8.ofNat (t % 256)]

/-- `arrXor` / `subtle.XORBytes` on equal-length operands. -/
def xor (a b : Bytes) : Bytes := List.zipWith (· ^^^ ·) a b

/-! ### abstract primitives -/

/-- A block cipher with a fixed key: `cipher.Block` (`Encrypt`/`Decrypt` on one 16-byte block). -/
structure BlockCipher where
  E : Bytes → Bytes
  D : Bytes → Bytes

/-- `D ∘ E = id` on blocks, and both preserve the block length. -/
structure BlockCipher.Lawful (bc : BlockCipher) : Prop where
  lenE : ∀ b, b.length = 16 → (bc.E b).length = 16
  DE : ∀ b, b.length = 16 → bc.D (bc.E b) = b

/-- The cipher is a permutation of the blocks (`E ∘ D = id` as well). -/
structure BlockCipher.Perm (bc : BlockCipher) : Prop extends bc.Lawful where
  lenD : ∀ b, b.length = 16 → (bc.D b).length = 16
  ED : ∀ b, b.length = 16 → bc.E (bc.D b) = b

/-- `cipher.AEAD` with a fixed key.  `doSeal`/`doOpen` return `Outcome` so that the panics of
`Seal` on a wrong nonce size are representable. -/
structure AEAD where
  nonceSize : Nat
  overhead : Nat
  doSeal : (nonce pt ad : Bytes) → Outcome Bytes
  doOpen : (nonce ct ad : Bytes) → Outcome Bytes

/-- What the helpers need from an AEAD: with a nonce of the right size `Seal` succeeds, its output
is at least `Overhead()` long, and `Open` of that output returns the plaintext. -/
structure AEAD.Lawful (a : AEAD) : Prop where
  roundtrip : ∀ nonce pt ad, nonce.length = a.nonceSize →
    ∃ out, a.doSeal nonce pt ad = .ok out ∧ a.overhead ≤ out.length ∧ a.doOpen nonce out ad = .ok pt

/-- The stdlib AEADs (GCM, ChaCha20-Poly1305) add exactly `Overhead()` bytes. -/
def AEAD.Exact (a : AEAD) : Prop :=
  ∀ nonce pt ad out, a.doSeal nonce pt ad = .ok out → out.length = pt.length + a.overhead

/-- The primitives the glue code calls. -/
structure Prims where
  /-- `aes.NewCipher(key)` for `len(key) ∈ {16, 24, 32}` -/
  aes : Bytes → BlockCipher
  /-- `cipher.NewGCM(aes.NewCipher(key))` -/
  gcm : Bytes → AEAD
  /-- `chacha20poly1305.New(key)` -/
  chacha : Bytes → AEAD
  /-- `chacha20poly1305.NewX(key)` -/
  xchacha : Bytes → AEAD
  /-- `hmac.New(crypto.SHA<bits>.New, key)` over a message -/
  hmac : (bits : Nat) → (key msg : Bytes) → Bytes

/-! ### RFC 3394 key wrap (aeskw/keywrap.go) -/

def iv3394 : Bytes := Generated.C03.aeskwDefaultIV.map UInt8.ofNat

/-- `r[i] = cek[i*8 : i*8+8]` for `i < n`. -/
def blocks8 : Nat → Bytes → List Bytes
  | 0, _ => []
  | n + 1, bs => bs.take 8 :: blocks8 n (bs.drop 8)

/-- Inner loop of `Wrap` for one `j`: `for i := 1; i <= n; i++` over the registers `r[i-1]`;
`i` is the index of the head of the list. -/
def wrapInner (E : Bytes → Bytes) (n j : Nat) : Nat → Bytes → List Bytes → Bytes × List Bytes
  | _, a, [] => (a, [])
  | i, a, r :: rs =>
    let b := E (a ++ r)
    let p := wrapInner E n j (i + 1) (xor (b.take 8) (be64 (n * j + i))) rs
    (p.1, b.drop 8 :: p.2)

/-- Inner loop of `Unwrap` for one `j`: `for i := n; i >= 1; i--`; the recursion descends to the
last register first, so the head (index `i`) is processed last. -/
def unwrapInner (D : Bytes → Bytes) (n j : Nat) : Nat → List Bytes → Bytes → Bytes × List Bytes
  | _, [], a => (a, [])
  | i, r :: rs, a =>
    let p := unwrapInner D n j (i + 1) rs a
    let b := D (xor p.1 (be64 (n * j + i)) ++ r)
    (b.take 8, b.drop 8 :: p.2)

def wrapRounds (E : Bytes → Bytes) (n : Nat) (js : List Nat) (st : Bytes × List Bytes) :
    Bytes × List Bytes :=
  js.foldl (fun st j => wrapInner E n j 1 st.1 st.2) st

/-- `for j := 5; j >= 0; j--` is `foldr` over `[0,…,5]`: the last element is applied first. -/
def unwrapRounds (D : Bytes → Bytes) (n : Nat) (js : List Nat) (st : Bytes × List Bytes) :
    Bytes × List Bytes :=
  js.foldr (fun j st => unwrapInner D n j 1 st.2 st.1) st

def kwRounds : List Nat := [0, 1, 2, 3, 4, 5]

/-- `aeskw.Wrap` (after the fix: key data of at least two 64-bit blocks). -/
def wrap (bc : BlockCipher) (cek : Bytes) : Outcome Bytes :=
  if cek.length % 8 ≠ 0 then .err eKwSize
  else if cek.length < 16 then .err eKwSize
  else
    let n := cek.length / 8
    let st := wrapRounds bc.E n kwRounds (iv3394, blocks8 n cek)
    .ok (st.1 ++ st.2.flatten)

/-- The register state `Unwrap` ends with (before the IV comparison). -/
def unwrapState (bc : BlockCipher) (c : Bytes) : Bytes × List Bytes :=
  let n := c.length / 8 - 1
  unwrapRounds bc.D n kwRounds (c.take 8, blocks8 n (c.drop 8))

/-- `aeskw.Unwrap` (after the fix: rejects `len < 24` and `len % 8 ≠ 0`). -/
def unwrap (bc : BlockCipher) (c : Bytes) : Outcome Bytes :=
  if c.length < 24 ∨ c.length % 8 ≠ 0 then .err eKwSize
  else
    let st := unwrapState bc c
    if st.1 ≠ iv3394 then .err eKwIntegrity else .ok st.2.flatten

/-- `aeskw.Unwrap` as it was before the fix (no length check), for the witness theorems.
`makeslice` with a negative length and `arrConcat()` of no arrays panic. -/
def unwrapPreFix (bc : BlockCipher) (c : Bytes) : Outcome Bytes :=
  if c.length / 8 = 0 then .panic "makeslice: len out of range"
  else
    let st := unwrapState bc c
    if st.1 ≠ iv3394 then .err eKwIntegrity
    else if st.2 = [] then .panic "index out of range [0] with length 0"
    else .ok st.2.flatten

/-! ### PKCS#7 (padding/pkcs7_padding.go) -/

def pad (buf : Bytes) (size : Nat) : Outcome Bytes :=
  if size ≤ 1 ∨ size ≥ 256 then .err ePkcs7Size
  else
    let k := size - buf.length % size
    .ok (buf ++ List.replicate k (UInt8.ofNat k))

def unpad (buf : Bytes) (size : Nat) : Outcome Bytes :=
  if size ≤ 1 ∨ size ≥ 256 then .err ePkcs7Size
  else if buf.length = 0 then .ok []
  else if buf.length % size ≠ 0 then .err ePkcs7
  else
    let k := (buf.getLast?.getD 0).toNat
    if k = 0 ∨ k > size then .err ePkcs7
    else if (buf.drop (buf.length - k)).all (· == UInt8.ofNat k) then .ok (buf.take (buf.length - k))
    else .err ePkcs7

/-! ### CBC (`cipher.NewCBCEncrypter(block, iv).CryptBlocks`) -/

def cbcEncBlocks (E : Bytes → Bytes) : Nat → Bytes → Bytes → Bytes
  | 0, _, _ => []
  | n + 1, prev, data =>
    let c := E (xor (data.take 16) prev)
    c ++ cbcEncBlocks E n c (data.drop 16)

def cbcDecBlocks (D : Bytes → Bytes) : Nat → Bytes → Bytes → Bytes
  | 0, _, _ => []
  | n + 1, prev, data =>
    let c := data.take 16
    xor (D c) prev ++ cbcDecBlocks D n c (data.drop 16)

/-- `CryptBlocks` panics on input that is not a whole number of blocks, `NewCBCEncrypter` on an
IV that is not one block. -/
def cbcEncrypt (bc : BlockCipher) (iv data : Bytes) : Outcome Bytes :=
  if iv.length ≠ 16 then .panic "cipher.NewCBCEncrypter: IV length must equal block size"
  else if data.length % 16 ≠ 0 then .panic "crypto/cipher: input not full blocks"
  else .ok (cbcEncBlocks bc.E (data.length / 16) iv data)

def cbcDecrypt (bc : BlockCipher) (iv data : Bytes) : Outcome Bytes :=
  if iv.length ≠ 16 then .panic "cipher.NewCBCDecrypter: IV length must equal block size"
  else if data.length % 16 ≠ 0 then .panic "crypto/cipher: input not full blocks"
  else .ok (cbcDecBlocks bc.D (data.length / 16) iv data)

/-! ### AES-CBC-HMAC-SHA2 (aescbcaead/aescbcaead.go, RFC 7518 §5.2) -/

/-- What `hmacTag` feeds to the MAC: `AD ‖ IV ‖ ciphertext ‖ AL`, `AL` = bit length of `AD`
as a 64-bit big-endian integer. -/
def macInput (ad iv ct : Bytes) : Bytes := ad ++ iv ++ ct ++ be64 (ad.length * 8)

/-- `MAC_KEY` = first `macKeySize` bytes, `ENC_KEY` = last `encKeySize` bytes (`NewAESCBCAEAD`). -/
def macKeyOf (p : AeadParams) (key : Bytes) : Bytes := key.take p.macKeySize
def encKeyOf (p : AeadParams) (key : Bytes) : Bytes := key.drop (key.length - p.encKeySize)

def cbcHmacTag (P : Prims) (p : AeadParams) (key ad iv ct : Bytes) : Bytes :=
  (P.hmac p.hashBits (macKeyOf p key) (macInput ad iv ct)).take p.tagSize

/-- `(*aesCBCAEAD).Seal(nil, nonce, plaintext, ad)`. -/
def cbcHmacSeal (P : Prims) (p : AeadParams) (key iv pt ad : Bytes) : Outcome Bytes :=
  if iv.length ≠ 16 then .panic "invalid nonce"
  else
    match pad pt 16 with
    | .ok padded =>
      match cbcEncrypt (P.aes (encKeyOf p key)) iv padded with
      | .ok ct => .ok (ct ++ cbcHmacTag P p key ad iv ct)
      | .err e => .panic e
      | .panic w => .panic w
    | .err e => .panic e
    | .panic w => .panic w

/-- `(*aesCBCAEAD).Open(nil, nonce, ciphertext‖tag, ad)`: the tag is compared before anything is
decrypted or unpadded; an authenticated body that is not block aligned is an error (fix 5c853ad;
before it `CryptBlocks` panicked). -/
def cbcHmacOpen (P : Prims) (p : AeadParams) (key iv c ad : Bytes) : Outcome Bytes :=
  if iv.length ≠ 16 then .err eAeadSize            -- "invalid nonce size" (fix c71e752)
  else if c.length < p.tagSize then .err eAeadSize
  else
    let tag := c.drop (c.length - p.tagSize)
    let body := c.take (c.length - p.tagSize)
    if tag ≠ cbcHmacTag P p key ad iv body then .err eAuth
    else if body.length % 16 ≠ 0 then .err eAeadSize
    else
      match cbcDecrypt (P.aes (encKeyOf p key)) iv body with
      | .ok padded => unpad padded 16
      | .err e => .err e
      | .panic w => .panic w

def cbcHmacAEAD (P : Prims) (p : AeadParams) (key : Bytes) : AEAD where
  nonceSize := 16
  overhead := p.tagSize
  doSeal := fun nonce pt ad => cbcHmacSeal P p key nonce pt ad
  doOpen := fun nonce c ad => cbcHmacOpen P p key nonce c ad

/-! ### interpretation of the generated facts -/

def lookupSwitch (sw : Switch) (alg : String) : Option (String × String) :=
  (sw.cases.find? (fun c => c.1.contains alg)).map (·.2)

/-- `switch alg[lo:hi]` / `switch alg[len(alg)-lo:]`; a slice out of range panics. -/
def evalSlice (t : SliceTable) (alg : String) : Outcome Nat :=
  let cs := alg.toList
  let lookup (k : List Char) : Nat :=
    ((t.cases.find? (fun c => c.1.toList == k)).map (·.2)).getD t.dflt
  if t.fromEnd then
    if cs.length < t.lo then .panic "slice bounds out of range"
    else .ok (lookup (cs.drop (cs.length - t.lo)))
  else
    if cs.length < t.hi ∨ t.hi < t.lo then .panic "slice bounds out of range"
    else .ok (lookup ((cs.take t.hi).drop t.lo))

def expectedKeySize (alg : String) : Outcome Nat := evalSlice Generated.C03.tbl_expectedKeySize alg
def getSHAHash (alg : String) : Outcome Nat := evalSlice Generated.C03.tbl_getSHAHash alg

/-- What a guard prefix is evaluated against. -/
structure Env where
  alg : String
  /-- `len(v)` of the helper's parameters -/
  len : String → Nat
  aeadNonce : Nat := 0
  aeadOverhead : Nat := 0
  /-- error returned by a `x, err := callee(…)` step, `none` = success -/
  tryCall : String → Option String := fun _ => none

def evalTerm (env : Env) : Term → Outcome Nat
  | .len v => .ok (env.len v)
  | .lit n => .ok n
  | .keySize => expectedKeySize env.alg
  | .aeadNonceSize => .ok env.aeadNonce
  | .aeadOverhead => .ok env.aeadOverhead
  | .mod a b => do
    let x ← evalTerm env a
    let y ← evalTerm env b
    if y = 0 then .panic "integer divide by zero" else .ok (x % y)

def evalCond (env : Env) : Cond → Outcome Bool
  | .ne a b => do let x ← evalTerm env a; let y ← evalTerm env b; pure (decide (x ≠ y))
  | .eq a b => do let x ← evalTerm env a; let y ← evalTerm env b; pure (decide (x = y))
  | .lt a b => do let x ← evalTerm env a; let y ← evalTerm env b; pure (decide (x < y))

/-- Run a guard prefix: the first failing step decides the error. -/
def runSteps (env : Env) : List Step → Outcome Unit
  | [] => .ok ()
  | .guard only c e :: rest =>
    if only.isEmpty ∨ only.contains env.alg then
      match evalCond env c with
      | .ok true => .err e
      | .ok false => runSteps env rest
      | .err x => .err x
      | .panic w => .panic w
    else runSteps env rest
  | .try_ callee e :: rest =>
    match env.tryCall callee with
    | some ce => .err (if e = "" then ce else e)
    | none => runSteps env rest

/-- `aes.NewCipher(key)` fails exactly for key lengths other than 16/24/32. -/
def aesNewCipherErr (key : Bytes) : Option String :=
  if key.length = 16 ∨ key.length = 24 ∨ key.length = 32 then none else some "aes: invalid key size"

def lensOf (l : List (String × Nat)) (v : String) : Nat :=
  ((l.find? (·.1 == v)).map (·.2)).getD 0

/-! ### symmetric helpers (symmetric.go) -/

/-- `getAESCBCHMACCipher`: parameters of the AEAD, or the error. -/
def getAESCBCHMACCipher (alg : String) (key : Bytes) : Except String AeadParams :=
  match Generated.C03.cbcHmacCiphers.find? (·.name == alg) with
  | none => .error eInvalidAlgorithm
  | some c =>
    if key.length ≠ c.keyLen then .error eKeyTypeMismatch
    else match Generated.C03.aescbcaeadParams.find? (·.ctor == c.ctor) with
      | none => .error "model: unknown aescbcaead constructor"
      | some p =>
        -- NewAESCBCAEAD: "key must be %d bytes long" is mapped to cbcHmacCtorErr
        if key.length ≠ p.encKeySize + p.macKeySize then .error Generated.C03.cbcHmacCtorErr
        else .ok p

/-- `getChaCha20Poly1305Cipher`: which constructor and nonce size, or the error. -/
def getChaChaCipher (alg : String) (key nonce : Bytes) : Except String ChaChaCase :=
  match Generated.C03.chachaCiphers.find? (·.names.contains alg) with
  | none => .error eInvalidAlgorithm
  | some c =>
    -- chacha20poly1305.New / NewX fail for len(key) ≠ KeySize ("chacha20poly1305: bad key length")
    if key.length ≠ 32 then .error "chacha20poly1305: bad key length"
    else if nonce.length ≠ c.nonceLen then .error Generated.C03.chachaNonceErr
    else .ok c

def exceptErr {α} : Except String α → Option String
  | .error e => some e
  | .ok _ => none

/-- `encryptSymmetricAEAD`: nonce guard, `Seal`, split into ciphertext and tag. -/
def encryptAEAD (a : AEAD) (pt nonce ad : Bytes) : Outcome (Bytes × Bytes) :=
  let env : Env := {
    alg := "", len := lensOf [("nonce", nonce.length)], aeadNonce := a.nonceSize
    aeadOverhead := a.overhead }
  match runSteps env Generated.C03.steps_encryptSymmetricAEAD with
  | .err e => .err e
  | .panic w => .panic w
  | .ok () =>
    (a.doSeal nonce pt ad).bind fun out =>
      if out.length < a.overhead then .panic "slice bounds out of range"
      else .ok (out.take (out.length - a.overhead), out.drop (out.length - a.overhead))

/-- `decryptSymmetricAEAD`: nonce guard, tag guard, re-join, `Open`. -/
def decryptAEAD (a : AEAD) (ct nonce tag ad : Bytes) : Outcome Bytes :=
  let env : Env := {
    alg := "", len := lensOf [("nonce", nonce.length), ("tag", tag.length)]
    aeadNonce := a.nonceSize, aeadOverhead := a.overhead }
  match runSteps env Generated.C03.steps_decryptSymmetricAEAD with
  | .err e => .err e
  | .panic w => .panic w
  | .ok () => a.doOpen nonce (ct ++ tag) ad

def stepsThen {α} (env : Env) (steps : List Step) (k : Unit → Outcome α) : Outcome α :=
  (runSteps env steps).bind k

def encryptSymmetricAESCBC (P : Prims) (pt : Bytes) (alg : String) (key iv : Bytes) :
    Outcome (Bytes × Bytes) :=
  let env : Env := {
    alg := alg
    len := lensOf [("key", key.length), ("iv", iv.length), ("plaintext", pt.length)]
    tryCall := fun c => if c = "aes.NewCipher" then aesNewCipherErr key else some "model: unknown callee" }
  stepsThen env Generated.C03.steps_encryptSymmetricAESCBC fun _ =>
    if Generated.C03.nopad_encryptSymmetricAESCBC.contains alg then
      (cbcEncrypt (P.aes key) iv pt).bind fun ct => .ok (ct, [])
    else
      (pad pt 16).bind fun padded => (cbcEncrypt (P.aes key) iv padded).bind fun ct => .ok (ct, [])

def decryptSymmetricAESCBC (P : Prims) (ct : Bytes) (alg : String) (key iv : Bytes) : Outcome Bytes :=
  let env : Env := {
    alg := alg
    len := lensOf [("key", key.length), ("iv", iv.length), ("ciphertext", ct.length)]
    tryCall := fun c => if c = "aes.NewCipher" then aesNewCipherErr key else some "model: unknown callee" }
  stepsThen env Generated.C03.steps_decryptSymmetricAESCBC fun _ =>
    (cbcDecrypt (P.aes key) iv ct).bind fun pt =>
      if Generated.C03.nopad_decryptSymmetricAESCBC.contains alg then .ok pt else unpad pt 16

def gcmTry (key : Bytes) (c : String) : Option String :=
  if c = "aes.NewCipher" then aesNewCipherErr key
  else if c = "cipher.NewGCM" then none
  else some "model: unknown callee"

def encryptSymmetricAESGCM (P : Prims) (pt : Bytes) (alg : String) (key nonce ad : Bytes) :
    Outcome (Bytes × Bytes) :=
  let env : Env := { alg := alg, len := lensOf [("key", key.length)], tryCall := gcmTry key }
  stepsThen env Generated.C03.steps_encryptSymmetricAESGCM fun _ => encryptAEAD (P.gcm key) pt nonce ad

def decryptSymmetricAESGCM (P : Prims) (ct : Bytes) (alg : String) (key nonce tag ad : Bytes) :
    Outcome Bytes :=
  let env : Env := { alg := alg, len := lensOf [("key", key.length)], tryCall := gcmTry key }
  stepsThen env Generated.C03.steps_decryptSymmetricAESGCM fun _ =>
    decryptAEAD (P.gcm key) ct nonce tag ad

def cbcHmacTry (alg : String) (key : Bytes) (c : String) : Option String :=
  if c = "getAESCBCHMACCipher" then exceptErr (getAESCBCHMACCipher alg key)
  else some "model: unknown callee"

def encryptSymmetricAESCBCHMAC (P : Prims) (pt : Bytes) (alg : String) (key nonce ad : Bytes) :
    Outcome (Bytes × Bytes) :=
  let env : Env := { alg := alg, len := lensOf [("key", key.length)], tryCall := cbcHmacTry alg key }
  stepsThen env Generated.C03.steps_encryptSymmetricAESCBCHMAC fun _ =>
    match getAESCBCHMACCipher alg key with
    | .ok p => encryptAEAD (cbcHmacAEAD P p key) pt nonce ad
    | .error e => .err e

def decryptSymmetricAESCBCHMAC (P : Prims) (ct : Bytes) (alg : String) (key nonce tag ad : Bytes) :
    Outcome Bytes :=
  let env : Env := { alg := alg, len := lensOf [("key", key.length)], tryCall := cbcHmacTry alg key }
  stepsThen env Generated.C03.steps_decryptSymmetricAESCBCHMAC fun _ =>
    match getAESCBCHMACCipher alg key with
    | .ok p => decryptAEAD (cbcHmacAEAD P p key) ct nonce tag ad
    | .error e => .err e

def kwTry (key : Bytes) (c : String) : Option String :=
  if c = "aes.NewCipher" then aesNewCipherErr key else some "model: unknown callee"

def encryptSymmetricAESKW (P : Prims) (pt : Bytes) (alg : String) (key : Bytes) :
    Outcome (Bytes × Bytes) :=
  let env : Env := { alg := alg, len := lensOf [("key", key.length)], tryCall := kwTry key }
  stepsThen env Generated.C03.steps_encryptSymmetricAESKW fun _ =>
    (wrap (P.aes key) pt).bind fun c => .ok (c, [])

def decryptSymmetricAESKW (P : Prims) (ct : Bytes) (alg : String) (key : Bytes) : Outcome Bytes :=
  let env : Env := { alg := alg, len := lensOf [("key", key.length)], tryCall := kwTry key }
  stepsThen env Generated.C03.steps_decryptSymmetricAESKW fun _ => unwrap (P.aes key) ct

def chachaTry (alg : String) (key nonce : Bytes) (c : String) : Option String :=
  if c = "getChaCha20Poly1305Cipher" then exceptErr (getChaChaCipher alg key nonce)
  else some "model: unknown callee"

def chachaAEAD (P : Prims) (c : ChaChaCase) (key : Bytes) : AEAD :=
  if c.ctor = "chacha20poly1305.NewX" then P.xchacha key else P.chacha key

def encryptSymmetricChaCha20Poly1305 (P : Prims) (pt : Bytes) (alg : String) (key nonce ad : Bytes) :
    Outcome (Bytes × Bytes) :=
  let env : Env := {
    alg := alg, len := lensOf [("key", key.length)]
    tryCall := chachaTry alg key nonce }
  stepsThen env Generated.C03.steps_encryptSymmetricChaCha20Poly1305 fun _ =>
    match getChaChaCipher alg key nonce with
    | .error e => .err e
    | .ok c =>
      ((chachaAEAD P c key).doSeal nonce pt ad).bind fun out =>
        if out.length < Generated.C03.chachaEncryptTagSplit then .panic "slice bounds out of range"
        else .ok (out.take (out.length - Generated.C03.chachaEncryptTagSplit),
                  out.drop (out.length - Generated.C03.chachaEncryptTagSplit))

def decryptSymmetricChaCha20Poly1305 (P : Prims) (ct : Bytes) (alg : String)
    (key nonce tag ad : Bytes) : Outcome Bytes :=
  match getChaChaCipher alg key nonce with
  | .error _ =>
    -- the guard prefix stops at (or before) the failing getter; the AEAD's Overhead() is not read
    let env : Env := {
      alg := alg, len := lensOf [("key", key.length), ("tag", tag.length)]
      tryCall := chachaTry alg key nonce }
    stepsThen env Generated.C03.steps_decryptSymmetricChaCha20Poly1305 fun _ =>
      .panic "model: guard prefix passed although the cipher getter failed"
  | .ok c =>
    let a := chachaAEAD P c key
    let env : Env := {
      alg := alg, len := lensOf [("key", key.length), ("tag", tag.length)]
      aeadNonce := a.nonceSize, aeadOverhead := a.overhead
      tryCall := chachaTry alg key nonce }
    stepsThen env Generated.C03.steps_decryptSymmetricChaCha20Poly1305 fun _ =>
      a.doOpen nonce (ct ++ tag) ad

/-! ### keys and the public entry points -/

/-- Kind of a JWK as the glue code can observe it (`KeyType()`, `Raw` into a Go key type, curve). -/
inductive KeyKind where
  | oct
  | rsaPriv | rsaPub
  | ecPriv (bits : Nat) | ecPub (bits : Nat)
  | ed25519Priv | ed25519Pub
  | x25519Priv | x25519Pub
  deriving Repr, DecidableEq

structure Key where
  kind : KeyKind
  /-- raw bytes of an octet key -/
  raw : Bytes := []

def keyTypeName : KeyKind → String
  | .oct => "jwa.OctetSeq"
  | .rsaPriv | .rsaPub => "jwa.RSA"
  | .ecPriv _ | .ecPub _ => "jwa.EC"
  | _ => "jwa.OKP"

def encHelper (P : Prims) (callee : String) (pt : Bytes) (alg : String) (key nonce ad : Bytes) :
    Outcome (Bytes × Bytes) :=
  if callee = "encryptSymmetricAESCBC" then encryptSymmetricAESCBC P pt alg key nonce
  else if callee = "encryptSymmetricAESGCM" then encryptSymmetricAESGCM P pt alg key nonce ad
  else if callee = "encryptSymmetricAESCBCHMAC" then encryptSymmetricAESCBCHMAC P pt alg key nonce ad
  else if callee = "encryptSymmetricAESKW" then encryptSymmetricAESKW P pt alg key
  else if callee = "encryptSymmetricChaCha20Poly1305" then
    encryptSymmetricChaCha20Poly1305 P pt alg key nonce ad
  else .panic ("model: unknown helper " ++ callee)

def decHelper (P : Prims) (callee : String) (ct : Bytes) (alg : String) (key nonce tag ad : Bytes) :
    Outcome Bytes :=
  if callee = "decryptSymmetricAESCBC" then decryptSymmetricAESCBC P ct alg key nonce
  else if callee = "decryptSymmetricAESGCM" then decryptSymmetricAESGCM P ct alg key nonce tag ad
  else if callee = "decryptSymmetricAESCBCHMAC" then
    decryptSymmetricAESCBCHMAC P ct alg key nonce tag ad
  else if callee = "decryptSymmetricAESKW" then decryptSymmetricAESKW P ct alg key
  else if callee = "decryptSymmetricChaCha20Poly1305" then
    decryptSymmetricChaCha20Poly1305 P ct alg key nonce tag ad
  else .panic ("model: unknown helper " ++ callee)

/-- `EncryptSymmetric`. -/
def encryptSymmetric (P : Prims) (pt : Bytes) (alg : String) (key : Key) (nonce ad : Bytes) :
    Outcome (Bytes × Bytes) :=
  if keyTypeName key.kind ≠ Generated.C03.kind_EncryptSymmetric.1 then
    .err Generated.C03.kind_EncryptSymmetric.2
  else
    match lookupSwitch Generated.C03.sw_EncryptSymmetric alg with
    | none => .err Generated.C03.sw_EncryptSymmetric.dflt
    | some (callee, _) => encHelper P callee pt alg key.raw nonce ad

/-- `DecryptSymmetric`. -/
def decryptSymmetric (P : Prims) (ct : Bytes) (alg : String) (key : Key) (nonce tag ad : Bytes) :
    Outcome Bytes :=
  if keyTypeName key.kind ≠ Generated.C03.kind_DecryptSymmetric.1 then
    .err Generated.C03.kind_DecryptSymmetric.2
  else
    match lookupSwitch Generated.C03.sw_DecryptSymmetric alg with
    | none => .err Generated.C03.sw_DecryptSymmetric.dflt
    | some (callee, _) => decHelper P callee ct alg key.raw nonce tag ad

/-! ### asymmetric side: dispatch and key-kind guards over abstract schemes -/

/-- Can `key.Raw(&T{})` succeed for a key of this kind?  (`EncryptPublicKey` and
`VerifyPublicKey` first replace the key by `key.PublicKey()`.) -/
def rawFits (rawType : String) : KeyKind → Bool
  | .rsaPriv => rawType == "rsa.PrivateKey"
  | .rsaPub => rawType == "rsa.PublicKey"
  | .ecPriv _ => rawType == "ecdsa.PrivateKey"
  | .ecPub _ => rawType == "ecdsa.PublicKey"
  | .ed25519Priv => rawType == "ed25519.PrivateKey"
  | .ed25519Pub => rawType == "ed25519.PublicKey"
  | _ => false

def curveBits : KeyKind → Nat
  | .ecPriv b | .ecPub b => b
  | _ => 0

/-- `key.PublicKey()`: private keys are converted, everything else is unchanged. -/
def toPublic : KeyKind → KeyKind
  | .rsaPriv => .rsaPub
  | .ecPriv b => .ecPub b
  | .ed25519Priv => .ed25519Pub
  | .x25519Priv => .x25519Pub
  | k => k

def ecdsaCurve (alg : String) : Nat :=
  ((Generated.C03.tbl_ecdsaCurve.find? (·.1 == alg)).map (·.2)).getD Generated.C03.tbl_ecdsaCurve_dflt

/-- What the dispatch of one asymmetric entry point resolves to. -/
structure AsymPlan where
  helper : AsymHelper
  /-- hash (bits; 1 = SHA-1; 0 = none) handed to the helper -/
  hash : Nat
  /-- curve (bits) the helper requires, 0 = none -/
  curve : Nat
  deriving Repr, DecidableEq

def hashOfExtra (extra alg : String) : Outcome Nat :=
  if extra = "crypto.SHA1" then .ok 1
  else if extra = "getSHAHash(algorithm)" then getSHAHash alg
  else .ok 0

/-- Dispatch of `EncryptPublicKey` / `DecryptPrivateKey` / `SignPrivateKey` / `VerifyPublicKey`:
`.err` = the switch's default, `.panic` = a table lookup out of range or an unknown helper. -/
def asymPlan (sw : Switch) (alg : String) : Outcome AsymPlan :=
  match lookupSwitch sw alg with
  | none => .err sw.dflt
  | some (callee, extra) =>
    match Generated.C03.asymHelpers.find? (·.name == callee) with
    | none => .panic ("model: unknown helper " ++ callee)
    | some h =>
      match hashOfExtra extra alg with
      | .ok hb => .ok { helper := h, hash := hb,
                        curve := if extra = "ecdsaCurve(algorithm)" then ecdsaCurve alg else 0 }
      | .err e => .err e
      | .panic w => .panic w

/-- The key-kind guard of an asymmetric helper: `none` = the key is accepted. -/
def asymGuard (pl : AsymPlan) (k : KeyKind) : Option String :=
  if ¬ rawFits pl.helper.rawType k then some pl.helper.guardErr
  else if pl.helper.checksCurve ∧ curveBits k ≠ pl.curve then some pl.helper.guardErr
  else none

/-- Outcome class of an asymmetric entry point, given well-formed other inputs. -/
def asymOutcome (fn alg : String) (k : KeyKind) : Outcome Unit :=
  let viaPublic := fn = "EncryptPublicKey" ∨ fn = "VerifyPublicKey"
  let sw :=
    if fn = "EncryptPublicKey" then Generated.C03.sw_EncryptPublicKey
    else if fn = "DecryptPrivateKey" then Generated.C03.sw_DecryptPrivateKey
    else if fn = "SignPrivateKey" then Generated.C03.sw_SignPrivateKey
    else Generated.C03.sw_VerifyPublicKey
  match asymPlan sw alg with
  | .err e => .err e
  | .panic w => .panic w
  | .ok pl =>
    match asymGuard pl (if viaPublic then toPublic k else k) with
    | some e => .err e
    | none => .ok ()

/-- Dispatch and key guard of an asymmetric entry point together: the plan (helper, hash, curve) the
call proceeds with, or the error it returns.  `asymOutcome` is this with the plan forgotten. -/
def asymDispatch (fn alg : String) (k : KeyKind) : Outcome AsymPlan :=
  let viaPublic := fn = "EncryptPublicKey" ∨ fn = "VerifyPublicKey"
  let sw :=
    if fn = "EncryptPublicKey" then Generated.C03.sw_EncryptPublicKey
    else if fn = "DecryptPrivateKey" then Generated.C03.sw_DecryptPrivateKey
    else if fn = "SignPrivateKey" then Generated.C03.sw_SignPrivateKey
    else Generated.C03.sw_VerifyPublicKey
  match asymPlan sw alg with
  | .err e => .err e
  | .panic w => .panic w
  | .ok pl =>
    match asymGuard pl (if viaPublic then toPublic k else k) with
    | some e => .err e
    | none => .ok pl

/-- An abstract signature scheme as the stdlib presents it to the helpers. -/
inductive StdVerify where
  | valid
  /-- `rsa.ErrVerification` / `false` -/
  | invalid
  /-- any other error of the stdlib verifier -/
  | failure (e : String)
  deriving Repr, DecidableEq

structure SigScheme (SK PK : Type) where
  pub : SK → PK
  sign : SK → (digest rand : Bytes) → Outcome Bytes
  verify : PK → (digest sig : Bytes) → StdVerify

/-- Signatures made by a private key verify under the matching public key. -/
def SigScheme.Lawful {SK PK} (S : SigScheme SK PK) : Prop :=
  ∀ sk d r s, S.sign sk d r = .ok s → S.verify (S.pub sk) d s = .valid

/-- `SignPrivateKey`: dispatch, key guard, then the stdlib signer the dispatched helper calls.  The
scheme is a FUNCTION OF THE DISPATCH RESULT `F pl` (helper's stdlib call, hash, curve): which hash /
curve / padding is used is decided by the generated tables, not by the caller of the model. -/
def signPrivateKey {SK PK} (F : AsymPlan → SigScheme SK PK) (alg : String) (kind : KeyKind) (sk : SK)
    (digest rand : Bytes) : Outcome Bytes :=
  match asymDispatch "SignPrivateKey" alg kind with
  | .ok pl => (F pl).sign sk digest rand
  | .err e => .err e
  | .panic w => .panic w

/-- `VerifyPublicKey`: the RSA helpers map `rsa.ErrVerification` to `(false, nil)` when the
generated fact `mapsErrVerification` holds; ECDSA/Ed25519 return the boolean. -/
def verifyPublicKey {SK PK} (F : AsymPlan → SigScheme SK PK) (alg : String) (kind : KeyKind) (pk : PK)
    (digest sig : Bytes) : Outcome Bool :=
  match asymDispatch "VerifyPublicKey" alg kind with
  | .ok pl =>
    match (F pl).verify pk digest sig with
    | .valid => .ok true
    | .invalid => .ok false
    | .failure e => .err e
  | .err e => .err e
  | .panic w => .panic w

/-- An abstract public-key encryption scheme as the stdlib presents it to the helpers
(`rand` = the randomness `rand.Reader` supplies). -/
structure PkeScheme (SK PK : Type) where
  pub : SK → PK
  enc : PK → (msg label rand : Bytes) → Outcome Bytes
  dec : SK → (ct label : Bytes) → Outcome Bytes

/-- Decryption with the private key inverts encryption under the matching public key. -/
def PkeScheme.Lawful {SK PK} (S : PkeScheme SK PK) : Prop :=
  ∀ sk m l r c, S.enc (S.pub sk) m l r = .ok c → S.dec sk c l = .ok m

/-- `EncryptPublicKey` after `key.PublicKey()`, dispatch and the key-kind guard; scheme = `F pl`. -/
def encryptPublicKey {SK PK} (F : AsymPlan → PkeScheme SK PK) (alg : String) (kind : KeyKind) (pk : PK)
    (msg label rand : Bytes) : Outcome Bytes :=
  match asymDispatch "EncryptPublicKey" alg kind with
  | .ok pl => (F pl).enc pk msg label rand
  | .err e => .err e
  | .panic w => .panic w

/-- `DecryptPrivateKey` after dispatch and the key-kind guard; scheme = `F pl`. -/
def decryptPrivateKey {SK PK} (F : AsymPlan → PkeScheme SK PK) (alg : String) (kind : KeyKind) (sk : SK)
    (ct label : Bytes) : Outcome Bytes :=
  match asymDispatch "DecryptPrivateKey" alg kind with
  | .ok pl => (F pl).dec sk ct label
  | .err e => .err e
  | .panic w => .panic w

/-- `Encrypt`: the top-level switch routes the name to the symmetric or the public-key entry. -/
def encryptRoute (alg : String) : Option String := (lookupSwitch Generated.C03.sw_Encrypt alg).map (·.1)
def decryptRoute (alg : String) : Option String := (lookupSwitch Generated.C03.sw_Decrypt alg).map (·.1)

/-- `Encrypt`.  On the public-key route the ciphertext comes from `EncryptPublicKey` (the tag is
nil); `pk` / `rand` are the key material and the randomness that route uses. -/
def encrypt {SK PK} (P : Prims) (F : AsymPlan → PkeScheme SK PK) (pk : PK) (rand : Bytes)
    (pt : Bytes) (alg : String) (key : Key) (nonce ad : Bytes) : Outcome (Bytes × Bytes) :=
  match encryptRoute alg with
  | some "EncryptSymmetric" => encryptSymmetric P pt alg key nonce ad
  | some "EncryptPublicKey" => (encryptPublicKey F alg key.kind pk pt ad rand).bind fun c => .ok (c, [])
  | some c => .panic ("model: unknown entry " ++ c)
  | none => .err Generated.C03.sw_Encrypt.dflt

/-- `Decrypt`. -/
def decrypt {SK PK} (P : Prims) (F : AsymPlan → PkeScheme SK PK) (sk : SK)
    (ct : Bytes) (alg : String) (key : Key) (nonce tag ad : Bytes) : Outcome Bytes :=
  match decryptRoute alg with
  | some "DecryptSymmetric" => decryptSymmetric P ct alg key nonce tag ad
  | some "DecryptPrivateKey" => decryptPrivateKey F alg key.kind sk ct ad
  | some c => .panic ("model: unknown entry " ++ c)
  | none => .err Generated.C03.sw_Decrypt.dflt

end Kit.CryptoGlue
