import KitModel.Pool
/-!
`Pool.Add` in its real steps (round 4).

`Kit.Pool.step … .complete` runs the whole body of `Add` as one action.  The body is not one
action when the argument is a foreign `context.Context`: between the decision and the append it
calls `ctx.Done()`, code of the caller, which may take arbitrarily long:

    p.lock.Lock(); defer p.lock.Unlock()
    select { case <-p.Done(): case <-p.closed:          -- check   (`addEnter`)
             default: if p.anyLive() {
                        p.pool = append(p.pool,
                                        ctx.Done()) } } -- call-out, then append (`addExit`)

(`Kit.Generated.C20.addBody`, pinned by `t1_add`: the call-out is an argument of the `append`
inside the critical section.)  The fine system `fstep` has the coarse steps plus

* `addEnter` — the announced `Add(c)` obtains the write lock, finds the pool live and
  `p.anyLive()` true and enters `c.Done()`; the write lock stays held (`win = some c`).  An `Add`
  that is going to be ignored makes no call-out and stays the coarse `complete`;
* while `win = some c`: contexts end, the pool context can be polled, the watcher's select may
  return and (were it there) its deferred `cancel()` could run — everything that needs no lock.
  `RLock` (`wRelock`, `size`) and other writers wait;
* `addExit` — `c.Done()` returned: append, unlock, return.

The ghost `members` is updated at `addEnter`: that is where the `Add` takes effect (the decision
is not revisited).  `FState.abs` is the coarse state in which it has already taken effect.
-/
namespace Kit.Pool

structure FState where
  base : State
  /-- `some c`: `Add(c)` holds the write lock and is inside `c.Done()` -/
  win : Option Nat
  deriving DecidableEq, Repr

inductive FLabel where
  | base (a : Label)
  | addEnter
  | addExit
  deriving DecidableEq, Repr

/-- Steps that need no lock of the pool. -/
def Label.lockFree : Label → Bool
  | .endCtx _ | .poll _ | .wWake | .wCancel => true
  | _ => false

def fstep (g : FState) : FLabel → Option FState
  | .base a =>
    match g.win with
    | none => (step .fixed g.base a).map (fun s => { base := s, win := none })
    | some c => if a.lockFree then (step .fixed g.base a).map (fun s => { base := s, win := some c }) else none
  | .addEnter =>
    match g.win, g.base.writer with
    | none, some (.add c) =>
      if g.base.pc.holdsRead || g.base.addIgnored .fixed then none
      else
        let mem := if !g.base.done && g.base.hasLiveMember then c :: g.base.members else g.base.members
        some { base := { g.base with members := mem }, win := some c }
    | _, _ => none
  | .addExit =>
    match g.win with
    | some c =>
      some { base := { g.base with pool := g.base.pool ++ [c], accepted := g.base.accepted ++ [c], writer := none },
             win := none }
    | none => none

/-- The coarse state in which the `Add` inside its call-out has already taken effect. -/
def FState.abs (g : FState) : State :=
  match g.win with
  | none => g.base
  | some c => { g.base with pool := g.base.pool ++ [c], accepted := g.base.accepted ++ [c], writer := none }

def finit (cfg : Config) : FState := { base := init cfg, win := none }

inductive FReach (cfg : Config) : FState → Prop where
  | init : FReach cfg (finit cfg)
  | step {g g' : FState} {l : FLabel} : FReach cfg g → fstep g l = some g' → FReach cfg g'

def FLabel.isInternal : FLabel → Bool
  | .base a => a.isInternal
  | .addEnter => true
  | .addExit => true

inductive FInternalPath : FState → FState → Prop where
  | refl (g : FState) : FInternalPath g g
  | step {g g' g'' : FState} {l : FLabel} :
      l.isInternal = true → fstep g l = some g' → FInternalPath g' g'' → FInternalPath g g''

def frun : FState → List FLabel → Option FState
  | g, [] => some g
  | g, l :: ls => (fstep g l).bind (fun g' => frun g' ls)

/-! ### the shape of the seeded change class: decision and append in different critical sections

`check` under the read lock, `c.Done()` with no lock held, append under the write lock after
re-checking `closed` only.  Kept to show that the fine system distinguishes it (`Props/C20`:
`unlocked_callout_witness`); nothing else refers to it. -/

def ustep (g : FState) : FLabel → Option FState
  | .base a =>
    -- no lock is held during the call-out: every coarse step is possible
    (step .fixed g.base a).map (fun s => { base := s, win := g.win })
  | .addEnter =>
    match g.win, g.base.writer with
    | none, some (.add c) =>
      -- `RLock; live := p.anyLive(); RUnlock; if !live { return }`: the caller leaves the queue of writers
      if g.base.anyLive then some { base := { g.base with writer := none }, win := some c } else none
    | _, _ => none
  | .addExit =>
    match g.win with
    | some c =>
      -- `Lock; select { case <-p.closed: default: append }; Unlock`
      if g.base.pc.holdsRead || g.base.writer.isSome then none
      else if g.base.closed then some { g with win := none }
      else some { base := { g.base with pool := g.base.pool ++ [c], accepted := g.base.accepted ++ [c] }, win := none }
    | none => none

def urun : FState → List FLabel → Option FState
  | g, [] => some g
  | g, l :: ls => (ustep g l).bind (fun g' => urun g' ls)

/-! ### state-set simulation of a window (what `kitdrv C20` runs for `gate … ungate`) -/

/-- The watcher's own steps inside a window. -/
def windowWatcherStep (g : FState) : Option FState :=
  [FLabel.base .wWake, FLabel.base .wCancel].findSome? (fstep g)

def wchain : Nat → FState → List FState
  | 0, g => [g]
  | n + 1, g =>
    match windowWatcherStep g with
    | none => [g]
    | some g' => g :: wchain n g'

def closeW (frozen : Bool) (xs : List FState) : List FState :=
  if frozen then xs.eraseDups else (xs.flatMap (wchain 3)).eraseDups

/-- What the driver holds: coarse states between calls, fine states while an `Add` is parked
inside its call-out. -/
inductive DSim where
  | plain (sim : Sim)
  | window (states : List FState) (frozen : Bool)
  deriving Repr

inductive DEvent where
  | ev (e : Event)
  /-- `Add(c)` was seen inside `c.Done()` (first call-out of the call) -/
  | gate (c : Nat)
  /-- the harness let `c.Done()` return and `Add` returned -/
  | ungate
  /-- observation inside the window (`Size` would block): `quiet` = watcher blocked or gone -/
  | obsw (quiet : Bool) (done : Bool) (alive : Bool)
  deriving Repr

def DSim.size : DSim → Nat
  | .plain sim => sim.states.length
  | .window xs _ => xs.length

def dadvance (d : DSim) (e : DEvent) : DSim :=
  match d with
  | .plain sim =>
    match e with
    | .ev e => .plain (advance sim e)
    | .gate c =>
      let s1 := sim.states.filterMap (fun s => step .fixed s (.lockReq (.add c)))
      let s2 := Sim.close sim.frozen s1
      let s3 := s2.filterMap (fun s => fstep { base := s, win := none } .addEnter)
      .window (closeW sim.frozen s3) sim.frozen
    | _ => .plain { sim with states := [] }
  | .window xs frozen =>
    match e with
    | .ev (.endCtx c) =>
      .window (closeW frozen (xs.filterMap (fun g => fstep g (.base (.endCtx c))))) frozen
    | .obsw quiet done alive =>
      .window (xs.filter (fun g =>
        (fstep g (.base (.poll done))).isSome
        && (!quiet || (decide (g.base.pc ≠ .finished) == alive))
        && (!quiet || frozen || (windowWatcherStep g).isNone))) frozen
    | .ungate =>
      let ys := (xs.filterMap (fun g => fstep g .addExit)).map (fun g => g.base)
      .plain { states := Sim.close frozen ys, frozen := frozen }
    | _ => .window [] frozen

end Kit.Pool
