/-
Bridge between the two halves of C04: the parser model's `SpecSchedule` (six `BitVec 64`) is the
`Sched` (six `Nat` bit sets) the `Next` model searches with; and `Parse` followed by `Next` as one
executable function (driver op `pnext`).  Core Lean only.
-/
import KitModel.CronParser
import KitModel.CronSpec

namespace Kit.CronBridge
open Kit

/-- The same six `uint64` values, read as naturals. -/
def toSched (s : Cron.SpecSchedule) : CronSpec.Sched :=
  ⟨s.second.toNat, s.minute.toNat, s.hour.toNat, s.dom.toNat, s.month.toNat, s.dow.toNat⟩

/-- What `NewParser(o).Parse(spec)` followed by `.Next(t)` yields. -/
inductive Out where
  | at (unixNs : Int)
  | zero
  | fuel
  | err (e : String)
  | panic (w : String)
  deriving Repr, DecidableEq

/-- `Parse` then `Next`, both models.  `z` is the zone the schedule runs in (the caller resolves the
location `Parse` returned: `TZ=` name, else the location of `t`). -/
def parseThenNext (env : Cron.Env) (o : Cron.Opts) (spec : List Char) (z : CronSpec.Zone)
    (tn : Int) : Out :=
  match Cron.newParserParse env o spec with
  | .ok (.spec s _) =>
    match CronSpec.next (toSched s) z tn with
    | .at r => .at (r * 1000000000)
    | .zero => .zero
    | .fuel => .fuel
  | .ok (.every d) => .at (CronSpec.everyNext d tn)
  | .err e => .err e
  | .panic w => .panic w

end Kit.CronBridge
