import KitModel.Go.Prelude
import KitModel.Generated.C11
/-!
Model of `events/broadcaster/broadcaster.go` as a labelled transition system.

* the broadcaster lock is held exactly while a `Broadcast` fan-out is in progress (`bc ≠ none`);
  every other critical section (`subscribe`, the forwarder's removal, `Close`'s pass through the
  lock) is one atomic step that requires `bc = none`;
* `closed` (atomic.Bool) and `closeCh` are separate;
* per subscriber: the 10-slot buffered channel (`buf`, FIFO), the value in the forwarder's hand,
  the list already delivered to the user channel, `ctx` cancelled? (one context per `Subscribe` call, shared by all its channels), exit channel closed?, still in
  `eventChs`?, forwarder pc; ghost `joinedAt`, `missed`;
* any number of callers: `Broadcast`/`Subscribe` callers wait in `waitB`/`waitS` until an internal
  step gives them the lock (the mutex is not FIFO: any waiter may win); `Close` callers are counted
  per phase;
* ghost `log` = entries in lock (= fan-out) order; an entry carries the ticket of its call and the
  tickets of the `Broadcast` calls that had already returned when it was called.

`Variant.orig` is `Close` as found (CAS + close(closeCh) under the lock), `Variant.fixed` is the
repaired `Close` (CAS + close(closeCh) first, then lock/unlock, then `wg.Wait`).
-/
namespace Kit.Broadcaster

/-- `const bufferSize` as re-extracted from the source on every run (T1). -/
def bufferSize : Nat := Kit.Generated.C11.bufferSize

inductive Variant | orig | fixed
  deriving DecidableEq, Repr, Hashable

inductive FPc | idle | holding | exiting | wantLock | done
  deriving DecidableEq, Repr, Hashable

structure Entry where
  val : Nat
  ticket : Nat
  retBefore : List Nat
  deriving DecidableEq, Repr, Hashable

structure Sub where
  id : Nat               -- eventCh.id, taken from the broadcaster's counter at subscribe time
  tag : Nat              -- harness-side identity of the channel
  call : Nat             -- the Subscribe call (= its context) that registered it: tag of its first channel
  joinedAt : Nat
  buf : List Entry
  hand : Option Entry
  delivered : List Entry
  cancelled : Bool
  exitClosed : Bool
  inList : Bool
  pc : FPc
  missed : Bool
  deriving DecidableEq, Repr, Hashable

/-- Everything pushed to this subscriber, oldest first. -/
def Sub.seq (u : Sub) : List Entry := u.delivered ++ u.hand.toList ++ u.buf

def Sub.new (id tag call joinedAt : Nat) (cancelled : Bool := false) : Sub :=
  { id, tag, call, joinedAt, buf := [], hand := none, delivered := [], cancelled,
    exitClosed := false, inList := true, pc := .idle, missed := false }

structure State where
  subs : List Sub                 -- one slot per forwarder goroutine, in subscribe order; never shrinks
  currentID : Nat                 -- b.currentID: the next id to hand out
  bc : Option (Entry × Nat)       -- lock held by a Broadcast: entry, id of the next subscriber
  closed : Bool
  closeCh : Bool
  log : List Entry                -- ghost
  nextTicket : Nat
  waitB : List Entry              -- Broadcast calls waiting for the lock
  retB : List (Nat × Bool)        -- finished (ticket, was logged), return not yet observed
  returnedT : List Nat            -- ghost: tickets of logged Broadcast calls that returned
  nextTag : Nat
  waitS : List (Nat × Nat)        -- Subscribe calls waiting for the lock: (tag of the first channel, number of channels)
  retS : List Nat
  cancelledCalls : List Nat       -- Subscribe calls whose context has been cancelled
  closeNew : Nat                  -- Close called, before the CAS
  closePre : Nat                  -- after the CAS, before passing the lock (fixed only)
  closePost : Nat                 -- in wg.Wait
  closeReturned : Nat
  deriving DecidableEq, Repr, Hashable

def init : State :=
  { subs := [], currentID := 0, bc := none, closed := false, closeCh := false, log := [], nextTicket := 0,
    waitB := [], retB := [], returnedT := [], nextTag := 0, waitS := [], retS := [], cancelledCalls := [],
    closeNew := 0, closePre := 0, closePost := 0, closeReturned := 0 }

inductive Label
  | bcCall (v : Nat) | bcAcquire (k : Nat)
  | bcPush | bcSkipExit | bcSkipClose | bcSkipGone | bcFinish
  | bcReturn (t : Nat)
  | subCall (n : Nat) | subAcquire (k j : Nat) | subReturn (tag : Nat)
  | cancel (c : Nat)
  | fwdTake (i : Nat) | fwdDeliver (i : Nat) | fwdExitCtx (i : Nat) | fwdExitClose (i : Nat)
  | fwdCloseExit (i : Nat) | fwdRemove (i : Nat)
  | closeCall | closeCas | closeChClose | closePass | closeReturn
  deriving DecidableEq, Repr

def allDone (s : State) : Bool := s.subs.all (fun u => u.pc == .done)

/-- The pending part of subscriber `i`'s sequence: the value being fanned out, not yet at `i`. -/
def pend (s : State) (i : Nat) : List Entry :=
  match s.bc with
  | some (e, pc) => if pc ≤ i then [e] else []
  | none => []

def setSub (s : State) (i : Nat) (u : Sub) : State := { s with subs := s.subs.set i u }

/-! ### transitions -/

def bcCall (s : State) (v : Nat) : Option State :=
  some { s with waitB := s.waitB ++ [⟨v, s.nextTicket, s.returnedT⟩], nextTicket := s.nextTicket + 1 }

def bcAcquire (s : State) (k : Nat) : Option State :=
  match s.bc, s.waitB[k]? with
  | none, some e =>
    if s.closed then
      some { s with waitB := s.waitB.eraseIdx k, retB := s.retB ++ [(e.ticket, false)] }
    else
      some { s with waitB := s.waitB.eraseIdx k, bc := some (e, 0), log := s.log ++ [e] }
  | _, _ => none

def bcPush (s : State) : Option State :=
  match s.bc with
  | some (e, pc) =>
    match s.subs[pc]? with
    | some u =>
      if u.inList ∧ u.buf.length < bufferSize then
        some { s with subs := s.subs.set pc { u with buf := u.buf ++ [e] }, bc := some (e, pc + 1) }
      else none
    | none => none
  | none => none

def bcSkipExit (s : State) : Option State :=
  match s.bc with
  | some (e, pc) =>
    match s.subs[pc]? with
    | some u =>
      if u.inList ∧ u.exitClosed then
        some { s with subs := s.subs.set pc { u with missed := true }, bc := some (e, pc + 1) }
      else none
    | none => none
  | none => none

def bcSkipClose (s : State) : Option State :=
  match s.bc with
  | some (e, pc) =>
    match s.subs[pc]? with
    | some u =>
      if u.inList ∧ s.closeCh then
        some { s with subs := s.subs.set pc { u with missed := true }, bc := some (e, pc + 1) }
      else none
    | none => none
  | none => none

def bcSkipGone (s : State) : Option State :=
  match s.bc with
  | some (e, pc) =>
    match s.subs[pc]? with
    | some u =>
      if u.inList = false then
        some { s with subs := s.subs.set pc { u with missed := true }, bc := some (e, pc + 1) }
      else none
    | none => none
  | none => none

def bcFinish (s : State) : Option State :=
  match s.bc with
  | some (e, pc) =>
    if s.subs.length ≤ pc then
      some { s with bc := none, retB := s.retB ++ [(e.ticket, true)] }
    else none
  | none => none

def bcReturn (s : State) (t : Nat) : Option State :=
  if (t, true) ∈ s.retB then
    some { s with retB := s.retB.erase (t, true), returnedT := t :: s.returnedT }
  else if (t, false) ∈ s.retB then
    some { s with retB := s.retB.erase (t, false) }
  else none

/-- `Subscribe(ctx, ch₁ … chₙ)` is called: the channels get the tags `nextTag … nextTag+n-1`. -/
def subCall (s : State) (n : Nat) : Option State :=
  some { s with waitS := s.waitS ++ [(s.nextTag, n)], nextTag := s.nextTag + n }

/-- The subscribers registered by one `Subscribe` call for its first `j` channels. -/
def newSubs (s : State) (t j : Nat) : List Sub :=
  (List.range j).map (fun m =>
    Sub.new (s.currentID + m) (t + m) t s.log.length (s.cancelledCalls.contains t))

/-- `Subscribe` holds the lock and runs `subscribe(ctx, c)` for each channel; each of them reads
`closed`.  With the repaired `Close` the CAS is not under the lock, so it may fall between two of
these reads: the first `j` channels are registered, the others silently dropped.  That is one
atomic step here, linearised at the CAS (nobody can look at `eventChs` or make a forwarder deliver
before the lock is released): `j = n` if the broadcaster is open, `j = 0` if it is closed, and
`j < n` only together with the CAS of a pending `Close` (`fixed` only — `Close` as found does its
CAS under the lock). -/
def subAcquire (v : Variant) (s : State) (k j : Nat) : Option State :=
  match s.bc, s.waitS[k]? with
  | none, some (t, n) =>
    if s.closed then
      if j = 0 then some { s with waitS := s.waitS.eraseIdx k, retS := s.retS ++ [t] } else none
    else if j = n then
      some { s with waitS := s.waitS.eraseIdx k, retS := s.retS ++ [t],
                    subs := s.subs ++ newSubs s t j, currentID := s.currentID + j }
    else if j < n ∧ v = .fixed ∧ 0 < s.closeNew then
      some { s with waitS := s.waitS.eraseIdx k, retS := s.retS ++ [t],
                    subs := s.subs ++ newSubs s t j, currentID := s.currentID + j,
                    closeNew := s.closeNew - 1, closePre := s.closePre + 1, closed := true }
    else none
  | _, _ => none

def subReturn (s : State) (h : Nat) : Option State :=
  if h ∈ s.retS then some { s with retS := s.retS.erase h } else none

/-- The context passed to the `Subscribe` call `c` is cancelled: every subscriber it registered
sees `ctx.Done()` closed, and every subscriber it registers later is born with a cancelled context
(`Subscribe` may be called with a context that is already cancelled, or be overtaken by the
cancellation while it waits for the lock). -/
def cancelSub (c : Nat) (u : Sub) : Sub := if u.call = c then { u with cancelled := true } else u

def cancel (s : State) (c : Nat) : Option State :=
  some { s with subs := s.subs.map (cancelSub c), cancelledCalls := c :: s.cancelledCalls }

def fwdTake (s : State) (i : Nat) : Option State :=
  match s.subs[i]? with
  | some u =>
    match u.pc, u.buf with
    | .idle, x :: rest => some (setSub s i { u with hand := some x, buf := rest, pc := .holding })
    | _, _ => none
  | none => none

def fwdDeliver (s : State) (i : Nat) : Option State :=
  match s.subs[i]? with
  | some u =>
    match u.pc, u.hand with
    | .holding, some x =>
      some (setSub s i { u with delivered := u.delivered ++ [x], hand := none, pc := .idle })
    | _, _ => none
  | none => none

def inLoop (u : Sub) : Bool := u.pc == .idle || u.pc == .holding

def fwdExitCtx (s : State) (i : Nat) : Option State :=
  match s.subs[i]? with
  | some u => if inLoop u ∧ u.cancelled then some (setSub s i { u with pc := .exiting }) else none
  | none => none

def fwdExitClose (s : State) (i : Nat) : Option State :=
  match s.subs[i]? with
  | some u => if inLoop u ∧ s.closeCh then some (setSub s i { u with pc := .exiting }) else none
  | none => none

def fwdCloseExit (s : State) (i : Nat) : Option State :=
  match s.subs[i]? with
  | some u =>
    if u.pc = .exiting then some (setSub s i { u with exitClosed := true, pc := .wantLock }) else none
  | none => none

/-- The removal loop of the forwarder's deferred function: the first entry still in `eventChs`
whose id equals the forwarder's id. -/
def removeTarget (s : State) (id : Nat) : Option Nat :=
  s.subs.findIdx? (fun w => w.inList && w.id == id)

/-- Take the entry in slot `t` out of `eventChs`. -/
def unlist (s : State) (t : Option Nat) : State :=
  match t with
  | some j =>
    match s.subs[j]? with
    | some w => setSub s j { w with inList := false }
    | none => s
  | none => s

/-- The forwarder's deferred function under the lock: remove *the entry found by id* (which is the
forwarder's own entry exactly when ids are never reused — theorem `ids_fresh` / `remove_exact`),
unlock, `wg.Done()`.  The second branch models what the code would do if the entry found were
somebody else's. -/
def fwdRemove (s : State) (i : Nat) : Option State :=
  match s.subs[i]? with
  | some u =>
    if u.pc = .wantLock ∧ s.bc = none then
      if removeTarget s u.id = some i then
        some (setSub s i { u with inList := false, pc := .done })
      else
        some (setSub (unlist s (removeTarget s u.id)) i { u with pc := .done })
    else none
  | none => none

def closeCall (s : State) : Option State := some { s with closeNew := s.closeNew + 1 }

def closeCas (v : Variant) (s : State) : Option State :=
  match v with
  | .fixed =>
    if 0 < s.closeNew then
      some { s with closeNew := s.closeNew - 1, closePre := s.closePre + 1, closed := true }
    else none
  | .orig =>
    if 0 < s.closeNew ∧ s.bc = none then
      some { s with closeNew := s.closeNew - 1, closePost := s.closePost + 1, closed := true,
                    closeCh := true }
    else none

def closeChClose (v : Variant) (s : State) : Option State :=
  if v = .fixed ∧ s.closed ∧ s.closeCh = false then some { s with closeCh := true } else none

def closePass (s : State) : Option State :=
  if s.bc = none ∧ 0 < s.closePre ∧ (s.closeCh ∨ 2 ≤ s.closePre) then
    some { s with closePre := s.closePre - 1, closePost := s.closePost + 1 }
  else none

def closeReturn (s : State) : Option State :=
  if 0 < s.closePost ∧ allDone s then
    some { s with closePost := s.closePost - 1, closeReturned := s.closeReturned + 1 }
  else none

def step (v : Variant) (s : State) : Label → Option State
  | .bcCall x => bcCall s x
  | .bcAcquire k => bcAcquire s k
  | .bcPush => bcPush s
  | .bcSkipExit => bcSkipExit s
  | .bcSkipClose => bcSkipClose s
  | .bcSkipGone => bcSkipGone s
  | .bcFinish => bcFinish s
  | .bcReturn t => bcReturn s t
  | .subCall n => subCall s n
  | .subAcquire k j => subAcquire v s k j
  | .subReturn h => subReturn s h
  | .cancel c => cancel s c
  | .fwdTake i => fwdTake s i
  | .fwdDeliver i => fwdDeliver s i
  | .fwdExitCtx i => fwdExitCtx s i
  | .fwdExitClose i => fwdExitClose s i
  | .fwdCloseExit i => fwdCloseExit s i
  | .fwdRemove i => fwdRemove s i
  | .closeCall => closeCall s
  | .closeCas => closeCas v s
  | .closeChClose => closeChClose v s
  | .closePass => closePass s
  | .closeReturn => closeReturn s

/-- Internal steps: everything that is neither an API call/return event, a context cancellation,
nor a reader taking a value from its channel. -/
def Label.internal : Label → Bool
  | .bcCall _ | .bcReturn _ | .subCall _ | .subReturn _ | .cancel _ | .fwdDeliver _
  | .closeCall | .closeReturn => false
  | _ => true

/-! ### reachability and paths -/

inductive Reach (v : Variant) : State → Prop
  | init : Reach v init
  | step {s s' : State} (l : Label) : Reach v s → step v s l = some s' → Reach v s'

/-- Paths whose labels all satisfy `ok`. -/
inductive Path (v : Variant) (ok : Label → Prop) : State → State → Prop
  | refl (s : State) : Path v ok s s
  | cons {s s' s'' : State} (l : Label) : ok l → step v s l = some s' → Path v ok s' s'' → Path v ok s s''

/-- Internal steps only (all readers stalled, no new calls, no cancellation). -/
def IPath (v : Variant) : State → State → Prop := Path v (fun l => l.internal = true)

/-- Internal steps plus deliveries to the readers that are not stalled. -/
def allowed (stalled : Nat → Bool) (l : Label) : Prop :=
  l.internal = true ∨ ∃ i, l = .fwdDeliver i ∧ stalled i = false

def runLabels (v : Variant) (s : State) : List Label → Option State
  | [] => some s
  | l :: ls => match step v s l with
    | some s' => runLabels v s' ls
    | none => none

/-! ### internal labels enabled in a state (finite, computed) -/

def range (n : Nat) : List Nat := List.range n

def tauCandidates (s : State) : List Label :=
  (range s.waitB.length).map .bcAcquire ++
  [.bcPush, .bcSkipExit, .bcSkipClose, .bcSkipGone, .bcFinish] ++
  (range s.waitS.length).flatMap (fun k =>
    match s.waitS[k]? with
    | some (_, n) => (range (n + 1)).map (.subAcquire k)
    | none => []) ++
  (range s.subs.length).flatMap (fun i =>
    [.fwdTake i, .fwdExitCtx i, .fwdExitClose i, .fwdCloseExit i, .fwdRemove i]) ++
  [.closeCas, .closeChClose, .closePass]

def taus (v : Variant) (s : State) : List Label :=
  (tauCandidates s).filter (fun l => (step v s l).isSome)

/-! ### observable events -/

inductive Obs
  | bcall (v : Nat) | bacq (v : Nat) | bret (t : Nat) | scall (n : Nat) | sret (tag : Nat) | cancel (tag : Nat)
  | recv (tag : Nat) (v : Nat) | ccall | cret
  deriving DecidableEq, Repr

/-- Labels that may produce the observation in state `s`. -/
def obsLabels (s : State) : Obs → List Label
  | .bcall v => [.bcCall v]
  | .bacq v => (range s.waitB.length).filterMap (fun k =>
      match s.waitB[k]? with
      | some e => if e.val = v then some (.bcAcquire k) else none
      | none => none)
  | .bret t => [.bcReturn t]
  | .scall n => [.subCall n]
  | .sret h => [.subReturn h]
  | .cancel h => [.cancel h]
  | .recv h v => (range s.subs.length).filterMap (fun i =>
      match s.subs[i]? with
      | some u => if u.tag = h ∧ (u.hand.map (·.val)) = some v then some (.fwdDeliver i) else none
      | none => none)
  | .ccall => [.closeCall]
  | .cret => [.closeReturn]

end Kit.Broadcaster
