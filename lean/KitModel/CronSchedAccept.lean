import KitModel.CronSched
/-
The trace acceptor used by `kitdrv C05` (`Driver/C05.lean` only parses lines into `Obs` and
prints): state-set simulation of `Kit.CronSched.step`, closing under the internal labels after
every observed event.  Core Lean only.  Soundness (`accepted ⇒ a run with that observable
projection exists`) is proved in `KitProofs/Props/C05.lean` (`accepts_sound`,
`accepted_trace_has_run`).
-/
namespace Kit.CronSched

/-- The ghost log plays no role in acceptance: states are compared with the log erased. -/
def strip (s : State) : State := { s with log := [] }

/-- One transition followed by erasing the log. -/
def stepN (S : Scheds) (s : State) (l : Label) : Option State := (step S s l).map strip

/-- Observable events of one execution of the real `cron.Cron` (one per harness trace line). -/
inductive Obs where
  /-- the harness moved the fake clock to `t` -/
  | advance (t : Nat)
  /-- `Schedule`/`AddFunc` returned `id` for schedule `sid` -/
  | add (sid id : Nat)
  /-- `Remove(id)` returned -/
  | remove (id : Nat)
  /-- `Entries()` returned these `(id, next, prev)`, sorted by id -/
  | entries (r : List (Nat × Nat × Nat))
  | start
  | stop
  /-- hook `cron.run.armed(timer != nil)`: the loop is about to block in its `select` -/
  | armed (timer : Bool)
  /-- hook `cron.run.woke(now)`: a wake-up was fully processed -/
  | woke (w : Nat)
  /-- the harness found the loop parked on an unfired timer (or stopped), every launched job begun -/
  | quiet
  /-- a job of entry `id` began and read the clock value `c` -/
  | jobBegin (id c : Nat)
  /-- the job of entry `id` that began at `c` returned -/
  | jobDone (id c : Nat)
  /-- `Done()` of the context returned by the `k`-th Stop was observed closed (`true`) / open -/
  | ctx (k : Nat) (done : Bool)
  | finish
  deriving Repr, DecidableEq

def quiescent (s : State) : Bool :=
  (match s.pc with
   | .parked none => true
   | .parked (some tm) => tm.fired.isNone
   | .off => true
   | _ => false)
  && s.jobs.all (fun j => j.st != .launched)

def insertById (e : Entry) : List Entry → List Entry
  | [] => [e]
  | x :: xs => if e.id ≤ x.id then e :: x :: xs else x :: insertById e xs

/-- What the harness prints for a snapshot: `(id, next, prev)` sorted by id. -/
def snapTriples (s : State) : List (Nat × Nat × Nat) :=
  ((snapshotOf s).foldr insertById []).map fun e => (e.id, e.next, e.prev)

def indicesWhere (js : List Job) (p : Job → Bool) : List Nat :=
  (List.range js.length).filter fun i => match js[i]? with
    | some j => p j
    | none => false

def armedOK (s : State) (b : Bool) : Bool :=
  match s.pc with
  | .parked tm => tm.isSome == b
  | _ => false

/-- Direct successors of `s` for one observed event (no closure). -/
def obsSucc (S : Scheds) (s : State) : Obs → List State
  | .advance t => (stepN S s (.advance t)).toList
  | .add sid id => ((stepN S s (.add sid)).toList).filter (fun s' => s'.nextID == id)
  | .remove id => (stepN S s (.remove id)).toList
  | .entries r => if snapTriples s == r then (stepN S s .snapshot).toList else []
  | .start => (stepN S s .start).toList
  | .stop => (stepN S s .stop).toList
  | .armed b => if armedOK s b then [s] else []
  | .woke w => if s.pc == .arm && s.now == w then [s] else []
  | .quiet => if quiescent s then [s] else []
  | .jobBegin id c =>
    if s.clock == c then
      (indicesWhere s.jobs fun j => j.eid == id && j.st == .launched).filterMap fun i =>
        stepN S s (.jobBegin i)
    else []
  | .jobDone id c =>
    (indicesWhere s.jobs fun j => j.eid == id && j.st == .begun c).filterMap fun i =>
      stepN S s (.jobDone i)
  | .ctx k d => if d then (if s.ctxs[k]? == some .done then [s] else []) else [s]
  | .finish => [s]

def dedup : List State → List State
  | [] => []
  | x :: xs => if xs.contains x then dedup xs else x :: dedup xs

/-- internal successors of every state of the frontier -/
def tauSuccs (S : Scheds) (frontier : List State) : List State :=
  frontier.flatMap fun s => (internalLabels s).filterMap fun l => stepN S s l

/-- τ-closure with fuel (all states reachable by internal labels, the given ones included). -/
def closure (S : Scheds) : Nat → List State → List State → List State
  | 0, acc, _ => acc
  | fuel + 1, acc, frontier =>
    match frontier with
    | [] => acc
    | _ =>
      let fresh := dedup ((tauSuccs S frontier).filter fun s => !acc.contains s)
      closure S fuel (acc ++ fresh) fresh

def close (S : Scheds) (ss : List State) : List State :=
  let ss := dedup ss
  closure S 64 ss ss

/-- The acceptor's transition: successors for the event, then τ-closure. -/
def acceptStep (S : Scheds) (ss : List State) (o : Obs) : List State :=
  close S (ss.flatMap fun s => obsSucc S s o)

/-- States compatible with a whole trace; the trace is accepted iff the result is non-empty. -/
def acceptRun (S : Scheds) (ss : List State) (tr : List Obs) : List State :=
  tr.foldl (acceptStep S) ss

def accepts (S : Scheds) (t0 : Nat) (tr : List Obs) : Bool :=
  !(acceptRun S [init t0] tr).isEmpty

end Kit.CronSched
