import KitModel.Go.Prelude
import KitModel.Generated.C04Parser
/-!
# Model of `/repo/cron/parser.go` (C04, parser half)

SHARED INTERFACE (read by the `C04Next` model): `Kit.Cron.SpecSchedule`, `Kit.Cron.starBit`,
`Kit.Cron.Sched`.  Bit sets are `BitVec 64` (bit `i` = value `i`, bit 63 = star bit), exactly
Go's `uint64` fields of `cron.SpecSchedule`.
-/
namespace Kit.Cron

/-- The parsed schedule exactly as Go's `SpecSchedule`: six uint64 bit sets (bit 63 = star bit). -/
structure SpecSchedule where
  second : BitVec 64
  minute : BitVec 64
  hour   : BitVec 64
  dom    : BitVec 64
  month  : BitVec 64
  dow    : BitVec 64
  deriving Repr, DecidableEq

/-- Go: `starBit = 1 << 63`. -/
def starBit : BitVec 64 := 1 <<< 63

/-- What `Parser.Parse` returns on success.
* `spec s loc` — `&SpecSchedule{…, Location: loc}`; `loc = none` is `time.Local` (no `TZ=` prefix),
  `loc = some name` is `time.LoadLocation(name)` (loading it is the `Next` half's business; note
  Go loads `""` and `"UTC"` as UTC and `"Local"` as `time.Local`).
* `every delayNs` — `ConstantDelaySchedule{Delay}` in nanoseconds (location is dropped by Go). -/
inductive Sched where
  | spec (s : SpecSchedule) (loc : Option String)
  | every (delayNs : Int)
  deriving Repr, DecidableEq

/-! ## Go string helpers over `List Char` (one `Char` = one rune)

Invalid UTF-8 bytes are not representable; the harness maps each to U+FFFD (Go's own
`strings.Fields`/`ToLower`/`TrimSpace` treat such a byte as the rune U+FFFD of width 1). -/

/-- `unicode.IsSpace`. -/
def isSpace (c : Char) : Bool :=
  let n := c.toNat
  n == 0x20 || (0x09 ≤ n && n ≤ 0x0D) || n == 0x85 || n == 0xA0 || n == 0x1680 ||
  (0x2000 ≤ n && n ≤ 0x200A) || n == 0x2028 || n == 0x2029 || n == 0x202F || n == 0x205F || n == 0x3000

/-- `unicode.ToLower` restricted to what can matter for a map lookup with ASCII keys:
ASCII upper case, plus the two non-ASCII runes whose lower case is ASCII (U+0130 → `i`,
U+212A → `k`).  Every other rune is mapped to itself (a non-ASCII rune never lower-cases to
ASCII otherwise — Unicode fact, exercised by the harness). -/
def toLowerRune (c : Char) : Char :=
  if 'A' ≤ c ∧ c ≤ 'Z' then Char.ofNat (c.toNat + 32)
  else if c.toNat = 0x130 then 'i'
  else if c.toNat = 0x212A then 'k'
  else c

/-- `strings.ToLower`. -/
def toLower (s : List Char) : List Char := s.map toLowerRune

/-- Split at every rune satisfying `p` (separators dropped, empty pieces kept): the common core of
`strings.Split(s, "c")` and `strings.FieldsFunc`. Always returns at least one piece. -/
def splitBy (p : Char → Bool) : List Char → List (List Char)
  | [] => [[]]
  | c :: cs =>
    let r := splitBy p cs
    if p c then [] :: r else (c :: r.headD []) :: r.tail

/-- `strings.Split(s, string(sep))`. -/
def splitOn (sep : Char) (s : List Char) : List (List Char) := splitBy (· == sep) s

/-- `strings.FieldsFunc(s, p)`: maximal runs of non-`p` runes. -/
def fieldsFunc (p : Char → Bool) (s : List Char) : List (List Char) :=
  (splitBy p s).filter (fun x => !x.isEmpty)

/-- `strings.Fields`. -/
def fields (s : List Char) : List (List Char) := fieldsFunc isSpace s

/-- `strings.TrimSpace`. -/
def trimSpace (s : List Char) : List Char :=
  ((s.dropWhile isSpace).reverse.dropWhile isSpace).reverse

/-- `strings.HasPrefix(s, p)`. -/
def hasPrefix (p s : List Char) : Bool := p.isPrefixOf s

/-- `strings.Index(s, string(c))`; `none` is Go's `-1`. -/
def indexOf (c : Char) : List Char → Option Nat
  | [] => none
  | x :: xs => if x = c then some 0 else (indexOf c xs).map (· + 1)

/-- Go `s[lo:hi]` on a string: panics unless `lo ≤ hi ≤ len`. -/
def sliceO (s : List Char) (lo hi : Nat) : Outcome (List Char) :=
  if lo ≤ hi ∧ hi ≤ s.length then .ok ((s.take hi).drop lo)
  else .panic "slice bounds out of range"

/-- Go `l[i]`: panics when out of range. -/
def idxO {α : Type} (l : List α) (i : Nat) : Outcome α :=
  match l[i]? with
  | some a => .ok a
  | none => .panic "index out of range"

def digitVal (c : Char) : Option Nat :=
  if '0' ≤ c ∧ c ≤ '9' then some (c.toNat - 48) else none

/-- Decimal digits → value, left to right with an accumulator (as `strconv` does); `none` on a
non-digit. -/
def digitsVal : List Char → Nat → Option Nat
  | [], acc => some acc
  | c :: cs, acc =>
    match digitVal c with
    | some d => digitsVal cs (acc * 10 + d)
    | none => none

/-- `strconv.Atoi` on a 64-bit platform (`none` = any error: syntax or range). Optional sign,
at least one digit, digits only, result in `[-2^63, 2^63)`. -/
def atoi (s : List Char) : Option Int :=
  let neg := s.head? = some '-'
  let ds := if s.head? = some '-' ∨ s.head? = some '+' then s.tail else s
  if ds.isEmpty then none
  else match digitsVal ds 0 with
    | none => none
    | some n =>
      if neg then (if n ≤ 2 ^ 63 then some (-(n : Int)) else none)
      else (if n < 2 ^ 63 then some (n : Int) else none)

/-! ## Tables (from the generated facts) -/

/-- Go `bounds`; `names` is the Go map as an association list (`nil` map = `[]`). -/
structure Bounds where
  min : Nat
  max : Nat
  names : List (List Char × Nat)
  deriving Repr, DecidableEq

def lookupBounds (v : String) : Option Bounds :=
  (Gen.boundsTable.find? (·.1 == v)).map fun e => ⟨e.2.1, e.2.2.1, e.2.2.2⟩

def boundsOf (v : String) : Bounds := (lookupBounds v).getD ⟨0, 0, []⟩

def seconds : Bounds := boundsOf "seconds"
def minutes : Bounds := boundsOf "minutes"
def hours : Bounds := boundsOf "hours"
def dom : Bounds := boundsOf "dom"
def months : Bounds := boundsOf "months"
def dow : Bounds := boundsOf "dow"

/-- The six fields of a schedule, in `places` order. -/
inductive Place where
  | second | minute | hour | dom | month | dow
  deriving Repr, DecidableEq

def Place.ofName : String → Option Place
  | "Second" => some .second | "Minute" => some .minute | "Hour" => some .hour
  | "Dom" => some .dom | "Month" => some .month | "Dow" => some .dow
  | _ => none

def Place.bounds : Place → Bounds
  | .second => Cron.seconds | .minute => Cron.minutes | .hour => Cron.hours
  | .dom => Cron.dom | .month => Cron.months | .dow => Cron.dow

/-- Go `var places`. -/
def places : List Place := Gen.places.filterMap Place.ofName

def optBit (name : String) : Nat := ((Gen.optionBits.find? (·.1 == name)).map (·.2)).getD 64

/-- A `ParseOption` value decoded into its nine flags (only these bits are ever tested). -/
structure Opts where
  second : Bool
  secondOptional : Bool
  minute : Bool
  hour : Bool
  dom : Bool
  month : Bool
  dow : Bool
  dowOptional : Bool
  descriptor : Bool
  deriving Repr, DecidableEq

def Opts.ofNat (n : Nat) : Opts :=
  { second := n.testBit (optBit "Second"), secondOptional := n.testBit (optBit "SecondOptional"),
    minute := n.testBit (optBit "Minute"), hour := n.testBit (optBit "Hour"),
    dom := n.testBit (optBit "Dom"), month := n.testBit (optBit "Month"),
    dow := n.testBit (optBit "Dow"), dowOptional := n.testBit (optBit "DowOptional"),
    descriptor := n.testBit (optBit "Descriptor") }

/-- `options & place > 0`. -/
def Opts.has (o : Opts) : Place → Bool
  | .second => o.second | .minute => o.minute | .hour => o.hour
  | .dom => o.dom | .month => o.month | .dow => o.dow

/-- `NewParser` panics when both optionals are given (documented misuse). -/
def Opts.twoOptionals (o : Opts) : Bool := o.secondOptional && o.dowOptional

/-! ## getBits / getRange / getField -/

def allOnes64 : BitVec 64 := BitVec.allOnes 64

/-- The loop `for i := min; i <= max; i += step { bits |= 1 << i }` with `fuel` iterations
available. `i + step` is computed in `Nat`: for `max ≤ 63` and `step < 2^63` (all call sites) the
Go `uint` addition cannot wrap (`KitProofs`: `getBits_no_wrap`). -/
def getBitsLoop (max step : Nat) : Nat → Nat → BitVec 64 → BitVec 64
  | 0, _, bits => bits
  | fuel + 1, i, bits =>
    if i ≤ max then getBitsLoop max step fuel (i + step) (bits ||| ((1 : BitVec 64) <<< i)) else bits

/-- Go `getBits(min, max, step)`. Shifts by ≥ 64 give 0, as in Go. (`step = 0` with
`min ≤ max` would loop forever in Go; `getRange` refuses it before the call.) -/
def getBits (min max step : Nat) : BitVec 64 :=
  if step = 1 then ~~~(allOnes64 <<< (max + 1)) &&& (allOnes64 <<< min)
  else getBitsLoop max step (max + 1) min 0

/-- Go `all(r)`. -/
def allBits (r : Bounds) : BitVec 64 := getBits r.min r.max 1 ||| starBit

def nameLookup (names : List (List Char × Nat)) (k : List Char) : Option Nat :=
  (names.find? (·.1 == k)).map (·.2)

/-- Go `mustParseInt`. -/
def mustParseInt (expr : List Char) : Outcome Nat :=
  match atoi expr with
  | none => .err "atoi"
  | some n => if n < 0 then .err "negative" else .ok n.toNat

/-- Go `parseIntOrName`. -/
def parseIntOrName (expr : List Char) (names : List (List Char × Nat)) : Outcome Nat :=
  match nameLookup names (toLower expr) with
  | some n => .ok n
  | none => mustParseInt expr

def isWild (s : List Char) : Bool := s == ['*'] || s == ['?']

/-- The four range checks and the final `getBits(start, end, step) | extra`. -/
def finishRange (r : Bounds) (start end_ step : Nat) (extra : BitVec 64) : Outcome (BitVec 64) :=
  if start < r.min then .err "below-min"
  else if end_ > r.max then .err "above-max"
  else if start > end_ then .err "inverted"
  else if step = 0 then .err "zero-step"
  else .ok (getBits start end_ step ||| extra)

/-- First half of Go `getRange`: the part before `/`, already split at `-` into
`lh0 :: lhRest`, gives `(start, end, extra)`. `wildGuard` = the source contains the check that
refuses `*-x` (`Gen.wildcardBoundGuard`; without it everything after the hyphen of `*-…` is
ignored). -/
def parseBase (wildGuard : Bool) (r : Bounds) (lh0 : List Char) (lhRest : List (List Char)) :
    Outcome (Nat × Nat × BitVec 64) :=
  if isWild lh0 then
    if wildGuard && !lhRest.isEmpty then .err "wildcard-bound"
    else .ok (r.min, r.max, starBit)
  else
    match parseIntOrName lh0 r.names with
    | .err e => .err e
    | .panic w => .panic w
    | .ok start =>
      match lhRest with
      | [] => .ok (start, start, 0)
      | [lh1] =>
        match parseIntOrName lh1 r.names with
        | .err e => .err e
        | .panic w => .panic w
        | .ok e => .ok (start, e, 0)
      | _ => .err "hyphens"

/-- Second half of Go `getRange`: the step (`rsRest` = what follows the first `/`, split at `/`),
then the range checks. `single` = `len(lowAndHigh) == 1`. -/
def applyStep (r : Bounds) (single : Bool) (start end_ : Nat) (extra : BitVec 64)
    (rsRest : List (List Char)) : Outcome (BitVec 64) :=
  match rsRest with
  | [] => finishRange r start end_ 1 extra
  | [st] =>
    match mustParseInt st with
    | .err e => .err e
    | .panic w => .panic w
    | .ok step =>
      finishRange r start (if single then r.max else end_) step (if step > 1 then 0 else extra)
  | _ => .err "slashes"

/-- Go `getRange(expr, r)`. -/
def getRangeG (wildGuard : Bool) (r : Bounds) (expr : List Char) : Outcome (BitVec 64) :=
  match splitOn '/' expr with
  | [] => .panic "rangeAndStep[0]"
  | rs0 :: rsRest =>
    match splitOn '-' rs0 with
    | [] => .panic "lowAndHigh[0]"
    | lh0 :: lhRest =>
      match parseBase wildGuard r lh0 lhRest with
      | .err e => .err e
      | .panic w => .panic w
      | .ok (start, end_, extra) => applyStep r lhRest.isEmpty start end_ extra rsRest

def getRange (r : Bounds) (expr : List Char) : Outcome (BitVec 64) :=
  getRangeG Gen.wildcardBoundGuard r expr

/-- The loop of Go `getField`: first error wins. -/
def getFieldLoop (r : Bounds) : List (List Char) → BitVec 64 → Outcome (BitVec 64)
  | [], bits => .ok bits
  | e :: es, bits =>
    match getRange r e with
    | .ok b => getFieldLoop r es (bits ||| b)
    | .err x => .err x
    | .panic w => .panic w

/-- Go `getField(field, r)`. -/
def getField (r : Bounds) (field : List Char) : Outcome (BitVec 64) :=
  getFieldLoop r (fieldsFunc (· == ',') field) 0

/-! ## normalizeFields -/

/-- The final loop of `normalizeFields`: walk `places` with the matching `defaults`
(`""` where `defaults` is shorter, as `make`+`copy` leave it); `fields[n]` may panic. -/
def expandLoop (o : Opts) : List Place → List (List Char) → List (List Char) → Outcome (List (List Char))
  | [], _, _ => .ok []
  | p :: ps, ds, fs =>
    let d := ds.headD []
    if o.has p then
      match fs with
      | [] => .panic "fields[n]"
      | f :: fs' =>
        match expandLoop o ps ds.tail fs' with
        | .ok r => .ok (f :: r)
        | .err e => .err e
        | .panic w => .panic w
    else
      match expandLoop o ps ds.tail fs with
      | .ok r => .ok (d :: r)
      | .err e => .err e
      | .panic w => .panic w

/-- `options |= Second` / `options |= Dow` when the optional variant is set. -/
def Opts.merged (o : Opts) : Opts :=
  { o with second := o.second || o.secondOptional, dow := o.dow || o.dowOptional }

/-- Go `normalizeFields(fields, options)`. -/
def normalizeFields (flds : List (List Char)) (o : Opts) : Outcome (List (List Char)) :=
  let optionals := (if o.secondOptional then 1 else 0) + (if o.dowOptional then 1 else 0)
  let o' : Opts := o.merged
  if optionals > 1 then .err "multiple-optionals"
  else
    let max := (places.filter o'.has).length
    let min := max - optionals
    let count := flds.length
    if count < min ∨ count > max then .err "field-count"
    else
      let filled : Outcome (List (List Char)) :=
        if min < max ∧ count = min then
          if o.dowOptional then
            match idxO Gen.defaults Gen.dowOptionalDefault with
            | .ok d => .ok (flds ++ [d])
            | .err e => .err e
            | .panic w => .panic w
          else if o.secondOptional then
            match idxO Gen.defaults Gen.secondOptionalDefault with
            | .ok d => .ok (d :: flds)
            | .err e => .err e
            | .panic w => .panic w
          else .err "unknown-optional"
        else .ok flds
      match filled with
      | .ok fs => expandLoop o' places Gen.defaults fs
      | .err e => .err e
      | .panic w => .panic w

/-! ## Descriptors, Every, Parse -/

/-- `Every(duration)` — the resulting `Delay` in nanoseconds. -/
def everyDelay (d : Int) : Int :=
  let d := if d < Gen.everyMinNs then Gen.everyMinNs else d
  d - d % Gen.everyUnitNs

/-- What the model is told about the world outside dapr/kit: whether `time.LoadLocation(name)`
succeeds, and the result of `time.ParseDuration(text)` (`none` = error, else nanoseconds).
The harness supplies the real answers per case; all theorems hold for every `Env`. -/
structure Env where
  knownZone : List Char → Bool
  parseDuration : List Char → Option Int

def descBits (kind bnd : String) : BitVec 64 :=
  let b := boundsOf bnd
  if kind == "all" then allBits b else (1 : BitVec 64) <<< b.min

/-- One row of the descriptor table → schedule (fields looked up by `SpecSchedule` field name). -/
def descSchedule (row : List (String × String × String)) : SpecSchedule :=
  let f := fun (name : String) =>
    match row.find? (·.1 == name) with
    | some e => descBits e.2.1 e.2.2
    | none => 0
  { second := f "Second", minute := f "Minute", hour := f "Hour",
    dom := f "Dom", month := f "Month", dow := f "Dow" }

/-- Go `parseDescriptor(descriptor, loc)`. -/
def parseDescriptor (env : Env) (descriptor : List Char) (loc : Option String) : Outcome Sched :=
  match Gen.descriptors.find? (fun e => e.1.contains descriptor) with
  | some e => .ok (.spec (descSchedule e.2) loc)
  | none =>
    if hasPrefix Gen.everyPrefix descriptor then
      match env.parseDuration (descriptor.drop Gen.everyPrefix.length) with
      | none => .err "duration"
      | some d => .ok (.every (everyDelay d))
    else .err "unrecognized-descriptor"

/-- `strings.Index(spec, "=") + 1` (`-1 + 1 = 0` when there is none). -/
def afterEq (spec : List Char) : Nat :=
  match indexOf '=' spec with
  | none => 0
  | some e => e + 1

/-- The `TZ=`/`CRON_TZ=` prefix step of `Parse`: returns the location and the remaining spec.
`guard` = the source checks `i == -1` (`Gen.tzNoSpaceGuard`); without it `spec[eq+1:i]` panics. -/
def tzPrefix (guard : Bool) (env : Env) (spec : List Char) : Outcome (Option String × List Char) :=
  if Gen.tzPrefixes.any (hasPrefix · spec) then
    let i : Option Nat := indexOf ' ' spec
    if guard && i.isNone then .err "tz-no-spec"
    else
      let eq1 : Nat := afterEq spec
      match i with
      | none => .panic "slice bounds out of range [:-1]"
      | some i =>
        match sliceO spec eq1 i with
        | .err e => .err e
        | .panic w => .panic w
        | .ok name =>
          if env.knownZone name then
            match sliceO spec i spec.length with
            | .err e => .err e
            | .panic w => .panic w
            | .ok rest => .ok (some (String.ofList name), trimSpace rest)
          else .err "bad-location"
  else .ok (none, spec)

/-- The six `field(fields[i], bounds)` calls of `Parse` (indices and bounds from the generated
`parseFields`); every `fields[i]` is evaluated (may panic), the first `getField` error wins. -/
def parseSix (flds : List (List Char)) : Outcome SpecSchedule :=
  let get := fun (name : String) =>
    match Gen.parseFields.find? (·.1 == name) with
    | some e => (idxO flds e.2.1, boundsOf e.2.2)
    | none => (Outcome.panic "no such field", (⟨0, 0, []⟩ : Bounds))
  let s := get "Second"; let m := get "Minute"; let h := get "Hour"
  let d := get "Dom"; let mo := get "Month"; let w := get "Dow"
  match s.1, m.1, h.1, d.1, mo.1, w.1 with
  | .ok fs, .ok fm, .ok fh, .ok fd, .ok fmo, .ok fw =>
    match getField s.2 fs with
    | .err e => .err e | .panic x => .panic x
    | .ok bs =>
    match getField m.2 fm with
    | .err e => .err e | .panic x => .panic x
    | .ok bm =>
    match getField h.2 fh with
    | .err e => .err e | .panic x => .panic x
    | .ok bh =>
    match getField d.2 fd with
    | .err e => .err e | .panic x => .panic x
    | .ok bd =>
    match getField mo.2 fmo with
    | .err e => .err e | .panic x => .panic x
    | .ok bmo =>
    match getField w.2 fw with
    | .err e => .err e | .panic x => .panic x
    | .ok bw => .ok { second := bs, minute := bm, hour := bh, dom := bd, month := bmo, dow := bw }
  | _, _, _, _, _, _ => .panic "fields[i]"

/-- Go `Parser.Parse(spec)` for a parser built with options `o`. `tzGuard` as in `tzPrefix`. -/
def parseG (tzGuard : Bool) (env : Env) (o : Opts) (spec : List Char) : Outcome Sched :=
  if spec.isEmpty then .err "empty"
  else
    match tzPrefix tzGuard env spec with
    | .err e => .err e
    | .panic w => .panic w
    | .ok (loc, spec) =>
      if hasPrefix ['@'] spec then
        if !o.descriptor then .err "no-descriptors" else parseDescriptor env spec loc
      else
        match normalizeFields (fields spec) o with
        | .err e => .err e
        | .panic w => .panic w
        | .ok flds =>
          match parseSix flds with
          | .err e => .err e
          | .panic w => .panic w
          | .ok s => .ok (.spec s loc)

/-- The model of `Parser.Parse` for the code as it is now. -/
def parse (env : Env) (o : Opts) (spec : List Char) : Outcome Sched :=
  parseG Gen.tzNoSpaceGuard env o spec

/-- `NewParser(o)` then `Parse(spec)`: the constructor panics on two optionals. -/
def newParserParse (env : Env) (o : Opts) (spec : List Char) : Outcome Sched :=
  if o.twoOptionals then .panic "multiple optionals may not be configured" else parse env o spec

/-- `standardParser` options: Minute | Hour | Dom | Month | Dow | Descriptor. -/
def standardOpts : Opts :=
  { second := false, secondOptional := false, minute := true, hour := true, dom := true,
    month := true, dow := true, dowOptional := false, descriptor := true }

/-- Go `ParseStandard`. -/
def parseStandard (env : Env) (spec : List Char) : Outcome Sched := parse env standardOpts spec

end Kit.Cron
