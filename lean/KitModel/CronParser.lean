import KitModel.Go.Prelude
/-!
# Model of `/repo/cron/parser.go` (C04, parser half)

SHARED INTERFACE (read by the `C04Next` model): `Kit.Cron.SpecSchedule`, `Kit.Cron.starBit`,
`Kit.Cron.Sched`.  Bit sets are `BitVec 64` (bit `i` = value `i`, bit 63 = star bit), exactly
Go's `uint64` fields of `cron.SpecSchedule`.
-/
namespace Kit.Cron

/-- The parsed schedule exactly as Go's `SpecSchedule`: six uint64 bit sets (bit 63 = star bit). -/
structure SpecSchedule where
  second : BitVec 64
  minute : BitVec 64
  hour   : BitVec 64
  dom    : BitVec 64
  month  : BitVec 64
  dow    : BitVec 64
  deriving Repr, DecidableEq

/-- Go: `starBit = 1 << 63`. -/
def starBit : BitVec 64 := 1 <<< 63

/-- What `Parser.Parse` returns on success.
* `spec s loc` — `&SpecSchedule{…, Location: loc}`; `loc = none` is `time.Local` (no `TZ=` prefix),
  `loc = some name` is `time.LoadLocation(name)` (loading it is the `Next` half's business; note
  Go loads `""` and `"UTC"` as UTC and `"Local"` as `time.Local`).
* `every delayNs` — `ConstantDelaySchedule{Delay}` in nanoseconds (location is dropped by Go). -/
inductive Sched where
  | spec (s : SpecSchedule) (loc : Option String)
  | every (delayNs : Int)
  deriving Repr, DecidableEq

end Kit.Cron
