/-
Concrete codec of the enc/v1 header, modelled on Go's standard library:
* `base64.StdEncoding` (encoder; decoder that skips CR/LF, insists on padding, ignores trailing bits);
* `strconv.Itoa` for the numeric ids;
* `encoding/json`: `json.Marshal(&Manifest{…})` (field order, `omitempty` on `k`, HTML-safe string
  escaping) and the subset of `json.Unmarshal` needed for manifests.

What is modelled exactly and what is not
* key names: bytes `< 0x80` are modelled exactly (escapes `\" \\ \b \f \n \r \t`, `\u00XX` for the
  other control characters and for `< > &`); names containing bytes `≥ 0x80` are reported as
  `unmodelled` (Go inspects UTF-8 validity and U+2028/9 there).
* parsing: an object with members in any order, insignificant whitespace (space, tab, CR) between
  tokens, unknown members with scalar values ignored (as Go does), string values with every
  two-character escape, `\uXXXX` for non-surrogate code points (re-encoded as UTF-8) and well-formed
  raw UTF-8, ids as plain decimal numbers. Everything else (names that match a field only
  case-insensitively, duplicate members, nested values, surrogate pairs, ill-formed UTF-8, exponents)
  is `unmodelled` — the harness then judges the case with its monitor only.
-/
import KitModel.Go.Prelude
import KitModel.Enc

namespace Kit.Enc.Codec
open Kit Kit.Enc

/-! ### base64.StdEncoding -/

def b64Char (n : Nat) : UInt8 :=
  if n < 26 then UInt8.ofNat (65 + n)
  else if n < 52 then UInt8.ofNat (97 + (n - 26))
  else if n < 62 then UInt8.ofNat (48 + (n - 52))
  else if n = 62 then 43 else 47

def b64Enc : Bytes → Bytes
  | [] => []
  | [a] =>
    let x := a.toNat
    [b64Char (x / 4), b64Char (x % 4 * 16), 61, 61]
  | [a, b] =>
    let x := a.toNat; let y := b.toNat
    [b64Char (x / 4), b64Char (x % 4 * 16 + y / 16), b64Char (y % 16 * 4), 61]
  | a :: b :: c :: rest =>
    let x := a.toNat; let y := b.toNat; let z := c.toNat
    b64Char (x / 4) :: b64Char (x % 4 * 16 + y / 16) :: b64Char (y % 16 * 4 + z / 64) :: b64Char (z % 64) :: b64Enc rest

def b64Val (c : UInt8) : Option Nat :=
  let n := c.toNat
  if 65 ≤ n ∧ n ≤ 90 then some (n - 65)
  else if 97 ≤ n ∧ n ≤ 122 then some (n - 97 + 26)
  else if 48 ≤ n ∧ n ≤ 57 then some (n - 48 + 52)
  else if n = 43 then some 62
  else if n = 47 then some 63
  else none

/-- Groups of four after CR/LF were removed: `xx==` and `xxx=` only as the final group; everything
    else must be four alphabet characters. -/
def b64DecGroups : Bytes → Option Bytes
  | [] => some []
  | a :: b :: c :: d :: rest =>
    if c = 61 ∧ d = 61 ∧ rest = [] then
      match b64Val a, b64Val b with
      | some x, some y => some [UInt8.ofNat (x * 4 + y / 16)]
      | _, _ => none
    else if d = 61 ∧ rest = [] then
      match b64Val a, b64Val b, b64Val c with
      | some x, some y, some z => some [UInt8.ofNat (x * 4 + y / 16), UInt8.ofNat (y % 16 * 16 + z / 4)]
      | _, _, _ => none
    else
      match b64Val a, b64Val b, b64Val c, b64Val d, b64DecGroups rest with
      | some x, some y, some z, some w, some more =>
        some (UInt8.ofNat (x * 4 + y / 16) :: UInt8.ofNat (y % 16 * 16 + z / 4) :: UInt8.ofNat (z % 4 * 64 + w) :: more)
      | _, _, _, _, _ => none
  | _ => none

/-- `base64.StdEncoding.Decode` (`none` = CorruptInputError). -/
def b64Dec (s : Bytes) : Option Bytes :=
  b64DecGroups (s.filter fun c => c != 13 && c != 10)

/-! ### numbers -/

def natDigits : Nat → Nat → Bytes → Bytes
  | 0, _, acc => acc
  | fuel + 1, n, acc =>
    if n < 10 then UInt8.ofNat (48 + n) :: acc
    else natDigits fuel (n / 10) (UInt8.ofNat (48 + n % 10) :: acc)

/-- `strconv.Itoa` for a non-negative number. -/
def itoa (n : Nat) : Bytes := natDigits (n + 1) n []

/-! ### json.Marshal of a string (escapeHTML = true) -/

def hexLower (n : Nat) : UInt8 := if n < 10 then UInt8.ofNat (48 + n) else UInt8.ofNat (87 + n)

def escByte (b : UInt8) : Bytes :=
  if b = 34 then [92, 34]
  else if b = 92 then [92, 92]
  else if b = 8 then [92, 98]
  else if b = 12 then [92, 102]
  else if b = 10 then [92, 110]
  else if b = 13 then [92, 114]
  else if b = 9 then [92, 116]
  else if b.toNat < 32 ∨ b = 60 ∨ b = 62 ∨ b = 38 then
    [92, 117, 48, 48, hexLower (b.toNat / 16), hexLower (b.toNat % 16)]
  else [b]

def jsonString (s : Bytes) : Bytes := 34 :: (s.flatMap escByte ++ [34])

def isAscii (s : Bytes) : Bool := s.all fun b => b.toNat < 128

/-- JSON member names of the manifest (ASCII). -/
def kK : Bytes := [107]
def kKW : Bytes := [107, 119]
def kWFK : Bytes := [119, 102, 107]
def kCPH : Bytes := [99, 112, 104]
def kNP : Bytes := [110, 112]

/-- `"key":value` -/
def member (key val : Bytes) : Bytes := 34 :: (key ++ 34 :: 58 :: val)

/-- `json.Marshal(&Manifest{…})`: `{"k":"…","kw":N,"wfk":"…","cph":N,"np":"…"}`, `k` omitted when empty. -/
def renderManifest (m : Manifest) : Bytes :=
  123 :: ((if m.keyName.isEmpty then [] else member kK (jsonString m.keyName) ++ [44]) ++
    (member kKW (itoa m.kw) ++ 44 :: (member kWFK (jsonString (b64Enc m.wfk)) ++ 44 ::
      (member kCPH (itoa m.cph) ++ 44 :: (member kNP (jsonString (b64Enc m.np)) ++ [125])))))

/-! ### json.Unmarshal (subset) -/

inductive Parsed where
  | ok (m : Manifest)
  | invalid
  | unmodelled (why : String)
  deriving Repr

def hexv (c : UInt8) : Option Nat :=
  let n := c.toNat
  if 48 ≤ n ∧ n ≤ 57 then some (n - 48)
  else if 97 ≤ n ∧ n ≤ 102 then some (n - 87)
  else if 65 ≤ n ∧ n ≤ 70 then some (n - 55)
  else none

inductive Tok where
  | str (s : Bytes)
  | num (n : Nat)
  | null
  | other   -- true / false (only ever stored for names the manifest does not have)
  deriving Repr

/-- JSON insignificant whitespace (a manifest line cannot contain a line feed). -/
def isWs (c : UInt8) : Bool := c == 32 || c == 9 || c == 13

def skipWs : Bytes → Bytes
  | [] => []
  | c :: rest => if isWs c then skipWs rest else c :: rest

def isCont (c : UInt8) : Bool := decide (128 ≤ c.toNat ∧ c.toNat ≤ 191)

/-- UTF-8 encoding of a code point of the Basic Multilingual Plane that is not a surrogate. -/
def utf8Enc (cp : Nat) : Bytes :=
  if cp < 128 then [UInt8.ofNat cp]
  else if cp < 2048 then [UInt8.ofNat (192 + cp / 64), UInt8.ofNat (128 + cp % 64)]
  else [UInt8.ofNat (224 + cp / 4096), UInt8.ofNat (128 + cp / 64 % 64), UInt8.ofNat (128 + cp % 64)]

/-- A JSON string body after the opening quote: returns the unescaped bytes and what follows the
    closing quote. `Except` error: `true` = certainly invalid JSON, `false` = unmodelled.
    Modelled: every two-character escape, `\uXXXX` for non-surrogate code points (encoded as UTF-8, as
    Go does), and well-formed UTF-8 sequences passed through. Not modelled: surrogate pairs, ill-formed
    UTF-8 (Go substitutes U+FFFD). -/
def parseStr : Nat → Bytes → Bytes → Except Bool (Bytes × Bytes)
  | 0, _, _ => .error false
  | _ + 1, [], _ => .error true
  | fuel + 1, c :: rest, acc =>
    if c = 34 then .ok (acc.reverse, rest)
    else if c.toNat ≥ 128 then
      match rest with
      | c2 :: r2 =>
        if 194 ≤ c.toNat ∧ c.toNat ≤ 223 ∧ isCont c2 then parseStr fuel r2 (c2 :: c :: acc)
        else
          match r2 with
          | c3 :: r3 =>
            if 224 ≤ c.toNat ∧ c.toNat ≤ 239 ∧ isCont c2 ∧ isCont c3 ∧ (c.toNat = 224 → 160 ≤ c2.toNat) ∧
                (c.toNat = 237 → c2.toNat ≤ 159) then parseStr fuel r3 (c3 :: c2 :: c :: acc)
            else
              match r3 with
              | c4 :: r4 =>
                if 240 ≤ c.toNat ∧ c.toNat ≤ 244 ∧ isCont c2 ∧ isCont c3 ∧ isCont c4 ∧ (c.toNat = 240 → 144 ≤ c2.toNat) ∧
                    (c.toNat = 244 → c2.toNat ≤ 143) then parseStr fuel r4 (c4 :: c3 :: c2 :: c :: acc)
                else .error false
              | [] => .error false
          | [] => .error false
      | [] => .error true
    else if c.toNat < 32 then .error true
    else if c = 92 then
      match rest with
      | 34 :: r => parseStr fuel r (34 :: acc)
      | 92 :: r => parseStr fuel r (92 :: acc)
      | 47 :: r => parseStr fuel r (47 :: acc)
      | 98 :: r => parseStr fuel r (8 :: acc)
      | 102 :: r => parseStr fuel r (12 :: acc)
      | 110 :: r => parseStr fuel r (10 :: acc)
      | 114 :: r => parseStr fuel r (13 :: acc)
      | 116 :: r => parseStr fuel r (9 :: acc)
      | 117 :: h1 :: h2 :: h3 :: h4 :: r =>
        match hexv h1, hexv h2, hexv h3, hexv h4 with
        | some a, some b, some c', some d =>
          let cp := ((a * 16 + b) * 16 + c') * 16 + d
          if 55296 ≤ cp ∧ cp ≤ 57343 then .error false
          else parseStr fuel r ((utf8Enc cp).reverse ++ acc)
        | _, _, _, _ => .error true
      | _ => .error false
    else parseStr fuel rest (c :: acc)

def parseDigits : Bytes → Nat → Nat × Bytes
  | [], acc => (acc, [])
  | c :: rest, acc =>
    if 48 ≤ c.toNat ∧ c.toNat ≤ 57 then parseDigits rest (acc * 10 + (c.toNat - 48)) else (acc, c :: rest)

def parseValue (s : Bytes) : Except Bool (Tok × Bytes) :=
  match s with
  | 34 :: rest =>
    match parseStr (rest.length + 1) rest [] with
    | .ok (v, r) => .ok (.str v, r)
    | .error b => .error b
  | 110 :: 117 :: 108 :: 108 :: rest => .ok (.null, rest)
  | 116 :: 114 :: 117 :: 101 :: rest => .ok (.other, rest)
  | 102 :: 97 :: 108 :: 115 :: 101 :: rest => .ok (.other, rest)
  | c :: rest =>
    if 49 ≤ c.toNat ∧ c.toNat ≤ 57 then
      let (n, r) := parseDigits (c :: rest) 0
      match r with
      | 46 :: _ => .error false
      | 101 :: _ => .error false
      | 69 :: _ => .error false
      | _ => if n < 1000000000 then .ok (.num n, r) else .error false
    else if c = 48 then
      match rest with
      | 44 :: _ => .ok (.num 0, rest)
      | 125 :: _ => .ok (.num 0, rest)
      | 32 :: _ => .ok (.num 0, rest)
      | 9 :: _ => .ok (.num 0, rest)
      | 13 :: _ => .ok (.num 0, rest)
      | _ => .error false
    else .error false
  | [] => .error true

structure Fields where
  k : Option Tok := none
  kw : Option Tok := none
  wfk : Option Tok := none
  cph : Option Tok := none
  np : Option Tok := none

def lowerAscii (s : Bytes) : Bytes := s.map fun c => if 65 ≤ c.toNat ∧ c.toNat ≤ 90 then c + 32 else c

/-- Store a member. Duplicates, and names that match a manifest field only case-insensitively (Go
    accepts those), are outside the modelled subset; any other name is ignored, as Go does. -/
def setField (f : Fields) (key : Bytes) (v : Tok) : Except Bool Fields :=
  if key = kK then (if f.k.isSome then .error false else .ok { f with k := some v })
  else if key = kKW then (if f.kw.isSome then .error false else .ok { f with kw := some v })
  else if key = kWFK then (if f.wfk.isSome then .error false else .ok { f with wfk := some v })
  else if key = kCPH then (if f.cph.isSome then .error false else .ok { f with cph := some v })
  else if key = kNP then (if f.np.isSome then .error false else .ok { f with np := some v })
  else if [kK, kKW, kWFK, kCPH, kNP].contains (lowerAscii key) then .error false
  else .ok f

/-- `"name" : value` members separated by commas up to the closing brace; whitespace between tokens. -/
def parseMembers : Nat → Bytes → Fields → Except Bool Fields
  | 0, _, _ => .error false
  | fuel + 1, s, f =>
    match skipWs s with
    | 34 :: rest =>
      match parseStr (rest.length + 1) rest [] with
      | .error b => .error b
      | .ok (key, r1) =>
        match skipWs r1 with
        | 58 :: r2 =>
          match parseValue (skipWs r2) with
          | .error b => .error b
          | .ok (v, r3) =>
            match setField f key v with
            | .error b => .error b
            | .ok f' =>
              match skipWs r3 with
              | 125 :: r4 => if (skipWs r4).isEmpty then .ok f' else .error true
              | 44 :: r4 => parseMembers fuel r4 f'
              | _ => .error false
        | _ => .error false
    | _ => .error false

def bytesField (t : Option Tok) : Except Bool Bytes :=
  match t with
  | none => .ok []
  | some .null => .ok []
  | some (.str s) => match b64Dec s with
    | some b => .ok b
    | none => .error true
  | some (.num _) => .error true
  | some .other => .error true

/-- ids: a missing field leaves the empty name, which `Validate` rejects. -/
def idField (ids : List Nat) (t : Option Tok) : Except Bool Nat :=
  match t with
  | none => .error true
  | some (.num n) => if ids.contains n then .ok n else .error true
  | some .null => .error true
  | some (.str _) => .error true
  | some .other => .error true

def parseManifest (P : EncParams) (s : Bytes) : Parsed :=
  match skipWs s with
  | 123 :: rest =>
    match skipWs rest with
    | 125 :: _ => .invalid   -- `{}` (every field missing) or garbage after it: rejected either way
    | _ =>
      match parseMembers (rest.length + 1) rest {} with
      | .error true => .invalid
      | .error false => .unmodelled "json"
      | .ok f =>
        let kName : Except Bool Bytes := match f.k with
          | none => .ok []
          | some (.str s) => .ok s
          | some .null => .ok []
          | some (.num _) => .error true
          | some .other => .error true
        match kName, idField P.kwIds f.kw, bytesField f.wfk, idField P.cphIds f.cph, bytesField f.np with
        | .ok k, .ok kw, .ok wfk, .ok cph, .ok np => .ok ⟨k, kw, wfk, cph, np⟩
        | _, _, _, _, _ => .invalid
  | _ => .unmodelled "json"

/-- The codec the driver runs. -/
def real (P : EncParams) : Kit.Enc.Codec where
  render := renderManifest
  parse s := match parseManifest P s with
    | .ok m => some m
    | _ => none
  b64 := b64Enc
  unb64 := b64Dec

end Kit.Enc.Codec
