/-!
Several concurrent `Close` calls of `events/broadcaster/broadcaster.go` (C11), caller by caller.

`KitModel/Broadcaster.lean` and `KitModel/BroadcasterWg.lean` move every `Close` caller through the
same phases and do not say who won the CAS.  This model makes the two roles explicit:

```go
func (b *Broadcaster[T]) Close() {
	defer b.wg.Wait()                              // every caller, winner or loser
	if b.closed.CompareAndSwap(false, true) {      // closeCas: exactly one caller wins
		close(b.closeCh)                           // closeChClose (winner only)
	}
	b.lock.Lock(); b.lock.Unlock()                 // closePass (every caller)
}                                                  // closeReturn = the deferred wg.Wait: needs wg = 0
```

and keeps what is needed to state "nothing is delivered after ANY `Close` call returned":
forwarders by program counter (outer select / value in hand / left the loop), the WaitGroup as a
counter, `Subscribe` of one channel as lock, `b.closed.Load()`, registration (so that the reason for
Close's pass through the lock is in the model: a Subscribe that loaded `closed = false` still holds
the lock when the CAS happens, and its `wg.Add(1)` precedes every `wg.Wait`), `Broadcast` as one
step (buffers are not bounded here: a blocked Broadcast is the business of the other two models).

Processes are anonymous, so the state counts them per program counter (counter abstraction, exact
for the callers and forwarder pcs).  Which forwarder owns which buffered value is abstracted
(`buffered` is the total; `fwdTake` only needs one value somewhere): an over-approximation, which is
the safe direction for the safety theorems; the counter-witness uses one forwarder and one value.
`select` = one label per ready case: a forwarder with a value in hand may deliver it
(`fwdDeliver`) also when `closeCh` is already closed — Go picks among ready cases at random.

`Wait.all` is the code.  `Wait.winnerOnly` is the refactoring "Close is idempotent: only the first
call has any work to do" (`if !CAS {return}` placed before `defer b.wg.Wait()`): a caller that loses
the CAS returns at once.

Ghost: `late` counts deliveries that completed while some `Close` call had already returned.
-/
namespace Kit.Broadcaster.Cl

inductive Wait | all | winnerOnly
  deriving DecidableEq, Repr

/-- The mutex.  Only a `Subscribe` holds it across several steps here. -/
inductive Lock
  | free
  | subBefore     -- Subscribe holds the lock, `b.closed.Load()` not yet executed
  | subOpen       -- … loaded `false`: it will register (entry, `wg.Add(1)`, forwarder)
  | subClosed     -- … loaded `true`: it will drop the channel
  deriving DecidableEq, Repr

structure State where
  lock : Lock
  closed : Bool
  closeCh : Bool
  wg : Nat
  idle : Nat          -- forwarders in the outer select
  holding : Nat       -- forwarders that took a value (inner select)
  exiting : Nat       -- forwarders that left the loop; `wg.Done()` not yet called
  buffered : Nat      -- values in the 10-slot buffers (total)
  delivered : Nat     -- completed sends to subscriber channels
  late : Nat          -- ghost: … of which completed after some Close call had returned
  cNew : Nat          -- Close called (`wg.Wait` deferred), CAS not yet executed
  cWon : Nat          -- won the CAS, `close(closeCh)` not yet executed
  cLock : Nat         -- before `Lock(); Unlock()`
  cWait : Nat         -- in the deferred `wg.Wait()`
  cRet : Nat          -- returned
  retLosers : Nat     -- ghost: callers that returned straight from a lost CAS
  deriving DecidableEq, Repr

def init : State :=
  { lock := .free, closed := false, closeCh := false, wg := 0, idle := 0, holding := 0, exiting := 0,
    buffered := 0, delivered := 0, late := 0, cNew := 0, cWon := 0, cLock := 0, cWait := 0, cRet := 0,
    retLosers := 0 }

inductive Label
  | subLock | subLoad | subFinish
  | bcast (n : Nat)
  | fwdTake | fwdDeliver | fwdExitClose | fwdExitCloseHolding | fwdExitCtx | fwdExitCtxHolding | fwdDone
  | closeCall | closeCas | closeChClose | closePass | closeReturn
  deriving DecidableEq, Repr

def subLock (s : State) : Option State :=
  if s.lock = .free then some { s with lock := .subBefore } else none

def subLoad (s : State) : Option State :=
  if s.lock = .subBefore then
    some { s with lock := if s.closed then .subClosed else .subOpen }
  else none

/-- The rest of `subscribe` and the deferred `Unlock`. -/
def subFinish (s : State) : Option State :=
  match s.lock with
  | .subOpen => some { s with lock := .free, wg := s.wg + 1, idle := s.idle + 1 }
  | .subClosed => some { s with lock := .free }
  | _ => none

/-- One `Broadcast` that found `n` subscriber buffers to push into (at most one per forwarder that
has not finished); a no-op on a closed broadcaster. -/
def bcast (s : State) (n : Nat) : Option State :=
  if s.lock = .free then
    if s.closed then (if n = 0 then some s else none)
    else if n ≤ s.idle + s.holding + s.exiting then some { s with buffered := s.buffered + n } else none
  else none

def fwdTake (s : State) : Option State :=
  if 0 < s.idle ∧ 0 < s.buffered then
    some { s with idle := s.idle - 1, holding := s.holding + 1, buffered := s.buffered - 1 }
  else none

/-- `case ch <- val:` of the inner select — enabled whatever `closeCh` is. -/
def fwdDeliver (s : State) : Option State :=
  if 0 < s.holding then
    some { s with holding := s.holding - 1, idle := s.idle + 1, delivered := s.delivered + 1,
                  late := s.late + (if 0 < s.cRet then 1 else 0) }
  else none

def fwdExitClose (s : State) : Option State :=
  if 0 < s.idle ∧ s.closeCh then some { s with idle := s.idle - 1, exiting := s.exiting + 1 } else none

def fwdExitCloseHolding (s : State) : Option State :=
  if 0 < s.holding ∧ s.closeCh then
    some { s with holding := s.holding - 1, exiting := s.exiting + 1 }
  else none

def fwdExitCtx (s : State) : Option State :=
  if 0 < s.idle then some { s with idle := s.idle - 1, exiting := s.exiting + 1 } else none

def fwdExitCtxHolding (s : State) : Option State :=
  if 0 < s.holding then some { s with holding := s.holding - 1, exiting := s.exiting + 1 } else none

/-- The forwarder's deferred function: exit channel closed, removal under the lock, `wg.Done()`. -/
def fwdDone (s : State) : Option State :=
  if 0 < s.exiting ∧ s.lock = .free then some { s with exiting := s.exiting - 1, wg := s.wg - 1 } else none

def closeCall (s : State) : Option State := some { s with cNew := s.cNew + 1 }

/-- `b.closed.CompareAndSwap(false, true)`: the caller that finds `false` wins; every other caller
loses and, in the code (`Wait.all`), goes on to the lock and the deferred `wg.Wait`. -/
def closeCas (w : Wait) (s : State) : Option State :=
  if 0 < s.cNew then
    if s.closed = false then
      some { s with cNew := s.cNew - 1, cWon := s.cWon + 1, closed := true }
    else
      match w with
      | .all => some { s with cNew := s.cNew - 1, cLock := s.cLock + 1 }
      | .winnerOnly => some { s with cNew := s.cNew - 1, cRet := s.cRet + 1, retLosers := s.retLosers + 1 }
  else none

def closeChClose (s : State) : Option State :=
  if 0 < s.cWon then some { s with cWon := s.cWon - 1, cLock := s.cLock + 1, closeCh := true } else none

def closePass (s : State) : Option State :=
  if 0 < s.cLock ∧ s.lock = .free then some { s with cLock := s.cLock - 1, cWait := s.cWait + 1 } else none

def closeReturn (s : State) : Option State :=
  if 0 < s.cWait ∧ s.wg = 0 then some { s with cWait := s.cWait - 1, cRet := s.cRet + 1 } else none

def step (w : Wait) (s : State) : Label → Option State
  | .subLock => subLock s
  | .subLoad => subLoad s
  | .subFinish => subFinish s
  | .bcast n => bcast s n
  | .fwdTake => fwdTake s
  | .fwdDeliver => fwdDeliver s
  | .fwdExitClose => fwdExitClose s
  | .fwdExitCloseHolding => fwdExitCloseHolding s
  | .fwdExitCtx => fwdExitCtx s
  | .fwdExitCtxHolding => fwdExitCtxHolding s
  | .fwdDone => fwdDone s
  | .closeCall => closeCall s
  | .closeCas => closeCas w s
  | .closeChClose => closeChClose s
  | .closePass => closePass s
  | .closeReturn => closeReturn s

/-- Internal steps: no new call, no cancellation, no receive by a reader, no return event. -/
def Label.internal : Label → Bool
  | .subLock | .bcast _ | .fwdDeliver | .fwdExitCtx | .fwdExitCtxHolding | .closeCall | .closeReturn => false
  | _ => true

inductive Reach (w : Wait) : State → Prop
  | init : Reach w init
  | step {s s' : State} (l : Label) : Reach w s → step w s l = some s' → Reach w s'

inductive Path (w : Wait) (ok : Label → Prop) : State → State → Prop
  | refl (s : State) : Path w ok s s
  | cons {s s' s'' : State} (l : Label) : ok l → step w s l = some s' → Path w ok s' s'' → Path w ok s s''

def IPath (w : Wait) : State → State → Prop := Path w (fun l => l.internal = true)

def runLabels (w : Wait) (s : State) : List Label → Option State
  | [] => some s
  | l :: ls => match step w s l with
    | some s' => runLabels w s' ls
    | none => none

/-- Close calls that have not returned. -/
def closePending (s : State) : Prop := 0 < s.cNew + s.cWon + s.cLock + s.cWait

end Kit.Broadcaster.Cl
