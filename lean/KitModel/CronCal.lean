/-
Proleptic Gregorian calendar arithmetic for the cron `Next` model (C04Next):
days-from-civil / civil-from-days after H. Hinnant, written with division by literals only so
that `omega` can reason about them.  Days are counted from 1970-01-01 (day 0, a Thursday).
Core Lean only.
-/
namespace Kit.CronCal

/-- Number of days from 1970-01-01 to `y-m-d` (`1 ≤ m ≤ 12`; `d` may be any integer: the result is
linear in `d`, which is how Go's `time.Date` treats out-of-range days). -/
def daysFromCivil (y m d : Int) : Int :=
  let y' := if m ≤ 2 then y - 1 else y
  let era := y' / 400
  let yoe := y' - era * 400
  let mp := if m > 2 then m - 3 else m + 9
  let doy := (153 * mp + 2) / 5 + d - 1
  let doe := yoe * 365 + yoe / 4 - yoe / 100 + doy
  era * 146097 + doe - 719468

/-- Civil date `(year, month, day)` of day number `n` (days since 1970-01-01). -/
def civilFromDays (n : Int) : Int × Int × Int :=
  let z := n + 719468
  let era := z / 146097
  let doe := z - era * 146097
  let yoe := (doe - doe / 1460 + doe / 36524 - doe / 146096) / 365
  let y := yoe + era * 400
  let doy := doe - (365 * yoe + yoe / 4 - yoe / 100)
  let mp := (5 * doy + 2) / 153
  let d := doy - (153 * mp + 2) / 5 + 1
  let m := if mp < 10 then mp + 3 else mp - 9
  (if m ≤ 2 then y + 1 else y, m, d)

/-- Month index: months since year 0, January = 0. -/
def monthIndex (n : Int) : Int :=
  let c := civilFromDays n
  c.1 * 12 + (c.2.1 - 1)

/-- First day (day number) of the month with index `M`. -/
def monthStart (M : Int) : Int := daysFromCivil (M / 12) (M % 12 + 1) 1

/-- Day of week, Sunday = 0 (1970-01-01 was a Thursday). -/
def weekday (n : Int) : Int := (n + 4) % 7

end Kit.CronCal
