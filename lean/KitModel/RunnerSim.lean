import KitModel.Runner
import Std.Data.HashSet
/-!
# State-set simulation used by `kitdrv C12` (trace inclusion)

`Sim` packages a transition system with its internal (τ) labels.  An observed event is a pair
`(pre, cands)`: the states it may be performed in and the labels it may stand for.  `run` keeps
the set of states compatible with the events so far, closed under τ steps; `accepts` says the set
is non-empty at the end.  Everything is total (the closure is bounded by `fuel`, far above any set
the driver ever sees; hitting the bound can only make the set smaller, i.e. reject).
`KitProofs/Props/C12.lean` proves `accepts_sound`: an accepted log is the event log of an execution.
-/
namespace Kit.Runner

structure Sim (σ α : Type) where
  step : σ → α → Option σ
  taus : σ → List α

abbrev Ev (σ α : Type) := (σ → Bool) × List α

namespace Sim
variable {σ α : Type} [BEq σ] [Hashable σ]

/-- successors of `s` under its τ labels that are not in `seen` yet -/
def expand (M : Sim σ α) (s : σ) (acc : Std.HashSet σ × List σ) : Std.HashSet σ × List σ :=
  (M.taus s).foldl (fun acc a =>
    match M.step s a with
    | some s' => if acc.1.contains s' then acc else (acc.1.insert s', s' :: acc.2)
    | none => acc) acc

/-- worklist closure under τ; `seen` is the result -/
def closeUnder (M : Sim σ α) : Nat → Std.HashSet σ → List σ → Std.HashSet σ
  | 0, seen, _ => seen
  | _, seen, [] => seen
  | fuel + 1, seen, s :: rest =>
    let r := M.expand s (seen, [])
    closeUnder M fuel r.1 (r.2 ++ rest)

def fuel : Nat := 10000000

def closure (M : Sim σ α) (ss : List σ) : List σ :=
  let seen := ss.foldl (fun acc s => acc.insert s) (Std.HashSet.emptyWithCapacity 64)
  (M.closeUnder fuel seen seen.toList).toList

/-- states reached from `ss` by one observed event -/
def nexts (M : Sim σ α) (ss : List σ) (e : Ev σ α) : List σ :=
  ss.foldl (fun acc s =>
    if e.1 s then e.2.foldl (fun acc a => match M.step s a with
      | some s' => s' :: acc
      | none => acc) acc else acc) []

def advance (M : Sim σ α) (ss : List σ) (e : Ev σ α) : List σ := M.closure (M.nexts ss e)

def run (M : Sim σ α) (init : σ) (evs : List (Ev σ α)) : List σ :=
  evs.foldl M.advance (M.closure [init])

def accepts (M : Sim σ α) (init : σ) (evs : List (Ev σ α)) : Bool := !(M.run init evs).isEmpty

end Sim

def rmSim : Sim RM RLabel := { step := RM.step, taus := RM.taus }
def rcmSim (cfg : Cfg) : Sim RCM Label := { step := RCM.step cfg, taus := RCM.taus }

/-- "`evs` is the event log of an execution from `init` ending in `t`": the execution consists of
internal steps (a label offered by `taus` in the current state) and, in order, one step per event
whose label is one of the event's candidates and whose pre-state satisfies the event's filter. -/
inductive Sim.Reached {σ α : Type} (M : Sim σ α) (init : σ) : List (Ev σ α) → σ → Prop where
  | init : Sim.Reached M init [] init
  | tau {evs : List (Ev σ α)} {s s' : σ} (a : α) :
      Sim.Reached M init evs s → a ∈ M.taus s → M.step s a = some s' → Sim.Reached M init evs s'
  | obs {evs : List (Ev σ α)} {s s' : σ} (e : Ev σ α) (a : α) :
      Sim.Reached M init evs s → e.1 s = true → a ∈ e.2 → M.step s a = some s' →
      Sim.Reached M init (evs ++ [e]) s'

end Kit.Runner
