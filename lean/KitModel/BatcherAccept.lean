import KitModel.Batcher
import Std.Data.HashSet
/-!
# Trace acceptor for the batcher LTS (property C10)

The state-set simulation that `kitdrv C10` runs, as total functions of the model:

* `Obs`        — what the harness observes of a real execution;
* `onObs`      — successors of one model state under one observation: the labels the observation
                 stands for (`Stands`), guarded by what the observation says about the state; pure
                 *checks* (a goroutine seen at a hook point, a closed channel, quiescence, a `Batch`
                 that returned early after `Close`) keep the state without a step;
* `strip`      — the normal form under which states are merged: ghost fields, the contents of the
                 buffer of a forwarder that has left its loop, everything about a `done` subscriber;
* `closeSet`   — closure under the silent labels (minus those of goroutines the harness holds at a
                 hook point), with fuel: when the fuel runs out the result is flagged `overflow` and
                 the trace counts as NOT validated;
* `accepts`    — fold over the trace.

`KitProofs/Lemmas/BatcherAccept.lean` proves `strip` a simulation and `accepts` sound: an accepted
trace is the observable projection of a run of `Batcher.step` from `init`.
-/
namespace Kit.Batcher
open Kit.Queue Kit.Processor

inductive Obs where
  | batch (k v : Nat) | adv (t : Int)
  | scall | scalld | sret
  | cancel (i : Nat) | recv (i v : Nat) | chclosed (i : Nat)
  | ccall | cret
  | xsend (i v : Nat) | fexit (i : Nat)
  | parkSend (i v : Nat) | unparkSend
  | parkExit (i : Nat) | unparkExit (i : Nat)
  | parkCas | unparkCas
  | parkFired (k : Nat) (t : Int) | unparkFired
  | parkTimer (k : Nat) (t : Int) | unparkTimer
  | quiet (prompt : List Nat)
  deriving Repr, DecidableEq

/-- Goroutines the harness currently holds at a hook point: their next steps are not taken by the
closure. -/
structure Freeze where
  send : Bool := false
  exit : List Nat := []
  cas : Bool := false
  fired : Bool := false
  timer : Bool := false
  deriving Repr, DecidableEq

def freezeAfter (fz : Freeze) : Obs → Freeze
  | .parkSend _ _ => { fz with send := true }
  | .unparkSend => { fz with send := false }
  | .parkExit i => { fz with exit := i :: fz.exit }
  | .unparkExit i => { fz with exit := fz.exit.filter (· != i) }
  | .parkCas => { fz with cas := true }
  | .unparkCas => { fz with cas := false }
  | .parkFired _ _ => { fz with fired := true }
  | .unparkFired => { fz with fired := false }
  | .parkTimer _ _ => { fz with timer := true }
  | .unparkTimer => { fz with timer := false }
  | _ => fz

/-- Silent labels: internal, except the return of a `Close` call (observed as `cret`). -/
def silentL (l : Label) : Bool := l.isInternal && l != .closeReturn

def hiddenOK (fz : Freeze) : Label → Bool
  | .send | .skipExit | .skipClose | .skipGone | .proc .cbReturn => !fz.send
  | .fwdRemove i => !fz.exit.contains i
  | .proc .closeStopCh => !fz.cas
  | .proc (.execCheck _) => !fz.fired
  | .proc .arm => !fz.timer
  | _ => true

/-- Silent labels enabled in `s` that the closure may take. -/
def hidden (cfg : Cfg) (fz : Freeze) (s : State) : List Label :=
  (taus cfg s).filter (fun l => hiddenOK fz l && silentL l)

/-! ### normal form -/

def dummy : It := ⟨0, 0, 0, 0⟩

def pstrip (p : PState) : PState := { p with log := [], readAt := 0, armAt := 0 }

/-- Remove what no later step reads: the ghost fields; the *contents* of the buffer of a forwarder
that has left its loop (only `fwdTake`, enabled in `idle`, reads contents; `send` reads the length
while the subscriber is still in `eventChs`); everything about a subscriber that is `done`. -/
def stripSub (u : Sub) : Sub :=
  match u.pc with
  | .done => { buf := [], pc := .done, delivered := [], ctxDone := true, exitClosed := true, joinedAt := 0, missed := false }
  | .exiting => { u with buf := u.buf.map (fun _ => dummy), delivered := [], joinedAt := 0, missed := false }
  | .wantLock => { u with buf := u.buf.map (fun _ => dummy), delivered := [], joinedAt := 0, missed := false }
  | _ => { u with delivered := [], joinedAt := 0, missed := false }

def strip (s : State) : State :=
  { s with p := pstrip s.p, out := [], calls := [], subs := s.subs.map stripSub }

/-! ### observations -/

def isHolding (s : State) (i : Nat) : Bool :=
  match s.subs[i]? with
  | some u => match u.pc with
    | .holding _ => true
    | _ => false
  | none => false

def atSend (s : State) (i v : Nat) : Bool :=
  match s.epc, s.subs[i]? with
  | .sending r j, some u => j == i && u.inList && r.val == v
  | _, _ => false

def atExit (s : State) (i : Nat) : Bool :=
  match s.subs[i]? with
  | some u => u.pc == .wantLock
  | none => false

/-- Successors of one state under one observation (not yet stripped / closed). -/
def onObs (cfg : Cfg) (fz : Freeze) (s : State) : Obs → List State
  | .batch k v =>
    let t := s.p.now + cfg.interval
    let enq := [true, false].filterMap fun first => step cfg s (.proc (.enqueue k t v first))
    -- `Enqueue` returns at once when the processor has been stopped
    if s.p.stopped then s :: enq else enq
  | .adv t => (step cfg s (.proc (.advance t))).toList
  | .scall => (step cfg s .subCall).toList
  | .scalld => (step cfg s .subCallDone).toList
  | .sret => (step cfg s .subReturn).toList
  | .cancel i => (step cfg s (.cancel i)).toList
  | .recv i v =>
    match s.subs[i]? with
    | some u =>
      match u.pc with
      | .holding x => if x.val == v then (step cfg s (.fwdDeliver i)).toList else []
      | _ => []
    | none => []
  | .chclosed i =>
    match s.subs[i]? with
    | some u => if u.pc == .done then [s] else []
    | none => []
  | .ccall => (step cfg s .closeCall).toList
  | .cret => (step cfg s .closeReturn).toList
  | .xsend i v => if atSend s i v then [s] else []
  | .parkSend i v => if atSend s i v then [s] else []
  | .fexit i => if atExit s i then [s] else []
  | .parkExit i => if atExit s i then [s] else []
  | .parkCas => if s.p.cpc == .casDone then [s] else []
  | .parkFired k t =>
    match s.p.pc with
    | .firing r => if r.key == k && r.time == t then [s] else []
    | _ => []
  | .parkTimer k t =>
    match s.p.pc with
    | .arming r => if r.key == k && r.time == t then [s] else []
    | _ => []
  | .unparkSend | .unparkExit _ | .unparkCas | .unparkFired | .unparkTimer => [s]
  | .quiet prompt =>
    -- a reader that polls continuously cannot leave its forwarder holding a value at quiescence
    if (hidden cfg fz s).isEmpty && !(prompt.any (isHolding s)) then [s] else []

/-- The labels an observation stands for (a check stands for none). -/
def Stands : Obs → Label → Prop
  | .batch k v, l => ∃ t f, l = .proc (.enqueue k t v f)
  | .adv t, l => l = .proc (.advance t)
  | .scall, l => l = .subCall
  | .scalld, l => l = .subCallDone
  | .sret, l => l = .subReturn
  | .cancel i, l => l = .cancel i
  | .recv i _, l => l = .fwdDeliver i
  | .ccall, l => l = .closeCall
  | .cret, l => l = .closeReturn
  | _, _ => False

/-! ### closure -/

abbrev SSet := Std.HashSet State

/-- Add the states not seen yet to the work list. -/
def pushNew (xs : List State) (todo : List State) (seen : SSet) : List State × SSet :=
  xs.foldl (fun (a : List State × SSet) x => if a.2.contains x then a else (x :: a.1, a.2.insert x)) (todo, seen)

/-- Work-list closure under the hidden labels; `fuel` = number of states that may be expanded.
Returns the states expanded and whether work was left over (overflow). -/
def closureFuel (cfg : Cfg) (fz : Freeze) : Nat → List State → SSet → List State → List State × Bool
  | _, [], _, acc => (acc, false)
  | 0, _ :: _, _, acc => (acc, true)
  | fuel + 1, s :: rest, seen, acc =>
    let succs := ((hidden cfg fz s).filterMap (step cfg s)).map strip
    let (todo', seen') := pushNew succs rest seen
    closureFuel cfg fz fuel todo' seen' (s :: acc)

def closureLimit : Nat := 40000

def closeSet (cfg : Cfg) (fz : Freeze) (xs : List State) : List State × Bool :=
  let (todo, seen) := pushNew (xs.map strip) [] {}
  closureFuel cfg fz closureLimit todo seen []

/-! ### the acceptor -/

structure AState where
  cur : List State
  fz : Freeze
  overflow : Bool

def start (cfg : Cfg) : AState :=
  let (cur, ov) := closeSet cfg {} [init]
  { cur := cur, fz := {}, overflow := ov }

def stepA (cfg : Cfg) (a : AState) (o : Obs) : AState :=
  let fz' := freezeAfter a.fz o
  let nexts := a.cur.flatMap (fun s => onObs cfg a.fz s o)
  let (cur, ov) := closeSet cfg fz' nexts
  { cur := cur, fz := fz', overflow := a.overflow || ov }

def runA (cfg : Cfg) (tr : List Obs) : AState := tr.foldl (stepA cfg) (start cfg)

/-- The trace is accepted: some model state is compatible with all of it, and the closure never ran
out of fuel. -/
def accepts (cfg : Cfg) (tr : List Obs) : Bool :=
  let a := runA cfg tr
  !a.overflow && !a.cur.isEmpty

end Kit.Batcher
