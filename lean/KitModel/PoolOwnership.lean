import KitModel.Go.Prelude
import KitModel.Containers
/-!
# Pooled buffers, ownership and interference (property C08)

Memory model (DESIGN §2.2, cut down to what ownership needs): a heap of backing arrays
`heap : array id → cell → byte`; a slice value is `(handle, off, len)` where the *handle* is the
owning thread's local name of an array (`tbl : handle → array id`; a Go pointer is opaque, so a
thread's program never depends on the global id).  Bounds/capacity are C07/C17's business and are
not modelled here: arrays are unbounded maps.

`sync.Pool` = nondeterministic choice between a fresh object and ANY object previously `Put`
(`step … (some a)` is enabled for every `a ∈ pool`).

Every pipeline is a thread running a list of memory instructions
`get | alloc | write | use | copy | put | yield`; the list is produced from the thread's OWN input
(document bytes and the way its reader chunks them) by functions that follow
`schemes/enc/v1/scheme.go` statement by statement as far as buffers go (`readHeaderProg`,
`decryptProg`, `processSegmentsProg`, `encryptProg`).  Control flow is taken from the thread's
input; every `use` logs what is actually found in the heap cells, so interference shows up as a
different log.  The semantics performs accesses whatever the ghost ownership says (as real memory
does): the pre-fix program can therefore be run and its interference exhibited.

Ghost state: `own : array id → free | owned t | pooled | priv t`, and per thread the handles it
holds with the prefix of cells it has written since it acquired them (`Ghost`); `wf` is the static
discipline "only held handles are touched, only written cells are read".

Core Lean only.
-/
namespace Kit.PoolOwn

abbrev Byte := Nat

def upd {β : Type} (f : Nat → β) (k : Nat) (v : β) : Nat → β := fun x => if x = k then v else f x

/-! ## memory -/

inductive Own where
  | free
  | owned (t : Nat)
  | pooled
  | priv (t : Nat)
  deriving DecidableEq, Repr

def Own.owner : Own → Option Nat
  | .owned t => some t
  | .priv t => some t
  | _ => none

structure Sl where
  h : Nat
  off : Nat
  len : Nat
  deriving DecidableEq, Repr

inductive Instr where
  | get                                      -- `BufPool.Get()`
  | alloc (n : Nat)                          -- `make([]byte, n)` / the allocation inside `bytes.Clone`
  | write (h off : Nat) (vals : List Byte)   -- `in.Read(buf[off:…])` delivering `vals`, `buf[0] = c`, in-place Seal/Open
  | use (s : Sl)                             -- any read through a slice (scan, compare, Unmarshal, MAC, Write(out, …))
  | copy (d s : Sl)                          -- `copy(d, s)`
  | put (h : Nat)                            -- `BufPool.Put`
  | yield                                    -- no memory effect: callback (UnwrapKeyFn), hook, goroutine hand-over
  deriving DecidableEq, Repr

def readCells (m : Nat → Byte) (off len : Nat) : List Byte :=
  (List.range len).map fun i => m (off + i)

def writeCells (m : Nat → Byte) (off : Nat) (vals : List Byte) : Nat → Byte :=
  fun i => if off ≤ i ∧ i < off + vals.length then vals.getD (i - off) 0 else m i

/-! ## the discipline (ghost) -/

structure Ghost where
  nh : Nat            -- handles handed out so far
  live : List Nat     -- handles held now
  wr : Nat → Nat      -- cells `[0, wr h)` of handle `h` were written by this thread since it acquired `h`

def Ghost.init : Ghost := ⟨0, [], fun _ => 0⟩

def gstep (g : Ghost) : Instr → Option Ghost
  | .get => some ⟨g.nh + 1, g.nh :: g.live, upd g.wr g.nh 0⟩
  | .alloc _ => some ⟨g.nh + 1, g.nh :: g.live, upd g.wr g.nh 0⟩
  | .write h off vals =>
    if h ∈ g.live ∧ off ≤ g.wr h then some { g with wr := upd g.wr h (max (g.wr h) (off + vals.length)) } else none
  | .use s => if s.h ∈ g.live ∧ s.off + s.len ≤ g.wr s.h then some g else none
  | .copy d s =>
    if s.h ∈ g.live ∧ d.h ∈ g.live ∧ s.off + min d.len s.len ≤ g.wr s.h ∧ d.off ≤ g.wr d.h then
      some { g with wr := upd g.wr d.h (max (g.wr d.h) (d.off + min d.len s.len)) }
    else none
  | .put h => if h ∈ g.live then some { g with live := g.live.erase h } else none
  | .yield => some g

/-- the program keeps the discipline from ghost state `g` on -/
def wfFrom (g : Ghost) : List Instr → Bool
  | [] => true
  | i :: rest =>
    match gstep g i with
    | some g' => wfFrom g' rest
    | none => false

def wf (p : List Instr) : Bool := wfFrom Ghost.init p

/-- ghost state after a program (`none` = discipline broken) -/
def gRun (g : Ghost) : List Instr → Option Ghost
  | [] => some g
  | i :: rest =>
    match gstep g i with
    | some g' => gRun g' rest
    | none => none

/-- handles a program obtains with `get`, given that `nh` handles were handed out before -/
def getsOf : Nat → List Instr → List Nat
  | _, [] => []
  | nh, .get :: rest => nh :: getsOf (nh + 1) rest
  | nh, .alloc _ :: rest => getsOf (nh + 1) rest
  | nh, _ :: rest => getsOf nh rest

def putsOf : List Instr → List Nat
  | [] => []
  | .put h :: rest => h :: putsOf rest
  | _ :: rest => putsOf rest

/-- every buffer taken from the pool is given back -/
def balanced (p : List Instr) : Bool := (getsOf 0 p).all fun h => (putsOf p).contains h

/-! ## interleaved semantics -/

structure Thread where
  prog : List Instr
  tbl : Nat → Nat
  g : Ghost
  log : List (List Byte)

structure State where
  heap : Nat → Nat → Byte
  own : Nat → Own
  nArr : Nat
  pool : List Nat
  thr : Nat → Thread

def init (progs : Nat → List Instr) : State where
  heap := fun _ _ => 0
  own := fun _ => .free
  nArr := 0
  pool := []
  thr := fun t => { prog := progs t, tbl := fun _ => 0, g := Ghost.init, log := [] }

/-- Thread `t` executes its next instruction; `c` resolves the pool's choice at a `get`
(`none` = a fresh buffer, `some a` = the pooled buffer `a`). -/
def step (s : State) (t : Nat) (c : Option Nat) : Option State :=
  let th := s.thr t
  match th.prog with
  | [] => none
  | i :: rest =>
    let th' : Thread := { th with prog := rest, g := (gstep th.g i).getD th.g }
    match i with
    | .get =>
      match c with
      | none =>
        some { s with own := upd s.own s.nArr (.owned t), nArr := s.nArr + 1,
                      thr := upd s.thr t { th' with tbl := upd th.tbl th.g.nh s.nArr } }
      | some a =>
        if a ∈ s.pool then
          some { s with own := upd s.own a (.owned t), pool := s.pool.erase a,
                        thr := upd s.thr t { th' with tbl := upd th.tbl th.g.nh a } }
        else none
    | .alloc _ =>
      some { s with own := upd s.own s.nArr (.priv t), nArr := s.nArr + 1,
                    thr := upd s.thr t { th' with tbl := upd th.tbl th.g.nh s.nArr } }
    | .write h off vals =>
      some { s with heap := upd s.heap (th.tbl h) (writeCells (s.heap (th.tbl h)) off vals),
                    thr := upd s.thr t th' }
    | .use sl =>
      some { s with thr := upd s.thr t { th' with log := th.log ++ [readCells (s.heap (th.tbl sl.h)) sl.off sl.len] } }
    | .copy d sl =>
      some { s with heap := upd s.heap (th.tbl d.h)
                      (writeCells (s.heap (th.tbl d.h)) d.off (readCells (s.heap (th.tbl sl.h)) sl.off (min d.len sl.len))),
                    thr := upd s.thr t th' }
    | .put h =>
      some { s with own := upd s.own (th.tbl h) .pooled, pool := th.tbl h :: s.pool, thr := upd s.thr t th' }
    | .yield => some { s with thr := upd s.thr t th' }

inductive Reach (progs : Nat → List Instr) : State → Prop where
  | init : Reach progs (init progs)
  | step {s s' : State} (t : Nat) (c : Option Nat) : Reach progs s → step s t c = some s' → Reach progs s'

/-- run a schedule (labels that are not enabled are skipped) -/
def runSched (s : State) : List (Nat × Option Nat) → State
  | [] => s
  | (t, c) :: rest =>
    match step s t c with
    | some s' => runSched s' rest
    | none => runSched s rest

/-- the handles the next instruction of a thread goes through -/
def Instr.handles : Instr → List Nat
  | .write h _ _ => [h]
  | .use s => [s.h]
  | .copy d s => [d.h, s.h]
  | .put h => [h]
  | _ => []

/-- every array the next instruction of `t` reads, writes or puts is owned by / private to `t` -/
def accessOk (s : State) (t : Nat) : Bool :=
  match (s.thr t).prog with
  | [] => true
  | i :: _ => i.handles.all fun h => (s.own ((s.thr t).tbl h)).owner == some t

/-! ## a pipeline run alone: its own memory, every `get` fresh -/

structure RefSt where
  mem : Nat → Nat → Byte
  nh : Nat
  log : List (List Byte)

def RefSt.init : RefSt := ⟨fun _ _ => 0, 0, []⟩

def refStep (r : RefSt) : Instr → RefSt
  | .get => { r with nh := r.nh + 1 }
  | .alloc _ => { r with nh := r.nh + 1 }
  | .write h off vals => { r with mem := upd r.mem h (writeCells (r.mem h) off vals) }
  | .use sl => { r with log := r.log ++ [readCells (r.mem sl.h) sl.off sl.len] }
  | .copy d sl =>
    { r with mem := upd r.mem d.h (writeCells (r.mem d.h) d.off (readCells (r.mem sl.h) sl.off (min d.len sl.len))) }
  | .put _ => r
  | .yield => r

def refRun (r : RefSt) (p : List Instr) : RefSt := p.foldl refStep r

/-- what the pipeline observes (hence everything it can compute) when nothing else runs -/
def soloLog (p : List Instr) : List (List Byte) := (refRun RefSt.init p).log

/-! ## `schemes/enc/v1/scheme.go` as instruction lists -/

/-- how a result of `readHeader` relates to the pooled buffer (T1 fact) -/
inductive RetKind where
  | alias   -- a sub-slice of the pooled buffer
  | copy    -- a newly allocated copy
  | nilv
  deriving DecidableEq, Repr

structure HeaderRet where
  manifest : RetKind
  mac : RetKind
  deriving DecidableEq, Repr

/-- `SchemeName` = "dapr.io/enc/v1" -/
def schemeName : List Byte := [100, 97, 112, 114, 46, 105, 111, 47, 101, 110, 99, 47, 118, 49]

def segmentSize : Nat := 65536
def segmentOverhead : Nat := 16

structure Scan where
  newlines : Nat
  lastNl : Nat
  cur : List Byte          -- bytes of the line being scanned (the thread's own input)
  man : Option Sl
  mac : Option Sl
  deriving Repr

def Scan.start : Scan := ⟨0, 0, [], none, none⟩

/-- `for i = n; i < n+nn && newlines < 3; i++ { … }` of `readHeader` over the bytes one `Read`
delivered at buffer positions `i, i+1, …`.  `none` = `return nil, nil, err`. -/
def scanBytes (hb : Nat) : Nat → List Byte → Scan → List Instr × Option Scan
  | _, [], sc => ([], some sc)
  | i, b :: bs, sc =>
    if 3 ≤ sc.newlines then ([], some sc)
    else if b ≠ 10 then
      let r := scanBytes hb (i + 1) bs { sc with cur := sc.cur ++ [b] }
      (.use ⟨hb, i, 1⟩ :: r.1, r.2)
    else if i ≤ sc.lastNl then ([.use ⟨hb, i, 1⟩], none)              -- "invalid format"
    else
      let line : Sl := ⟨hb, sc.lastNl, i - sc.lastNl⟩
      if sc.newlines = 0 then
        if sc.cur ≠ schemeName then ([.use ⟨hb, i, 1⟩, .use line], none)   -- "unsupported scheme"
        else
          let r := scanBytes hb (i + 1) bs { sc with newlines := 1, lastNl := i + 1, cur := [] }
          (.use ⟨hb, i, 1⟩ :: .use line :: r.1, r.2)
      else if sc.newlines = 1 then
        let r := scanBytes hb (i + 1) bs { sc with newlines := 2, lastNl := i + 1, cur := [], man := some line }
        (.use ⟨hb, i, 1⟩ :: r.1, r.2)
      else
        let r := scanBytes hb (i + 1) bs { sc with newlines := 3, lastNl := i + 1, cur := [], mac := some line }
        (.use ⟨hb, i, 1⟩ :: r.1, r.2)

/-- the read loop of `readHeader`: `reads` are the byte strings successive `in.Read` calls
deliver (the end of the list = EOF); `B` = `SegmentSize`, the part of the buffer it reads into.
Returns the final scan state and `n`. -/
def rhLoop (B hb : Nat) : Nat → List (List Byte) → Scan → List Instr × Option (Scan × Nat)
  | n, [], sc => ([], some (sc, n))
  | n, c :: cs, sc =>
    if 3 ≤ sc.newlines then ([], some (sc, n))
    else if B ≤ n then ([], some (sc, n))                  -- `if n == ul { break }`
    else if c.take (B - n) = [] then rhLoop B hb n cs sc   -- `if nn <= 0 { continue }`
    else
      let r := scanBytes hb n (c.take (B - n)) sc
      match r.2 with
      | none => (.write hb n (c.take (B - n)) :: r.1, none)
      | some sc' =>
        let r2 := rhLoop B hb (n + (c.take (B - n)).length) cs sc'
        (.write hb n (c.take (B - n)) :: (r.1 ++ r2.1), r2.2)

/-- result of `readHeader`: the slices it returns and the handles used so far -/
structure HdrOut where
  man : Sl
  mac : Sl
  nh : Nat
  extra : Nat      -- surplus bytes copied out of the buffer
  hdrLen : Nat     -- bytes of the stream that belong to the header
  deriving Repr

/-- what is returned for a line of the buffer: the very slice, or `bytes.Clone` of it -/
def retSlice (k : RetKind) (line : Sl) (nh : Nat) : List Instr × Sl × Nat :=
  match k with
  | .copy => ([.alloc line.len, .copy ⟨nh, 0, line.len⟩ line], ⟨nh, 0, line.len⟩, nh + 1)
  | _ => ([], line, nh)

/-- `readHeader` entered with `hb` handles already used: Get, read loop, checks, surplus copied
out, results (alias or copy, by `ret`), deferred Put. -/
def readHeaderProg (ret : HeaderRet) (B hb : Nat) (reads : List (List Byte)) : List Instr × Option HdrOut :=
  let r := rhLoop B hb 0 reads Scan.start
  match r.2 with
  | none => (.get :: (r.1 ++ [.put hb]), none)
  | some (sc, n) =>
    match sc.man, sc.mac with
    | some man, some mac =>
      if man.len = 0 ∨ mac.len = 0 then (.get :: (r.1 ++ [.put hb]), none)
      else
        let ex : List Instr × Nat :=
          if sc.lastNl < n then
            ([.alloc (n - sc.lastNl), .copy ⟨hb + 1, 0, n - sc.lastNl⟩ ⟨hb, sc.lastNl, n - sc.lastNl⟩], hb + 2)
          else ([], hb + 1)
        let rm := retSlice ret.manifest man ex.2
        let rc := retSlice ret.mac mac rm.2.2
        (.get :: (r.1 ++ ex.1 ++ rm.1 ++ rc.1 ++ [.put hb]),
         some { man := rm.2.1, mac := rc.2.1, nh := rc.2.2, extra := n - sc.lastNl, hdrLen := sc.lastNl })
    | _, _ => (.get :: (r.1 ++ [.put hb]), none)

/-- what a segment function leaves in the buffer (`Seal`/`Open` into `data[:0]`): the values are
a function of the thread's own data only; which function is irrelevant here -/
def segOut (enc : Bool) (data : List Byte) : List Byte :=
  if enc then data.map (· + 1) ++ List.replicate segmentOverhead 7
  else (data.take (data.length - segmentOverhead)).map (· + 1)

/-- the outer loop of `processSegments` with buffer handle `hb` and segment size `S` over the bytes
`data` the remaining reads deliver.  (The several `in.Read(buf[n:S+1])` calls that fill one segment
are merged into one write of the same cells.) -/
def psLoop (enc : Bool) (hb S : Nat) : (fuel : Nat) → (carry : Option Byte) → (data : List Byte) → List Instr
  | 0, _, _ => []
  | fuel + 1, carry, data =>
    let pre : List Instr := match carry with
      | some c => [.write hb 0 [c]]
      | none => []
    let have0 := match carry with | some _ => 1 | none => 0
    let now := data.take (S + 1 - have0)
    let rest := data.drop (S + 1 - have0)
    let n := have0 + now.length
    let rd : List Instr := if now = [] then [] else [.write hb have0 now]
    let seg : List Byte := (match carry with | some c => [c] | none => []) ++ now
    pre ++ rd ++
      (if S < n then
        -- a full segment plus the carry-over byte
        [Instr.use ⟨hb, n - 1, 1⟩, .use ⟨hb, 0, S⟩, .write hb 0 (segOut enc (seg.take S)), .use ⟨hb, 0, (segOut enc (seg.take S)).length⟩]
          ++ psLoop enc hb S fuel (seg.getLast?) rest
      else if n = 0 then []
      else [.use ⟨hb, 0, n⟩, .write hb 0 (segOut enc seg), .use ⟨hb, 0, (segOut enc seg).length⟩])

def processSegmentsProg (enc : Bool) (hb S : Nat) (data : List Byte) : List Instr :=
  .get :: (psLoop enc hb S (data.length + 1) none data ++ [.put hb])

/-- `Decrypt`: readHeader; hook; json.Unmarshal(manifest); UnwrapKeyFn; VerifyHeaderSignature
(manifest, mac); processSegments on the surplus bytes + the rest of the stream. -/
def decryptProg (ret : HeaderRet) (B hb : Nat) (reads : List (List Byte)) (body : List Byte) : List Instr :=
  let r := readHeaderProg ret B hb reads
  match r.2 with
  | none => r.1
  | some o =>
    r.1 ++ [.yield, .use o.man, .yield, .use o.man, .use o.mac]
      ++ processSegmentsProg false o.nh (segmentSize + segmentOverhead) body

/-! ### the bytes read past the header: who still reads the header buffer after its Put?

`readHeader` ends with `*in = io.MultiReader(bytes.NewReader(x), *in)`: the bytes the last `Read`
delivered beyond the third newline are served again by a reader that KEEPS `x`. That reader
outlives `readHeader` AND `Decrypt`: it is consumed by the first `in.Read` of the goroutine
`Decrypt` starts (`processSegments`), at a moment nobody controls. `x` is a T1 fact
(`Generated.C08.surplusRet`): a fresh array filled by `copy` (`.copy`, the source as it is), or
the sub-slice `buf[lastNewline:n]` of the pooled buffer itself (`.alias`). -/

/-- the slice the pushed-back reader reads from (`hb` = handle of the header buffer; the surplus
copy of `readHeaderProg` lives in the handle after it) -/
def surplusSl (sur : RetKind) (hb : Nat) (o : HdrOut) : Sl :=
  match sur with
  | .alias => ⟨hb, o.hdrLen, o.extra⟩
  | _ => ⟨hb + 1, 0, o.extra⟩

/-- `processSegments` with what its first `in.Read` goes through made explicit: `pre` runs after
its own `Get` and before the segment loop -/
def processSegmentsProgS (enc : Bool) (hb S : Nat) (pre : List Instr) (data : List Byte) : List Instr :=
  .get :: (pre ++ psLoop enc hb S (data.length + 1) none data ++ [.put hb])

/-- `Decrypt` including the life of the pushed-back reader: as `decryptProg`, then `Decrypt`
returns (`yield`: the goroutine runs whenever the scheduler says), the goroutine Gets its buffer
and its first `in.Read` reads the surplus bytes through `surplusSl` (logged as every read is);
the values that then land in the segment buffer are the thread's own input, as in `psLoop`. -/
def decryptProgS (sur : RetKind) (ret : HeaderRet) (B hb : Nat) (reads : List (List Byte)) (body : List Byte) : List Instr :=
  let r := readHeaderProg ret B hb reads
  match r.2 with
  | none => r.1
  | some o =>
    r.1 ++ [.yield, .use o.man, .yield, .use o.man, .use o.mac, .yield]
      ++ processSegmentsProgS false o.nh (segmentSize + segmentOverhead)
           (if o.extra = 0 then [] else [.use (surplusSl sur hb o)]) body

/-- `Encrypt`: (header is built on the caller's stack) then processSegments over the plaintext -/
def encryptProg (hb : Nat) (plain : List Byte) : List Instr :=
  processSegmentsProg true hb segmentSize plain

/-- split a document into the byte strings a reader with chunk size `k` delivers (`0` = all) -/
def chunksOf (fuel k : Nat) (bs : List Byte) : List (List Byte) :=
  match fuel with
  | 0 => []
  | fuel + 1 =>
    if bs = [] then []
    else if k = 0 then [bs]
    else bs.take k :: chunksOf fuel k (bs.drop k)

/-- the bytes of `doc` after its header (after the third newline) -/
def bodyOf : Nat → List Byte → List Byte
  | _, [] => []
  | nl, b :: bs => if nl ≥ 3 then b :: bs else bodyOf (if b = 10 then nl + 1 else nl) bs

/-- the pre-fix `readHeader` (both results alias the buffer) and the repaired one -/
def retPreFix : HeaderRet := ⟨.alias, .alias⟩
def retFixed : HeaderRet := ⟨.copy, .copy⟩

/-! ## pipelines as threads; the concrete schedule of the witness -/

/-- a pipeline thread: Decrypt only, or Encrypt followed by Decrypt -/
inductive PipeSpec where
  | decrypt (reads : List (List Byte)) (body : List Byte)
  | full (plain : List Byte) (reads : List (List Byte)) (body : List Byte)
  | encrypt (plain : List Byte)
  | idle

def PipeSpec.prog (ret : HeaderRet) : PipeSpec → List Instr
  | .decrypt reads body => decryptProg ret segmentSize 0 reads body
  | .full plain reads body => encryptProg 0 plain ++ decryptProg ret segmentSize 1 reads body
  | .encrypt plain => encryptProg 0 plain
  | .idle => []

/-- "dapr.io/enc/v1\n{}\nM\n" followed by two body bytes -/
def docA : List Byte := schemeName ++ [10, 123, 125, 10, 77, 10, 1, 2]
/-- "dapr.io/enc/v1\n[]\nN\n" followed by one body byte -/
def docB : List Byte := schemeName ++ [10, 91, 93, 10, 78, 10, 9]

def progOf (ret : HeaderRet) (doc : List Byte) : List Instr :=
  decryptProg ret segmentSize 0 [doc] (bodyOf 0 doc)

/-- T1 up to and including the hook after `readHeader`; T2 completely, the pool handing it the
buffer T1 has just put back; then T1 to its end -/
def witnessSched (ret : HeaderRet) : List (Nat × Option Nat) :=
  List.replicate ((readHeaderProg ret segmentSize 0 [docA]).1.length + 1) (0, none)
  ++ (1, some 0) :: List.replicate (progOf ret docB).length (1, some 0)
  ++ List.replicate (progOf ret docA).length (0, some 0)

def witnessProgs (ret : HeaderRet) : Nat → List Instr
  | 0 => progOf ret docA
  | 1 => progOf ret docB
  | _ => []

def witnessFinal (ret : HeaderRet) : State := runSched (init (witnessProgs ret)) (witnessSched ret)

/-! ### several streams opened before any is read -/

/-- a Decrypt thread over a whole document delivered in `Read`s of at most `k` bytes (`0` = ONE
`Read` delivers everything up to the segment size: a `bytes.Reader`, a file) -/
def progOfS (sur : RetKind) (ret : HeaderRet) (k : Nat) (doc : List Byte) : List Instr :=
  decryptProgS sur ret segmentSize 0 (chunksOf (doc.length + 1) k (doc.take segmentSize)) (bodyOf 0 doc)

/-- number of instructions of `progOfS` up to and including the return of `Decrypt` (the `yield`
in front of the goroutine's part); the whole program when the header is refused -/
def openLen (ret : HeaderRet) (k : Nat) (doc : List Byte) : Nat :=
  let r := readHeaderProg ret segmentSize 0 (chunksOf (doc.length + 1) k (doc.take segmentSize))
  match r.2 with
  | none => r.1.length
  | some _ => r.1.length + 6

/-- streams = (read chunk, document) -/
def openProgs (sur : RetKind) (ret : HeaderRet) (docs : List (Nat × List Byte)) : Nat → List Instr :=
  fun t => match docs[t]? with
    | some d => progOfS sur ret d.1 d.2
    | none => []

/-- run thread `t` for `k` steps; at a `get` the pool hands out the buffer Put last, if any (the
per-P slot of `sync.Pool` under GOMAXPROCS=1) -/
def runLifo (s : State) (t : Nat) : Nat → State
  | 0 => s
  | k + 1 =>
    match step s t s.pool.head? with
    | some s' => runLifo s' t k
    | none => s

/-- "open all, then drain in `order`" as it runs under GOMAXPROCS=1 with readers and callbacks
that never block: every stream runs up to the return of its `Decrypt`, in index order, the
goroutines only queued; when the caller blocks in its first read, the goroutines run — the one
created last first (the scheduler's `runnext` slot), then the others in creation order —, each up
to the write of its segment into the pipe nobody reads yet, i.e. to just before its `Put`; the
drains then let them finish (`Put`) in the given order. -/
def openAllThenDrain (sur : RetKind) (ret : HeaderRet) (docs : List (Nat × List Byte)) (order : List Nat) : State :=
  let n := docs.length
  let s0 := init (openProgs sur ret docs)
  let s1 := (List.range n).foldl (fun s t => runLifo s t (openLen ret (docs.getD t (0, [])).1 (docs.getD t (0, [])).2)) s0
  let start := if n = 0 then [] else (n - 1) :: List.range (n - 1)
  let s2 := start.foldl (fun s t => runLifo s t ((s.thr t).prog.length - 1)) s1
  order.foldl (fun s t => runLifo s t 2) s2

/-! ## `byteslicepool` -/

/-- how far `ByteSlicePool.Get` clears a recycled slice (T1 fact) -/
inductive ZeroTo where
  | len | cap
  deriving DecidableEq, Repr

/-- a pooled slice: its cells and the length/capacity of the slice header that was `Put` -/
structure PSlice where
  cells : List Byte     -- the whole backing array, `cells.length = cap`
  len : Nat
  deriving DecidableEq, Repr

/-- `Get` on a recycled slice: zero `[0:len)` or `[0:cap)`, return `buf[:0]` -/
def bspGet (z : ZeroTo) (p : PSlice) : PSlice :=
  match z with
  | .len => { cells := List.replicate (min p.len p.cells.length) 0 ++ p.cells.drop p.len, len := 0 }
  | .cap => { cells := List.replicate p.cells.length 0, len := 0 }

/-- `Get` when the pool is empty -/
def bspFresh (cap : Nat) : PSlice := { cells := List.replicate cap 0, len := 0 }

/-- `Resize(orig, size)`: re-slice within the capacity, else a new array with a copy -/
def bspResize (p : PSlice) (size : Nat) : PSlice :=
  if size < p.cells.length then { p with len := size }
  else { cells := p.cells.take p.len ++ List.replicate (max size (p.cells.length * 2) - min p.len p.cells.length) 0, len := size }

/-- the elements `[0:len)` of a slice -/
def PSlice.elems (p : PSlice) : List Byte := p.cells.take p.len

/-! ### a statement that runs after the deferred Put -/

/-- `processSegments` with `defer clear(*buf)` registered BEFORE `defer BufPool.Put(buf)`: defers
run last-in-first-out, so the buffer is Put first and cleared (`k` cells) afterwards -/
def processSegmentsClearAfterPut (enc : Bool) (hb S k : Nat) (data : List Byte) : List Instr :=
  processSegmentsProg enc hb S data ++ [.write hb 0 (List.replicate k 0)]

/-- witness system: stream 0 with the late clear; stream 1 takes a buffer, writes, reads back -/
def afterPutWitnessProgs : Nat → List Instr
  | 0 => processSegmentsClearAfterPut true 0 segmentSize 4 [1, 2]
  | 1 => [.get, .write 0 0 [9, 9], .yield, .use ⟨0, 0, 2⟩, .put 0]
  | _ => []

/-- stream 0 up to and including its Put; stream 1 Gets the buffer and writes its data; stream 0's
clear; stream 1 reads its data back -/
def afterPutWitnessSched : List (Nat × Option Nat) :=
  List.replicate 6 (0, none) ++ [(1, some 0), (1, none), (0, none), (1, none), (1, none)]

/-! ### `ByteSlicePool` callers as threads of the ownership model -/

/-- `Resize(orig, size)` as buffer traffic. Within the capacity: none (the result is `orig[0:size]`,
the same array). Growing: `temp := make(…); copy(temp, orig)` into a NEW array; the original is
left alone — unless the source hands it to the pool (`putsOrig`, a T1 fact: is `Resize` among the
functions that call `Put`?). `h` = handle of `orig`, `nh` = next free handle, `len = len(orig)`. -/
def bspResizeProg (putsOrig : Bool) (h nh len : Nat) (grow : Bool) : List Instr :=
  if grow then [.alloc len, .copy ⟨nh, 0, len⟩ ⟨h, 0, len⟩] ++ (if putsOrig then [.put h] else [])
  else []

/-- a caller: `buf := Get(); defer Put(buf)`; write `vals`; `buf = Resize(buf, …)`; write `more`
behind them and read everything back; read the ORIGINAL once more (the caller still owns it);
Put the original, and the grown slice when there is one. -/
def bspCallerProg (putsOrig : Bool) (vals : List Byte) (grow : Bool) (more : List Byte) : List Instr :=
  [.get, .write 0 0 vals] ++ bspResizeProg putsOrig 0 1 vals.length grow
  ++ (if grow then [.write 1 vals.length more, .use ⟨1, 0, vals.length + more.length⟩]
      else [.write 0 vals.length more, .use ⟨0, 0, vals.length + more.length⟩])
  ++ [.use ⟨0, 0, vals.length⟩, .put 0] ++ (if grow then [.put 1] else [])

/-- a caller that only takes a slice, writes, (is descheduled,) reads back, and puts -/
def bspUserProg (vals : List Byte) : List Instr :=
  [.get, .write 0 0 vals, .yield, .use ⟨0, 0, vals.length⟩, .put 0]

/-- witness system for a `Resize` that pools its argument: caller 0 grows; callers 1 and 2 then
each take a slice -/
def bspWitnessProgs (putsOrig : Bool) : Nat → List Instr
  | 0 => bspCallerProg putsOrig [65, 65] true [65]
  | 1 => bspUserProg [66, 66]
  | 2 => bspUserProg [67, 67]
  | _ => []

/-- caller 0 completely; caller 1 Gets (the pool hands out array 0) and writes; caller 2 Gets
(array 0 again, if it is in the pool a second time; otherwise a fresh one) and writes; caller 1
reads back -/
def bspWitnessSched (second : Option Nat) : List (Nat × Option Nat) :=
  List.replicate 12 (0, none) ++ [(1, some 0), (1, none), (1, none), (2, second), (2, none), (1, none)]

/-! ## the logger registry and the package-level parser/logger variables -/

/-- registry operations: `NewLogger(name)` answers the identity (creation rank) of the logger
registered under `name`, creating it if absent; `getLoggers()` answers a copy of the registry -/
inductive RegOp where
  | newLogger (name : Nat)
  | snapshot
  deriving DecidableEq, Repr

inductive RegRet where
  | id (n : Nat)
  | names (l : List Nat)
  deriving DecidableEq, Repr

def regIndex : List Nat → Nat → Option Nat
  | [], _ => none
  | x :: xs, n => if x = n then some 0 else (regIndex xs n).map (· + 1)

/-- state = the registered names in creation order -/
def regApply (s : List Nat) : RegOp → List Nat × RegRet
  | .newLogger n =>
    match regIndex s n with
    | some i => (s, .id i)
    | none => (s ++ [n], .id s.length)
  | .snapshot => (s, .names s)

/-- a package-level variable that is only read after initialisation -/
structure SharedVar (α : Type) where
  val : α
  writes : List String     -- assignments to it / through it outside its declaration (T1 fact)

/-- operations on a process containing such a variable: readers copy the value, the listed
assignments (if any) could change it -/
inductive VarOp (α : Type) where
  | read
  | assign (site : String) (v : α)

def varStep {α : Type} (v : SharedVar α) : VarOp α → Option (SharedVar α)
  | .read => some v
  | .assign site x => if site ∈ v.writes then some { v with val := x } else none

/-! ### inventory of package-level variables (regenerated by factgen) and their classes -/

/-- a package-level variable of an anchored package with what the source does to it outside its
declaration / `init` -/
structure PkgVar where
  pkg : String
  name : String
  exported : Bool
  kind : String             -- error-value | basic | value(T) | struct-with-refs(T) | slice | map | array | interface | pointer-to-empty-struct(T) | sync.Pool | lock
  writes : List String      -- assignments (variable, elements, fields), inc/dec, address taken, delete/clear/copy-into/append-to, pointer-receiver calls on a struct value, writes through aliases and through parameters of callees, returned references
  calls : List String       -- methods called on it
  guardedBy : String        -- the lock every function touching it takes first ("" = none)
  deriving Repr, DecidableEq

inductive VarClass where
  | immutable   -- no write site anywhere in its package: every reader sees the initial value
  | config      -- exported, no write site in its package; assignable by client code — the property
                --   assumes clients assign it (if at all) before any operation starts
  | guarded     -- every access is inside a critical section of the named lock (the logger registry)
  | lock        -- the lock itself: only Lock/Unlock/RLock/RUnlock
  | pool        -- a sync.Pool used only through Get/Put, under the ownership discipline
  deriving Repr, DecidableEq

/-- the class of a variable; `none` = does not fit any class (must be looked at) -/
def classify (v : PkgVar) : Option VarClass :=
  if v.kind == "sync.Pool" then
    if v.writes.isEmpty && v.calls.all (fun c => c == "Get" || c == "Put") then some .pool else none
  else if v.kind == "lock" then
    if v.writes.isEmpty && v.calls.all (fun c => c == "Lock" || c == "Unlock" || c == "RLock" || c == "RUnlock") then some .lock else none
  else if v.guardedBy != "" then some .guarded
  else if !v.writes.isEmpty then none
  else if v.exported && v.kind != "error-value" then some .config
  else some .immutable

def PkgVar.qname (v : PkgVar) : String := v.pkg ++ "." ++ v.name

/-- a sequence of operations; `none` when one of them is not possible -/
def varRun {α : Type} (v : SharedVar α) : List (VarOp α) → Option (SharedVar α)
  | [] => some v
  | op :: rest =>
    match varStep v op with
    | some v' => varRun v' rest
    | none => none

/-- the sequential specification of the logger registry -/
def regSpec : Kit.Containers.Spec (List Nat) RegOp RegRet := Kit.Containers.Spec.ofFun [] regApply

/-- source function of a registry operation -/
def regMethod : RegOp → String
  | .newLogger _ => "NewLogger"
  | .snapshot => "getLoggers"

/-- what the registry model assumes of the source: get-or-create is ONE section under the write
lock, the snapshot ONE section that only reads (either lock mode) -/
def regExpectedShapes : List (String × Kit.Containers.Shape) := [("NewLogger", .write), ("getLoggers", .read)]

open Kit.Containers in
/-- every function touching `globalLoggers` is known to the model, is well locked and has the
assumed shape -/
def regFactsMatch (facts : List MethodFact) : Bool :=
  facts.all (·.wellLocked) &&
  regExpectedShapes.all (fun e =>
    match factFor facts "logger" e.1 with
    | some f => f.shape.provides e.2
    | none => false) &&
  facts.all (fun f => f.recv == "logger" && regExpectedShapes.any fun e => e.1 == f.method)

end Kit.PoolOwn
