import KitModel.NoPanic
/-!
C07 — the dapr/kit-side reflection / type-assertion logic of `/repo/metadata/{utils,duration,
string_decoders,bytesize_decoder}.go` and `/repo/config/{decode,normalize}.go`, at the level of
"kind of value" tags.  `mapstructure`, `cast`, `resource.ParseQuantity`, `time.ParseDuration`,
`strconv` are opaque: their results enter as boolean oracles over which the theorems quantify.
-/
namespace Kit.NoPanic.Decode
open Kit Kit.NoPanic

/-! ### dynamic types a decode hook can meet -/

inductive Ty where
  | string | namedString | int64 | duration | float64 | kitDuration | bool | boolPtr
  | stringSlice | stringSlicePtr | durationSlice | durationSlicePtr | byteSize | byteSizePtr
  | mapStringString | struct | int | other
  deriving Repr, DecidableEq

inductive Kind where
  | string | int64 | float64 | bool | ptr | slice | map | struct | int | other
  deriving Repr, DecidableEq

def Ty.kind : Ty → Kind
  | .string | .namedString => .string
  | .int64 | .duration => .int64      -- time.Duration's kind is Int64
  | .float64 => .float64
  | .kitDuration | .byteSize | .struct => .struct
  | .bool => .bool
  | .boolPtr | .stringSlicePtr | .durationSlicePtr | .byteSizePtr => .ptr
  | .stringSlice | .durationSlice => .slice
  | .mapStringString => .map
  | .int => .int
  | .other => .other

/-- unchecked `data.(T)`: `data`'s dynamic type is `f` (mapstructure passes `from.Type()`, `from.Interface()`). -/
def assertTy (f want : Ty) : Outcome Unit :=
  if f = want then .ok () else .panic "interface conversion"

/-- oracle results of the opaque library calls inside the hooks -/
structure Oracle where
  strEmpty : Bool      -- data.(string) == ""
  parseDurOk : Bool    -- time.ParseDuration
  parseIntOk : Bool    -- strconv.ParseInt
  castOk : Bool        -- cast.ToStringE
  quantityOk : Bool    -- resource.ParseQuantity

/-- `toTimeDurationArrayHookFunc` -/
def durArrHook (o : Oracle) (f t : Ty) : Outcome Ty :=
  if f = .string ∧ t = .durationSlice then
    (assertTy f .string).bind fun _ => if o.parseDurOk || o.parseIntOk then .ok .durationSlice else .err "parse"
  else if f = .string ∧ t = .durationSlicePtr then
    (assertTy f .string).bind fun _ => if o.parseDurOk || o.parseIntOk then .ok .durationSlicePtr else .err "parse"
  else .ok f

/-- `toTimeDurationHookFunc` (the second `case reflect.Int64` is unreachable: the first case has the same value) -/
def durHook (o : Oracle) (f t : Ty) : Outcome Ty :=
  if t ≠ .kitDuration ∧ t ≠ .duration then .ok f
  else
    let res : Ty := if t ≠ .kitDuration then .duration else .kitDuration
    match f.kind with
    | .int64 => (assertTy f .duration).bind fun _ => .ok .duration
    | .string =>
      (assertTy f .string).bind fun _ =>
        if o.strEmpty then .ok res
        else (assertTy f .string).bind fun _ =>
          if o.parseDurOk then .ok res
          else (assertTy f .string).bind fun _ => if o.parseIntOk then .ok res else .err "parse"
    | .float64 => (assertTy f .float64).bind fun _ => .ok res
    | _ => .ok f

/-- `toTruthyBoolHookFunc` -/
def truthyHook (f t : Ty) : Outcome Ty :=
  if f = .string ∧ t = .bool then (assertTy f .string).bind fun _ => .ok .bool
  else if f = .string ∧ t = .boolPtr then (assertTy f .string).bind fun _ => .ok .boolPtr
  else .ok f

/-- `toStringArrayHookFunc` -/
def strArrHook (f t : Ty) : Outcome Ty :=
  if f = .string ∧ t = .stringSlice then (assertTy f .string).bind fun _ => .ok .stringSlice
  else if f = .string ∧ t = .stringSlicePtr then (assertTy f .string).bind fun _ => .ok .stringSlicePtr
  else .ok f

/-- `toByteSizeHookFunc` -/
def byteSizeHook (o : Oracle) (f t : Ty) : Outcome Ty :=
  if t = .byteSize ∨ t = .byteSizePtr then
    if !o.castOk then .err "failed to cast value to string"
    else if !o.quantityOk then .err "value is not a valid quantity"
    else .ok t
  else .ok f

/-- `mapstructure.ComposeDecodeHookFunc`: each hook sees the previous hook's result and its type. -/
def hookChain (o : Oracle) (f t : Ty) : Outcome Ty :=
  (durArrHook o f t).bind fun f1 =>
    (durHook o f1 t).bind fun f2 =>
      (truthyHook f2 t).bind fun f3 =>
        (strArrHook f3 t).bind fun f4 => byteSizeHook o f4 t

/-- Source types `DecodeMetadata` can hand to the chain: it first converts its input with
`cast.ToStringMapStringE`, so mapstructure decodes a `map[string]string` — the map itself at the
top level and for `,squash` fields, and `string` values for every field. -/
def fromDecodeMetadata (f : Ty) : Prop := f = .string ∨ f = .mapStringString

/-! ### `DecodeMetadata`: the struct-input prefix -/

inductive PropsField where
  | absent | viaNilEmbeddedPtr | mapStringString | otherMap | notMap | unexported
  deriving Repr, DecidableEq

inductive Input where
  | structWith (p : PropsField)
  | notStruct
  deriving Repr, DecidableEq

/-- `fixed = false`: the code before the `fix:` commit (`v.FieldByName`, unchecked assertion). -/
def decodeMetadataPrefix (fixed : Bool) (inp : Input) (castOk : Bool) : Outcome Unit :=
  let cast : Outcome Unit := if castOk then .ok () else .err "input object cannot be cast to map[string]string"
  match inp with
  | .notStruct => cast
  | .structWith p =>
    if fixed then
      -- Type().FieldByName, FieldByIndexErr, Kind()==Map, CanInterface, comma-ok assertion
      cast
    else
      match p with
      | .viaNilEmbeddedPtr => .panic "reflect: indirection through nil pointer to embedded struct"
      | .otherMap => .panic "interface conversion"
      | .unexported => .panic "reflect.Value.Interface: unexported field"
      | _ => cast

/-! ### `resolveAliases` -/

inductive RKind where
  | nilType | ptrToStruct | ptrToPtrToStruct | ptrToOther | ptrToPtrToOther | nonPtr
  deriving Repr, DecidableEq

/-- `reflect.TypeOf(result)` is nil exactly when the caller passes a nil `result`: the method call
on the nil interface panics.  That is the caller's argument, not input. -/
def resolveAliases (dupKeys : Bool) (r : RKind) : Outcome Unit :=
  if dupKeys then .err "duplicate key"
  else match r with
    | .nilType => .panic "nil pointer dereference (Kind on a nil reflect.Type)"
    | .nonPtr => .err "not a pointer"
    | .ptrToStruct | .ptrToPtrToStruct => .ok ()
    | .ptrToOther | .ptrToPtrToOther => .err "not a struct"

/-! ### `config.decodeString` -/

/-- what `reflect.ValueOf(data).Elem()` finds behind a pointer, after unwrapping interfaces -/
inductive Pointee where
  | invalid | nilInterface | nilPointer | value
  deriving Repr, DecidableEq

structure CfgIn where
  tKind : Kind
  fKind : Kind                -- kind of `f`; if `.ptr`, `pointee` and `elemKind` describe `*data`
  pointee : Pointee
  elemKind : Kind
  dataIsString : Bool         -- the `data.(string)` comma-ok
  tImplements : Bool          -- t.Implements(StringDecoder)
  tIsPtr : Bool               -- t.Kind() == Ptr (Elem is legal, New(Elem) yields t)
  ptrToImplements : Bool      -- reflect.PtrTo(t).Implements(StringDecoder)
  decodeOk : Bool
  parseOk : Bool

/-- The pointer prefix: `fixed = false` is `data = reflect.ValueOf(data).Elem().Interface()` with no
nil check (the hook then returns a nil value and mapstructure calls `.Type()` on the zero
`reflect.Value`).  `.err` stands for `return data, nil` (value left to mapstructure). -/
def afterPtr (fixed : Bool) (c : CfgIn) : Outcome Kind :=
  if c.fKind = .ptr then
    match c.pointee with
    | .value => .ok c.elemKind
    | .invalid => if fixed then .err "returned unchanged" else .panic "reflect: call of reflect.Value.Interface on zero Value"
    | _ => if fixed then .err "returned unchanged" else .panic "reflect: call of reflect.Value.Type on zero Value"
  else .ok c.fKind

/-- from `if f.Kind() != reflect.String` to the end -/
def decodeTail (c : CfgIn) (fk : Kind) : Outcome Unit :=
  if fk ≠ .string then .ok ()
  else if !c.dataIsString then .err "expected string"
  else if c.tImplements then
    -- reflect.New(t.Elem()).Interface().(StringDecoder)
    if c.tIsPtr then (if c.decodeOk then .ok () else .err "invalid")
    else .panic "reflect: Elem of invalid type / interface conversion"
  else if c.ptrToImplements then (if c.decodeOk then .ok () else .err "invalid")
  else if c.parseOk then .ok () else .err "invalid"

def decodeString (fixed : Bool) (c : CfgIn) : Outcome Unit :=
  if c.tKind = .string ∧ c.fKind ≠ .string then .ok ()
  else
    match afterPtr fixed c with
    | .panic w => .panic w
    | .err _ => .ok ()      -- `return data, nil`
    | .ok fk => decodeTail c fk

/-! ### `metadata.exponentTooLarge` (bytesize_decoder.go, fix a0f5161) -/

/-- `strings.LastIndexAny(str, "eE")`: the library's post-condition is `-1 ≤ i < len(str)` -/
def lastIdxE : Bytes → Nat → Option Nat → Option Nat
  | [], _, acc => acc
  | c :: cs, i, acc => lastIdxE cs (i + 1) (if c == 101 || c == 69 then some i else acc)

def isDigit (c : UInt8) : Bool := 48 ≤ c.toNat && c.toNat ≤ 57

/-- `true` = the value ends in a decimal exponent beyond `maxQuantityExponent` (refused before
`resource.ParseQuantity` would compute 10^|exponent|). -/
def exponentTooLarge (str : Bytes) : Outcome Bool :=
  match lastIdxE str 0 none with
  | none => .ok false                                        -- i < 0
  | some i =>
    if i + 1 = str.length then .ok false                     -- i == len(str)-1
    else
      (slice str (i + 1) str.length).bind fun digits =>      -- str[i+1:]
        (idx digits 0).bind fun c0 =>                        -- digits[0] == '+'
          (if c0 == 43 then .ok true else (idx digits 0).bind fun c1 => .ok (c1 == 45)).bind fun signed =>
            (if signed then slice digits 1 digits.length else .ok digits).bind fun d =>   -- digits[1:]
              if d == [] then .ok false
              else if !d.all isDigit then .ok false
              else match atoi d with
                | none => .ok true
                | some n => .ok (decide (n > 1000))

/-- the ByteSize hook around `resource.ParseQuantity`: what string, if any, is handed to the parser.
The guard is evaluated on `str` and the parser gets the same `str` (T1: the inventory checks that the
call's argument expression is textually the guard's argument and that no assignment lies between). -/
def quantityCall (str : Bytes) : Outcome Bytes :=
  (exponentTooLarge str).bind fun big =>
    if big then .err "value is not a valid quantity: exponent out of range" else .ok str

/-! ### `config.Normalize` -/

inductive Val where
  | scalar
  | mapAny (kvs : List (Bool × Val))   -- map[interface{}]interface{}; the Bool says "key is a string"
  | mapStr (vs : List Val)             -- map[string]interface{}
  | list (vs : List Val)

mutual
def normalize : Val → Outcome Unit
  | .scalar => .ok ()
  | .mapAny kvs => normalizeKVs kvs
  | .mapStr vs => normalizeAll vs
  | .list vs => normalizeAll vs
def normalizeAll : List Val → Outcome Unit
  | [] => .ok ()
  | v :: vs => (normalize v).bind fun _ => normalizeAll vs
def normalizeKVs : List (Bool × Val) → Outcome Unit
  | [] => .ok ()
  | (isStr, v) :: rest =>
    if isStr then (normalize v).bind fun _ => normalizeKVs rest else .err "error parsing config field"
end

end Kit.NoPanic.Decode
