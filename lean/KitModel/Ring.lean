/-
Model of `/repo/ring/ring.go` (generic copy of `container/ring`) on a heap of nodes, and of
`/repo/ring/buffered.go` on top of it.  Core Lean only.

A `*Ring[T]` is an index into the heap (`nil` = `none`).  A node holds `next`, `prev`, `Value`.
Go's lazily initialised zero `Ring{}` (`next == nil`, every method calls `init` before it looks)
is modelled by `alloc` creating the node already self-linked; no method can observe the difference.
Loops that Go runs "until the pointer comes back" (`Len`, `Do`) carry a fuel equal to the heap size;
`KitProofs` shows that fuel suffices for every well-formed ring.
-/
namespace Kit.Ring

structure Node (α : Type) where
  next : Nat
  prev : Nat
  val : α
  deriving Repr

abbrev Heap (α : Type) := Array (Node α)

variable {α : Type}

/-! ### field access (out-of-range reads give a self-loop / the default value; never happens on
well-formed rings) -/

def nx (h : Heap α) (i : Nat) : Nat := match h[i]? with | some n => n.next | none => i
def pv (h : Heap α) (i : Nat) : Nat := match h[i]? with | some n => n.prev | none => i
def vl [Inhabited α] (h : Heap α) (i : Nat) : α := match h[i]? with | some n => n.val | none => default

def setNext (h : Heap α) (i v : Nat) : Heap α := h.modify i fun n => { n with next := v }
def setPrev (h : Heap α) (i v : Nat) : Heap α := h.modify i fun n => { n with prev := v }
def setVal (h : Heap α) (i : Nat) (v : α) : Heap α := h.modify i fun n => { n with val := v }

/-- `new(Ring[T])` followed by the `init()` every method performs first. -/
def alloc (h : Heap α) (v : α) : Heap α × Nat :=
  (h.push { next := h.size, prev := h.size, val := v }, h.size)

/-! ### ring.go -/

/-- `r.Next()` -/
def next (h : Heap α) (r : Nat) : Nat := nx h r
/-- `r.Prev()` -/
def prev (h : Heap α) (r : Nat) : Nat := pv h r

def iter (f : Nat → Nat) : Nat → Nat → Nat
  | 0, r => r
  | k + 1, r => iter f k (f r)

/-- `r.Move(n)`: `n < 0` follows `prev`, `n > 0` follows `next`. -/
def move (h : Heap α) (r : Nat) (n : Int) : Nat :=
  if n < 0 then iter (pv h) (-n).toNat r else iter (nx h) n.toNat r

/-- the loop of `New`: append `k` more nodes after `p`, each linked back to its predecessor. -/
def newLoop (v : α) : Nat → Heap α → Nat → Heap α × Nat
  | 0, h, p => (h, p)
  | k + 1, h, p =>
    let q := h.size
    let h := h.push { next := q, prev := p, val := v }
    let h := setNext h p q
    newLoop v k h q

/-- `New[T](n)`; `v` is the zero value of `T`. -/
def new (h : Heap α) (n : Int) (v : α) : Heap α × Option Nat :=
  if n ≤ 0 then (h, none)
  else
    let r := h.size
    let h := h.push { next := r, prev := r, val := v }
    let (h, p) := newLoop v (n.toNat - 1) h r
    let h := setNext h p r
    let h := setPrev h r p
    (h, some r)

/-- `r.Link(s)` -/
def link (h : Heap α) (r : Nat) (s : Option Nat) : Heap α × Nat :=
  let n := nx h r
  match s with
  | none => (h, n)
  | some s =>
    let p := pv h s
    let h := setNext h r s
    let h := setPrev h s r
    let h := setPrev h n p
    let h := setNext h p n
    (h, n)

/-- `r.Unlink(n)` -/
def unlink (h : Heap α) (r : Nat) (n : Int) : Heap α × Option Nat :=
  if n ≤ 0 then (h, none)
  else
    let (h, x) := link h r (some (move h r (n + 1)))
    (h, some x)

def lenLoop (h : Heap α) (r : Nat) : Nat → Nat → Nat → Nat
  | 0, _, acc => acc
  | fuel + 1, p, acc => if p = r then acc else lenLoop h r fuel (nx h p) (acc + 1)

/-- `r.Len()` for a non-nil `r`. -/
def len (h : Heap α) (r : Nat) : Nat := lenLoop h r h.size (nx h r) 1

/-- `r.Len()` including the nil receiver. -/
def lenOpt (h : Heap α) : Option Nat → Nat
  | none => 0
  | some r => len h r

def doLoop [Inhabited α] (h : Heap α) (r : Nat) : Nat → Nat → List α → List α
  | 0, _, acc => acc.reverse
  | fuel + 1, p, acc => if p = r then acc.reverse else doLoop h r fuel (nx h p) (vl h p :: acc)

/-- `r.Do(f)`: the values passed to `f`, in order. -/
def doAll [Inhabited α] (h : Heap α) : Option Nat → List α
  | none => []
  | some r => doLoop h r h.size (nx h r) [vl h r]


/-! ### heap-changing ring operations as data (for statements over all operation sequences) -/

inductive ROp where
  | new (n : Int)
  | zero
  | link (r : Nat) (s : Option Nat)
  | unlink (r : Nat) (n : Int)
  | set (r : Nat) (v : Int)
  deriving Repr

/-- pointers must be allocated nodes (Go would dereference nil / garbage otherwise) -/
def ringStep (h : Heap Int) : ROp → Heap Int
  | .new n => (Ring.new h n 0).1
  | .zero => (alloc h 0).1
  | .link r s => if r < h.size ∧ (∀ s', s = some s' → s' < h.size) then (link h r s).1 else h
  | .unlink r n => if r < h.size then (unlink h r n).1 else h
  | .set r v => setVal h r v

/-! ### buffered.go — `Buffered[T]` with `*T` modelled as `Option Nat` -/

structure Buf where
  heap : Heap (Option Nat)
  ring : Nat
  «end» : Int
  bsize : Int
  deriving Repr

/-- `NewBuffered(initialSize, bufferSize)` -/
def Buf.new (initial bsize : Int) : Buf :=
  let initial := if initial < 1 then 1 else initial
  let bsize := if bsize < 1 then 1 else bsize
  match Ring.new (#[] : Heap (Option Nat)) initial none with
  | (h, some r) => { heap := h, ring := r, «end» := 0, bsize := bsize }
  | (h, none) => { heap := h, ring := 0, «end» := 0, bsize := bsize }  -- unreachable: initial ≥ 1

/-- `b.AppendBack(value)` -/
def Buf.appendBack (b : Buf) (value : Option Nat) : Buf :=
  let h :=
    if b.end ≥ (Ring.len b.heap b.ring : Int) then
      let (h, s) := Ring.new b.heap b.bsize none
      (link h (move h b.ring (b.end - 1)) s).1
    else b.heap
  let h := setVal h (move h b.ring b.end) value
  { b with heap := h, «end» := b.end + 1 }

/-- `b.Len()` -/
def Buf.len (b : Buf) : Int := b.end

def rangeLoop (h : Heap (Option Nat)) (stop : Option Nat → Bool) : Nat → Nat → List (Option Nat) → List (Option Nat)
  | 0, _, acc => acc.reverse
  | k + 1, x, acc =>
    let v := vl h x
    if stop v then (v :: acc).reverse else rangeLoop h stop k (nx h x) (v :: acc)

/-- `b.Range(fn)`: the values passed to `fn`, where `fn` returns false exactly on `stop v`. -/
def Buf.range (b : Buf) (stop : Option Nat → Bool) : List (Option Nat) :=
  rangeLoop b.heap stop b.end.toNat b.ring []

/-- `b.Front()` -/
def Buf.front (b : Buf) : Option Nat := vl b.heap b.ring

/-- `b.RemoveFront()` as repaired (`fix:` commit): no-op returning nil on an empty buffer. -/
def Buf.removeFront (b : Buf) : Buf × Option Nat :=
  if b.end = 0 then (b, none)
  else
    let h := setVal b.heap b.ring none
    let r := nx h b.ring
    let e := b.end - 1
    let h := if (Ring.len h r : Int) - e > b.bsize * 2 then (unlink h (move h r e) b.bsize).1 else h
    ({ b with heap := h, ring := r, «end» := e }, vl h r)

/-- `b.RemoveFront()` as found on the unchanged tree (no emptiness guard). -/
def Buf.removeFrontOld (b : Buf) : Buf × Option Nat :=
  let h := setVal b.heap b.ring none
  let r := nx h b.ring
  let e := b.end - 1
  let h := if (Ring.len h r : Int) - e > b.bsize * 2 then (unlink h (move h r e) b.bsize).1 else h
  ({ b with heap := h, ring := r, «end» := e }, vl h r)

/-! ### the specification: a plain list queue -/

structure Queue where
  items : List (Option Nat)
  deriving Repr

inductive BOp where
  | append (v : Option Nat)
  | removeFront
  | front
  | len
  | range (stopAt : Option (Option Nat))   -- `fn` returns false on this value (none = never)
  deriving Repr

inductive BOut where
  | unit
  | val (v : Option Nat)
  | int (n : Int)
  | vals (vs : List (Option Nat))
  deriving Repr, DecidableEq

def stopFn : Option (Option Nat) → Option Nat → Bool
  | none, _ => false
  | some a, v => v == a

/-- values visited by `Range` on a list: up to and including the first one on which `fn` is false -/
def takeUntil (stop : Option Nat → Bool) : List (Option Nat) → List (Option Nat)
  | [] => []
  | v :: vs => if stop v then [v] else v :: takeUntil stop vs

def Queue.step (q : List (Option Nat)) : BOp → List (Option Nat) × BOut
  | .append v => (q ++ [v], .unit)
  | .removeFront => (q.tail, .val (q.tail.head?.getD none))
  | .front => (q, .val (q.head?.getD none))
  | .len => (q, .int q.length)
  | .range s => (q, .vals (takeUntil (stopFn s) q))

def Buf.step (b : Buf) : BOp → Buf × BOut
  | .append v => (b.appendBack v, .unit)
  | .removeFront => let (b, v) := b.removeFront; (b, .val v)
  | .front => (b, .val b.front)
  | .len => (b, .int b.len)
  | .range s => (b, .vals (b.range (stopFn s)))

def Buf.stepOld (b : Buf) : BOp → Buf × BOut
  | .removeFront => let (b, v) := b.removeFrontOld; (b, .val v)
  | op => b.step op

def Buf.run (b : Buf) : List BOp → List BOut
  | [] => []
  | op :: ops => let (b', o) := b.step op; o :: Buf.run b' ops

def Queue.run (q : List (Option Nat)) : List BOp → List BOut
  | [] => []
  | op :: ops => let (q', o) := Queue.step q op; o :: Queue.run q' ops

end Kit.Ring
