/-
Model of `/repo/ring/ring.go` (generic copy of `container/ring`) on a heap of nodes, and of
`/repo/ring/buffered.go` on top of it.  Core Lean only.

A `*Ring[T]` is an index into the heap (`nil` = `none`).  A node holds `next`, `prev` (both
`Option Nat`: Go's nil) and `Value`.  A zero-value / literal `Ring{}` has `next = prev = nil`; the
methods initialise it lazily exactly where the Go code does (`initNode` = `r.init()` when
`r.next == nil`).  Two layers:

* the *logical* layer (`nx`, `pv`, `move`, `link`, `len`, `doAll` …) reads a nil link as a link to
  the node itself — an uninitialised node *is* a one-element ring — and performs the same field
  writes as the code (including `init`);
* the *Go* layer (`Go.next`, `Go.link`, `Go.len`, `Go.doAll` …) follows the code statement by
  statement over the raw fields, in `Outcome`: dereferencing nil is a panic.  `KitProofs` shows that
  on every heap reachable by ring operations it never panics and equals the logical layer.

Loops that Go runs "until the pointer comes back" (`Len`, `Do`) carry a fuel equal to the heap size;
`KitProofs` shows that fuel suffices for every well-formed ring.
-/
import KitModel.Go.Prelude
import KitModel.Containers
namespace Kit.Ring

structure Node (α : Type) where
  next : Option Nat
  prev : Option Nat
  val : α
  deriving Repr

abbrev Heap (α : Type) := Array (Node α)

variable {α : Type}

/-! ### field access -/

/-- the raw fields (`none` = nil, also for a dangling index) -/
def rawNext (h : Heap α) (i : Nat) : Option Nat := match h[i]? with | some n => n.next | none => none
def rawPrev (h : Heap α) (i : Nat) : Option Nat := match h[i]? with | some n => n.prev | none => none

/-- logical links: a nil link counts as a link to the node itself -/
def nx (h : Heap α) (i : Nat) : Nat := (rawNext h i).getD i
def pv (h : Heap α) (i : Nat) : Nat := (rawPrev h i).getD i
def vl [Inhabited α] (h : Heap α) (i : Nat) : α := match h[i]? with | some n => n.val | none => default

def setNext (h : Heap α) (i v : Nat) : Heap α := h.modify i fun n => { n with next := some v }
def setPrev (h : Heap α) (i v : Nat) : Heap α := h.modify i fun n => { n with prev := some v }
def setVal (h : Heap α) (i : Nat) (v : α) : Heap α := h.modify i fun n => { n with val := v }

/-- logical effect of `if r.next == nil { r.init() }` (what every method does first): nil links
become self links.  (`Go.init` below writes both fields as the code does; the two coincide whenever
`next == nil` implies `prev == nil`, which holds at every method boundary.) -/
def initNode (h : Heap α) (r : Nat) : Heap α :=
  h.modify r fun n => { n with next := some (n.next.getD r), prev := some (n.prev.getD r) }

/-- `new(Ring[T])` / `&Ring[T]{Value: v}`: an uninitialised element -/
def alloc (h : Heap α) (v : α) : Heap α × Nat :=
  (h.push { next := none, prev := none, val := v }, h.size)

/-! ### ring.go, logical layer -/

/-- `r.Next()` (value; the heap effect is `initNode h r`) -/
def next (h : Heap α) (r : Nat) : Nat := nx h r
/-- `r.Prev()` (value; the heap effect is `initNode h r`) -/
def prev (h : Heap α) (r : Nat) : Nat := pv h r

def iter (f : Nat → Nat) : Nat → Nat → Nat
  | 0, r => r
  | k + 1, r => iter f k (f r)

/-- `r.Move(n)` (value; the heap effect is `initNode h r`): `n < 0` follows `prev`, `n > 0` follows `next`. -/
def move (h : Heap α) (r : Nat) (n : Int) : Nat :=
  if n < 0 then iter (pv h) (-n).toNat r else iter (nx h) n.toNat r

/-- the loop of `New`: append `k` more nodes after `p`, each linked back to its predecessor. -/
def newLoop (v : α) : Nat → Heap α → Nat → Heap α × Nat
  | 0, h, p => (h, p)
  | k + 1, h, p =>
    let q := h.size
    let h := h.push { next := none, prev := some p, val := v }
    let h := setNext h p q
    newLoop v k h q

/-- `New[T](n)`; `v` is the zero value of `T`. -/
def new (h : Heap α) (n : Int) (v : α) : Heap α × Option Nat :=
  if n ≤ 0 then (h, none)
  else
    let r := h.size
    let h := h.push { next := none, prev := none, val := v }
    let (h, p) := newLoop v (n.toNat - 1) h r
    let h := setNext h p r
    let h := setPrev h r p
    (h, some r)

/-- `r.Link(s)` -/
def link (h : Heap α) (r : Nat) (s : Option Nat) : Heap α × Nat :=
  let h := initNode h r          -- n := r.Next()
  let n := nx h r
  match s with
  | none => (h, n)
  | some s =>
    let h := initNode h s        -- p := s.Prev()
    let p := pv h s
    let h := setNext h r s
    let h := setPrev h s r
    let h := setPrev h n p
    let h := setNext h p n
    (h, n)

/-- `r.Unlink(n)` -/
def unlink (h : Heap α) (r : Nat) (n : Int) : Heap α × Option Nat :=
  if n ≤ 0 then (h, none)
  else
    let (h, x) := link (initNode h r) r (some (move h r (n + 1)))
    (h, some x)

def lenLoop (h : Heap α) (r : Nat) : Nat → Nat → Nat → Nat
  | 0, _, acc => acc
  | fuel + 1, p, acc => if p = r then acc else lenLoop h r fuel (nx h p) (acc + 1)

/-- `r.Len()` for a non-nil `r` (value; the heap effect is `initNode h r`). -/
def len (h : Heap α) (r : Nat) : Nat := lenLoop h r h.size (nx h r) 1

/-- `r.Len()` including the nil receiver. -/
def lenOpt (h : Heap α) : Option Nat → Nat
  | none => 0
  | some r => len h r

def doLoop [Inhabited α] (h : Heap α) (r : Nat) : Nat → Nat → List α → List α
  | 0, _, acc => acc.reverse
  | fuel + 1, p, acc => if p = r then acc.reverse else doLoop h r fuel (nx h p) (vl h p :: acc)

/-- `r.Do(f)`: the values passed to `f`, in order (the heap effect is `initNode h r`). -/
def doAll [Inhabited α] (h : Heap α) : Option Nat → List α
  | none => []
  | some r => doLoop h r h.size (nx h r) [vl h r]

/-! ### ring.go, Go layer: statement by statement over the raw fields; nil dereference panics -/
namespace Go

/-- `p.f` for a pointer `p` that must not be nil -/
def deref (what : String) : Option Nat → Outcome Nat
  | some i => .ok i
  | none => .panic ("nil pointer dereference: " ++ what)

/-- `func (r *Ring) init()`: `r.next = r; r.prev = r` -/
def init (h : Heap α) (r : Nat) : Heap α :=
  h.modify r fun n => { n with next := some r, prev := some r }

/-- `func (r *Ring) Next()`: `if r.next == nil { return r.init() }; return r.next` -/
def next (h : Heap α) (r : Nat) : Outcome (Heap α × Nat) :=
  match rawNext h r with
  | none => .ok (init h r, r)
  | some n => .ok (h, n)

/-- `func (r *Ring) Prev()`; a nil `prev` behind a non-nil `next` would be returned as nil and
blow up at the caller's next dereference: modelled as a panic here -/
def prev (h : Heap α) (r : Nat) : Outcome (Heap α × Nat) :=
  match rawNext h r with
  | none => .ok (init h r, r)
  | some _ => do let p ← deref "r.prev" (rawPrev h r); pure (h, p)

def walk (h : Heap α) (field : Heap α → Nat → Option Nat) (what : String) : Nat → Nat → Outcome Nat
  | 0, r => .ok r
  | k + 1, r => do let r' ← deref what (field h r); walk h field what k r'

/-- `func (r *Ring) Move(n int)` -/
def move (h : Heap α) (r : Nat) (n : Int) : Outcome (Heap α × Nat) :=
  match rawNext h r with
  | none => .ok (init h r, r)
  | some _ =>
    if n < 0 then do let x ← walk h rawPrev "r = r.prev" (-n).toNat r; pure (h, x)
    else do let x ← walk h rawNext "r = r.next" n.toNat r; pure (h, x)

/-- `func (r *Ring) Link(s *Ring)` -/
def link (h : Heap α) (r : Nat) (s : Option Nat) : Outcome (Heap α × Nat) := do
  let (h, n) ← next h r
  match s with
  | none => pure (h, n)
  | some s =>
    let (h, p) ← prev h s
    let h := setNext h r s
    let h := setPrev h s r
    let h := setPrev h n p
    let h := setNext h p n
    pure (h, n)

/-- `func (r *Ring) Unlink(n int)` -/
def unlink (h : Heap α) (r : Nat) (n : Int) : Outcome (Heap α × Option Nat) :=
  if n ≤ 0 then .ok (h, none)
  else do
    let (h, m) ← move h r (n + 1)
    let (h, x) ← link h r (some m)
    pure (h, some x)

/-- the loop `for p := …; p != r; p = p.next { n++ }` -/
def lenLoop (h : Heap α) (r : Nat) : Nat → Nat → Nat → Outcome Nat
  | 0, _, acc => .ok acc
  | fuel + 1, p, acc =>
    if p = r then .ok acc else do let q ← deref "p = p.next" (rawNext h p); lenLoop h r fuel q (acc + 1)

/-- `func (r *Ring) Len()` -/
def len (h : Heap α) : Option Nat → Outcome (Heap α × Nat)
  | none => .ok (h, 0)
  | some r => do
    let (h, p) ← next h r
    let n ← lenLoop h r h.size p 1
    pure (h, n)

def doLoop [Inhabited α] (h : Heap α) (r : Nat) : Nat → Nat → List α → Outcome (List α)
  | 0, _, acc => .ok acc.reverse
  | fuel + 1, p, acc =>
    if p = r then .ok acc.reverse
    else do let q ← deref "p = p.next" (rawNext h p); doLoop h r fuel q (vl h p :: acc)

/-- `func (r *Ring) Do(f)`: `f(r.Value)` first, then `for p := r.Next(); p != r; p = p.next { f(p.Value) }` -/
def doAll [Inhabited α] (h : Heap α) : Option Nat → Outcome (Heap α × List α)
  | none => .ok (h, [])
  | some r => do
    let v := vl h r
    let (h, p) ← next h r
    let vs ← doLoop h r h.size p [v]
    pure (h, vs)

end Go

/-! ### heap-changing ring operations as data (for statements over all operation sequences) -/

inductive ROp where
  | new (n : Int)
  | zero (v : Int)                       -- `new(Ring)` / `&Ring{Value: v}`
  | touch (r : Nat)                      -- the heap effect of Next/Prev/Move/Len/Do on `r`
  | link (r : Nat) (s : Option Nat)
  | unlink (r : Nat) (n : Int)
  | set (r : Nat) (v : Int)
  deriving Repr

/-- pointers must be allocated nodes (Go would dereference nil / garbage otherwise) -/
def ringStep (h : Heap Int) : ROp → Heap Int
  | .new n => (Ring.new h n 0).1
  | .zero v => (alloc h v).1
  | .touch r => initNode h r
  | .link r s => if r < h.size ∧ (∀ s', s = some s' → s' < h.size) then (link h r s).1 else h
  | .unlink r n => if r < h.size then (unlink h r n).1 else h
  | .set r v => setVal h r v

/-! ### buffered.go — `Buffered[T]` with `*T` modelled as `Option Nat` -/

structure Buf where
  heap : Heap (Option Nat)
  ring : Nat
  «end» : Int
  bsize : Int
  deriving Repr

/-- `NewBuffered(initialSize, bufferSize)` -/
def Buf.new (initial bsize : Int) : Buf :=
  let initial := if initial < 1 then 1 else initial
  let bsize := if bsize < 1 then 1 else bsize
  match Ring.new (#[] : Heap (Option Nat)) initial none with
  | (h, some r) => { heap := h, ring := r, «end» := 0, bsize := bsize }
  | (h, none) => { heap := h, ring := 0, «end» := 0, bsize := bsize }  -- unreachable: initial ≥ 1

/-- `b.AppendBack(value)` -/
def Buf.appendBack (b : Buf) (value : Option Nat) : Buf :=
  let h :=
    if b.end ≥ (Ring.len b.heap b.ring : Int) then
      let (h, s) := Ring.new b.heap b.bsize none
      (link h (move h b.ring (b.end - 1)) s).1
    else b.heap
  let h := setVal h (move h b.ring b.end) value
  { b with heap := h, «end» := b.end + 1 }

/-- `b.Len()` -/
def Buf.len (b : Buf) : Int := b.end

def rangeLoop (h : Heap (Option Nat)) (stop : Option Nat → Bool) : Nat → Nat → List (Option Nat) → List (Option Nat)
  | 0, _, acc => acc.reverse
  | k + 1, x, acc =>
    let v := vl h x
    if stop v then (v :: acc).reverse else rangeLoop h stop k (nx h x) (v :: acc)

/-- `b.Range(fn)`: the values passed to `fn`, where `fn` returns false exactly on `stop v`. -/
def Buf.range (b : Buf) (stop : Option Nat → Bool) : List (Option Nat) :=
  rangeLoop b.heap stop b.end.toNat b.ring []

/-- `b.Front()` -/
def Buf.front (b : Buf) : Option Nat := vl b.heap b.ring

/-- `b.RemoveFront()` as repaired (`fix:` commit): no-op returning nil on an empty buffer. -/
def Buf.removeFront (b : Buf) : Buf × Option Nat :=
  if b.end = 0 then (b, none)
  else
    let h := setVal b.heap b.ring none
    let r := nx h b.ring
    let e := b.end - 1
    let h := if (Ring.len h r : Int) - e > b.bsize * 2 then (unlink h (move h r e) b.bsize).1 else h
    ({ b with heap := h, ring := r, «end» := e }, vl h r)

/-- `b.RemoveFront()` as found on the unchanged tree (no emptiness guard). -/
def Buf.removeFrontOld (b : Buf) : Buf × Option Nat :=
  let h := setVal b.heap b.ring none
  let r := nx h b.ring
  let e := b.end - 1
  let h := if (Ring.len h r : Int) - e > b.bsize * 2 then (unlink h (move h r e) b.bsize).1 else h
  ({ b with heap := h, ring := r, «end» := e }, vl h r)

/-! ### the specification: a plain list queue -/

structure Queue where
  items : List (Option Nat)
  deriving Repr

inductive BOp where
  | append (v : Option Nat)
  | removeFront
  | front
  | len
  | range (stopAt : Option (Option Nat))   -- `fn` returns false on this value (none = never)
  deriving Repr

inductive BOut where
  | unit
  | val (v : Option Nat)
  | int (n : Int)
  | vals (vs : List (Option Nat))
  deriving Repr, DecidableEq

def stopFn : Option (Option Nat) → Option Nat → Bool
  | none, _ => false
  | some a, v => v == a

/-- values visited by `Range` on a list: up to and including the first one on which `fn` is false -/
def takeUntil (stop : Option Nat → Bool) : List (Option Nat) → List (Option Nat)
  | [] => []
  | v :: vs => if stop v then [v] else v :: takeUntil stop vs

def Queue.step (q : List (Option Nat)) : BOp → List (Option Nat) × BOut
  | .append v => (q ++ [v], .unit)
  | .removeFront => (q.tail, .val (q.tail.head?.getD none))
  | .front => (q, .val (q.head?.getD none))
  | .len => (q, .int q.length)
  | .range s => (q, .vals (takeUntil (stopFn s) q))

def Buf.step (b : Buf) : BOp → Buf × BOut
  | .append v => (b.appendBack v, .unit)
  | .removeFront => let (b, v) := b.removeFront; (b, .val v)
  | .front => (b, .val b.front)
  | .len => (b, .int b.len)
  | .range s => (b, .vals (b.range (stopFn s)))

def Buf.stepOld (b : Buf) : BOp → Buf × BOut
  | .removeFront => let (b, v) := b.removeFrontOld; (b, .val v)
  | op => b.step op

def Buf.run (b : Buf) : List BOp → List BOut
  | [] => []
  | op :: ops => let (b', o) := b.step op; o :: Buf.run b' ops

def Queue.run (q : List (Option Nat)) : List BOp → List BOut
  | [] => []
  | op :: ops => let (q', o) := Queue.step q op; o :: Queue.run q' ops

/-! ### the same, with thresholds / offsets / guards taken from the facts extracted from the
source (`factgen_c14`): this is what the driver runs, so the differential follows the source;
`KitProofs` shows that with the expected facts it is the model above. -/
section facts
open Kit.Containers (BufferedFacts)

def exceeds (strict : Bool) (a b : Int) : Bool := if strict then decide (a > b) else decide (a ≥ b)

def Buf.newF (F : BufferedFacts) (initial bsize : Int) : Buf :=
  let initial := if initial < F.minInitial then F.minInitial else initial
  let bsize := if bsize < F.minBuffer then F.minBuffer else bsize
  match Ring.new (#[] : Heap (Option Nat)) initial none with
  | (h, some r) => { heap := h, ring := r, «end» := F.endInit, bsize := bsize }
  | (h, none) => { heap := h, ring := 0, «end» := F.endInit, bsize := bsize }

def Buf.appendBackF (F : BufferedFacts) (b : Buf) (value : Option Nat) : Buf :=
  let h :=
    if (if F.growWhenEndGeLen then decide (b.end ≥ (Ring.len b.heap b.ring : Int)) else decide (b.end > (Ring.len b.heap b.ring : Int))) then
      let (h, s) := Ring.new b.heap b.bsize none
      (link h (move h b.ring (b.end + F.growAt)) s).1
    else b.heap
  let h := setVal h (move h b.ring b.end) value
  { b with heap := h, «end» := b.end + 1 }

def Buf.removeFrontF (F : BufferedFacts) (b : Buf) : Buf × Option Nat :=
  if F.emptyGuard = true ∧ b.end = 0 then (b, none)
  else
    let h := setVal b.heap b.ring none
    let r := nx h b.ring
    let e := b.end - 1
    let h := if exceeds F.shrinkStrict ((Ring.len h r : Int) - e) (b.bsize * F.shrinkFactor)
      then (unlink h (move h r (e + F.shrinkAt)) b.bsize).1 else h
    ({ b with heap := h, ring := r, «end» := e }, vl h r)

def Buf.stepF (F : BufferedFacts) (b : Buf) : BOp → Buf × BOut
  | .append v => (b.appendBackF F v, .unit)
  | .removeFront => let (b, v) := b.removeFrontF F; (b, .val v)
  | .front => (b, .val b.front)
  | .len => (b, .int b.len)
  | .range s => (b, .vals (b.range (stopFn s)))

def Buf.runF (F : BufferedFacts) (b : Buf) : List BOp → List BOut
  | [] => []
  | op :: ops => let (b', o) := b.stepF F op; o :: Buf.runF F b' ops

end facts

end Kit.Ring
