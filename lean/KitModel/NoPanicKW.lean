import KitModel.NoPanic
/-!
C07 — length-level (index-level) model of `/repo/crypto/aeskw/keywrap.go`.

C03's model of `Wrap`/`Unwrap` is functional (what bytes come out); this one keeps only the
*lengths* of every slice and performs every index, slice, `make` and contract-carrying call of the
Go text as an `Outcome`-valued check, so "never panics" is about the actual index arithmetic:
`r[i]`, `cek[i*8:]`, `arrays[0]`, `arrays[1:]`, `arrL[x] ^ arrR[x]`, `b[:len(b)/2]`,
`c[(i*8)+j]`, `block.Encrypt(b, b)` (needs 16 bytes), `PutUint64(tBytes, …)` (needs 8).
-/
namespace Kit.NoPanic.KW
open Kit Kit.NoPanic

/-- `for i := lo; i < hi; i++ { body i }` -/
def forRange (body : Nat → Outcome Unit) : Nat → Nat → Outcome Unit
  | 0, _ => .ok ()
  | fuel + 1, i => (body i).bind fun _ => forRange body fuel (i + 1)

/-- contract of `cipher.Block.Encrypt/Decrypt(dst, src)`: both at least one block long -/
def blockCrypt (n : Nat) : Outcome Unit :=
  if n < 16 then .panic "crypto/aes: input not full block" else .ok ()

/-- contract of `binary.BigEndian.PutUint64(b, v)` -/
def putUint64 (n : Nat) : Outcome Unit :=
  if n < 8 then .panic "index out of range [7]" else .ok ()

/-- `arrXor(arrL, arrR)`: `out := make(len(arrL)); for x := range arrL { out[x] = arrL[x] ^ arrR[x] }` -/
def arrXor (l r : Nat) : Outcome Nat :=
  (makeChk l).bind fun out =>
    (forRange (fun x => (idxI out x).bind fun _ => (idxI l x).bind fun _ => idxI r x) l 0).bind fun _ => .ok out

/-- `arrConcat(arrays...)`: `out := make(len(arrays[0])); copy; for _, a := range arrays[1:] { append }` -/
def arrConcat (arrays : List Nat) : Outcome Nat :=
  (idxI arrays.length 0).bind fun _ =>
    (makeChk (arrays.headD 0)).bind fun _ =>
      (idxI arrays.length 0).bind fun _ =>
        (sliceChk arrays.length 1 arrays.length).bind fun _ => .ok arrays.sum

/-- body of `for i := 1; i <= n; i++` inside `for j := 0; j <= 5; j++` of `Wrap`; `a` has 8 bytes,
`r` is `n` registers of 8 bytes. -/
def wrapBody (n : Nat) (i : Nat) : Outcome Unit :=
  (idxI n ((i : Int) - 1)).bind fun _ =>           -- r[i-1]
    (arrConcat [8, 8]).bind fun b =>               -- b := arrConcat(a, r[i-1])
      (blockCrypt b).bind fun _ =>                 -- block.Encrypt(b, b)
        (makeChk 8).bind fun tBytes =>
          (putUint64 tBytes).bind fun _ =>
            (sliceChk b 0 (b / 2 : Nat)).bind fun _ =>          -- b[:len(b)/2]
              (arrXor (b / 2) tBytes).bind fun _ =>             -- copy(a, arrXor(…, tBytes))
                (idxI n ((i : Int) - 1)).bind fun _ =>          -- r[i-1]
                  sliceChk b (b / 2 : Nat) b                    -- b[len(b)/2:]

/-- `Wrap` for a key of `cekLen` bytes; returns the output length. -/
def wrap (cekLen : Nat) : Outcome Nat :=
  if cekLen % 8 ≠ 0 then .err "cek must be in 8-byte blocks"
  else if cekLen < 16 then .err "cek must be at least 16 bytes"
  else
    let n := cekLen / 8
    (makeChk 8).bind fun _ =>
      (makeChk n).bind fun _ =>
        -- for i := range r { r[i] = make(8); copy(r[i], cek[i*8:]) }
        (forRange (fun i => (idxI n i).bind fun _ => (makeChk 8).bind fun _ =>
            (idxI n i).bind fun _ => sliceChk cekLen (i * 8 : Nat) cekLen) n 0).bind fun _ =>
          -- for j := 0; j <= 5; j++ { for i := 1; i <= n; i++ { … } }
          (forRange (fun _ => forRange (wrapBody n) n 1) 6 0).bind fun _ =>
            (makeChk ((n + 1) * 8 : Nat)).bind fun c =>
              -- for i := 1; i <= n; i++ { for j := range r[i-1] { c[(i*8)+j] = r[i-1][j] } }
              (forRange (fun i => (idxI n ((i : Int) - 1)).bind fun _ =>
                  forRange (fun j => (idxI c (i * 8 + j : Nat)).bind fun _ =>
                    (idxI n ((i : Int) - 1)).bind fun _ => idxI 8 j) 8 0) n 1).bind fun _ => .ok c

/-- body of `for i := n; i >= 1; i--` of `Unwrap` (order is irrelevant for the lengths) -/
def unwrapBody (n : Nat) (i : Nat) : Outcome Unit :=
  (makeChk 8).bind fun tBytes =>
    (putUint64 tBytes).bind fun _ =>
      (arrXor 8 tBytes).bind fun x =>                      -- arrXor(a, tBytes)
        (idxI n ((i : Int) - 1)).bind fun _ =>             -- r[i-1]
          (arrConcat [x, 8]).bind fun b =>
            (blockCrypt b).bind fun _ =>                   -- block.Decrypt(b, b)
              (sliceChk b 0 (b / 2 : Nat)).bind fun _ =>
                (idxI n ((i : Int) - 1)).bind fun _ =>
                  sliceChk b (b / 2 : Nat) b

/-- `Unwrap` for `len` bytes; `intact` = the result of the constant-time IV comparison. -/
def unwrap (len : Nat) (intact : Bool) : Outcome Nat :=
  if len < 24 ∨ len % 8 ≠ 0 then .err "wrapped key must be at least 24 bytes and in 8-byte blocks"
  else
    (makeChk 8).bind fun _ =>
      (makeChk ((len / 8 : Nat) - 1 : Int)).bind fun n =>
        (forRange (fun i => (idxI n i).bind fun _ => (makeChk 8).bind fun _ =>
            (idxI n i).bind fun _ => sliceChk len ((i + 1) * 8 : Nat) len) n 0).bind fun _ =>
          (sliceChk len 0 8).bind fun _ =>                 -- cipherText[:8]
            (forRange (fun _ => forRange (unwrapBody n) n 1) 6 0).bind fun _ =>
              if !intact then .err "integrity check failed - unexpected IV"
              else arrConcat (List.replicate n 8)          -- arrConcat(r...)

/-- The code as found (no length guard): `make([][]byte, n)` with `n = len/8 - 1`. -/
def unwrapPreFix (len : Nat) : Outcome Nat :=
  (makeChk 8).bind fun _ =>
    (makeChk ((len / 8 : Nat) - 1 : Int)).bind fun n =>
      (forRange (fun _ => forRange (unwrapBody n) n 1) 6 0).bind fun _ => arrConcat (List.replicate n 8)

/-- `aesCBCAEAD.hmacTag`: `al := make([]byte, 8); PutUint64(al, …); … return h.Sum(nil)[:l]` with a hash
of `hashLen` bytes -/
def hmacTag (l hashLen : Nat) : Outcome Unit :=
  (makeChk 8).bind fun al => (putUint64 al).bind fun _ => sliceChk hashLen 0 (l : Nat)

/-- contract of `cipher.NewCBCDecrypter(block, iv)` / `NewCBCEncrypter` -/
def newCBC (ivLen : Nat) : Outcome Unit :=
  if ivLen ≠ 16 then .panic "cipher.NewCBCDecrypter: IV length must equal block size" else .ok ()

/-- contract of `BlockMode.CryptBlocks(dst, src)` -/
def cryptBlocks (dstLen srcLen : Nat) : Outcome Unit :=
  if srcLen % 16 ≠ 0 then .panic "crypto/cipher: input not full blocks"
  else if dstLen < srcLen then .panic "crypto/cipher: output smaller than input" else .ok ()

/-- `(*aesCBCAEAD).Open(dst, nonce, ciphertext, ad)` at the level of lengths.  `nonceGuard` /
`alignGuard` = the two guards added by fixes c71e752 / 5c853ad (false = the code as found);
`tagOK` = `hmac.Equal`; `unpadded` = what `UnpadPKCS7` makes of the decrypted body (`none` = error,
`some k` = a prefix of `k ≤ body` bytes). -/
def aeadOpen (nonceGuard alignGuard : Bool) (nonceLen ctLen tagSize dstCap dstLen : Nat) (tagOK : Bool)
    (unpadded : Nat → Option Nat) : Outcome Nat :=
  if nonceGuard && nonceLen ≠ 16 then .err "invalid nonce size"
  else if ctLen < tagSize then .err "invalid ciphertext size"
  else
    (sliceChk ctLen ((ctLen : Int) - tagSize) ctLen).bind fun _ =>      -- ciphertext[len-tagSize:]
      (sliceChk ctLen 0 ((ctLen : Int) - tagSize)).bind fun _ =>        -- ciphertext[:len-tagSize]
        let body := ctLen - tagSize
        if !tagOK then .err "message authentication failed"
        else if alignGuard && body % 16 ≠ 0 then .err "invalid ciphertext size"
        else
          -- dst growth: dst[:dstLen+size] or make; out := dst[dstLen:]
          (if dstCap ≥ dstLen + body then (sliceChk dstCap 0 (dstLen + body : Nat)).bind fun _ => .ok (dstLen + body)
           else makeChk (dstLen + body : Nat)).bind fun n =>
            (sliceChk n dstLen n).bind fun _ =>
              (newCBC nonceLen).bind fun _ =>
                (cryptBlocks body body).bind fun _ =>
                  match unpadded body with
                  | none => .err "pkcs7: incorrect padding"
                  | some k => (sliceChk n 0 (dstLen + k : Nat)).bind fun _ => .ok (dstLen + k)   -- dst[:dstLen+len(out)]

end Kit.NoPanic.KW
