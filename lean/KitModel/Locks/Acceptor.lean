import KitModel.Locks.FifoMutex
import KitModel.Locks.FifoMap
import KitModel.Locks.CMap
import KitModel.Locks.Context
import KitModel.Locks.OuterCancel
/-
The acceptor `kitdrv C13` runs, as a model-side function: a session is the set of model states
compatible with the observable events fed so far (`none` = the trace was rejected); feeding an event
is `Sim.observe`.  The driver (`Driver/C13.lean`) only parses lines into labels and prints the size
of the set.  Soundness (an accepted trace has a run of the LTS with exactly these observable
labels) is proved in `KitProofs/Lemmas/LocksSim.lean` and instantiated per primitive in
`KitProofs/Props/C13.lean`.
-/
namespace Kit.Locks.Acceptor
open Kit.Locks

def fuel : Nat := 200000

/-- feed one observed label to a state set; `none` = rejected (and it stays rejected) -/
def feedSet {σ α : Type} [BEq σ] (S : Sim σ α) (fuel : Nat) : Option (List σ) → α → Option (List σ)
  | none, _ => none
  | some set, a =>
    let set' := S.observe fuel set a
    if set'.isEmpty then none else some set'

/-- the whole acceptor for one primitive: start from the initial state, feed the trace -/
def run {σ α : Type} [BEq σ] (S : Sim σ α) (fuel : Nat) (s0 : σ) (tr : List α) : Option (List σ) :=
  tr.foldl (feedSet S fuel) (some (S.start fuel s0))

inductive Event where
  | fmutex (a : FifoMutex.L)
  | fmap (a : FifoMap.L)
  | cmap (a : CMap.L)
  | ctx (a : Context.L)
  | outer (a : OuterCancel.L)

inductive Session where
  | none
  | fmutex (set : Option (List FifoMutex.State))
  | fmap (set : Option (List FifoMap.State))
  | cmap (set : Option (List CMap.State))
  | ctx (set : Option (List Context.State))
  | outer (set : Option (List OuterCancel.State))

inductive Prim where
  | fmutex (n : Nat)
  | fmap (n keys : Nat)
  | cmap (rc : Bool) (n keys : Nat)
  | ctx (n : Nat)
  | outer (n grace : Nat)

def Session.start : Prim → Session
  | .fmutex n => .fmutex (some (FifoMutex.sim.start fuel (FifoMutex.init n)))
  | .fmap n k => .fmap (some (FifoMap.sim.start fuel (FifoMap.init n k)))
  | .cmap rc n k => .cmap (some (CMap.sim.start fuel (CMap.init rc n k)))
  | .ctx n => .ctx (some (Context.sim.start fuel (Context.init n)))
  | .outer n g => .outer (some (OuterCancel.sim.start fuel (OuterCancel.init n g)))

/-- feed an event of the session's own primitive (`none` = the event belongs to another primitive) -/
def Session.feed : Session → Event → Option Session
  | .fmutex set, .fmutex a => some (.fmutex (feedSet FifoMutex.sim fuel set a))
  | .fmap set, .fmap a => some (.fmap (feedSet FifoMap.sim fuel set a))
  | .cmap set, .cmap a => some (.cmap (feedSet CMap.sim fuel set a))
  | .ctx set, .ctx a => some (.ctx (feedSet Context.sim fuel set a))
  | .outer set, .outer a => some (.outer (feedSet OuterCancel.sim fuel set a))
  | _, _ => Option.none

/-- number of states kept; `none` = rejected -/
def Session.size : Session → Option Nat
  | .none => Option.none
  | .fmutex set => set.map List.length
  | .fmap set => set.map List.length
  | .cmap set => set.map List.length
  | .ctx set => set.map List.length
  | .outer set => set.map List.length

end Kit.Locks.Acceptor
