import KitModel.Locks.Kernel
/-
`lock.Context` (concurrency/lock/context.go): `Lock(ctx)`/`RLock(ctx)` = `select` between
`ctx.Done()` (return `ctx.Err()`) and a send of the token into the 1-slot channel `locked`; with
the token, `lock.Lock()`/`lock.RLock()` on the inner `sync.RWMutex`.  `Unlock`/`RUnlock` = unlock
the RWMutex, then receive the token back.  Readers take the token too, so every hold is
serialised by it.  A `select` with several ready cases picks any of them (`alt`).
Every call has its own context (`ctxDone t`), cancelled by the environment at any time, possibly
before the call (`pre`).
The token channel has the trusted channel semantics of `FifoMutex`: a `select` none of whose cases
is ready parks the caller at the tail of the channel's FIFO `sendq`; the receive in
`Unlock/RUnlock` hands the slot to the head of `sendq` in the same step; a parked caller whose
context ends removes itself from the queue.
-/
namespace Kit.Locks.Context
open Kit.Locks

inductive Mode where | w | r deriving DecidableEq, Repr

inductive PC where
  | idle
  | called (md : Mode)      -- at the select, before it has polled its cases
  | queued (md : Mode)      -- parked in the select: in the token channel's sendq and on ctx.Done()
  | haveTok (md : Mode)     -- token sent, before lock.Lock()/RLock()
  | granted (md : Mode)     -- acquired, not yet returned
  | errRet                  -- chose ctx.Done(): about to return ctx.Err()
  | holding (md : Mode)
  | ulCalled (md : Mode)    -- before lock.Unlock()/RUnlock()
  | ulRw (md : Mode)        -- RWMutex released, before `<-c.locked`
  | ulDone
  deriving DecidableEq, Repr

structure State where
  n : Nat
  tok : Option Tid
  sendq : List Tid
  w : Option Tid
  rs : List Tid
  ctxDone : Nat → Bool
  pcs : Nat → PC

inductive Op where
  | lock (md : Mode) (pre : Bool)
  | unlock
  deriving DecidableEq, Repr

inductive Env where | cancel (t : Tid) deriving DecidableEq, Repr

/-- result of a call: `true` = an error was returned -/
inductive Probe where | blocked deriving DecidableEq, Repr

abbrev L := Lbl Op Bool Probe Env

def init (n : Nat) : State :=
  { n := n, tok := none, sendq := [], w := none, rs := [], ctxDone := fun _ => false, pcs := fun _ => .idle }

def step (s : State) : L → Option State
  | .call t (.lock md pre) =>
    if t < s.n then
      match s.pcs t with
      | .idle => some { s with pcs := upd s.pcs t (.called md), ctxDone := upd s.ctxDone t pre }
      | _ => none
    else none
  | .call t .unlock =>
    match s.pcs t with
    | .holding md => some { s with pcs := upd s.pcs t (.ulCalled md) }
    | _ => none
  | .env (.cancel t) => some { s with ctxDone := upd s.ctxDone t true }
  | .tau t alt =>
    match s.pcs t with
    | .called md =>
      if alt = 0 then           -- case <-ctx.Done()
        if s.ctxDone t then some { s with pcs := upd s.pcs t .errRet } else none
      else                      -- case c.locked <- struct{}{}
        match s.tok with
        | none => some { s with tok := some t, pcs := upd s.pcs t (.haveTok md) }
        | some _ =>               -- no case ready: park on both
          if s.ctxDone t then none
          else some { s with sendq := s.sendq ++ [t], pcs := upd s.pcs t (.queued md) }
    | .queued _ =>              -- woken by ctx.Done(): leave the queue
      if alt = 0 && s.ctxDone t then
        some { s with sendq := s.sendq.erase t, pcs := upd s.pcs t .errRet }
      else none
    | .haveTok .w =>            -- c.lock.Lock()
      if s.w.isNone && s.rs.isEmpty then some { s with w := some t, pcs := upd s.pcs t (.granted .w) } else none
    | .haveTok .r =>            -- c.lock.RLock()
      if s.w.isNone then some { s with rs := t :: s.rs, pcs := upd s.pcs t (.granted .r) } else none
    | .ulCalled .w =>           -- c.lock.Unlock()
      match s.w with
      | some _ => some { s with w := none, pcs := upd s.pcs t (.ulRw .w) }
      | none => none
    | .ulCalled .r =>           -- c.lock.RUnlock()
      match s.rs with
      | [] => none
      | _ :: rest => some { s with rs := if t ∈ s.rs then s.rs.erase t else rest, pcs := upd s.pcs t (.ulRw .r) }
    | .ulRw _ =>                -- <-c.locked: the slot goes to the head of the sendq, if any
      match s.tok with
      | some _ =>
        match s.sendq with
        | [] => some { s with tok := none, pcs := upd s.pcs t .ulDone }
        | h :: rest =>
          match s.pcs h with
          | .queued md => some { s with tok := some h, sendq := rest,
                                        pcs := upd (upd s.pcs t .ulDone) h (.haveTok md) }
          | _ => none
      | none => none
    | _ => none
  | .ret t err =>
    match s.pcs t, err with
    | .granted md, false => some { s with pcs := upd s.pcs t (.holding md) }
    | .errRet, true => some { s with pcs := upd s.pcs t .idle }
    | .ulDone, false => some { s with pcs := upd s.pcs t .idle }
    | _, _ => none
  | .probe t .blocked =>       -- the runtime shows the caller parked in the select
    match s.pcs t with
    | .queued _ => some s
    | _ => none
  | .sys _ _ => none

def lts : LTS State L := ⟨step⟩

/-- the caller's acquisition completed and its release has not started -/
def PC.holds : PC → Bool
  | .granted _ | .holding _ | .ulCalled _ => true
  | _ => false

def taus (s : State) : List L := (List.range s.n).flatMap (fun t => [.tau t 0, .tau t 1])

instance : BEq State where
  beq a b := a.n == b.n && a.tok == b.tok && a.sendq == b.sendq && a.w == b.w && a.rs == b.rs &&
    eqUpTo a.n a.ctxDone b.ctxDone && eqUpTo a.n a.pcs b.pcs

def sim : Sim State L := { M := lts, internal := Lbl.internal, taus := taus }

end Kit.Locks.Context
