/-
Concurrency kernel used by the five lock models of property C13.
Core Lean only.  A model is a labelled transition system whose `step` is a partial function
per label; safety is an inductive invariant over `Reach`; the driver ties the model to the real
code by *trace inclusion*: `Sim.run` propagates the set of model states compatible with the
observable events seen so far, closing under internal (`tau`/`sys`) steps after every event.
-/
namespace Kit.Locks

abbrev Tid := Nat

/-- Labels shared by all lock models.
`call`/`ret` are the API boundaries of caller goroutine `t`; `tau t alt` is the next atomic step
of caller `t` (`alt` selects the `select` case when several are ready); `sys i alt` is an atomic
step of an internal goroutine; `probe` is an observation that changes nothing (goroutine parked
at a hook point, goroutine confirmed blocked, length accessor); `env` is an action of the
environment (context cancellation, shutdown, clock tick). -/
inductive Lbl (Op Res Probe Env : Type) where
  | call (t : Tid) (op : Op)
  | tau (t : Tid) (alt : Nat)
  | ret (t : Tid) (r : Res)
  | probe (t : Tid) (p : Probe)
  | sys (i : Nat) (alt : Nat)
  | env (e : Env)
  deriving DecidableEq, Repr

/-- Internal labels are invisible to the harness. -/
def Lbl.internal {Op Res Probe Env : Type} : Lbl Op Res Probe Env → Bool
  | .tau _ _ => true
  | .sys _ _ => true
  | _ => false

structure LTS (σ α : Type) where
  step : σ → α → Option σ

/-- States reachable from `s0` by any sequence of labels (any interleaving, any caller). -/
inductive Reach {σ α : Type} (M : LTS σ α) (s0 : σ) : σ → Prop where
  | init : Reach M s0 s0
  | next {s s' : σ} {a : α} : Reach M s0 s → M.step s a = some s' → Reach M s0 s'

theorem Reach.inv {σ α : Type} {M : LTS σ α} {s0 : σ} (Inv : σ → Prop) (h0 : Inv s0)
    (hs : ∀ s a s', Inv s → M.step s a = some s' → Inv s') : ∀ s, Reach M s0 s → Inv s := by
  intro s h
  induction h with
  | init => exact h0
  | next _ hstep ih => exact hs _ _ _ ih hstep

/-- The same system under a scheduling policy that may only *disable* steps (fairness rules,
writer preference of `sync.RWMutex`, wake-up order of a semaphore …). -/
def LTS.restrict {σ α : Type} (M : LTS σ α) (policy : σ → α → Bool) : LTS σ α :=
  ⟨fun s a => if policy s a then M.step s a else none⟩

/-- Every state reachable under a policy is reachable without it: safety theorems proved for the
unrestricted system hold under every such policy. -/
theorem Reach.of_restrict {σ α : Type} {M : LTS σ α} {policy : σ → α → Bool} {s0 s : σ}
    (h : Reach (M.restrict policy) s0 s) : Reach M s0 s := by
  induction h with
  | init => exact Reach.init
  | next _ hstep ih =>
    simp only [LTS.restrict] at hstep
    split at hstep
    · exact Reach.next ih hstep
    · simp at hstep

/-- Execute a list of labels; `none` if one of them is not enabled. -/
def LTS.run {σ α : Type} (M : LTS σ α) (s : σ) : List α → Option σ
  | [] => some s
  | a :: as => match M.step s a with
    | some s' => M.run s' as
    | none => none

theorem LTS.run_append {σ α : Type} (M : LTS σ α) (s : σ) (as bs : List α) :
    M.run s (as ++ bs) = (M.run s as).bind (fun s' => M.run s' bs) := by
  induction as generalizing s with
  | nil => simp [LTS.run]
  | cons a as ih =>
    simp only [List.cons_append, LTS.run]
    cases M.step s a with
    | none => simp
    | some s' => simpa using ih s'

theorem Reach.of_run {σ α : Type} {M : LTS σ α} {s0 s s' : σ} (h : Reach M s0 s) :
    ∀ {as : List α}, M.run s as = some s' → Reach M s0 s' := by
  intro as
  induction as generalizing s with
  | nil => intro e; simp [LTS.run] at e; exact e ▸ h
  | cons a as ih =>
    intro e
    simp only [LTS.run] at e
    cases hs : M.step s a with
    | none => simp [hs] at e
    | some s1 =>
      rw [hs] at e
      exact ih (Reach.next h hs) e

/-! ### State-set simulation (trace inclusion) -/

/-- Everything the simulation needs besides the LTS: which labels are internal, which internal
labels to try in a state, and which labels realise an observed event. -/
structure Sim (σ α : Type) where
  M : LTS σ α
  internal : α → Bool
  taus : σ → List α

variable {σ α : Type}

def Sim.tauSucc (S : Sim σ α) (s : σ) : List (α × σ) :=
  (S.taus s).filterMap fun a =>
    if S.internal a then (S.M.step s a).map (fun s' => (a, s')) else none

def addNew [BEq σ] (acc : List σ) : List σ → List σ × List σ
  | [] => (acc, [])
  | x :: xs =>
    if acc.contains x then addNew acc xs
    else
      let (acc', new) := addNew (acc ++ [x]) xs
      (acc', x :: new)

/-- Breadth-first closure under internal steps (fuel bounds the number of expansions; if it
runs out the closure is incomplete, which can only make the simulation reject more). -/
def Sim.close [BEq σ] (S : Sim σ α) : Nat → List σ → List σ → List σ
  | 0, _, acc => acc
  | _ + 1, [], acc => acc
  | n + 1, s :: fr, acc =>
    let (acc', new) := addNew acc ((S.tauSucc s).map (·.2))
    S.close n (fr ++ new) acc'

def dedup [BEq σ] (xs : List σ) : List σ := (addNew [] xs).1

def Sim.closure [BEq σ] (S : Sim σ α) (fuel : Nat) (xs : List σ) : List σ :=
  let ys := dedup xs
  S.close fuel ys ys

/-- One observed event `a` (a non-internal label): successors of every state, then closure. -/
def Sim.observe [BEq σ] (S : Sim σ α) (fuel : Nat) (set : List σ) (a : α) : List σ :=
  if S.internal a then [] else
  S.closure fuel (set.filterMap fun s => S.M.step s a)

def Sim.start [BEq σ] (S : Sim σ α) (fuel : Nat) (s0 : σ) : List σ := S.closure fuel [s0]

/-- The state set after a whole trace; empty = the trace is not a trace of the model. -/
def Sim.after [BEq σ] (S : Sim σ α) (fuel : Nat) (s0 : σ) (tr : List α) : List σ :=
  tr.foldl (S.observe fuel) (S.start fuel s0)

def Sim.accepts [BEq σ] (S : Sim σ α) (fuel : Nat) (s0 : σ) (tr : List α) : Bool :=
  !(S.after fuel s0 tr).isEmpty

/-! ### finite maps as total functions (thread table, key table, heap) -/

/-- Point update of a total function. -/
def upd {β : Type} (f : Nat → β) (i : Nat) (v : β) : Nat → β := fun j => if j = i then v else f j

@[simp, grind =] theorem upd_apply {β : Type} (f : Nat → β) (i : Nat) (v : β) (j : Nat) :
    upd f i v j = if j = i then v else f j := rfl

/-- Compare two tables on their first `n` entries (the driver only ever uses finitely many). -/
def eqUpTo {β : Type} [BEq β] (n : Nat) (f g : Nat → β) : Bool :=
  (List.range n).all fun i => f i == g i

def tabulate {β : Type} (n : Nat) (f : Nat → β) : List β := (List.range n).map f

end Kit.Locks
