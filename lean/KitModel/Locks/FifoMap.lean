import KitModel.Locks.Kernel
/-
`fifo.Map` (concurrency/fifo/map.go): a map `key → *mapItem{ilen, mutex}` guarded by one
`fifo.Mutex`.  `Lock(k)`: one section under the map lock (look up or create the item, `ilen++`),
then — outside the map lock, after the schedule point `fifo.map.beforeMutex` — a send on the
item's 1-slot channel.  `Unlock(k)`: one section under the map lock (look up, `ilen--`, delete at
zero), then the receive on the item's channel.  Item mutexes are heap objects (`mxs`, bump
allocator `next`), because a caller keeps its pointer `m` across the schedule point.  The map
lock's critical sections contain no blocking operation, so each is one atomic step.
Tables are total functions (`Nat → _`); callers are `0..n-1`, keys `0..nkeys-1`.
Ghost state (never read by a guard that the code does not have): `Item.members` = the callers
counted in `ilen`; `Mx.arrivals/grants`; the `m` carried by `holding`/`ulCalled`.
-/
namespace Kit.Locks.FifoMap
open Kit.Locks

abbrev Key := Nat

/-- The per-item `fifo.Mutex` (same channel semantics as `FifoMutex`). -/
structure Mx where
  slot : Option Tid
  sendq : List Tid
  arrivals : List Tid
  grants : List Tid
  deriving DecidableEq, Repr

structure Item where
  ilen : Nat
  mx : Nat
  members : List Tid
  deriving DecidableEq, Repr

inductive PC where
  | idle
  | lkCalled (k : Key)
  | lkLooked (k : Key) (m : Nat)     -- after the map section, before `m.mutex.Lock()` (hook point)
  | lkQueued (k : Key) (m : Nat)
  | lkGranted (k : Key) (m : Nat)
  | holding (k : Key) (m : Nat)
  | ulCalled (k : Key) (m : Nat)
  | ulMapped (k : Key) (m : Nat)     -- after the map section of Unlock, before `m.mutex.Unlock()` (hook point)
  | ulDone
  deriving DecidableEq, Repr

structure State where
  n : Nat
  nkeys : Nat
  next : Nat
  items : Nat → Option Item
  mxs : Nat → Mx
  pcs : Nat → PC

inductive Op where | lock (k : Key) | unlock deriving DecidableEq, Repr
inductive Probe where
  | atHook            -- parked at `fifo.map.beforeMutex`
  | blocked           -- confirmed parked in the channel send
  | len (n : Nat)     -- number of entries in `items` (overlay accessor)
  deriving DecidableEq, Repr

abbrev L := Lbl Op Unit Probe Unit

def newMx : Mx := { slot := none, sendq := [], arrivals := [], grants := [] }

def init (n nkeys : Nat) : State :=
  { n := n, nkeys := nkeys, next := 0, items := fun _ => none, mxs := fun _ => newMx,
    pcs := fun _ => .idle }

def itemCount (s : State) : Nat := ((List.range s.nkeys).filter fun k => (s.items k).isSome).length

def step (s : State) : L → Option State
  | .call t (.lock k) =>
    if t < s.n ∧ k < s.nkeys then
      match s.pcs t with
      | .idle => some { s with pcs := upd s.pcs t (.lkCalled k) }
      | _ => none
    else none
  | .call t .unlock =>
    match s.pcs t with
    | .holding k m => some { s with pcs := upd s.pcs t (.ulCalled k m) }
    | _ => none
  | .tau t _ =>
    match s.pcs t with
    | .lkCalled k =>          -- a.lock.Lock(); lookup/create; ilen++; a.lock.Unlock()
      match s.items k with
      | some it =>
        some { s with items := upd s.items k (some { it with ilen := it.ilen + 1, members := it.members ++ [t] }),
                      pcs := upd s.pcs t (.lkLooked k it.mx) }
      | none =>
        some { s with items := upd s.items k (some { ilen := 1, mx := s.next, members := [t] }),
                      mxs := upd s.mxs s.next newMx, next := s.next + 1,
                      pcs := upd s.pcs t (.lkLooked k s.next) }
    | .lkLooked k m =>        -- m.mutex.Lock(): send on the item's channel
      let mx := s.mxs m
      match mx.slot with
      | none =>
        some { s with mxs := upd s.mxs m { mx with slot := some t, arrivals := mx.arrivals ++ [t],
                                                   grants := mx.grants ++ [t] },
                      pcs := upd s.pcs t (.lkGranted k m) }
      | some _ =>
        some { s with mxs := upd s.mxs m { mx with sendq := mx.sendq ++ [t],
                                                   arrivals := mx.arrivals ++ [t] },
                      pcs := upd s.pcs t (.lkQueued k m) }
    | .ulCalled k _ =>        -- a.lock.Lock(); m := items[k]; ilen--; delete at 0; a.lock.Unlock()
      match s.items k with
      | some it =>
        some { s with items := upd s.items k
                        (if it.ilen - 1 = 0 then none
                         else some { it with ilen := it.ilen - 1, members := it.members.erase t }),
                      pcs := upd s.pcs t (.ulMapped k it.mx) }
      | none => none          -- nil dereference in the code
    | .ulMapped _ m =>        -- m.mutex.Unlock(): receive on the item's channel
      let mx := s.mxs m
      match mx.slot with
      | none => none
      | some _ =>
        match mx.sendq with
        | [] => some { s with mxs := upd s.mxs m { mx with slot := none }, pcs := upd s.pcs t .ulDone }
        | h :: rest =>
          match s.pcs h with
          | .lkQueued k' _ =>
            some { s with mxs := upd s.mxs m { mx with slot := some h, sendq := rest,
                                                       grants := mx.grants ++ [h] },
                          pcs := upd (upd s.pcs t .ulDone) h (.lkGranted k' m) }
          | _ => none
    | _ => none
  | .ret t () =>
    match s.pcs t with
    | .lkGranted k m => some { s with pcs := upd s.pcs t (.holding k m) }
    | .ulDone => some { s with pcs := upd s.pcs t .idle }
    | _ => none
  | .probe t .atHook =>
    match s.pcs t with
    | .lkLooked _ _ => some s
    | .ulMapped _ _ => some s
    | _ => none
  | .probe t .blocked =>
    match s.pcs t with
    | .lkQueued _ _ => some s
    | _ => none
  | .probe _ (.len n) => if itemCount s = n then some s else none
  | .sys _ _ => none
  | .env _ => none

def lts : LTS State L := ⟨step⟩

/-- `t` is counted in `items[k].ilen`: between the map section of `Lock(k)` and the map section of
the matching `Unlock(k)` (it holds `k` or waits for it). -/
def PC.countedOn (k : Key) : PC → Bool
  | .lkLooked k' _ | .lkQueued k' _ | .lkGranted k' _ | .holding k' _ | .ulCalled k' _ => k' == k
  | _ => false

/-- `t` owns key `k`: its acquisition completed and it has not yet started to release. -/
def PC.ownsKey (k : Key) : PC → Bool
  | .lkGranted k' _ | .holding k' _ | .ulCalled k' _ => k' == k
  | _ => false

def taus (s : State) : List L := (List.range s.n).map (fun t => .tau t 0)

instance : BEq State where
  beq a b := a.n == b.n && a.nkeys == b.nkeys && a.next == b.next &&
    eqUpTo a.nkeys a.items b.items && eqUpTo a.next a.mxs b.mxs && eqUpTo a.n a.pcs b.pcs

def sim : Sim State L := { M := lts, internal := Lbl.internal, taus := taus }

end Kit.Locks.FifoMap
