import KitModel.Locks.Kernel
/-
`cmap.Mutex` (concurrency/cmap/mutex.go): `key → *item{sync.RWMutex, refs}` guarded by a
`sync.RWMutex`.  `Lock/RLock(k)`: fast path = look-up under the map read lock (found: `refs++`);
miss ⇒ slow path under the map write lock (look up again, create, `refs++`); then — outside the
map lock, after the schedule point `cmap.mutex.afterLookup` — the blocking `Lock()/RLock()` on
the item.  `Unlock/RUnlock(k)`: one section under the map read lock: look the key up *again*,
unlock what is found, `refs--`.  `DeleteUnlock/DeleteRUnlock(k)`: one section under the map write
lock: look up, unlock, `refs--`, and remove the entry — in the repaired code (`rc = true`) only
when `refs` dropped to zero; in the code as found (`rc = false`, no counter) always.
`Delete/Clear` drop entries unconditionally; `ItemCount` counts them.
Items are heap objects (`rws`, bump allocator `next`): a caller keeps its pointer across the
schedule point and a deleted item stays reachable through such pointers.
`sync.RWMutex` is modelled by its safety-relevant semantics: `Lock` is enabled iff there is no
writer and no reader, `RLock` iff there is no writer (no writer preference: an over-approximation
of the runtime, so every real trace is a model trace); `Unlock`/`RUnlock` of a mutex that is not
locked is a fatal error in Go (no step here).
Ghost: `RW.users` (callers counted in `refs`), the `m` in `holding`/`ulCalled`, reader/writer ids.
-/
namespace Kit.Locks.CMap
open Kit.Locks

abbrev Key := Nat

inductive Mode where | w | r deriving DecidableEq, Repr

structure RW where
  w : Option Tid
  rs : List Tid
  refs : Int
  users : List Tid
  deriving DecidableEq, Repr

inductive PC where
  | idle
  | lkCalled (k : Key) (md : Mode)
  | lkMiss (k : Key) (md : Mode)
  | lkFound (k : Key) (md : Mode) (m : Nat)     -- hook point `cmap.mutex.afterLookup`
  | lkGranted (k : Key) (md : Mode) (m : Nat)
  | holding (k : Key) (md : Mode) (m : Nat)
  | ulCalled (k : Key) (md : Mode) (m : Nat) (del : Bool)
  | delCalled (k : Key)
  | clrCalled
  | cntCalled
  | cntDone (n : Nat)
  | done
  deriving DecidableEq, Repr

structure State where
  rc : Bool            -- true: repaired code (reference count), false: code as found
  n : Nat
  nkeys : Nat
  next : Nat
  items : Nat → Option Nat
  rws : Nat → RW
  pcs : Nat → PC

inductive Op where
  | lock (k : Key) (md : Mode)
  | unlock (del : Bool)          -- Unlock/RUnlock (del = false) or DeleteUnlock/DeleteRUnlock
  | delete (k : Key)
  | clear
  | count
  deriving DecidableEq, Repr

inductive Probe where | atHook | blocked deriving DecidableEq, Repr

abbrev L := Lbl Op (Option Nat) Probe Unit

def newRW : RW := { w := none, rs := [], refs := 0, users := [] }

def init (rc : Bool) (n nkeys : Nat) : State :=
  { rc := rc, n := n, nkeys := nkeys, next := 0, items := fun _ => none, rws := fun _ => newRW,
    pcs := fun _ => .idle }

def itemCount (s : State) : Nat := ((List.range s.nkeys).filter fun k => (s.items k).isSome).length

/-- `refs++` on item `m` by caller `t`. -/
def addRef (rw : RW) (t : Tid) : RW := { rw with refs := rw.refs + 1, users := rw.users ++ [t] }

/-- Is the blocking `Lock()`/`RLock()` on this item enabled? -/
def RW.free (rw : RW) : Mode → Bool
  | .w => rw.w.isNone && rw.rs.isEmpty
  | .r => rw.w.isNone

def RW.acquire (rw : RW) (t : Tid) : Mode → RW
  | .w => { rw with w := some t }
  | .r => { rw with rs := t :: rw.rs }

/-- `Unlock()`/`RUnlock()` on the item; `none` = fatal "unlock of unlocked RWMutex". The
operation does not know who locked: a writer unlock clears whoever is recorded, a reader unlock
removes the caller's own entry if present, else some other reader's. -/
def RW.release (rw : RW) (t : Tid) : Mode → Option RW
  | .w => match rw.w with
    | some _ => some { rw with w := none }
    | none => none
  | .r => match rw.rs with
    | [] => none
    | _ :: rest => some { rw with rs := if t ∈ rw.rs then rw.rs.erase t else rest }

def step (s : State) : L → Option State
  | .call t (.lock k md) =>
    if t < s.n ∧ k < s.nkeys then
      match s.pcs t with
      | .idle => some { s with pcs := upd s.pcs t (.lkCalled k md) }
      | _ => none
    else none
  | .call t (.unlock del) =>
    match s.pcs t with
    | .holding k md m => some { s with pcs := upd s.pcs t (.ulCalled k md m del) }
    | _ => none
  | .call t (.delete k) =>
    if t < s.n ∧ k < s.nkeys then
      match s.pcs t with
      | .idle => some { s with pcs := upd s.pcs t (.delCalled k) }
      | _ => none
    else none
  | .call t .clear =>
    if t < s.n then
      match s.pcs t with
      | .idle => some { s with pcs := upd s.pcs t .clrCalled }
      | _ => none
    else none
  | .call t .count =>
    if t < s.n then
      match s.pcs t with
      | .idle => some { s with pcs := upd s.pcs t .cntCalled }
      | _ => none
    else none
  | .tau t _ =>
    match s.pcs t with
    | .lkCalled k md =>        -- fast path: a.lock.RLock(); look up; (refs++); a.lock.RUnlock()
      match s.items k with
      | some m => some { s with rws := upd s.rws m (addRef (s.rws m) t),
                                pcs := upd s.pcs t (.lkFound k md m) }
      | none => some { s with pcs := upd s.pcs t (.lkMiss k md) }
    | .lkMiss k md =>          -- slow path: a.lock.Lock(); look up again / create; refs++; a.lock.Unlock()
      match s.items k with
      | some m => some { s with rws := upd s.rws m (addRef (s.rws m) t),
                                pcs := upd s.pcs t (.lkFound k md m) }
      | none => some { s with items := upd s.items k (some s.next),
                              rws := upd s.rws s.next (addRef newRW t),
                              next := s.next + 1,
                              pcs := upd s.pcs t (.lkFound k md s.next) }
    | .lkFound k md m =>       -- mutex.Lock() / mutex.RLock(): blocks until enabled
      if (s.rws m).free md then
        some { s with rws := upd s.rws m ((s.rws m).acquire t md),
                      pcs := upd s.pcs t (.lkGranted k md m) }
      else none
    | .ulCalled k md _ del =>  -- one section under the map lock: look up again, unlock, refs--, (delete)
      match s.items k with
      | some m' =>
        match (s.rws m').release t md with
        | some rw =>
          let rw' : RW := { rw with refs := rw.refs - 1, users := rw.users.erase t }
          let remove : Bool := del && (!s.rc || decide (rw'.refs ≤ 0))
          some { s with rws := upd s.rws m' rw',
                        items := if remove then upd s.items k none else s.items,
                        pcs := upd s.pcs t .done }
        | none => none
      | none => some { s with pcs := upd s.pcs t .done }
    | .delCalled k => some { s with items := upd s.items k none, pcs := upd s.pcs t .done }
    | .clrCalled => some { s with items := fun _ => none, pcs := upd s.pcs t .done }
    | .cntCalled => some { s with pcs := upd s.pcs t (.cntDone (itemCount s)) }
    | _ => none
  | .ret t r =>
    match s.pcs t, r with
    | .lkGranted k md m, none => some { s with pcs := upd s.pcs t (.holding k md m) }
    | .done, none => some { s with pcs := upd s.pcs t .idle }
    | .cntDone c, some c' => if c = c' then some { s with pcs := upd s.pcs t .idle } else none
    | _, _ => none
  | .probe t .atHook =>     -- parked at `cmap.mutex.afterLookup`
    match s.pcs t with
    | .lkFound _ _ _ => some s
    | .ulCalled k _ _ _ => if (s.items k).isSome then some s else none   -- only reached `if ok`
    | _ => none
  | .probe t .blocked =>
    match s.pcs t with
    | .lkFound _ .w m => if (s.rws m).free .w then none else some s
    | .lkFound _ .r m =>
      -- a reader is parked behind a writer that holds the item or that waits for it (the
      -- runtime's writer preference; the model itself does not rely on it)
      if (s.rws m).free .r && !((List.range s.n).any fun t' =>
            match s.pcs t' with
            | .lkFound _ .w m' => m' == m
            | _ => false)
      then none else some s
    | _ => none
  | .sys _ _ => none
  | .env _ => none

def lts : LTS State L := ⟨step⟩

/-- Exclusive hold of key `k` (acquisition completed, release not started). -/
def PC.holdsW (k : Key) : PC → Bool
  | .lkGranted k' .w _ | .holding k' .w _ | .ulCalled k' .w _ _ => k' == k
  | _ => false

/-- Shared hold of key `k`. -/
def PC.holdsR (k : Key) : PC → Bool
  | .lkGranted k' .r _ | .holding k' .r _ | .ulCalled k' .r _ _ => k' == k
  | _ => false

/-- The caller holds or waits on key `k` (it keeps a pointer to, or is about to look up and
unlock, the item of `k`). -/
def PC.usesKey (k : Key) : PC → Bool
  | .lkFound k' _ _ | .lkGranted k' _ _ | .holding k' _ _ | .ulCalled k' _ _ _ => k' == k
  | _ => false

/-- Two exclusive holders, or an exclusive and a shared holder, of the same key. -/
def Violation (s : State) : Prop :=
  ∃ k t1 t2, t1 ≠ t2 ∧ (s.pcs t1).holdsW k = true ∧
    ((s.pcs t2).holdsW k = true ∨ (s.pcs t2).holdsR k = true)

/-- Is label `a` a plain `Delete`/`Clear` section executed while another caller holds or waits on
an affected key? (Such histories are outside the property: they do not "pair their calls".) -/
def unsafeDelete (s : State) : L → Prop
  | .tau t _ =>
    match s.pcs t with
    | .delCalled k => ∃ t', t' ≠ t ∧ (s.pcs t').usesKey k = true
    | .clrCalled => ∃ t' k, t' ≠ t ∧ (s.pcs t').usesKey k = true
    | _ => False
  | _ => False

/-- Reachability through histories without such deletes. -/
inductive ReachNoDelete (s0 : State) : State → Prop where
  | init : ReachNoDelete s0 s0
  | next {s s' : State} {a : L} : ReachNoDelete s0 s → step s a = some s' → ¬ unsafeDelete s a →
      ReachNoDelete s0 s'

/-- `ReachNoDelete` under a scheduling policy that only disables steps. -/
inductive ReachNoDeleteUnder (policy : State → L → Bool) (s0 : State) : State → Prop where
  | init : ReachNoDeleteUnder policy s0 s0
  | next {s s' : State} {a : L} : ReachNoDeleteUnder policy s0 s → policy s a = true →
      step s a = some s' → ¬ unsafeDelete s a → ReachNoDeleteUnder policy s0 s'

/-- Go's `sync.RWMutex` writer preference as a policy: a reader does not enter an item on which a
writer waits. (The runtime's exact rule — a writer that has *announced* itself — disables a subset
of these steps or the same ones; any such rule is a policy.) -/
def writerPreference (s : State) : L → Bool
  | .tau t _ =>
    match s.pcs t with
    | .lkFound _ .r m =>
      !((List.range s.n).any fun t' =>
          match s.pcs t' with
          | .lkFound _ .w m' => m' == m
          | _ => false)
    | _ => true
  | _ => true

def taus (s : State) : List L := (List.range s.n).map (fun t => .tau t 0)

instance : BEq State where
  beq a b := a.rc == b.rc && a.n == b.n && a.nkeys == b.nkeys && a.next == b.next &&
    eqUpTo a.nkeys a.items b.items && eqUpTo a.next a.rws b.rws && eqUpTo a.n a.pcs b.pcs

def sim : Sim State L := { M := lts, internal := Lbl.internal, taus := taus }

end Kit.Locks.CMap
