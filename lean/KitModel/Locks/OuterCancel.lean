import KitModel.Locks.Kernel
/-
`lock.OuterCancel` (concurrency/lock/outercancel.go).  Goroutines: callers `0..n-1`, the single
handler (`Run`'s loop + `handleHold`), the closer (`<-ctx.Done(); close(closeCh)`), and one
`rcancelGrace` goroutine per reader whose graceful cancellation was launched.
Channels: `ch` (1 slot, hold requests), `lock` (1 slot: every hold passes through it; a writer
keeps it until its unlock func receives from it), `respCh` per hold (1 slot).
Steps (one per channel operation / critical section under `rcancelLock`):
  caller  Lock : select{closeCh | ch<-h} ; select{closeCh | <-respCh} ; return ; unlock = `<-lock`
          (after close: `shutdownLock.Lock()`, unlock = `shutdownLock.Unlock()`)
  caller  RLock: select{closeCh | ctx.Done | ch<-h} ; select{closeCh | <-respCh} ; return ;
          release = `rcancel()` (one section: cancel(cancelErr), delete, wg.Done)
  handler: select{closeCh → exit (deferred: launch every remaining grace goroutine) | <-ch} ;
          `lock<-` (reader: or ctx.Done → answer err) ; section (writer: launch the grace goroutine
          of every registered reader; reader: wg.Add, register, answer) ; writer: wg.Wait, answer ;
          reader: `<-lock`
  grace goroutine of reader t: select{time.After(grace) | closeCh | doneCh} ; rcancel()
Abstractions (stated in design/C13.md): the registry `rcancels`/`rcancelx` is keyed by the
reader's caller id (indices are unique among live entries); `wg.Wait()` is "no live registration"
(`wg` counts exactly the live registrations: both change in the same sections); the handler's
register section and its answer are one step; `shutdownLock` is a plain mutex; time is a counter
advanced by the environment (`tick`), a timer started at `st` can fire once `now ≥ st + grace`.
Ghost: `told` (why a reader's context was cancelled by `rcancel`), `Grace.byShutdown`.
-/
namespace Kit.Locks.OuterCancel
open Kit.Locks

/-- why `rcancel` ran for a reader (its context is then cancelled with the configured cause) -/
inductive Why where
  | own                         -- the reader's own release
  | timeout (st : Nat) (by_ : Option (Tid × Nat))
                                -- a grace goroutine whose timer, started at `st`, fired (then `st + grace ≤ now`);
                                -- `by_` = the writer hold whose section launched it (none: the shutdown path)
  | closed                      -- a grace goroutine woken by `closeCh` (shutdown)
  | done                        -- a grace goroutine woken by `doneCh` (rcancel had already run)
  deriving DecidableEq, Repr

inductive PC where
  | idle
  | wCalled | wSent | wShut | wGranted (shut : Bool) | wHolding (shut : Bool) | wUnlocking (shut : Bool) | wDone
  | rCalled | rSent | rErr | rGranted | rHolding | rUnlocking | rDone
  deriving DecidableEq, Repr

inductive HPC where
  | idle
  | have (t : Tid) (g : Nat) (w : Bool)   -- hold received, before `lock<-`
  | slot (t : Tid) (g : Nat) (w : Bool)   -- slot taken, before the section
  | wait (t : Tid) (g : Nat)              -- writer: grace goroutines launched, in wg.Wait()
  | rel (t : Tid) (g : Nat)               -- reader answered, before `<-lock`
  | exiting                       -- loop left, deferred launch pending
  | dead
  deriving DecidableEq, Repr

structure Grace where
  st : Nat
  byShutdown : Bool
  launchedFor : Option (Tid × Nat)   -- ghost: the writer hold `(w, gen)` whose section launched it
  woke : Option Why      -- select returned (reason), rcancel() not yet run
  deriving DecidableEq, Repr

structure State where
  n : Nat
  grace : Nat
  now : Nat
  closed : Bool
  runCancelled : Bool
  gen : Nat → Nat                   -- number of Lock/RLock calls of the caller so far: a hold request
                                    -- `(t, gen t, write?)` carries its own answer channel, fresh per call
  chBuf : Option (Tid × Nat × Bool)
  slot : Option Tid
  shut : Option Tid
  hpc : HPC
  live : Nat → Bool                 -- registered reader whose rcancel has not run (counted in wg)
  told : Nat → Option Why           -- reader context cancelled by rcancel
  parentDone : Nat → Bool           -- the context passed to RLock is done
  graces : Nat → Option Grace
  resp : Nat → Option Bool          -- respCh of the caller's current hold: some err?
  pcs : Nat → PC

inductive Op where | lock | unlock | rlock (pre : Bool) | runlock deriving DecidableEq, Repr
inductive Env where | shutdown | cancelParent (t : Tid) | tick deriving DecidableEq, Repr
inductive Probe where
  | cancelled (cause : Bool)   -- the reader's rctx is done; cause = true: the configured error
  | notCancelled
  | quiet                      -- the harness saw every goroutine of the primitive parked or blocked
  deriving DecidableEq, Repr

/-- result: 0 ok, 1 ctx error, 2 lock closed -/
abbrev L := Lbl Op Nat Probe Env

def init (n grace : Nat) : State :=
  { n := n, grace := grace, now := 0, closed := false, runCancelled := false, gen := fun _ => 0, chBuf := none,
    slot := none, shut := none, hpc := .idle, live := fun _ => false, told := fun _ => none,
    parentDone := fun _ => false, graces := fun _ => none, resp := fun _ => none,
    pcs := fun _ => .idle }

/-- The handler's answer `h.respCh <- resp` for hold `(t, g)`: it reaches the caller only if that
hold is the caller's current one (otherwise the channel belongs to an abandoned call — possible
only after shutdown — and nobody ever reads it). -/
def deliver (s : State) (t : Tid) (g : Nat) (err : Bool) : Nat → Option Bool :=
  if g = s.gen t then upd s.resp t (some err) else s.resp

def noLive (s : State) : Bool := (List.range s.n).all fun t => !s.live t

/-- `rcancel()` for reader `t`: one section under `rcancelLock`. -/
def rcancel (s : State) (t : Tid) (why : Why) : State :=
  if s.live t then { s with live := upd s.live t false, told := upd s.told t (some why) } else s

/-- launch the grace goroutine of every live reader (writer section / deferred at exit) -/
def launchAll (s : State) (byShutdown : Bool) (launchedFor : Option (Tid × Nat)) : Nat → Option Grace := fun t =>
  if t < s.n ∧ s.live t = true then
    some { st := s.now, byShutdown := byShutdown, launchedFor := launchedFor, woke := none }
  else s.graces t

def stepCore (s : State) : L → Option State
  | .call t .lock =>
    if t < s.n then
      match s.pcs t with
      | .idle => some { s with pcs := upd s.pcs t .wCalled, resp := upd s.resp t none,
                               gen := upd s.gen t (s.gen t + 1) }
      | _ => none
    else none
  | .call t (.rlock pre) =>
    if t < s.n then
      match s.pcs t with
      | .idle => some { s with pcs := upd s.pcs t .rCalled, resp := upd s.resp t none,
                               gen := upd s.gen t (s.gen t + 1),
                               parentDone := upd s.parentDone t pre, told := upd s.told t none }
      | _ => none
    else none
  | .call t .unlock =>
    match s.pcs t with
    | .wHolding sh => some { s with pcs := upd s.pcs t (.wUnlocking sh) }
    | _ => none
  | .call t .runlock =>
    match s.pcs t with
    | .rHolding => some { s with pcs := upd s.pcs t .rUnlocking }
    | _ => none
  | .env .shutdown => some { s with runCancelled := true }
  | .env (.cancelParent t) => some { s with parentDone := upd s.parentDone t true }
  | .env .tick => some { s with now := s.now + 1 }
  | .tau t alt =>
    match s.pcs t with
    | .wCalled =>
      if alt = 0 then (if s.closed then some { s with pcs := upd s.pcs t .wShut } else none)
      else match s.chBuf with
        | none => some { s with chBuf := some (t, s.gen t, true), pcs := upd s.pcs t .wSent }
        | some _ => none
    | .wSent =>
      if alt = 0 then (if s.closed then some { s with pcs := upd s.pcs t .wShut } else none)
      else match s.resp t with
        | some _ => some { s with resp := upd s.resp t none, pcs := upd s.pcs t (.wGranted false) }
        | none => none
    | .wShut =>                -- o.shutdownLock.Lock()
      match s.shut with
      | none => some { s with shut := some t, pcs := upd s.pcs t (.wGranted true) }
      | some _ => none
    | .wUnlocking false =>     -- <-o.lock
      match s.slot with
      | some _ => some { s with slot := none, pcs := upd s.pcs t .wDone }
      | none => none
    | .wUnlocking true =>      -- o.shutdownLock.Unlock()
      match s.shut with
      | some _ => some { s with shut := none, pcs := upd s.pcs t .wDone }
      | none => none
    | .rCalled =>
      if alt = 0 then (if s.closed then some { s with pcs := upd s.pcs t .rErr } else none)
      else if alt = 1 then (if s.parentDone t then some { s with pcs := upd s.pcs t .rErr } else none)
      else match s.chBuf with
        | none => some { s with chBuf := some (t, s.gen t, false), pcs := upd s.pcs t .rSent }
        | some _ => none
    | .rSent =>
      if alt = 0 then (if s.closed then some { s with pcs := upd s.pcs t .rErr } else none)
      else match s.resp t with
        | some true => some { s with resp := upd s.resp t none, pcs := upd s.pcs t .rErr }
        | some false => some { s with resp := upd s.resp t none, pcs := upd s.pcs t .rGranted }
        | none => none
    | .rUnlocking =>           -- the returned cancel func = rcancel()
      some { rcancel s t .own with pcs := upd s.pcs t .rDone }
    | _ => none
  | .ret t r =>
    match s.pcs t with
    | .wGranted sh => if r = 0 then some { s with pcs := upd s.pcs t (.wHolding sh) } else none
    | .rGranted => if r = 0 then some { s with pcs := upd s.pcs t .rHolding } else none
    | .rErr => if r = 1 ∨ r = 2 then some { s with pcs := upd s.pcs t .idle } else none
    | .wDone => if r = 0 then some { s with pcs := upd s.pcs t .idle } else none
    | .rDone => if r = 0 then some { s with pcs := upd s.pcs t .idle } else none
    | _ => none
  | .sys 0 alt =>              -- the handler
    match s.hpc with
    | .idle =>
      if alt = 0 then (if s.closed then some { s with hpc := .exiting } else none)
      else match s.chBuf with
        | some (t, g, w) => some { s with chBuf := none, hpc := .have t g w }
        | none => none
    | .have t g w =>
      if alt = 0 then
        match s.slot with
        | none => some { s with slot := some t, hpc := .slot t g w }
        | some _ => none
      else if !w && s.parentDone t then some { s with resp := deliver s t g true, hpc := .idle }
      else none
    | .slot t g true =>        -- writer section: launch every reader's graceful cancel
      some { s with graces := launchAll s false (some (t, g)), hpc := .wait t g }
    | .slot t g false =>       -- reader section: wg.Add, register, answer
      -- (a grace goroutine left over from an earlier, finished registration of this caller can
      -- only run a no-op rcancel: it is dropped here)
      some { s with live := upd s.live t true, graces := upd s.graces t none,
                    resp := deliver s t g false, hpc := .rel t g }
    | .wait t g =>             -- wg.Wait(); answer; the slot stays taken
      if noLive s then some { s with resp := deliver s t g false, hpc := .idle } else none
    | .rel _ _ =>              -- <-o.lock
      match s.slot with
      | some _ => some { s with slot := none, hpc := .idle }
      | none => none
    | .exiting => some { s with graces := launchAll s true none, hpc := .dead }
    | .dead => none
  | .sys 1 _ =>                -- the closer
    if s.runCancelled && !s.closed then some { s with closed := true } else none
  | .sys (i + 2) alt =>        -- grace goroutine of reader i
    match s.graces i with
    | some g =>
      match g.woke with
      | none =>
        if alt = 0 then
          (if s.now ≥ g.st + s.grace then some { s with graces := upd s.graces i (some { g with woke := some (.timeout g.st g.launchedFor) }) } else none)
        else if alt = 1 then
          (if s.closed then some { s with graces := upd s.graces i (some { g with woke := some .closed }) } else none)
        else
          (if !s.live i then some { s with graces := upd s.graces i (some { g with woke := some .done }) } else none)
      | some why => some { rcancel s i why with graces := upd s.graces i none }
    | none => none
  | .probe t (.cancelled cause) =>
    match s.pcs t with
    | .rHolding =>
      if cause then (if (s.told t).isSome then some s else none)
      else (if s.parentDone t then some s else none)
    | _ => none
  | .probe t .notCancelled =>
    match s.pcs t with
    | .rHolding => if (s.told t).isNone && !s.parentDone t then some s else none
    | _ => none
  | .probe _ .quiet => none

/-- No goroutine of the primitive has an enabled step (timers excepted: whether a grace timer has
fired is real time, observed separately). The harness reports this after it has seen every caller
idle or blocked and every internal goroutine blocked in the runtime's wait states. -/
def quiet (s : State) : Bool :=
  ((List.range s.n).all fun t =>
    (stepCore s (.tau t 0)).isNone && (stepCore s (.tau t 1)).isNone && (stepCore s (.tau t 2)).isNone &&
    (stepCore s (.sys (t + 2) 1)).isNone && (stepCore s (.sys (t + 2) 2)).isNone &&
    (match s.graces t with
     | some g => g.woke.isNone
     | none => true)) &&
  (stepCore s (.sys 0 0)).isNone && (stepCore s (.sys 0 1)).isNone && (stepCore s (.sys 1 0)).isNone

def step (s : State) : L → Option State
  | .probe _ .quiet => if quiet s then some s else none
  | a => stepCore s a

def lts : LTS State L := ⟨step⟩

/-- a writer granted through the handler that has not unlocked yet -/
def PC.slotWriter : PC → Bool
  | .wGranted false | .wHolding false | .wUnlocking false => true
  | _ => false

def PC.shutWriter : PC → Bool
  | .wGranted true | .wHolding true | .wUnlocking true => true
  | _ => false

/-- a reader inside its hold -/
def PC.reading : PC → Bool
  | .rGranted | .rHolding => true
  | _ => false

def taus (s : State) : List L :=
  (List.range s.n).flatMap (fun t => [.tau t 0, .tau t 1, .tau t 2]) ++
  [.sys 0 0, .sys 0 1, .sys 1 0] ++
  (List.range s.n).flatMap (fun t => [.sys (t + 2) 0, .sys (t + 2) 1, .sys (t + 2) 2])

instance : BEq State where
  beq a b := a.n == b.n && a.grace == b.grace && a.now == b.now && a.closed == b.closed &&
    a.runCancelled == b.runCancelled && eqUpTo a.n a.gen b.gen && a.chBuf == b.chBuf && a.slot == b.slot && a.shut == b.shut &&
    a.hpc == b.hpc && eqUpTo a.n a.live b.live && eqUpTo a.n a.told b.told &&
    eqUpTo a.n a.parentDone b.parentDone && eqUpTo a.n a.graces b.graces &&
    eqUpTo a.n a.resp b.resp && eqUpTo a.n a.pcs b.pcs

def sim : Sim State L := { M := lts, internal := Lbl.internal, taus := taus }

end Kit.Locks.OuterCancel
