import KitModel.Locks.Kernel
/-
`fifo.Mutex` (concurrency/fifo/mutex.go): a 1-slot channel; `Lock` = send, `Unlock` = receive.
Channel semantics assumed (trusted base): a send on a full buffered channel parks the sender at
the tail of the channel's FIFO `sendq`; a receive takes the buffered element and, if a sender is
parked, moves the *head* sender's element into the buffer and makes that sender runnable, all in
one atomic step.  The element carries the sender's id (ghost: the code sends `struct{}{}`), no
step looks at it.  `arrivals`/`grants` are ghost histories (order of send operations / order in
which sends completed).
-/
namespace Kit.Locks.FifoMutex
open Kit.Locks

inductive PC where
  | idle | called | queued | granted | holding | unlocking | released
  deriving DecidableEq, Repr

structure State where
  slot : Option Tid
  sendq : List Tid
  pcs : List PC
  arrivals : List Tid
  grants : List Tid
  deriving DecidableEq, Repr

inductive Op where | lock | unlock deriving DecidableEq, Repr
inductive Probe where | blocked deriving DecidableEq, Repr

abbrev L := Lbl Op Unit Probe Unit

def init (n : Nat) : State :=
  { slot := none, sendq := [], pcs := List.replicate n .idle, arrivals := [], grants := [] }

def step (s : State) : L → Option State
  | .call t .lock =>
    match s.pcs[t]? with
    | some .idle => some { s with pcs := s.pcs.set t .called }
    | _ => none
  | .call t .unlock =>
    match s.pcs[t]? with
    | some .holding => some { s with pcs := s.pcs.set t .unlocking }
    | _ => none
  | .tau t _ =>
    match s.pcs[t]? with
    | some .called =>            -- m.lock <- struct{}{}
      match s.slot with
      | none => some { s with slot := some t, pcs := s.pcs.set t .granted,
                              arrivals := s.arrivals ++ [t], grants := s.grants ++ [t] }
      | some _ => some { s with sendq := s.sendq ++ [t], pcs := s.pcs.set t .queued,
                                arrivals := s.arrivals ++ [t] }
    | some .unlocking =>         -- <-m.lock
      match s.slot with
      | none => none             -- receive on an empty channel blocks
      | some _ =>
        match s.sendq with
        | [] => some { s with slot := none, pcs := s.pcs.set t .released }
        | h :: rest =>
          some { s with slot := some h, sendq := rest,
                        pcs := (s.pcs.set t .released).set h .granted,
                        grants := s.grants ++ [h] }
    | _ => none
  | .ret t () =>
    match s.pcs[t]? with
    | some .granted => some { s with pcs := s.pcs.set t .holding }
    | some .released => some { s with pcs := s.pcs.set t .idle }
    | _ => none
  | .probe t .blocked =>
    match s.pcs[t]? with
    | some .queued => some s
    | _ => none
  | .sys _ _ => none
  | .env _ => none

def lts : LTS State L := ⟨step⟩

/-- `t` owns the mutex: its send completed and its receive has not happened yet. -/
def owns (s : State) (t : Tid) : Prop :=
  s.pcs[t]? = some .granted ∨ s.pcs[t]? = some .holding ∨ s.pcs[t]? = some .unlocking

def taus (s : State) : List L := (List.range s.pcs.length).map (fun t => .tau t 0)

def sim : Sim State L := { M := lts, internal := Lbl.internal, taus := taus }

end Kit.Locks.FifoMutex
