import KitModel.Queue
import KitModel.Generated.C06
/-!
# Model of `events/queue/processor.go` (property C06): a labelled transition system

State of one `Processor`:

* `q`          — the queue (specification level of `KitModel/Queue.lean`: live items, one per key);
* `token`      — the 1-slot channel `processorRunningCh`: free, held by the loop goroutine, or taken
                 for good by `Close`;
* `reset`      — the 1-slot channel `resetCh` (true = a reset signal is buffered);
* `stopped`    — the atomic flag; `stopClosed` — `stopCh` has been closed;
* `pc`         — program counter of the (at most one) `processLoop` goroutine;
* `cpc`        — program counter of the `Close` call that won the `CompareAndSwap`;
* `now`        — the injected clock (integer nanoseconds);
* `nextId`, `log` — ghost: identity of the next enqueued object, and the history of what happened.

**Environment actions** (any number of caller goroutines, no per-caller program counter): the bodies
of `Enqueue` and `Dequeue` run entirely under `p.lock`, so each is ONE atomic action
(`enqueue`, `dequeue`); `advance` moves the clock; `closeBegin` is `Close`'s successful CAS.  The
early `if p.stopped.Load() { return }` of `Enqueue`/`Dequeue` is outside the lock: a caller that
passed it may run its body arbitrarily later, so the bodies are enabled in every state (a call that
returns early is no action at all).

**Internal actions**: one per lock-free step of the loop goroutine exactly as in the code (the
critical sections `lock; Peek; unlock` and `lock; Peek; compare; Pop; unlock` are one step each),
the callback's start and return, the deferred token release, and `Close`'s remaining steps.

Nondeterminism that the Go code resolves by the shape of its heap is kept open here: `peek hd` and
`execCheck hd` accept *any* minimal item `hd` — but consistently: the field `root` remembers the item
seen at the last look and is forgotten at every queue operation (a heap's root does not change in
between) — and `enqueue … first` / `dequeue … first` carry the
value of `isFirst` ("the head changed"), constrained only by what every heap guarantees.  So the
theorems hold for every tie-breaking rule.

`Cfg.fixed = false` is the loop as it was before the `fix:` commit (peek sees the queue empty,
unlocks, and only the *deferred* function releases the token); `fixed = true` is the repaired loop
(token released while still holding the lock).

`closeAgain` is the return of a `Close` call that lost the CAS.  Before the second `fix:` commit
(also `Cfg.fixed = false`) such a call only did `wg.Wait()`: it may return as soon as the flag is set
and no loop goroutine exists.  After it (`fixed = true`) it first waits for `closedCh`, which the
winning call closes after taking the running token.  (`wg.Wait()` additionally waits for goroutines
that have already released the token and touch no shared state any more; this is not modelled, the
model lets `Close` return earlier than the code does.)

`deadline = scheduled − clock.Now()` (`decide`; the subtraction saturates at ±2^63 ns as `Time.Sub`
does) and `clock.NewTimer(deadline)` (`arm`) are two steps:
the clock may advance between them, and then the timer fires late by exactly that advance
(`late_bound` in `KitProofs/Props/C06.lean`; ghost fields `readAt`, `armAt`).
-/
namespace Kit.Processor
open Kit.Queue

/-! ## generic LTS kernel -/

structure LTS (σ α : Type) where
  init : σ
  step : σ → α → Option σ

/-- States reachable by any sequence of labels (any interleaving). -/
inductive Reach {σ α : Type} (M : LTS σ α) : σ → Prop
  | init : Reach M M.init
  | step {s s' : σ} (a : α) : Reach M s → M.step s a = some s' → Reach M s'

theorem inv_of_inductive {σ α : Type} (M : LTS σ α) (Inv : σ → Prop) (h0 : Inv M.init)
    (hs : ∀ s a s', Reach M s → Inv s → M.step s a = some s' → Inv s') :
    ∀ s, Reach M s → Inv s := by
  intro s h
  induction h with
  | init => exact h0
  | step a hr hst ih => exact hs _ a _ hr ih hst

/-- Paths that use only labels satisfying `p`. -/
inductive Steps {σ α : Type} (M : LTS σ α) (p : α → Prop) : σ → σ → Prop
  | refl (s : σ) : Steps M p s s
  | cons {s s' s'' : σ} (a : α) : p a → M.step s a = some s' → Steps M p s' s'' → Steps M p s s''

theorem Steps.trans {σ α : Type} {M : LTS σ α} {p : α → Prop} {a b c : σ}
    (h1 : Steps M p a b) (h2 : Steps M p b c) : Steps M p a c := by
  induction h1 with
  | refl => exact h2
  | cons l hp hst _ ih => exact Steps.cons l hp hst (ih h2)

theorem Steps.single {σ α : Type} {M : LTS σ α} {p : α → Prop} {s s' : σ} (a : α)
    (hp : p a) (h : M.step s a = some s') : Steps M p s s' :=
  Steps.cons a hp h (Steps.refl _)

theorem Steps.reach {σ α : Type} {M : LTS σ α} {p : α → Prop} {s s' : σ}
    (h : Steps M p s s') (hr : Reach M s) : Reach M s' := by
  induction h with
  | refl => exact hr
  | cons a _ hst _ ih => exact ih (Reach.step a hr hst)

/-! ## the processor -/

/-- `500 * time.Microsecond` in nanoseconds: items due within this margin run without a timer.
Regenerated from the source on every run (`KitModel/Generated/C06.lean`). -/
def halfMs : Int := Kit.Generated.C06.runNowMarginNs

/-- Which variant of the model the current source is, according to the regenerated facts: the
repaired one iff the empty-queue exit releases the token under the lock and a losing `Close` waits. -/
def sourceIsFixed : Bool :=
  Kit.Generated.C06.emptyExitReleasesTokenUnderLock && Kit.Generated.C06.closeLoserWaits

/-- Hook points (without the `queue.` prefix) at which the harness parks a goroutine and for which
the driver knows the program counter of the model. -/
def parkPoints : List String :=
  ["loop.peeked", "loop.sawEmpty", "loop.beforeArm", "loop.beforeTimer", "loop.parked", "loop.fired", "loop.reset",
   "loop.exit", "execute.popped", "process.resetSent", "process.tokenTaken",
   "enqueue.afterStoppedCheck", "close.afterCAS"]

/-- `time.Duration` is an int64 of nanoseconds and `Time.Sub` SATURATES: a span beyond ≈ ±292 years
becomes `maxDuration` / `minDuration`. -/
def maxDur : Int := 9223372036854775807
def minDur : Int := -9223372036854775808

/-- `scheduledTime.Sub(now)` as Go computes it. -/
def satDur (d : Int) : Int := if maxDur < d then maxDur else if d < minDur then minDur else d

inductive Token where
  | free | loop | close
  deriving Repr, DecidableEq

/-- Program counter of the `processLoop` goroutine. -/
inductive Pc (κ ν : Type) where
  | absent                          -- no loop goroutine
  | top                             -- about to `lock; Peek; unlock`
  | peeked (r : Item κ ν)           -- Peek returned `r`; about to poll stop/reset
  | polled (r : Item κ ν)           -- poll fell through; about to read the clock
  | arming (r : Item κ ν)           -- clock read, `deadline` computed; about to call `NewTimer(deadline)`
  | armed (r : Item κ ν)            -- timer armed (fires when `now ≥ timer`); in the 3-way select
  | firing (r : Item κ ν)           -- about to call `execute(r)`
  | popped (r : Item κ ν)           -- `r` popped under the lock; about to call `executeFn(r)`
  | running (r : Item κ ν)          -- inside `executeFn(r)`
  | exiting                         -- returning; the deferred release of the token is pending
  deriving Repr, DecidableEq

/-- Program counter of the `Close` call that won the CAS. -/
inductive ClosePc where
  | idle | casDone | chClosed | tokenTaken | returned
  deriving Repr, DecidableEq

/-- Ghost history (newest first). -/
inductive Event (κ ν : Type) where
  | enq (r : Item κ ν)
  | deq (k : κ)
  | pop (r : Item κ ν)
  | exec (r : Item κ ν) (now : Int)
  | closeRet
  deriving Repr, DecidableEq

structure State (κ ν : Type) where
  q : List (Item κ ν)
  token : Token
  reset : Bool
  stopped : Bool
  stopClosed : Bool
  pc : Pc κ ν
  cpc : ClosePc
  now : Int
  nextId : Nat
  log : List (Event κ ν)
  /-- while `arming`: the duration `scheduled − Now()`; while `armed`: the instant the timer fires. -/
  timer : Int := 0
  /-- ghost: the clock value the loop last read (`decide`). -/
  readAt : Int := 0
  /-- ghost: the clock value at which the loop last created a timer (`arm`). -/
  armAt : Int := 0
  /-- The root of the heap if it has been looked at since the last queue operation (`none` =
  undetermined: any minimal item may turn out to be the root).  The root of a heap does not change
  between queue operations, so two looks without one in between see the same item. -/
  root : Option (Item κ ν) := none
  deriving Repr, DecidableEq

inductive Label (κ ν : Type) where
  -- environment
  | enqueue (k : κ) (t : Int) (v : ν) (first : Bool)
  | dequeue (k : κ) (first : Bool)
  | advance (t : Int)
  | closeBegin
  -- the Close caller
  | closeStopCh | closeTake | closeReturn
  -- return of a Close call that lost the CAS
  | closeAgain
  -- the loop goroutine
  | peek (hd : Option (Item κ ν))
  | pollStop | pollReset | pollNone
  | decide
  | arm
  | timerFire | recvReset | recvStop
  | execCheck (hd : Option (Item κ ν))
  | cbStart | cbReturn
  | release
  deriving Repr, DecidableEq

structure Cfg where
  /-- `false`: `processor.go` as found; `true`: after the two `fix:` commits (the loop releases the
  token under the lock when it sees the queue empty; a `Close` call that lost the CAS waits until the
  winning call has taken the running token). -/
  fixed : Bool
  deriving Repr, DecidableEq

/-- The current code. -/
abbrev fixedCfg : Cfg := ⟨true⟩

variable {κ ν : Type} [DecidableEq κ] [DecidableEq ν]

def init : State κ ν :=
  { q := [], token := .free, reset := false, stopped := false, stopClosed := false,
    pc := .absent, cpc := .idle, now := 0, nextId := 0, log := [] }

/-- `process(isNext)`: take the token and start a loop, else (a loop — or Close — holds it) send a
non-blocking reset when the head changed. -/
def process (s : State κ ν) (isNext : Bool) : State κ ν :=
  match s.token with
  | .free => { s with token := .loop, pc := .top }
  | _ => if isNext then { s with reset := true } else s

/-- What `isFirst` may be in `Enqueue(k,t)`: `true` needs the replaced item or the new item to be
a candidate head; `false` needs some other item to be not later than the new one. -/
def enqGuard (q : List (Item κ ν)) (k : κ) (t : Int) (first : Bool) : Prop :=
  if first then
    (∃ o, lookup q k = some o ∧ IsMin q o) ∨ (∀ x ∈ remove q k, t ≤ x.time)
  else
    ∃ x ∈ remove q k, x.time ≤ t

instance (q : List (Item κ ν)) (k : κ) (t : Int) (first : Bool) : Decidable (enqGuard q k t first) := by
  unfold enqGuard
  cases lookup q k <;> simp only [reduceCtorEq, false_and, exists_false, Option.some.injEq, exists_eq_left'] <;>
    infer_instance

/-- What "the removed item was the head" may be in `Dequeue(k)`. -/
def deqGuard (q : List (Item κ ν)) (k : κ) (first : Bool) : Prop :=
  match lookup q k with
  | none => first = false
  | some o =>
    if first then IsMin q o
    else ∃ x ∈ remove q k, x.time ≤ o.time

instance (q : List (Item κ ν)) (k : κ) (first : Bool) : Decidable (deqGuard q k first) := by
  unfold deqGuard
  cases lookup q k <;> simp only <;> infer_instance

def step (cfg : Cfg) (s : State κ ν) : Label κ ν → Option (State κ ν)
  | .enqueue k t v first =>
    if enqGuard s.q k t first then
      let r : Item κ ν := ⟨k, t, v, s.nextId⟩
      some (process { s with q := insert s.q r, nextId := s.nextId + 1, log := .enq r :: s.log, root := none } first)
    else none
  | .dequeue k first =>
    if deqGuard s.q k first then
      let s1 := { s with q := remove s.q k, log := .deq k :: s.log, root := none }
      some (if first then process s1 true else s1)
    else none
  | .advance t => if s.now ≤ t then some { s with now := t } else none
  | .closeBegin =>
    if s.stopped = false then some { s with stopped := true, cpc := .casDone } else none
  | .closeStopCh =>
    if s.cpc = .casDone then some { s with stopClosed := true, cpc := .chClosed } else none
  | .closeTake =>
    if s.cpc = .chClosed ∧ s.token = .free then some { s with token := .close, cpc := .tokenTaken } else none
  | .closeReturn =>
    if s.cpc = .tokenTaken then some { s with cpc := .returned, log := .closeRet :: s.log } else none
  | .closeAgain =>
    if s.stopped = true ∧ s.pc = .absent ∧ (cfg.fixed = false ∨ s.token = .close) then
      some { s with log := .closeRet :: s.log }
    else none
  | .peek hd =>
    match s.pc with
    | .top =>
      if IsHead s.q hd ∧ (s.root = none ∨ s.root = hd) then
        match hd with
        | some r => some { s with pc := .peeked r, root := some r }
        | none => if cfg.fixed then some { s with token := .free, pc := .absent }
                  else some { s with pc := .exiting }
      else none
    | _ => none
  | .pollStop =>
    match s.pc with
    | .peeked _ => if s.stopClosed then some { s with pc := .exiting } else none
    | _ => none
  | .pollReset =>
    match s.pc with
    | .peeked _ => if s.reset then some { s with reset := false, pc := .top } else none
    | _ => none
  | .pollNone =>
    match s.pc with
    | .peeked r => if s.stopClosed = false ∧ s.reset = false then some { s with pc := .polled r } else none
    | _ => none
  | .decide =>
    match s.pc with
    | .polled r =>
      if satDur (r.time - s.now) < halfMs then some { s with pc := .firing r, readAt := s.now }
      else some { s with pc := .arming r, timer := satDur (r.time - s.now), readAt := s.now }
    | _ => none
  | .arm =>
    match s.pc with
    | .arming r => some { s with pc := .armed r, timer := s.now + s.timer, armAt := s.now }
    | _ => none
  | .timerFire =>
    match s.pc with
    | .armed r => if s.timer ≤ s.now then some { s with pc := .firing r, timer := 0 } else none
    | _ => none
  | .recvReset =>
    match s.pc with
    | .armed _ => if s.reset then some { s with reset := false, pc := .top, timer := 0 } else none
    | _ => none
  | .recvStop =>
    match s.pc with
    | .armed _ => if s.stopClosed then some { s with pc := .exiting, timer := 0 } else none
    | _ => none
  | .execCheck hd =>
    match s.pc with
    | .firing r =>
      if IsHead s.q hd ∧ (s.root = none ∨ s.root = hd) then
        if hd = some r then some { s with q := pop s.q r, pc := .popped r, log := .pop r :: s.log, root := none }
        else some { s with pc := .top, root := hd }
      else none
    | _ => none
  | .cbStart =>
    match s.pc with
    | .popped r => some { s with pc := .running r, log := .exec r s.now :: s.log }
    | _ => none
  | .cbReturn =>
    match s.pc with
    | .running _ => some { s with pc := .top }
    | _ => none
  | .release =>
    match s.pc with
    | .exiting => some { s with token := .free, pc := .absent }
    | _ => none

/-- The transition system of one processor. -/
def lts (cfg : Cfg) : LTS (State κ ν) (Label κ ν) := { init := init, step := step cfg }

/-- Labels of the loop goroutine (its lock-free steps, its two critical sections, the callback). -/
def Label.isLoop : Label κ ν → Bool
  | .peek _ | .pollStop | .pollReset | .pollNone | .decide | .arm | .timerFire | .recvReset | .recvStop
  | .execCheck _ | .cbStart | .cbReturn | .release => true
  | _ => false

/-- Internal labels: the loop goroutine and the remaining steps of a `Close` in progress. -/
def Label.isInternal : Label κ ν → Bool
  | .closeStopCh | .closeTake | .closeReturn => true
  | l => l.isLoop

/-- Candidate internal labels in `s` (a finite list; those not enabled are filtered by `taus`). -/
def tauCandidates (s : State κ ν) : List (Label κ ν) :=
  [.closeStopCh, .closeTake, .closeReturn, .pollStop, .pollReset, .pollNone, .decide, .arm, .timerFire,
   .recvReset, .recvStop, .cbStart, .cbReturn, .release, .peek none, .execCheck none]
  ++ s.q.map (fun r => .peek (some r)) ++ s.q.map (fun r => .execCheck (some r))

/-- Enabled internal labels. -/
def taus (cfg : Cfg) (s : State κ ν) : List (Label κ ν) :=
  (tauCandidates s).filter (fun l => (step cfg s l).isSome)

/-- Replay of the history: the live items it leaves. -/
def live : List (Event κ ν) → List (Item κ ν)
  | [] => []
  | .enq r :: l => insert (live l) r
  | .deq k :: l => remove (live l) k
  | .pop r :: l => pop (live l) r
  | _ :: l => live l

end Kit.Processor
