import KitModel.NoPanic
import KitModel.NoPanicDecode
/-!
C07 — `config.PrefixedBy` / `uncapitalize` (config/prefix.go) and its caller
`retry.DecodeConfigWithPrefix` (retry/retry.go): "metadata and configuration maps".

Go strings are byte lists; `[]rune(str)` and `string([]rune)` are modelled by the UTF-8 decoder and
encoder of the Go runtime (`decoderune` / `encoderune`, the tables of `unicode/utf8`): an invalid
byte decodes to U+FFFD with width 1, a surrogate / out-of-range / negative rune encodes as U+FFFD.
`unicode.ToLower` is opaque (a parameter).  `vv[0]` and `vv[0] = …` are the panic-capable
operations; they are written with `idxR` / `setR`.
-/
namespace Kit.NoPanic.Prefix
open Kit Kit.NoPanic

/-- a Go `rune` (int32) -/
abbrev Rune := Int

def runeError : Rune := 0xFFFD

/-- `vv[i]` on a `[]rune` -/
def idxR (s : List Rune) (i : Nat) : Outcome Rune :=
  if h : i < s.length then .ok s[i] else .panic "index out of range"

/-- `vv[i] = v` on a `[]rune` -/
def setR (s : List Rune) (i : Nat) (v : Rune) : Outcome (List Rune) :=
  if i < s.length then .ok (s.set i v) else .panic "index out of range"

/-! ### UTF-8, as the Go runtime decodes and encodes it -/

def isCont (b : UInt8) : Bool := 0x80 ≤ b.toNat && b.toNat ≤ 0xBF

/-- `(size, lo, hi)` of `unicode/utf8`'s `first` / `acceptRanges` tables for a lead byte ≥ 0x80;
`none` = invalid lead byte (`xx`). -/
def leadInfo (p0 : Nat) : Option (Nat × Nat × Nat) :=
  if p0 < 0xC2 then none
  else if p0 ≤ 0xDF then some (2, 0x80, 0xBF)
  else if p0 = 0xE0 then some (3, 0xA0, 0xBF)
  else if p0 = 0xED then some (3, 0x80, 0x9F)
  else if p0 ≤ 0xEF then some (3, 0x80, 0xBF)
  else if p0 = 0xF0 then some (4, 0x90, 0xBF)
  else if p0 ≤ 0xF3 then some (4, 0x80, 0xBF)
  else if p0 = 0xF4 then some (4, 0x80, 0x8F)
  else none

/-- `utf8.DecodeRuneInString` on a non-empty string: (rune, width), width ≥ 1. -/
def decodeRune (p0 : UInt8) (rest : Bytes) : Rune × Nat :=
  let a := p0.toNat
  if a < 0x80 then ((a : Int), 1)
  else match leadInfo a with
    | none => (runeError, 1)
    | some (sz, lo, hi) =>
      match rest with
      | [] => (runeError, 1)
      | b1 :: r1 =>
        let x1 := b1.toNat
        if x1 < lo || hi < x1 then (runeError, 1)
        else if sz = 2 then ((((a % 32) * 64 + x1 % 64 : Nat) : Int), 2)
        else match r1 with
          | [] => (runeError, 1)
          | b2 :: r2 =>
            if !isCont b2 then (runeError, 1)
            else if sz = 3 then ((((a % 16) * 4096 + (x1 % 64) * 64 + b2.toNat % 64 : Nat) : Int), 3)
            else match r2 with
              | [] => (runeError, 1)
              | b3 :: _ =>
                if !isCont b3 then (runeError, 1)
                else ((((a % 8) * 262144 + (x1 % 64) * 4096 + (b2.toNat % 64) * 64 + b3.toNat % 64 : Nat) : Int), 4)

/-- `[]rune(str)`: one rune per decoding step; `fuel` bounds the steps (each consumes ≥ 1 byte, so
`len(str)` steps always suffice: `runesOf`). -/
def runesFuel : Nat → Bytes → List Rune
  | 0, _ => []
  | _, [] => []
  | fuel + 1, p0 :: rest =>
    let (r, w) := decodeRune p0 rest
    r :: runesFuel fuel (rest.drop (w - 1))

def runesOf (s : Bytes) : List Rune := runesFuel s.length s

/-- `utf8.AppendRune` / the runtime's `encoderune` -/
def encodeRune (r : Rune) : Bytes :=
  let bad := r < 0 || r > 0x10FFFF || (0xD800 ≤ r && r ≤ 0xDFFF)
  let i : Nat := if bad then 0xFFFD else r.toNat
  if i ≤ 0x7F then [UInt8.ofNat i]
  else if i ≤ 0x7FF then [UInt8.ofNat (0xC0 + i / 64), UInt8.ofNat (0x80 + i % 64)]
  else if i ≤ 0xFFFF then [UInt8.ofNat (0xE0 + i / 4096), UInt8.ofNat (0x80 + (i / 64) % 64), UInt8.ofNat (0x80 + i % 64)]
  else [UInt8.ofNat (0xF0 + i / 262144), UInt8.ofNat (0x80 + (i / 4096) % 64), UInt8.ofNat (0x80 + (i / 64) % 64), UInt8.ofNat (0x80 + i % 64)]

/-- `string(vv)` -/
def stringOf (vv : List Rune) : Bytes := vv.flatMap encodeRune

/-! ### config/prefix.go -/

/-- `uncapitalize`, as written: the `len(str) == 0` guard, then `vv := []rune(str); vv[0] = unicode.ToLower(vv[0])`. -/
def uncapitalize (toLower : Rune → Rune) (str : Bytes) : Outcome Bytes :=
  if str.length = 0 then .ok str
  else
    let vv := runesOf str
    (idxR vv 0).bind fun r0 =>
      (setR vv 0 (toLower r0)).bind fun vv' => .ok (stringOf vv')

/-- the same body without the guard: what is left when the guard is "moved to the callers" -/
def uncapitalizeUnguarded (toLower : Rune → Rune) (str : Bytes) : Outcome Bytes :=
  let vv := runesOf str
  (idxR vv 0).bind fun r0 =>
    (setR vv 0 (toLower r0)).bind fun vv' => .ok (stringOf vv')

/-- `strings.HasPrefix` -/
def hasPrefix (s p : Bytes) : Bool := p.isPrefixOf s

/-- `strings.TrimPrefix` -/
def trimPrefix (s p : Bytes) : Bytes := if hasPrefix s p then s.drop p.length else s

/-- the `for k, v := range inputMap` loop of either branch, over the keys in iteration order, for a
given helper `uncap`: the keys of `converted`, in insertion order (a later equal key overwrites). -/
def convertKeys (uncap : Bytes → Outcome Bytes) (pre : Bytes) : List Bytes → Outcome (List Bytes)
  | [] => .ok []
  | k :: ks =>
    if hasPrefix k pre then
      (uncap (trimPrefix k pre)).bind fun key =>
        (convertKeys uncap pre ks).bind fun rest => .ok (key :: rest)
    else convertKeys uncap pre ks

/-- what `PrefixedBy` is handed -/
inductive Input where
  /-- `map[string]interface{}` -/
  | mapStrAny (kvs : List (Bytes × Decode.Val))
  /-- `map[string]string` -/
  | mapStrStr (ks : List Bytes)
  /-- `map[interface{}]interface{}`; `none` = a key that is not a string -/
  | mapAnyAny (kvs : List (Option Bytes × Decode.Val))
  /-- a value of any other type (scalars, lists, typed nils, maps of other types, …): `Normalize`d and handed back -/
  | other (v : Decode.Val)

/-- the value tree `Normalize` walks -/
def Input.toVal : Input → Decode.Val
  | .mapStrAny kvs => .mapStr (kvs.map (·.2))
  | .mapStrStr _ => .scalar
  | .mapAnyAny kvs => .mapAny (kvs.map fun kv => (kv.1.isSome, kv.2))
  | .other v => v

/-- the keys the two type assertions of `PrefixedBy` see after `input = normalized`
(`none`: neither assertion holds, the input is returned as is) -/
def Input.keys : Input → Option (List Bytes)
  | .mapStrAny kvs => some (kvs.map (·.1))
  | .mapStrStr ks => some ks
  | .mapAnyAny kvs => some (kvs.filterMap (·.1))   -- after a successful Normalize every key is a string
  | .other _ => none

/-- `config.PrefixedBy(input, prefix)`: the keys of the converted map (`[]` when the input is
returned unchanged), `.err` when `Normalize` fails. -/
def prefixedByWith (uncap : Bytes → Outcome Bytes) (inp : Input) (pre : Bytes) : Outcome (List Bytes) :=
  (Decode.normalize inp.toVal).bind fun _ =>
    match inp.keys with
    | some ks => convertKeys uncap pre ks
    | none => .ok []

def prefixedBy (toLower : Rune → Rune) (inp : Input) (pre : Bytes) : Outcome (List Bytes) :=
  prefixedByWith (uncapitalize toLower) inp pre

/-- `retry.DecodeConfigWithPrefix`: `PrefixedBy`, then `DecodeConfig` = `config.Decode`, which
recovers library panics and returns them as errors (fix 76c99a5), so its outcome is ok/err
(`decodeOk`). -/
def decodeConfigWithPrefix (toLower : Rune → Rune) (decodeOk : List Bytes → Bool) (inp : Input) (pre : Bytes) : Outcome Unit :=
  (prefixedBy toLower inp pre).bind fun ks => if decodeOk ks then .ok () else .err "decode"

end Kit.NoPanic.Prefix
