import KitModel.Spiffe
/-!
Reads the statement order back OUT of the readiness LTS (`Kit.Spiffe.step`) — by running it and
looking at what each transition changed or what it waited for — in the vocabulary of the generated
source facts (`Kit.Generated.C19.Sync`), and normalises the source facts to the same vocabulary.
`KitProofs.Props.C19.source_shape_as_modelled` states that both agree.  Core Lean only.
-/
namespace Kit.Spiffe.Shape
open Kit.Generated.C19

/-! ### from the model -/

/-- What one transition of the Run goroutine did, read off the state change. -/
def runEffects (s t : St) : List Sync :=
  (if !s.running && t.running then [.cas] else []) ++
  (if !s.wPend && t.wPend then [.lock] else []) ++          -- `Lock()` begins: the writer announces itself
  (if s.nfetch < t.nfetch then [.fetchLocal] else []) ++     -- a fetch returned (into a local: svid is untouched)
  (if s.svid != t.svid then [.setSvid] else []) ++
  (if !s.ready && t.ready then [.closeReady] else []) ++
  (if s.wHeld && !t.wHeld then [.unlock] else []) ++
  (if s.readers < t.readers then [.rlock] else []) ++
  (if t.readers < s.readers then [.runlock] else []) ++
  (if t.run = .retErr ∧ s.run ≠ .retErr then [.retErr] else []) ++
  (if t.run = .rotRLock ∧ s.run ≠ .rotRLock then [.rotate] else []) ++
  (if t.run = .stopped ∧ s.run ≠ .stopped then [.retNil] else [])

/-- Runs the Run goroutine alone (issuer answering `ok`) until `stopAt`, collecting the effects. -/
def walkRun (stopAt : RunPc → Bool) (ok : Bool) : Nat → St → List Sync
  | 0, _ => []
  | n + 1, s =>
    if stopAt s.run then []
    else match runStep s with
      | some t => runEffects s t ++ walkRun stopAt ok n t
      | none =>
        match replyStep s ok with
        | some t => runEffects s t ++ walkRun stopAt ok n t
        | none => []

/-- `Run` from the call to the start of `runRotation` (success) / to its return (failure). -/
def modelRunOk : List Sync := walkRun (· == .rotRLock) true 40 { run := .called }
def modelRunErr : List Sync := walkRun (· == .retErr) false 40 { run := .called }

/-- The same two walks started with Run's ctx already done (`runCtx := true`): what `Run` executes must
not depend on it — in particular the failure path still contains `close(readyCh)`. -/
def modelRunOkCtxDone : List Sync := walkRun (· == .rotRLock) true 40 { run := .called, runCtx := true }
def modelRunErrCtxDone : List Sync := walkRun (· == .retErr) false 40 { run := .called, runCtx := true }

/-- A state in the middle of rotation: initial fetch done, SVID 0 installed. -/
def rotBase : St :=
  { running := true, ready := true, svid := some 0, nfetch := 1, init := some true, good := [0] }

/-- `runRotation` up to its first wait, and `Run`'s return when the ctx ends there. -/
def modelRotPrelude : List Sync := walkRun (· == .rotWait) true 40 { rotBase with run := .rotRLock }
def modelRotStop : List Sync :=
  match step .fixed { rotBase with run := .rotWait } .stop with
  | some t => runEffects { rotBase with run := .rotWait } t
  | none => []

/-- One renewal: the issuer answers, the loop goes back to its wait. -/
def modelRenewOk : List Sync := walkRun (· == .rotWait) true 40 { rotBase with run := .rotFetch }
def modelRenewErr : List Sync := walkRun (· == .rotWait) false 40 { rotBase with run := .rotFetch }

/-- What a consumer statement waits for and does, found by probing `step` in four environments. -/
def consEffects (v : Variant) (pc : ConsPc) : List Sync × Option ConsPc :=
  let mk (ready wPend : Bool) : St := { ready := ready, wPend := wPend, svid := some 7, readers := 5, cons := [pc] }
  let go (s : St) : Option St := step v s (.cons 0)
  match go (mk true false) with
  | none => ([], none)
  | some t =>
    let needsReady := (go (mk false false)).isNone
    let needsLock := (go (mk true true)).isNone
    let next := t.cons[0]?
    ((if needsReady then [.waitReady] else []) ++
     (if needsLock ∧ 5 < t.readers then [.rlock] else []) ++
     (if ¬ needsLock ∧ 5 < t.readers then [.lock] else []) ++     -- would be a lock taken without waiting: never
     (if next = some (.gUnlock (some 7)) then [.readSvid] else []) ++
     (if t.readers < 5 then [.runlock] else []), next)

def walkCons (v : Variant) : Nat → ConsPc → List Sync
  | 0, _ => []
  | n + 1, pc =>
    match consEffects v pc with
    | (effs, some pc') => effs ++ walkCons v n pc'
    | (_, none) => []

def modelGet (v : Variant) : List Sync := walkCons v 10 .gCall

/-- `Ready`: one wait that ends when `readyCh` is closed or — by the environment label `ctxDone` —
when the ctx is done. -/
def modelReady (v : Variant) : List Sync :=
  let s : St := { cons := [.yWait] }
  let waits := (step v s (.cons 0)).isNone ∧ (step v { s with ready := true } (.cons 0)).isSome
  let ctx := (step v s (.ctxDone 0)).isSome
  if waits ∧ ctx ∧ walkCons v 10 .yWait = [.waitReady] then [.selectCtxOrReady] else []

/-! ### from the source facts -/

/-- Statement kinds the LTS has transitions for. -/
def isSync : Sync → Bool
  | .cas | .lock | .unlock | .rlock | .runlock | .deferUnlock | .closeReady | .waitReady
  | .fetchLocal | .fetchIntoField | .setSvid | .readSvid | .retErr | .retNil | .rotate => true
  | _ => false

/-- Success path of a body with one `if err != nil { … }`: the branch is skipped. -/
def okPath (main : List Sync) : List Sync := (main.filter (· != .ifErr)).filter isSync

/-- Failure path: the statements before the branch, then the branch. -/
def errPath (main onErr : List Sync) : List Sync :=
  ((main.takeWhile (· != .ifErr)) ++ onErr).filter isSync

/-- A deferred `RUnlock` runs when the function returns, on every path: both returns of
`GetX509SVID` (`ifNilRetErr`, `retSvid`) follow the read, so the normal form is "…, read, RUnlock". -/
def resolveDefer (body : List Sync) : List Sync :=
  (body.filter fun x => isSync x) ++ (if body.contains .deferRUnlock then [.runlock] else [])

/-- `defer RUnlock()` directly follows `RLock()`. -/
def deferFollowsRLock : List Sync → Bool
  | .rlock :: .deferRUnlock :: _ => true
  | _ :: rest => deferFollowsRLock rest
  | [] => false

/-! ### the renewal automaton's fetch, as a probe -/

/-- Each request draws the next key; one successful fetch with a write directory publishes exactly
one set `{key k, chain k, current anchors}`; a failed one publishes nothing; and each role of the
source's file map is present once. -/
def fetchProbe : Bool :=
  let s : RN := { now := 5, mode := .waiting, script := [.ok 0 10, .fail {}], dirOn := true, anchors := 3, nextTok := 4 }
  let a := issue s false
  let s1 := (complete a).1
  let b := issue { s1 with mode := .waiting } false
  let s2 := (complete b).1
  a.reqTok == 4 && b.reqTok == 5 && s2.nextTok == 6 &&
  s1.pub == [⟨4, 4, 3⟩] && s2.pub == [⟨4, 4, 3⟩] && (s2.log.map (·.tok)) == [5, 4] &&
  (fileSet.map (·.2)) == [.key, .chain, .anchors] &&
  (fetchDir.filter (· == .dirWriteOnErrRet)).length == 1

/-- Statement order of `fetchIdentityCertificate` the automaton's `fetch` was written from. -/
def fetchMainExpected : List Fetch :=
  [.genKeyP256, .ifErrRet, .csrFromKey, .ifErrRet, .requestWithCsr, .ifErrRet, .ifEmptyRet, .idFromLeaf,
   .ifErrRet, .ifDir, .retSvidKeyChain]
def fetchDirExpected : List Fetch :=
  [.encodeKey, .ifErrRet, .encodeChain, .ifErrRet, .currentAnchors, .ifErrRet, .dirWriteOnErrRet]

end Kit.Spiffe.Shape
