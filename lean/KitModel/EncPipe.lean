/-
The `io.Pipe` between the enc/v1 goroutine and the consumer of the returned stream, with the
consumer's read sizes as a script.

`Enc.lean` models the pipe as "concatenation of the completed writes, then the close status". Here
the pipe is operational: the producer's writes are a list (one `Write` per header / per segment), a
`Read(p)` of the consumer returns at most `len(p)` bytes **of the write in progress** (Go's `io.Pipe`
never joins two writes in one read; a zero-length read or write is one empty rendezvous), and after
the last write the close status is delivered. `KitProofs/Props/C01.lean` proves that what the
consumer receives does not depend on its script.
-/
import KitModel.Go.Prelude
import KitModel.Enc

namespace Kit.Enc.Pipe
open Kit Kit.Enc

/-- One `Read(p)`, `len(p) = sz`, on the read end while writes `ws` are pending (the head is in
    progress): the bytes read and the writes still pending. -/
def pipeRead (ws : List Bytes) (sz : Nat) : Bytes × List Bytes :=
  match ws with
  | [] => ([], [])
  | w :: rest => (w.take sz, if (w.drop sz).isEmpty then rest else w.drop sz :: rest)

/-- The consumer: reads with buffer sizes `bufs` (zero allowed), then with `dflt`, until the close
    status arrives. Returns the sequence of reads and the status. -/
def consume : Nat → List Bytes → Terminal → List Nat → Nat → List Bytes → List Bytes × Terminal
  | 0, _, _, _, _, acc => (acc.reverse, .err .fuel)
  | fuel + 1, ws, term, bufs, dflt, acc =>
    if ws.isEmpty then (acc.reverse, term)
    else
      let r := pipeRead ws (bufs.head?.getD dflt)
      consume fuel r.2 term bufs.tail dflt (r.1 :: acc)

def pending (ws : List Bytes) : Nat := ws.flatten.length + ws.length

def consumeAll (ws : List Bytes) (term : Terminal) (bufs : List Nat) (dflt : Nat) : List Bytes × Terminal :=
  consume (pending ws + bufs.length + 1) ws term bufs dflt []

/-- The writes a run of the segment loop performs: the outputs of the successful calls, one `Write` each. -/
def psWrites (fn : ProcFn) (res : PSResult) : List Bytes :=
  res.calls.filterMap fun x => match fn x.1 x.2.1 x.2.2 with
    | .ok o => some o
    | .error _ => none

/-- `Decrypt` as producer: the list of writes into the pipe and the close status. Errors returned by
    `Decrypt` itself (no stream) are the empty list with that error. -/
def decryptPipe (c : Crypto) (cd : Codec) (P : EncParams) (o : DecryptOpts) (r : Reader) : List Bytes × Terminal :=
  match readHeader P r with
  | .error e => ([], .err e)
  | .ok (mline, macline, r') =>
    match cd.parse mline with
    | none => ([], .err .invalidManifest)
    | some m =>
      if !m.valid P then ([], .err .invalidManifest)
      else
        let keyName := if o.keyName.isEmpty then m.keyName else o.keyName
        if keyName.isEmpty then ([], .err .keyMissing)
        else
          let fk := effKey true P o m keyName
          match verifyHeader c cd P fk mline macline with
          | some e => ([], .err e)
          | none =>
            if unwrapFailed true P o m keyName then ([], .err .signature)
            else
              let fn := decryptSeg c P m.cph (payloadKey c P fk m.np) m.np
              let res := processSegments (P.segSize + P.overhead) P.maxSeg fn r'
              (psWrites fn res, res.term)

/-- `Encrypt` as producer: the header in one write, then one write per segment. -/
def encryptPipe (c : Crypto) (cd : Codec) (P : EncParams) (o : EncryptOpts) (fk np wfk : Bytes) (r : Reader) :
    List Bytes × Terminal :=
  let header := signHeader c cd P fk (cd.render (mkManifest o wfk np))
  if wfk.isEmpty then ([], .err .emptyWrappedKey)
  else if header.length > P.segSize then ([], .err .hdrInvalidFormat)
  else
    let fn := encryptSeg c P o.cph (payloadKey c P fk np) np
    let res := processSegments P.segSize P.maxSeg fn r
    (header :: psWrites fn res, res.term)

/-- What a consumer with read sizes `bufs` (then `dflt`) gets from `Decrypt`: bytes and terminal. -/
def decryptConsumed (c : Crypto) (cd : Codec) (P : EncParams) (o : DecryptOpts) (r : Reader)
    (bufs : List Nat) (dflt : Nat) : Bytes × Terminal :=
  let p := decryptPipe c cd P o r
  let got := consumeAll p.1 p.2 bufs dflt
  (got.1.flatten, got.2)

def encryptConsumed (c : Crypto) (cd : Codec) (P : EncParams) (o : EncryptOpts) (fk np wfk : Bytes) (r : Reader)
    (bufs : List Nat) (dflt : Nat) : Bytes × Terminal :=
  let p := encryptPipe c cd P o fk np wfk r
  let got := consumeAll p.1 p.2 bufs dflt
  (got.1.flatten, got.2)

end Kit.Enc.Pipe
