/-
Model of `schemes/enc/v1` (dapr.io/enc/v1): the segment loop `processSegments` with its
one-byte look-ahead, `readHeader`, `Encrypt`, `Decrypt`, and — written from README.md only —
the specification encoder/decoder `specEncrypt` / `specDecrypt`.

Core Lean only.  Constants and tables come from `KitModel/Generated/C01.lean`
(re-extracted from the Go source on every run by `harness/cmd/factgen_c01`).

Conventions
* A source `io.Reader` is a `Reader` script: content, per-read caps (0 = a `(0, nil)` read),
  whether the terminal condition arrives together with the last data bytes, and the terminal
  condition itself (EOF, or a failure that is either sticky or followed by EOF).
  "A failing read at offset k of content c" is the reader with `data := c.take k` and a failing
  terminal.  `pushback` models `io.MultiReader(bytes.NewReader(extra), in)` built by `readHeader`.
* `io.Pipe` is modelled as the list of completed writes followed by the close error: the
  consumer sees exactly the concatenation of the writes, then the terminal.
-/
import KitModel.Go.Prelude
import KitModel.Generated.C01

namespace Kit.Enc

/-! ## errors and terminals -/

inductive Err where
  | source            -- a non-EOF error returned by the source reader
  | unexpectedEOF     -- io.ErrUnexpectedEOF from the segment loop
  | tooLarge          -- "input stream is too large"
  | proc              -- processFn failed (generic, used by recording functions)
  | decryptFailed     -- ErrDecryptionFailed
  | emptySegment      -- "input plaintext/ciphertext is empty"
  | hdrInvalidFormat | hdrUnsupportedScheme | hdrNoScheme | hdrNoManifest | hdrNoMac
  | invalidManifest | keyMissing | macDecode | signature
  | emptyWrappedKey   -- Encrypt: WrapKeyFn returned an empty wrapped key
  | fuel              -- model artefact: never produced (theorem `*_no_fuel`)
  deriving DecidableEq, Repr

def Err.name : Err → String
  | .source => "source" | .unexpectedEOF => "unexpectedEOF" | .tooLarge => "tooLarge"
  | .proc => "proc" | .decryptFailed => "decryptFailed" | .emptySegment => "emptySegment"
  | .hdrInvalidFormat => "hdrInvalidFormat" | .hdrUnsupportedScheme => "hdrUnsupportedScheme"
  | .hdrNoScheme => "hdrNoScheme" | .hdrNoManifest => "hdrNoManifest" | .hdrNoMac => "hdrNoMac"
  | .invalidManifest => "invalidManifest" | .keyMissing => "keyMissing" | .macDecode => "macDecode"
  | .signature => "signature" | .emptyWrappedKey => "emptyWrappedKey" | .fuel => "fuel"

inductive Terminal where
  | ok
  | err (e : Err)
  deriving DecidableEq, Repr

def Terminal.name : Terminal → String
  | .ok => "ok"
  | .err e => e.name

/-! ## reader scripts -/

inductive Term where
  | eof | failOnce | failSticky
  deriving DecidableEq, Repr

inductive ReadRes where
  | none | eof | fail
  deriving DecidableEq, Repr

def Term.res : Term → ReadRes
  | .eof => .eof
  | _ => .fail

def Term.after : Term → Term
  | .failSticky => .failSticky
  | _ => .eof

def Term.fails : Term → Bool
  | .eof => false
  | _ => true

structure Reader where
  pushback : Bytes := []
  data : Bytes
  caps : List Nat := []
  endWithData : Bool := false
  term : Term := .eof
  deriving Repr

namespace Reader

/-- Everything the reader will still deliver. -/
def stream (r : Reader) : Bytes := r.pushback ++ r.data

def measure (r : Reader) : Nat := r.pushback.length + r.data.length + r.caps.length

/-- The part of `Read` that takes bytes from the underlying source, at most `k > 0` of them. -/
def readData (r : Reader) (k : Nat) (caps' : List Nat) : Bytes × ReadRes × Reader :=
  if r.data.isEmpty then
    ([], r.term.res, { r with caps := caps', term := r.term.after })
  else if (r.data.drop k).isEmpty && r.endWithData then
    (r.data, r.term.res, { r with data := [], caps := caps', term := r.term.after })
  else
    (r.data.take k, .none, { r with data := r.data.drop k, caps := caps' })

/-- One `Read(p)` with `len(p) = m`. -/
def read (r : Reader) (m : Nat) : Bytes × ReadRes × Reader :=
  if m = 0 then ([], .none, r)
  else if !r.pushback.isEmpty then
    (r.pushback.take m, .none, { r with pushback := r.pushback.drop m })
  else
    match r.caps with
    | [] => r.readData m []
    | c :: cs =>
      if c = 0 then ([], .none, { r with caps := cs })
      else r.readData (min c m) cs

end Reader

/-! ## the segment loop -/

/-- `for n < limit && err == nil { nn, err = in.Read(buf[n:limit]); n += nn }` -/
def fill : Nat → Reader → Nat → Bytes → Bytes × ReadRes × Reader
  | 0, r, _, buf => (buf, .none, r)
  | fuel + 1, r, limit, buf =>
    if buf.length < limit then
      match r.read (limit - buf.length) with
      | (chunk, .none, r') => fill fuel r' limit (buf ++ chunk)
      | (chunk, res, r') => (buf ++ chunk, res, r')
    else (buf, .none, r)

abbrev ProcFn := Bytes → Nat → Bool → Except Err Bytes

structure PSResult where
  calls : List (Bytes × Nat × Bool)
  out : Bytes
  term : Terminal
  deriving Repr

def PSResult.cons (c : Bytes × Nat × Bool) (o : Bytes) (r : PSResult) : PSResult :=
  ⟨c :: r.calls, o ++ r.out, r.term⟩

/-- Body of `for !done { … }` in `processSegments`; `carry` is `hasCarryover/carryover`,
    `seg` the 32-bit counter (kept in range by the explicit overflow guard). -/
def psLoop (segSize maxSeg : Nat) (fn : ProcFn) : Nat → Reader → Option UInt8 → Nat → PSResult
  | 0, _, _, _ => ⟨[], [], .err .fuel⟩
  | fuel + 1, r, carry, seg =>
    let filled := fill (r.measure + 1) r (segSize + 1) carry.toList
    let buf := filled.1
    if filled.2.1 = .fail then ⟨[], [], .err .source⟩
    else
      let over := decide (buf.length > segSize)
      let data := if over then buf.take (buf.length - 1) else buf
      let carry' := if over then buf[buf.length - 1]? else none
      let done := !over
      if data.length < segSize ∧ done = false then ⟨[], [], .err .unexpectedEOF⟩
      else if data.length = 0 then
        if seg ≠ 0 then ⟨[], [], .err .unexpectedEOF⟩ else ⟨[], [], .ok⟩
      else
        match fn data seg done with
        | .error e => ⟨[(data, seg, done)], [], .err e⟩
        | .ok o =>
          if done = false ∧ seg = maxSeg then ⟨[(data, seg, done)], o, .err .tooLarge⟩
          else if done then ⟨[(data, seg, done)], o, .ok⟩
          else (psLoop segSize maxSeg fn fuel filled.2.2 carry' (seg + 1)).cons (data, seg, done) o

def processSegments (segSize maxSeg : Nat) (fn : ProcFn) (r : Reader) : PSResult :=
  psLoop segSize maxSeg fn (r.stream.length + 2) r none 0

/-! ## pure split -/

/-- Split into segments of `segSize` bytes, the last one flagged; `[]` for empty input.
    Fuel-recursive on a bound of the length so that it is structurally recursive. -/
def segmentsAux (segSize : Nat) : Nat → Bytes → List (Bytes × Bool)
  | 0, _ => []
  | fuel + 1, p =>
    if p.isEmpty then []
    else if p.length ≤ segSize then [(p, true)]
    else (p.take segSize, false) :: segmentsAux segSize fuel (p.drop segSize)

def segments (segSize : Nat) (p : Bytes) : List (Bytes × Bool) :=
  segmentsAux segSize p.length p

/-- Number the segments from `i`. -/
def numbered : Nat → List (Bytes × Bool) → List (Bytes × Nat × Bool)
  | _, [] => []
  | i, (d, l) :: rest => (d, i, l) :: numbered (i + 1) rest

/-- What the loop does to a list of confirmed segments: apply `fn` in order, stop at the first
    failure or at the counter guard; `fin` is the terminal when all of them passed. -/
def runSegs (maxSeg : Nat) (fn : ProcFn) : List (Bytes × Bool) → Nat → Terminal → PSResult
  | [], _, fin => ⟨[], [], fin⟩
  | (d, last) :: rest, i, fin =>
    match fn d i last with
    | .error e => ⟨[(d, i, last)], [], .err e⟩
    | .ok o =>
      if last = false ∧ i = maxSeg then ⟨[(d, i, last)], o, .err .tooLarge⟩
      else if last then ⟨[(d, i, last)], o, .ok⟩
      else (runSegs maxSeg fn rest (i + 1) fin).cons (d, i, last) o

/-- The bytes a failing reader delivers before `fill` sees the failure. -/
def Reader.effective (r : Reader) : Bytes :=
  if r.term.fails && r.endWithData && !r.data.isEmpty then r.stream.take (r.stream.length - 1) else r.stream

/-! ## parameters (from generated facts) -/

structure EncParams where
  scheme : Bytes
  segSize : Nat
  overhead : Nat
  npLen : Nat
  maxSeg : Nat
  hdrMax : Nat
  fkLen : Nat
  nonceLayout : List Gen.NoncePart
  hdrInfo : Bytes
  hdrKeyLen : Nat
  payInfo : Bytes
  payKeyLen : Nat
  kwIds : List Nat
  cphIds : List Nat

def strBytes (s : String) : Bytes := s.toUTF8.toList

def EncParams.generated : EncParams where
  scheme := Gen.schemeBytes
  segSize := Gen.encryptSegmentArg
  overhead := Gen.decryptSegmentArg - Gen.encryptSegmentArg
  npLen := Gen.noncePrefixLength
  maxSeg := Gen.maxSegment
  hdrMax := Gen.headerLimit
  fkLen := Gen.fileKeyLength
  nonceLayout := Gen.nonceLayout
  hdrInfo := Gen.headerInfoBytes
  hdrKeyLen := Gen.headerKeyDerivation.1
  payInfo := Gen.payloadInfoBytes
  payKeyLen := Gen.payloadKeyDerivation.1
  kwIds := Gen.keyAlgorithmFromID.map (·.1)
  cphIds := Gen.cipherFromID.map (·.1)

/-- What the proofs need of the parameters (true of the generated ones: `generated_wf`). -/
structure EncParams.WF (P : EncParams) : Prop where
  scheme_ne : P.scheme ≠ []
  scheme_nl : (10 : UInt8) ∉ P.scheme
  seg_pos : 0 < P.segSize

/-! ## readHeader -/

structure HdrState where
  newlines : Nat := 0
  /-- `buf[lastNewline:i]`, reversed -/
  curRev : Bytes := []
  manifest : Bytes := []
  mac : Bytes := []
  deriving Repr

/-- One iteration of `for i = n; i < n+nn && newlines < 3; i++`; once three newlines were seen the
    remaining bytes of the chunk are not scanned (they end up in `buf[lastNewline:n]`). -/
def hdrStep (scheme : Bytes) (st : HdrState) (b : UInt8) : Except Err HdrState :=
  if st.newlines ≥ 3 then .ok { st with curRev := b :: st.curRev }
  else if b ≠ 10 then .ok { st with curRev := b :: st.curRev }
  else if st.curRev.isEmpty then .error .hdrInvalidFormat
  else
    match st.newlines with
    | 0 => if st.curRev.reverse = scheme then .ok { st with newlines := 1, curRev := [] }
           else .error .hdrUnsupportedScheme
    | 1 => .ok { st with newlines := 2, manifest := st.curRev.reverse, curRev := [] }
    | _ => .ok { st with newlines := 3, mac := st.curRev.reverse, curRev := [] }

def hdrScan (scheme : Bytes) : HdrState → Bytes → Except Err HdrState
  | st, [] => .ok st
  | st, b :: bs =>
    match hdrStep scheme st b with
    | .error e => .error e
    | .ok st' => hdrScan scheme st' bs

/-- `for newlines < 3 && err == nil { … }` of `readHeader`; `n` is the number of bytes in the
    buffer. Returns the scan state, the last read result and the reader. -/
def hdrLoop (scheme : Bytes) (hdrMax : Nat) : Nat → Reader → Nat → HdrState → Except Err (HdrState × ReadRes × Reader)
  | 0, _, _, _ => .error .fuel
  | fuel + 1, r, n, st =>
    if st.newlines ≥ 3 then .ok (st, .none, r)
    else if n = hdrMax then .ok (st, .none, r)
    else
      match r.read (hdrMax - n) with
      | (chunk, res, r') =>
        match hdrScan scheme st chunk with
        | .error e => .error e
        | .ok st' =>
          if res = .none then hdrLoop scheme hdrMax fuel r' (n + chunk.length) st'
          else .ok (st', res, r')

/-- `propagate = true` is the code after `fix: readHeader returns a non-EOF read error`;
    `propagate = false` is the unchanged tree (kept for the witness of finding
    `header-read-error-swallowed`). -/
def readHeaderWith (propagate : Bool) (P : EncParams) (r : Reader) : Except Err (Bytes × Bytes × Reader) :=
  match hdrLoop P.scheme P.hdrMax (r.measure + 1) r 0 {} with
  | .error e => .error e
  | .ok (st, res, r') =>
    if st.newlines < 1 then .error .hdrNoScheme
    else if st.manifest.isEmpty then .error .hdrNoManifest
    else if st.mac.isEmpty then .error .hdrNoMac
    else if propagate && res = .fail then .error .source
    else .ok (st.manifest, st.mac, { r' with pushback := st.curRev.reverse ++ r'.pushback })

def readHeader := readHeaderWith true

/-! ## crypto and codec interfaces -/

structure Crypto where
  /-- AEAD seal: cipher id, key, nonce, plaintext ↦ ciphertext ‖ tag -/
  aseal : Nat → Bytes → Bytes → Bytes → Bytes
  /-- AEAD open -/
  aopen : Nat → Bytes → Bytes → Bytes → Option Bytes
  /-- HKDF-SHA-256: ikm, salt, info, length -/
  hkdf : Bytes → Bytes → Bytes → Nat → Bytes
  /-- HMAC-SHA-256: key, message -/
  hmac : Bytes → Bytes → Bytes

structure Crypto.Lawful (c : Crypto) (overhead : Nat) : Prop where
  open_seal : ∀ cph k n p, c.aopen cph k n (c.aseal cph k n p) = some p
  seal_length : ∀ cph k n p, (c.aseal cph k n p).length = p.length + overhead
  hmac_ne : ∀ k msg, c.hmac k msg ≠ []

structure Manifest where
  keyName : Bytes
  kw : Nat
  wfk : Bytes
  cph : Nat
  np : Bytes
  deriving DecidableEq, Repr

/-- `Manifest.Validate` after a successful `json.Unmarshal` (ids already resolved to known ones). -/
def Manifest.valid (P : EncParams) (m : Manifest) : Bool :=
  P.kwIds.contains m.kw && !m.wfk.isEmpty && P.cphIds.contains m.cph && m.np.length == P.npLen

structure Codec where
  /-- `json.Marshal(&Manifest{…})` -/
  render : Manifest → Bytes
  /-- `json.Unmarshal` (`none` = error) -/
  parse : Bytes → Option Manifest
  /-- `base64.StdEncoding` -/
  b64 : Bytes → Bytes
  unb64 : Bytes → Option Bytes

structure Codec.Lawful (cd : Codec) (P : EncParams) : Prop where
  parse_render : ∀ m, m.valid P = true → cd.parse (cd.render m) = some m
  render_line : ∀ m, cd.render m ≠ [] ∧ (10 : UInt8) ∉ cd.render m
  unb64_b64 : ∀ x, cd.unb64 (cd.b64 x) = some x
  b64_line : ∀ x, x ≠ [] → cd.b64 x ≠ [] ∧ (10 : UInt8) ∉ cd.b64 x

/-- The codec laws for one manifest (the concrete JSON/base64 codec satisfies them for valid manifests
    whose key name is in the modelled subset: `KitProofs/Lemmas/EncCodecLaws.lean`). -/
structure Codec.LawfulFor (cd : Codec) (m : Manifest) : Prop where
  parse_render : cd.parse (cd.render m) = some m
  render_line : cd.render m ≠ [] ∧ (10 : UInt8) ∉ cd.render m
  unb64_b64 : ∀ x, cd.unb64 (cd.b64 x) = some x
  b64_line : ∀ x, x ≠ [] → cd.b64 x ≠ [] ∧ (10 : UInt8) ∉ cd.b64 x

theorem Codec.Lawful.for {cd : Codec} {P : EncParams} (l : cd.Lawful P) (m : Manifest) (hm : m.valid P = true) :
    cd.LawfulFor m :=
  ⟨l.parse_render m hm, l.render_line m, l.unb64_b64, l.b64_line⟩

/-! ## nonce, keys, header -/

def be32 (i : Nat) : Bytes :=
  [UInt8.ofNat (i / 16777216 % 256), UInt8.ofNat (i / 65536 % 256), UInt8.ofNat (i / 256 % 256), UInt8.ofNat (i % 256)]

/-- `copy(dst[0:n], src)` into a zeroed destination. -/
def fitTo (n : Nat) (src : Bytes) : Bytes := src.take n ++ List.replicate (n - src.length) 0

def noncePart (np : Bytes) (i : Nat) (last : Bool) : Gen.NoncePart → Bytes
  | .noncePrefix len => fitTo len np
  | .counterBE32 => be32 i
  | .lastFlag t f => [UInt8.ofNat (if last then t else f)]

def nonceFor (P : EncParams) (np : Bytes) (i : Nat) (last : Bool) : Bytes :=
  P.nonceLayout.flatMap (noncePart np i last)

def headerKey (c : Crypto) (P : EncParams) (fk : Bytes) : Bytes := c.hkdf fk [] P.hdrInfo P.hdrKeyLen
def payloadKey (c : Crypto) (P : EncParams) (fk np : Bytes) : Bytes := c.hkdf fk np P.payInfo P.payKeyLen

/-- `headerMessage`: scheme ‖ '\n' ‖ manifest ‖ '\n' -/
def headerMessage (P : EncParams) (manifest : Bytes) : Bytes := P.scheme ++ [10] ++ manifest ++ [10]

def headerMac (c : Crypto) (P : EncParams) (fk manifest : Bytes) : Bytes :=
  c.hmac (headerKey c P fk) (headerMessage P manifest)

/-- `SignHeader` -/
def signHeader (c : Crypto) (cd : Codec) (P : EncParams) (fk manifest : Bytes) : Bytes :=
  headerMessage P manifest ++ cd.b64 (headerMac c P fk manifest) ++ [10]

/-- The laws the framing proofs need of the AEAD, restricted to what a run actually uses: the payload
    key `pk` and the nonces `nonceFor P np i last`. (The concrete Lean AES-GCM / ChaCha20-Poly1305 satisfy
    them for 32-byte keys and 12-byte nonces only, which is what HKDF and the nonce layout produce:
    `KitProofs/Lemmas/EncRealLaws.lean`.) -/
structure Crypto.LawfulFor (c : Crypto) (P : EncParams) (pk np : Bytes) : Prop where
  open_seal : ∀ cph i l p, c.aopen cph pk (nonceFor P np i l) (c.aseal cph pk (nonceFor P np i l) p) = some p
  seal_length : ∀ cph i l p, (c.aseal cph pk (nonceFor P np i l) p).length = p.length + P.overhead
  hmac_ne : ∀ k msg, c.hmac k msg ≠ []

theorem Crypto.Lawful.for {c : Crypto} {P : EncParams} (lc : c.Lawful P.overhead) (pk np : Bytes) :
    c.LawfulFor P pk np :=
  ⟨fun cph i l p => lc.open_seal cph pk _ p, fun cph i l p => lc.seal_length cph pk _ p, lc.hmac_ne⟩

/-! ## Encrypt -/

def encryptSeg (c : Crypto) (P : EncParams) (cph : Nat) (pk np : Bytes) : ProcFn :=
  fun data num last =>
    if data.isEmpty then .error .emptySegment
    else .ok (c.aseal cph pk (nonceFor P np num last) data)

structure EncryptOpts where
  keyName : Bytes
  decryptionKeyName : Bytes := []
  omitKeyName : Bool := false
  kw : Nat
  cph : Nat

/-- Key name written into the manifest (scheme.go Encrypt). -/
def manifestKeyName (o : EncryptOpts) : Bytes :=
  if o.omitKeyName then []
  else if o.decryptionKeyName.isEmpty then o.keyName
  else o.decryptionKeyName

def mkManifest (o : EncryptOpts) (wfk np : Bytes) : Manifest :=
  { keyName := manifestKeyName o, kw := o.kw, wfk := wfk, cph := o.cph, np := np }

/-- `Encrypt` after option validation: `fk`, `np` are the 39 random bytes, `wfk` what
    `WrapKeyFn` returned.  Result: the bytes written to the pipe and the close status.

    Callback contract (values, not memory).  `fk` is the VALUE of the file key at the moment
    `WrapKeyFn` is called and `wfk` the VALUE of the returned slice at the moment it returns; the
    callback may afterwards do anything with the memory of its argument (wipe it, wrap in place and
    return the same slice, append to it).  The model is entitled to treat both as immutable values
    because (T1, `Gen.fileKeyReadersAfterWrap = []`) nothing that runs in `Encrypt` after the call
    reads the `fileKey` field again — header key and payload key are derived in `importFileKey`,
    before the call — and (T1, `Gen.fileKeySlicesCapLimited`) the slices `newFileKey` hands out have
    no spare capacity, so an `append` by the callback cannot reach the nonce prefix.  `wfk` is read
    once, by `json.Marshal`, before `Encrypt` returns.  Symmetrically for `Decrypt`: `DecryptOpts.unwrap`
    is the value `UnwrapKeyFn` returns at return time; `importFileKey` derives both keys from it
    before `Decrypt` returns, and the manifest's `wfk` is not read after the call.  T2: the
    argument-mutating callback family of `cmd/c01` (`wrap_mode`, `unwrap_mode`). -/
def encryptImpl (c : Crypto) (cd : Codec) (P : EncParams) (o : EncryptOpts) (fk np wfk : Bytes)
    (r : Reader) : Bytes × Terminal :=
  let manifest := cd.render (mkManifest o wfk np)
  let header := signHeader c cd P fk manifest
  if wfk.isEmpty then ([], .err .emptyWrappedKey)   -- `len(wrappedFileKey) == 0`: Decrypt would reject the manifest
  else if header.length > P.segSize then ([], .err .hdrInvalidFormat)
  else
    let res := processSegments P.segSize P.maxSeg (encryptSeg c P o.cph (payloadKey c P fk np) np) r
    (header ++ res.out, res.term)

/-! ## Decrypt -/

def decryptSeg (c : Crypto) (P : EncParams) (cph : Nat) (pk np : Bytes) : ProcFn :=
  fun data num last =>
    if data.isEmpty then .error .emptySegment
    else match c.aopen cph pk (nonceFor P np num last) data with
      | none => .error .decryptFailed
      | some pt => .ok pt

structure DecryptOpts where
  keyName : Bytes := []
  /-- the key bytes `UnwrapKeyFn(wfk, alg, keyName, nil, nil)` returns -/
  unwrap : Manifest → Bytes → Bytes
  /-- whether `UnwrapKeyFn` returns a non-nil error -/
  unwrapFails : Manifest → Bytes → Bool := fun _ _ => false

/-- `VerifyHeaderSignature` -/
def verifyHeader (c : Crypto) (cd : Codec) (P : EncParams) (fk manifest macB64 : Bytes) : Option Err :=
  match cd.unb64 macB64 with
  | none => some .macDecode
  | some mac => if headerMac c P fk manifest = mac then none else some .signature

/-- `unwrapFailed := unwrapErr != nil || len(fileKeyBytes) != 32`. With `refuse = false` (the code before
    `fix: … substituted all-zero key`) the error was ignored and only the length mattered. -/
def unwrapFailed (refuse : Bool) (P : EncParams) (o : DecryptOpts) (m : Manifest) (kn : Bytes) : Bool :=
  (refuse && o.unwrapFails m kn) || decide ((o.unwrap m kn).length ≠ P.fkLen)

/-- The key `Decrypt` imports: the unwrapped key, or — when the unwrap failed — `make([]byte, 32)`,
    used only so that the MAC check still runs. -/
def effKey (refuse : Bool) (P : EncParams) (o : DecryptOpts) (m : Manifest) (kn : Bytes) : Bytes :=
  if unwrapFailed refuse P o m kn then List.replicate P.fkLen 0 else o.unwrap m kn

/-- `propagate` / `refuse` select the code after (`true`) or before (`false`) the two `fix:` commits:
    `readHeader` returning a late read error, and `Decrypt` refusing a document whose MAC verifies only
    under the substituted all-zero key. -/
def decryptWith (propagate refuse : Bool) (c : Crypto) (cd : Codec) (P : EncParams) (o : DecryptOpts) (r : Reader) :
    Bytes × Terminal :=
  match readHeaderWith propagate P r with
  | .error e => ([], .err e)
  | .ok (mline, macline, r') =>
    match cd.parse mline with
    | none => ([], .err .invalidManifest)
    | some m =>
      if !m.valid P then ([], .err .invalidManifest)
      else
        let keyName := if o.keyName.isEmpty then m.keyName else o.keyName
        if keyName.isEmpty then ([], .err .keyMissing)
        else
          let fk := effKey refuse P o m keyName
          match verifyHeader c cd P fk mline macline with
          | some e => ([], .err e)
          | none =>
            if refuse && unwrapFailed refuse P o m keyName then ([], .err .signature)
            else
              let res := processSegments (P.segSize + P.overhead) P.maxSeg
                (decryptSeg c P m.cph (payloadKey c P fk m.np) m.np) r'
              (res.out, res.term)

/-- `Decrypt`: released bytes (what the consumer of the returned stream reads before the
    terminal) and the terminal (`ok` = clean EOF). Errors returned by `Decrypt` itself are
    reported as a terminal with nothing released. -/
def decryptImpl := decryptWith true true

/-! ## specification (README.md only) -/

/-- Binary payload: each plaintext segment sealed under its position/finality nonce, concatenated. -/
def specPayload (c : Crypto) (P : EncParams) (cph : Nat) (pk np : Bytes) : Nat → List (Bytes × Bool) → Bytes
  | _, [] => []
  | i, (d, last) :: rest => c.aseal cph pk (nonceFor P np i last) d ++ specPayload c P cph pk np (i + 1) rest

/-- README: header (scheme line, manifest line, base64 MAC line) ‖ segment_0 ‖ … ‖ segment_k. -/
def specEncrypt (c : Crypto) (cd : Codec) (P : EncParams) (fk : Bytes) (m : Manifest) (p : Bytes) : Bytes :=
  let manifest := cd.render m
  P.scheme ++ [10] ++ manifest ++ [10]
    ++ cd.b64 (c.hmac (c.hkdf fk [] P.hdrInfo P.hdrKeyLen) (P.scheme ++ [10] ++ manifest ++ [10])) ++ [10]
    ++ specPayload c P m.cph (c.hkdf fk m.np P.payInfo P.payKeyLen) m.np 0 (segments P.segSize p)

/-- First line of `d` (without the newline) and the rest, if there is a newline. -/
def splitLine : Bytes → Option (Bytes × Bytes)
  | [] => none
  | b :: bs =>
    if b = 10 then some ([], bs)
    else match splitLine bs with
      | none => none
      | some (l, rest) => some (b :: l, rest)

def specOpenSegs (c : Crypto) (P : EncParams) (cph : Nat) (pk np : Bytes) : Nat → List (Bytes × Bool) → Option Bytes
  | _, [] => some []
  | i, (d, last) :: rest =>
    match c.aopen cph pk (nonceFor P np i last) d, specOpenSegs c P cph pk np (i + 1) rest with
    | some pt, some more => some (pt ++ more)
    | _, _ => none

/-- A decoder written from README.md: three lines, MAC over the first two, payload split into
    `segSize + overhead` pieces, the last one opened with the last-segment flag. -/
def specDecrypt (c : Crypto) (cd : Codec) (P : EncParams) (fk : Bytes) (doc : Bytes) : Option Bytes :=
  match splitLine doc with
  | none => none
  | some (l1, d1) =>
    match splitLine d1 with
    | none => none
    | some (l2, d2) =>
      match splitLine d2 with
      | none => none
      | some (l3, payload) =>
        if l1 ≠ P.scheme then none
        else match cd.parse l2, cd.unb64 l3 with
          | some m, some mac =>
            if c.hmac (c.hkdf fk [] P.hdrInfo P.hdrKeyLen) (l1 ++ [10] ++ l2 ++ [10]) ≠ mac then none
            else specOpenSegs c P m.cph (c.hkdf fk m.np P.payInfo P.payKeyLen) m.np 0
                   (segments (P.segSize + P.overhead) payload)
          | _, _ => none

/-! ## tables (over generated facts) -/

def lookup {α β} [BEq α] (t : List (α × β)) (a : α) : Option β := (t.find? (·.1 == a)).map (·.2)

/-- `KeyAlgorithm.Validate` -/
def kwValidate (a : String) : Option String := lookup Gen.keyAlgorithmValidate a
/-- `KeyAlgorithm.ID` -/
def kwID (a : String) : Nat := (lookup Gen.keyAlgorithmID a).getD Gen.keyAlgorithmInvalidID
/-- `NewKeyAlgorithmFromID` -/
def kwFromID (i : Nat) : Option String := lookup Gen.keyAlgorithmFromID i
def cphValidate (a : String) : Option String := lookup Gen.cipherValidate a
def cphID (a : String) : Nat := (lookup Gen.cipherID a).getD Gen.cipherInvalidID
def cphFromID (i : Nat) : Option String := lookup Gen.cipherFromID i

/-- Key name `Decrypt` passes to `UnwrapKeyFn` (`none` = `ErrDecryptionKeyMissing`). -/
def resolveKeyName (optKeyName manifestKeyName : Bytes) : Option Bytes :=
  if !optKeyName.isEmpty then some optKeyName
  else if !manifestKeyName.isEmpty then some manifestKeyName
  else none

end Kit.Enc
