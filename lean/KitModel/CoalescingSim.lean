import KitModel.Coalescing
import Std.Data.HashSet
/-!
State-set simulation of the coalescing LTS against an observed trace (what `kitdrv C09` runs).

The model LTS is wrapped by the usual call/return layer: an API call is observed twice (call,
return) and takes effect somewhere in between; a hook event reports an internal step that has
already happened, and while the run loop sits in the hook callback it cannot move.
`accepts` is executable; `KitProofs/Lemmas/CoalescingSim.lean` proves it sound
(`accepts … = true →` a run of the wrapped system, hence of `Kit.Coalescing.step`, produces the trace).
Core Lean only.
-/
namespace Kit.Coalescing.Sim
open Kit.Coalescing

/-- Observed events. -/
inductive Ev where
  | runcall | addcall | addret | closecall | closeret | cancel | runret
  | runerr                   -- a `Run` call returned "already running"
  | adv (t : Nat)            -- clock moved
  | recv (t : Nat)           -- consumer received a signal, stamped with the clock
  | hin (park : Bool)        -- hook coalescing.inputHandled (park: the harness keeps the loop there)
  | htm (park : Bool)        -- hook coalescing.timerHandled
  | release                  -- the harness lets a parked loop continue
  | settle (tok snd : Nat) (loop : Bool) (timer : Option Nat)
                             -- every goroutine of the limiter is blocked; counts from a dump
  deriving Repr, DecidableEq

structure DState where
  m : State
  /-- `Add` calls issued whose critical section has not run yet. -/
  pAdd : Nat := 0
  /-- `Add` bodies done, return not yet observed. -/
  rAdd : Nat := 0
  /-- `Close` calls issued that have not closed yet. -/
  pClose : Nat := 0
  /-- handled tokens / expiries not yet reported by their hook. -/
  uIn : Nat := 0
  uTm : Nat := 0
  /-- 0: loop free; 1: loop inside a hook callback, not yet reported; 2: parked by the harness. -/
  blocked : Nat := 0
  deriving DecidableEq, Hashable, Repr

def loopLabel : Label → Bool
  | .top | .deliver | .expire | .exitLoop => true
  | _ => false

def internalLabels : List Label :=
  [.run, .top, .deliver, .tokenGiveUp, .expire, .exitLoop, .senderGiveUp]

/-- Internal step by a goroutine of the limiter (label `l`), if enabled in the wrapped system. -/
def tauLabel (cfg : Config) (hooks : Bool) (d : DState) (l : Label) : Option DState :=
  if loopLabel l && d.blocked != 0 then none
  else match step cfg d.m l with
    | none => none
    | some m' =>
      match l with
      | .deliver =>
        if hooks then some { d with m := m', uIn := d.uIn + 1, blocked := 1 } else some { d with m := m' }
      | .expire =>
        if hooks then some { d with m := m', uTm := d.uTm + 1, blocked := 1 } else some { d with m := m' }
      | _ => some { d with m := m' }

/-- A pending `Add` call takes effect. -/
def tauAdd (cfg : Config) (d : DState) : Option DState :=
  if d.pAdd > 0 then
    (step cfg d.m .add).map fun m' => { d with m := m', pAdd := d.pAdd - 1, rAdd := d.rAdd + 1 }
  else none

/-- A pending `Close` call closes. -/
def tauClose (cfg : Config) (d : DState) : Option DState :=
  if d.pClose > 0 then
    (step cfg d.m .close).map fun m' => { d with m := m', pClose := d.pClose - 1 }
  else none

/-- All unobserved successors, each with the model label it takes. -/
def tauSuccL (cfg : Config) (hooks : Bool) (d : DState) : List (Label × DState) :=
  (internalLabels.filterMap fun l => (tauLabel cfg hooks d l).map fun d' => (l, d'))
  ++ ((tauAdd cfg d).map fun d' => (Label.add, d')).toList
  ++ ((tauClose cfg d).map fun d' => (Label.close, d')).toList

def tauSucc (cfg : Config) (hooks : Bool) (d : DState) : List DState :=
  (tauSuccL cfg hooks d).map (·.2)

def quiescent (cfg : Config) (hooks : Bool) (d : DState) : Bool :=
  (tauSucc cfg hooks d).isEmpty && d.rAdd == 0 && d.uIn == 0 && d.uTm == 0 && d.blocked != 1
  && (step cfg d.m .closeRet).isNone && (step cfg d.m .runRet).isNone
  && (step cfg d.m .runErrRet).isNone

/-- Effect of one observed event on one state (`none` = this state cannot have produced it),
with the model label it corresponds to (if any). -/
def obsStepL (cfg : Config) (hooks : Bool) (ev : Ev) (d : DState) : Option (Option Label × DState) :=
  let viaModel (l : Label) : Option (Option Label × DState) :=
    (step cfg d.m l).map fun m' => (some l, { d with m := m' })
  match ev with
  | .runcall => viaModel .runCall
  | .addcall => some (none, { d with pAdd := d.pAdd + 1 })
  | .addret => if d.rAdd > 0 then some (none, { d with rAdd := d.rAdd - 1 }) else none
  | .closecall => some (none, { d with pClose := d.pClose + 1 })
  | .closeret => viaModel .closeRet
  | .cancel => viaModel .cancel
  | .runret => viaModel .runRet
  | .runerr => viaModel .runErrRet
  | .adv t => viaModel (.advance t)
  | .recv t => if t == d.m.now then viaModel .consume else none
  | .hin park =>
    if hooks && d.uIn > 0 && d.blocked == 1 then
      some (none, { d with uIn := d.uIn - 1, blocked := if park then 2 else 0 })
    else none
  | .htm park =>
    if hooks && d.uTm > 0 && d.blocked == 1 then
      some (none, { d with uTm := d.uTm - 1, blocked := if park then 2 else 0 })
    else none
  | .release => if d.blocked == 2 then some (none, { d with blocked := 0 }) else none
  | .settle tok snd lp tm =>
    if quiescent cfg hooks d && d.pAdd == 0 && d.pClose == 0
        && tok == d.m.tokens && snd == d.m.senders && lp == d.m.running && tm == d.m.timer
    then some (none, d) else none

def obsStep (cfg : Config) (hooks : Bool) (ev : Ev) (d : DState) : Option DState :=
  (obsStepL cfg hooks ev d).map (·.2)

/-- τ-closure by worklist. `seen` (a hash set) only decides whether a successor is new; the result
is the list `acc`. `fuel` bounds the number of expansions (every τ step decreases a finite
measure, so the closure is finite); the Boolean says whether the worklist was exhausted. -/
def closure (cfg : Config) (hooks : Bool) :
    Nat → List DState → Std.HashSet DState → List DState → List DState × Bool
  | 0, todo, _, acc => (acc, todo.isEmpty)
  | _ + 1, [], _, acc => (acc, true)
  | fuel + 1, d :: todo, seen, acc =>
    let r := (tauSucc cfg hooks d).foldl
      (fun (st : Std.HashSet DState × List DState × List DState) x =>
        if st.1.contains x then st else (st.1.insert x, x :: st.2.1, x :: st.2.2))
      (seen, todo, acc)
    closure cfg hooks fuel r.2.1 r.1 r.2.2

def closureFuel : Nat := 2000000

def closeSet (cfg : Config) (hooks : Bool) (ds : List DState) : List DState × Bool :=
  let ds := ds.eraseDups
  closure cfg hooks closureFuel ds (ds.foldl (fun acc d => acc.insert d) {}) ds

/-- One observed event applied to a τ-closed state set. -/
def stepSet (cfg : Config) (hooks : Bool) (ds : List DState) (ev : Ev) : List DState × Bool :=
  closeSet cfg hooks (ds.filterMap (obsStep cfg hooks ev))

def acceptsFrom (cfg : Config) (hooks : Bool) : List DState → List Ev → Bool
  | ds, [] => !ds.isEmpty
  | ds, ev :: tr =>
    let r := stepSet cfg hooks ds ev
    r.2 && !r.1.isEmpty && acceptsFrom cfg hooks r.1 tr

def initD (cfg : Config) : DState := { m := init cfg }

/-- The trace is accepted by the model (state-set simulation, τ-closed after every event). -/
def accepts (cfg : Config) (hooks : Bool) (tr : List Ev) : Bool :=
  let r := closeSet cfg hooks [initD cfg]
  r.2 && acceptsFrom cfg hooks r.1 tr

end Kit.Coalescing.Sim
