import KitModel.Go.Prelude
/-!
Go slice / heap semantics for the frame property C17 (DESIGN §2.2).

* `Heap := Array (Array UInt8)` — the backing arrays that exist; an array never changes its size.
* `Slice := {arr, off, len, cap}` — a Go slice header: cells `[off, off+len)` of array `arr` are
  its elements, cells `[off+len, off+cap)` its spare capacity.  The nil slice is `⟨0,0,0,0⟩`
  (no cell can be reached through it).
* `append` — in place iff `len + k ≤ cap` (the write goes into the spare capacity of the SAME
  array), otherwise a fresh array; `copy` (memmove), re-slicing `s[a:b]`, `s[a:b:c]`, `make`.
* calls into Go's standard library are modelled **by contract** as far as memory goes
  (`cipher.AEAD.Seal/Open(dst, …)` append to `dst`, `BlockMode.CryptBlocks(dst, src)` writes
  `dst[:len(src)]`, `cipher.Block.Encrypt(dst, src)` writes `dst[:16]`, `bytes.Repeat`,
  `hash.Sum(nil)`, `make` return fresh arrays, everything else only reads).  The VALUES written by
  cryptographic primitives are abstract: they come from an oracle `Env` (`stream`), as do the
  verdicts of authentication (`authOk`) and of asymmetric primitives (`primOk`).

Programs run in the monad `M α = Heap → Outcome α × Heap`; the heap is kept on error and panic
exits, so a frame statement covers every way a call can end.  Core Lean only.
-/
namespace Kit.SH

abbrev Heap := Array (Array UInt8)

structure Slice where
  arr : Nat
  off : Nat
  len : Nat
  cap : Nat
  deriving Repr, DecidableEq, Inhabited

/-- Go's `nil` slice: length and capacity 0, so no cell is reachable through it. -/
def Slice.nil : Slice := ⟨0, 0, 0, 0⟩

/-- the array `a` of the heap (`#[]` when it does not exist) -/
def Heap.row (h : Heap) (a : Nat) : Array UInt8 := h[a]?.getD #[]

/-- cell `i` of array `a` -/
def Heap.cell (h : Heap) (a i : Nat) : Option UInt8 := (h.row a)[i]?

/-! ### raw memory writes -/

/-- store `vals` at cells `start, start+1, …` of one array (cells outside the array do not exist) -/
def writeList (a : Array UInt8) (start : Nat) : List UInt8 → Array UInt8
  | [] => a
  | v :: vs => writeList (a.setIfInBounds start v) (start + 1) vs

/-- store `vals` at cells `[start, start+|vals|)` of array `arr` -/
def Heap.write (h : Heap) (arr start : Nat) (vals : List UInt8) : Heap :=
  h.setIfInBounds arr (writeList (h.row arr) start vals)

/-- the elements of a slice -/
def Heap.read (h : Heap) (s : Slice) : List UInt8 :=
  (List.range s.len).map fun i => ((h.row s.arr)[s.off + i]?).getD 0

/-! ### the monad -/

def M (α : Type) : Type := Heap → Outcome α × Heap

@[inline] def M.pure (a : α) : M α := fun h => (.ok a, h)

@[inline] def M.bind (m : M α) (f : α → M β) : M β := fun h =>
  match m h with
  | (.ok a, h') => f a h'
  | (.err e, h') => (.err e, h')
  | (.panic w, h') => (.panic w, h')

instance : Monad M where
  pure := M.pure
  bind := M.bind

/-- `return …, err` -/
def fail (e : String) : M α := fun h => (.err e, h)
/-- a run-time panic -/
def goPanic (w : String) : M α := fun h => (.panic w, h)

def getHeap : M Heap := fun h => (.ok h, h)

/-- a new backing array holding `vals`; the slice covers all of it -/
def alloc (vals : List UInt8) : M Slice := fun h =>
  (.ok ⟨h.size, 0, vals.length, vals.length⟩, h.push vals.toArray)

/-- `make([]byte, n)` -/
def make (n : Nat) : M Slice := alloc (List.replicate n 0)

/-- `make([]byte, 0, c)` -/
def makeCap (c : Nat) : M Slice := fun h =>
  (.ok ⟨h.size, 0, 0, c⟩, h.push (List.replicate c 0).toArray)

/-- the elements of `s` (a read) -/
def readS (s : Slice) : M (List UInt8) := fun h => (.ok (h.read s), h)

/-- raw store into the array of `s` at slice-relative position `i` (may reach the spare capacity) -/
def storeRaw (s : Slice) (i : Nat) (vals : List UInt8) : M Unit := fun h =>
  (.ok (), h.write s.arr (s.off + i) vals)

/-- `copy(s[i:], vals)`-style store: never beyond `len(s)` -/
def writeAt (s : Slice) (i : Nat) (vals : List UInt8) : M Unit :=
  storeRaw s i (vals.take (s.len - i))

/-- `copy(dst, src)` (memmove: the source is read before anything is stored) -/
def copyS (dst src : Slice) : M Nat := do
  let vals ← readS src
  writeAt dst 0 vals
  pure (min dst.len src.len)

/-- `append(s, vals...)`: in place iff the capacity suffices, else a fresh array.
(Go may give the fresh array more capacity than needed; that is not observable here.) -/
def append (s : Slice) (vals : List UInt8) : M Slice :=
  if s.len + vals.length ≤ s.cap then do
    storeRaw s s.len vals
    pure { s with len := s.len + vals.length }
  else do
    let old ← readS s
    alloc (old ++ vals)

/-- `s[lo:hi]` -/
def reslice (s : Slice) (lo hi : Nat) : M Slice :=
  if lo ≤ hi ∧ hi ≤ s.cap then pure ⟨s.arr, s.off + lo, hi - lo, s.cap - lo⟩
  else goPanic "slice bounds out of range"

/-- `s[lo:hi:max]` -/
def reslice3 (s : Slice) (lo hi mx : Nat) : M Slice :=
  if lo ≤ hi ∧ hi ≤ mx ∧ mx ≤ s.cap then pure ⟨s.arr, s.off + lo, hi - lo, mx - lo⟩
  else goPanic "slice bounds out of range"

/-- `s[lo:]` -/
def resliceFrom (s : Slice) (lo : Nat) : M Slice := reslice s lo s.len

/-- run `body` for every element of `xs` in order (a Go `for` loop whose state is the heap) -/
def loop (xs : List ι) (body : ι → M Unit) : M Unit :=
  match xs with
  | [] => pure ()
  | x :: rest => do body x; loop rest body

/-- `for i := range xs { r[i] = f(i) }` collecting the results -/
def collect (xs : List ι) (f : ι → M α) : M (List α) :=
  match xs with
  | [] => pure []
  | x :: rest => do
    let a ← f x
    let as ← collect rest f
    pure (a :: as)

/-! ### the oracle for what cryptography computes -/

structure Env where
  /-- the bytes primitives produce (ciphertext, tags, signatures, …) -/
  stream : Nat → UInt8
  /-- does the authentication tag / integrity value verify? -/
  authOk : Bool
  /-- does the asymmetric primitive succeed (message fits, ciphertext well formed, …)? -/
  primOk : Bool
  /-- does the signature verify? -/
  sigOk : Bool

def Env.bytes (env : Env) (k : Nat) : List UInt8 := (List.range k).map env.stream

/-! ### standard-library calls by contract -/

/-- Go's `alias.InexactOverlap(x, y)`: the slices share cells but do not start at the same cell -/
def inexactOverlap (x y : Slice) : Bool :=
  x.len != 0 && y.len != 0 && x.arr == y.arr &&
  (x.off < y.off + y.len && y.off < x.off + x.len) && x.off != y.off

/-- `aes.NewCipher(key)`: reads the key; error unless 16, 24 or 32 bytes -/
def aesNewCipher (key : Slice) (e : String) : M Unit :=
  if key.len = 16 ∨ key.len = 24 ∨ key.len = 32 then pure () else fail e

/-- `cipher.Block.Encrypt/Decrypt(dst, src)`: writes `dst[:16]` -/
def blockCrypt (env : Env) (dst src : Slice) : M Unit :=
  if src.len < 16 then goPanic "crypto/aes: input not full block"
  else if dst.len < 16 then goPanic "crypto/aes: output not full block"
  else writeAt dst 0 (env.bytes 16)

/-- `cipher.BlockMode.CryptBlocks(dst, src)` of CBC: writes `dst[:len(src)]` -/
def cryptBlocks (env : Env) (dst src : Slice) : M Unit :=
  if src.len % 16 ≠ 0 then goPanic "crypto/cipher: input not full blocks"
  else if dst.len < src.len then goPanic "crypto/cipher: output smaller than input"
  else if inexactOverlap { dst with len := src.len } src then goPanic "crypto/cipher: invalid buffer overlap"
  else writeAt dst 0 (env.bytes src.len)

/-- `cipher.AEAD.Seal(dst, nonce, plaintext, ad)` of the standard library (GCM, ChaCha20-Poly1305):
appends `len(plaintext) + overhead` bytes to `dst`; everything else is only read -/
def stdSeal (env : Env) (dst plaintext : Slice) (overhead : Nat) : M Slice :=
  append dst (env.bytes (plaintext.len + overhead))

/-- `cipher.AEAD.Open(dst, nonce, ciphertext, ad)` of the standard library: the output area is
obtained by appending to `dst` (and is zeroed again when authentication fails) -/
def stdOpen (env : Env) (dst ciphertext : Slice) (overhead : Nat) (e : String) : M Slice :=
  if ciphertext.len < overhead then fail e
  else do
    let out ← append dst (env.bytes (ciphertext.len - overhead))
    if env.authOk then pure out else fail e

/-- `bytes.Repeat([]byte{b}, n)` -/
def bytesRepeat (b : UInt8) (n : Nat) : M Slice := alloc (List.replicate n b)

/-- `h.Sum(nil)` after some `h.Write(…)`s: a fresh array of `n` bytes -/
def hashSum (env : Env) (n : Nat) : M Slice := alloc (env.bytes n)

/-- any primitive that only reads its inputs and returns a new array of `n` bytes -/
def freshResult (env : Env) (n : Nat) : M Slice := alloc (env.bytes n)

/-! ### observing a run -/

/-- cells `(array, index)` of the arrays existing before the call whose content differs afterwards -/
def changedCells (h h' : Heap) : List (Nat × Nat) :=
  (List.range h.size).flatMap fun a =>
    ((List.range (h.row a).size).filter fun i => (h'.row a)[i]? != (h.row a)[i]?).map fun i => (a, i)

/-! ### the frame statement -/

/-- `h'` is `h` after a run that may only have written the cells `W` of the first `n` arrays:
no array disappears, each of the first `n` arrays keeps its size and every cell outside `W` -/
def Ext (n : Nat) (W : Nat → Nat → Prop) (h h' : Heap) : Prop :=
  h.size ≤ h'.size ∧
  ∀ a, a < n → (h'.row a).size = (h.row a).size ∧ ∀ i, ¬ W a i → (h'.row a)[i]? = (h.row a)[i]?

/-- cell `(a, i)` lies in one of the ranges `(array, lo, hi)` -/
def InRanges (rs : List (Nat × Nat × Nat)) (a i : Nat) : Prop :=
  ∃ r ∈ rs, r.1 = a ∧ r.2.1 ≤ i ∧ i < r.2.2

/-- FRAME: whatever heap the call starts in and however it ends (result, error, panic), every
array that existed before the call is unchanged outside the cell ranges `rs` -/
def Frames (rs : List (Nat × Nat × Nat)) (m : M α) : Prop :=
  ∀ h : Heap, Ext h.size (InRanges rs) h (m h).2

/-- the call writes to no array that existed before it -/
def ReadOnly (m : M α) : Prop :=
  ∀ h : Heap, ∀ a, a < h.size → (m h).2[a]? = h[a]?

end Kit.SH
