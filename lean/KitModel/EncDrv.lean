/-
Line-protocol handlers for the enc/v1 model that need no cryptography:
`ps` (segment loop with a recording function), `rh` (readHeader), `pst` (segment loop with the
toy AEAD used for the small-scale tamper tie of C02).
-/
import KitModel.Go.Prelude
import KitModel.Enc
import KitModel.EncPipe

namespace Kit.Enc.Drv
open Kit Kit.Enc

def parseTerm (s : String) : Term :=
  if s == "failOnce" then .failOnce else if s == "failSticky" then .failSticky else .eof

def readerOf (l : Line) (key : String := "data") : Option Reader := do
  let data ← l.hex? key
  let caps ← (l.nats? "caps").orElse (fun _ => some [])
  let ewd := (l.get? "ewd").getD "0" == "1"
  let term := parseTerm ((l.get? "term").getD "eof")
  some { data := data, caps := caps, endWithData := ewd, term := term }

def showCalls (cs : List (Bytes × Nat × Bool)) : String :=
  ";".intercalate (cs.map fun (d, i, l) => s!"{toHex d}:{i}:{if l then 1 else 0}")

def showPS (r : PSResult) : String :=
  s!"calls={showCalls r.calls} out={toHex r.out} term={r.term.name}"

/-- Recording function: echoes the data; fails at call number `failAt`. -/
def recFn (failAt : Option Nat) : ProcFn := fun d i _ =>
  if failAt == some i then .error .proc else .ok d

/-! Toy AEAD for the small-scale tamper tie (the Go overlay implements the same function):
    tag = one byte = (sum of plaintext bytes + 31·i + 7·last + key) mod 256, ciphertext = plaintext
    bytes each xor-ed with (key + i) mod 256. -/
def toyPad (key i : Nat) : UInt8 := UInt8.ofNat ((key + i) % 256)
def toyTag (key : Nat) (p : Bytes) (i : Nat) (last : Bool) : UInt8 :=
  UInt8.ofNat ((p.foldl (fun a b => a + b.toNat) 0 + 31 * i + (if last then 7 else 0) + key) % 256)
def toySeal (key : Nat) : ProcFn := fun d i last =>
  if d.isEmpty then .error .emptySegment
  else .ok (d.map (· ^^^ toyPad key i) ++ [toyTag key d i last])
def toyOpen (key : Nat) : ProcFn := fun d i last =>
  if d.isEmpty then .error .emptySegment
  else
    let body := d.take (d.length - 1)
    let p := body.map (· ^^^ toyPad key i)
    if d[d.length - 1]? == some (toyTag key p i last) then .ok p else .error .decryptFailed

def answerBasic (l : Line) : Option String :=
  match l.op with
  | "ps" => some <| (do
      let r ← readerOf l
      let seg ← l.nat? "seg"
      let failAt := l.nat? "failcall"
      let maxSeg := (l.nat? "maxseg").getD Gen.maxSegment
      pure (showPS (processSegments seg maxSeg (recFn failAt) r)) : Option String).getD "bad-request"
  | "pst" => some <| (do
      let r ← readerOf l
      let seg ← l.nat? "seg"
      let key ← l.nat? "key"
      let dir := (l.get? "dir").getD "open"
      let fn := if dir == "seal" then toySeal key else toyOpen key
      let res := processSegments (if dir == "seal" then seg else seg + 1) Gen.maxSegment fn r
      pure s!"out={toHex res.out} ncalls={res.calls.length} term={res.term.name}" : Option String).getD "bad-request"
  | "pipe" => some <| (do
      -- `pipe writes=<hex>;<hex>;… closed=<ok|err> bufs=a,b,… dflt=n`: io.Pipe with a scripted consumer
      let wsS := (l.get? "writes").getD ""
      let ws ← (if wsS == "" then some [] else (wsS.splitOn ";").mapM (fun h => if h == "-" then some [] else fromHex h))
      let bufs ← (l.nats? "bufs").orElse (fun _ => some [])
      let dflt ← l.nat? "dflt"
      let term : Terminal := if (l.get? "closed").getD "ok" == "ok" then .ok else .err .source
      let got := Pipe.consumeAll ws term bufs dflt
      pure s!"reads={";".intercalate (got.1.map fun b => if b.isEmpty then "-" else toHex b)} term={got.2.name}"
      : Option String).getD "bad-request"
  | "rh" => some <| (do
      let r ← readerOf l
      let fix := (l.get? "fix").getD "1" == "1"
      match readHeaderWith fix EncParams.generated r with
      | .error e => pure s!"err={e.name}"
      | .ok (m, mac, r') =>
        pure s!"ok manifest={toHex m} mac={toHex mac} rest={toHex r'.stream} restterm={if r'.term.fails then "fail" else "eof"}"
      : Option String).getD "bad-request"
  | _ => none

end Kit.Enc.Drv
