import KitModel.Generated.C07
/-!
C07 layer 2 — the discharge table for the generated panic-site inventory
(`KitModel/Generated/C07.lean`, rewritten from /repo on every run by `harness/cmd/factgen_c07`).

Each site key (FNV-1a of function | kind | normalised expression | ordinal) maps to the reason the
site cannot panic on input.  `guardedBy cs` and the `needs` of `byTheorem` are checked against the
site's generated `guards` (conditions that syntactically dominate it in the current source): if a
guard is removed or reworded, if a site appears, disappears or changes, `sites_covered` /
`table_keys_live` in `KitProofs/Props/C07.lean` stop checking.  The entries were produced with
`harness/cmd/factgen_c07/mktable.py` (the reviewed rules) from factgen's `--skeleton` output.
-/
namespace Kit.NoPanic.Inventory
open Kit.Generated.C07

inductive Discharge where
  /-- a never-panics theorem about the model of the enclosing function (`owner` = property whose
  module holds it); `needs` = source guards the model's control flow mirrors -/
  | byTheorem (owner thm : String) (needs : List String)
  /-- the listed conditions dominate the site and imply it is in range (`why`) -/
  | guardedBy (conds : List String) (why : String)
  /-- a panic the property text excludes: documented programmer misuse, not input -/
  | documentedMisuse (why : String)
  /-- relies on the documented behaviour of a library call -/
  | delegated (lib why : String)
  /-- constant index into a fixed-size literal / freshly made buffer -/
  | constIndex (why : String)
  /-- `make` whose size is a sum of `len`s (non-negative) -/
  | sizeFromLen (what : String)
  /-- holds by how the value was constructed inside dapr/kit -/
  | typeInvariant (why : String)
  /-- pre-condition on a non-input argument (program text: result types, internal callers) -/
  | callerContract (why : String)
  deriving Repr

def table0 : List (Nat × Discharge) := [
  -- cron.NewParser | panic | panic("multiple optionals may not be configured") #0
  (0xb34706e7e0b05c3b, .documentedMisuse "NewParser with two optional fields (documented: It panics if more than one Optional is given)"),
  -- cron.Parser.Parse | slice | spec[eq+1 : i] #0
  (0xc7bd02db651ee899, .byTheorem "C04Parser" "Kit.Cron.parse_never_panics" ["!(i == -1)"]),
  -- cron.Parser.Parse | slice | spec[eq+1 : i] #1
  (0xc7bd01db651ee6e6, .byTheorem "C04Parser" "Kit.Cron.parse_never_panics" ["!(i == -1)"]),
  -- cron.Parser.Parse | slice | spec[i:] #0
  (0xf9058bce70ac66a5, .byTheorem "C04Parser" "Kit.Cron.parse_never_panics" ["!(i == -1)"]),
  -- cron.Parser.Parse | index | fields[0] #0
  (0x229203b892e0dfca, .byTheorem "C04Parser" "Kit.Cron.parse_never_panics" ["!(err != nil)"]),
  -- cron.Parser.Parse | index | fields[1] #0
  (0x2af25dad364c45f7, .byTheorem "C04Parser" "Kit.Cron.parse_never_panics" ["!(err != nil)"]),
  -- cron.Parser.Parse | index | fields[2] #0
  (0xd6fb1bc8effcc114, .byTheorem "C04Parser" "Kit.Cron.parse_never_panics" ["!(err != nil)"]),
  -- cron.Parser.Parse | index | fields[3] #0
  (0x5015edbef58ec429, .byTheorem "C04Parser" "Kit.Cron.parse_never_panics" ["!(err != nil)"]),
  -- cron.Parser.Parse | index | fields[4] #0
  (0x1cd8eb953afb0146, .byTheorem "C04Parser" "Kit.Cron.parse_never_panics" ["!(err != nil)"]),
  -- cron.Parser.Parse | index | fields[5] #0
  (0xceb3c58ec66438f3, .byTheorem "C04Parser" "Kit.Cron.parse_never_panics" ["!(err != nil)"]),
  -- cron.normalizeFields | index | defaults[5] #0
  (0x84dc8fd4f1cfbab4, .constIndex "defaults is a package-level literal of 6 strings"),
  -- cron.normalizeFields | index | defaults[0] #0
  (0x790ca9ab4eeaf765, .constIndex "defaults is a package-level literal of 6 strings"),
  -- cron.normalizeFields | make | make([]string, len(places)) #0
  (0xd576ce47afa3aa45, .sizeFromLen "len(places)"),
  -- cron.normalizeFields | index | expandedFields[i] #0
  (0xc2251289a0a8aa2a, .byTheorem "C04Parser" "Kit.Cron.parse_never_panics" ["!(count < min || count > max)"]),
  -- cron.normalizeFields | index | fields[n] #0
  (0x9bc4f842a70b542a, .byTheorem "C04Parser" "Kit.Cron.parse_never_panics" ["!(count < min || count > max)"]),
  -- cron.getRange | index | rangeAndStep[0] #0
  (0x445adaad473e2082, .byTheorem "C04Parser" "Kit.Cron.parse_never_panics" []),
  -- cron.getRange | index | lowAndHigh[0] #0
  (0x26ac9d648b4fb38f, .byTheorem "C04Parser" "Kit.Cron.parse_never_panics" []),
  -- cron.getRange | index | lowAndHigh[0] #1
  (0x26ac9c648b4fb1dc, .byTheorem "C04Parser" "Kit.Cron.parse_never_panics" []),
  -- cron.getRange | index | lowAndHigh[0] #2
  (0x26ac9f648b4fb6f5, .byTheorem "C04Parser" "Kit.Cron.parse_never_panics" []),
  -- cron.getRange | index | lowAndHigh[1] #0
  (0x48bf8369c4746322, .byTheorem "C04Parser" "Kit.Cron.parse_never_panics" []),
  -- cron.getRange | index | rangeAndStep[1] #0
  (0xca23f4a5973618ef, .byTheorem "C04Parser" "Kit.Cron.parse_never_panics" []),
  -- cron.parseDescriptor | slice | descriptor[len(every):] #0
  (0xe5f106aa58e14107, .guardedBy ["strings.HasPrefix(descriptor, every)"] "the slice starts at the length of a prefix the string has"),
  -- cron.SpecSchedule.Next | call | t.In(s.Location) #0
  (0x13f0468ed5fb6e76, .typeInvariant "SpecSchedule.Location is set by Parse to time.Local or a loaded zone and t.Location() never returns nil: the *time.Location arguments are non-nil"),
  -- cron.SpecSchedule.Next | call | time.Date(t.Year(), t.Month(), 1, 0, 0, 0, 0, loc) #0
  (0x46d0ac7b40ef9d0e, .typeInvariant "SpecSchedule.Location is set by Parse to time.Local or a loaded zone and t.Location() never returns nil: the *time.Location arguments are non-nil"),
  -- cron.SpecSchedule.Next | goto | goto WRAP #0
  (0x1cdcbc13f1bd2b70, .byTheorem "C04Next" "Kit.CronSpec.next_terminates" [])
]

def table1 : List (Nat × Discharge) := [
  -- cron.SpecSchedule.Next | call | time.Date(t.Year(), t.Month(), t.Day(), 0, 0, 0, 0, loc) #0
  (0x362d8ac53d5cfe6a, .typeInvariant "SpecSchedule.Location is set by Parse to time.Local or a loaded zone and t.Location() never returns nil: the *time.Location arguments are non-nil"),
  -- cron.SpecSchedule.Next | goto | goto WRAP #1
  (0x1cdcbd13f1bd2d23, .byTheorem "C04Next" "Kit.CronSpec.next_terminates" []),
  -- cron.SpecSchedule.Next | call | time.Date(t.Year(), t.Month(), t.Day(), t.Hour(), 0, 0, 0, loc) #0
  (0x95b51087ef98f10d, .typeInvariant "SpecSchedule.Location is set by Parse to time.Local or a loaded zone and t.Location() never returns nil: the *time.Location arguments are non-nil"),
  -- cron.SpecSchedule.Next | goto | goto WRAP #2
  (0x1cdcbe13f1bd2ed6, .byTheorem "C04Next" "Kit.CronSpec.next_terminates" []),
  -- cron.SpecSchedule.Next | goto | goto WRAP #3
  (0x1cdcbf13f1bd3089, .byTheorem "C04Next" "Kit.CronSpec.next_terminates" []),
  -- cron.SpecSchedule.Next | goto | goto WRAP #4
  (0x1cdcc013f1bd323c, .byTheorem "C04Next" "Kit.CronSpec.next_terminates" []),
  -- cron.SpecSchedule.Next | call | t.In(origLocation) #0
  (0x1f2000c8bf1bffd2, .typeInvariant "SpecSchedule.Location is set by Parse to time.Local or a loaded zone and t.Location() never returns nil: the *time.Location arguments are non-nil"),
  -- time.ParseISO8601Duration | index | from[0] #0
  (0x06ac73c49e0438a9, .byTheorem "C07" "parseISO8601_never_panics" ["!(l < 2)"]),
  -- time.ParseISO8601Duration | loop | for without condition #0
  (0x2e823a8e1eb6fb51, .byTheorem "C07" "parseISO8601_never_panics" ["!(l < 2)"]),
  -- time.ParseISO8601Duration | index | from[i] #0
  (0x034c53a126f722ec, .byTheorem "C07" "parseISO8601_never_panics" ["!(i == l)"]),
  -- time.ParseISO8601Duration | slice | from[1:i] #0
  (0x4d594ed0744e6c79, .byTheorem "C07" "parseISO8601_never_panics" ["!(i-1 < 1)"]),
  -- time.ParseISO8601Duration | index | from[i] #1
  (0x034c54a126f7249f, .byTheorem "C07" "parseISO8601_never_panics" ["!(l < 2)"]),
  -- time.ParseISO8601Duration | index | from[i] #2
  (0x034c55a126f72652, .byTheorem "C07" "parseISO8601_never_panics" ["for i < l"]),
  -- time.ParseISO8601Duration | slice | from[start:i] #0
  (0x71d49c056302df3c, .byTheorem "C07" "parseISO8601_never_panics" ["for i < l"]),
  -- time.ParseISO8601Duration | slice | from[start:i] #1
  (0x71d49d056302e0ef, .byTheorem "C07" "parseISO8601_never_panics" ["for i < l"]),
  -- time.ParseISO8601Duration | slice | from[start:i] #2
  (0x71d49e056302e2a2, .byTheorem "C07" "parseISO8601_never_panics" ["for i < l"]),
  -- time.ParseISO8601Duration | slice | from[start:i] #3
  (0x71d49f056302e455, .byTheorem "C07" "parseISO8601_never_panics" ["for i < l"]),
  -- time.ParseISO8601Duration | slice | from[start:i] #4
  (0x71d498056302d870, .byTheorem "C07" "parseISO8601_never_panics" ["for i < l"]),
  -- time.ParseISO8601Duration | slice | from[start:i] #5
  (0x71d499056302da23, .byTheorem "C07" "parseISO8601_never_panics" ["for i < l"]),
  -- crypto.encryptPublicKeyRSAOAEP | call | hash.New() #0
  (0x3a819f6f83f2695f, .delegated "crypto" "crypto.SHA1/SHA256/SHA384/SHA512 are linked into every binary that links this package (crypto/x509, imported by keys.go, imports them); getSHAHash is only called with the *-256/384/512 algorithm names"),
  -- crypto.decryptPrivateKeyRSAOAEP | call | hash.New() #0
  (0x87b98a63d9ce5e73, .delegated "crypto" "crypto.SHA1/SHA256/SHA384/SHA512 are linked into every binary that links this package (crypto/x509, imported by keys.go, imports them); getSHAHash is only called with the *-256/384/512 algorithm names"),
  -- crypto.signPrivateKeyEdDSA | call | ed25519.Sign(*ed25519Key, message) #0
  (0xc206cab9cbf0c654, .delegated "jwx" "okpKey.Raw builds the private key with ed25519.NewKeyFromSeed after checking the seed size, so it has PrivateKeySize bytes (exercised: d of every length 0..40)"),
  -- crypto.verifyPublicKeyEdDSA | call | ed25519.Verify(ed25519Key, mesage, signature) #0
  (0x1bd8950dc90bc1d7, .guardedBy ["!(okpKey.Raw(&ed25519Key) != nil || len(ed25519Key) != ed25519.PublicKeySize)"] "length checked before ed25519.Verify (fix 2829ef0)"),
  -- crypto.ParseKey | index | raw[0] #0
  (0xed5b7ace4c7da26c, .byTheorem "C07" "parseKey_never_panics" ["!(l == 0)"]),
  -- crypto.ParseKey | slice | raw[0:5] #0
  (0xc2faf1ba97dd15fd, .byTheorem "C07" "parseKey_never_panics" ["!(l == 0)", "len(raw) > 10"])
]

def table2 : List (Nat × Discharge) := [
  -- crypto.parseSymmetricKey | make | make([]byte, base64.RawStdEncoding.DecodedLen(len(raw))) #0
  (0xa0294372db279483, .byTheorem "C07" "parseSymmetric_never_panics" []),
  -- crypto.parseSymmetricKey | call | base64.RawStdEncoding.Decode(dst, trimmedRaw) #0
  (0x7826004aaf1a354e, .byTheorem "C07" "parseSymmetric_never_panics" []),
  -- crypto.parseSymmetricKey | slice | dst[:n] #0
  (0x9bf897d5f050793a, .byTheorem "C07" "parseSymmetric_never_panics" []),
  -- crypto.parseSymmetricKey | call | base64.RawURLEncoding.Decode(dst, trimmedRaw) #0
  (0xc7cfcd5743bf2ad6, .byTheorem "C07" "parseSymmetric_never_panics" []),
  -- crypto.parseSymmetricKey | slice | dst[:n] #1
  (0x9bf898d5f0507aed, .byTheorem "C07" "parseSymmetric_never_panics" []),
  -- crypto.encryptSymmetricAESCBC | make | make([]byte, len(plaintext)) #0
  (0x283f77fcc0b3b4e5, .sizeFromLen "len(plaintext)"),
  -- crypto.encryptSymmetricAESCBC | call | cipher.NewCBCEncrypter(block, iv). CryptBlocks(ciphertext, plaintext) #0
  (0x53a33a2911d5aa05, .guardedBy ["!(len(iv) != aes.BlockSize)"] "ciphertext is made with len(plaintext); plaintext is a whole number of blocks: checked for the NOPAD algorithms, produced by PadPKCS7 otherwise (C03 pad_len)"),
  -- crypto.encryptSymmetricAESCBC | call | cipher.NewCBCEncrypter(block, iv) #0
  (0x1ac340788547e103, .guardedBy ["!(len(iv) != aes.BlockSize)"] "IV length checked"),
  -- crypto.decryptSymmetricAESCBC | make | make([]byte, len(ciphertext)) #0
  (0x8fcf27bdd10d2542, .sizeFromLen "len(ciphertext)"),
  -- crypto.decryptSymmetricAESCBC | call | cipher.NewCBCDecrypter(block, iv). CryptBlocks(plaintext, ciphertext) #0
  (0xf9272fa7fc2c14d5, .guardedBy ["!((len(ciphertext) % aes.BlockSize) != 0)", "!(len(iv) != aes.BlockSize)"] "block alignment checked; plaintext is made with len(ciphertext)"),
  -- crypto.decryptSymmetricAESCBC | call | cipher.NewCBCDecrypter(block, iv) #0
  (0x8669efb64d2818d7, .guardedBy ["!(len(iv) != aes.BlockSize)"] "IV length checked"),
  -- crypto.encryptSymmetricAEAD | call | aead.Seal(nil, nonce, plaintext, associatedData) #0
  (0x34d6e216f8923b09, .guardedBy ["!(len(nonce) != aead.NonceSize())"] "nonce length checked before Seal"),
  -- crypto.encryptSymmetricAEAD | slice | out[0 : len(out)-tagSize] #0
  (0x24344257d379f4bf, .delegated "crypto/cipher" "AEAD.Seal(nil, …) returns len(plaintext)+Overhead() bytes, so len(out)-tagSize >= 0 (C03 aead_split_lengths)"),
  -- crypto.encryptSymmetricAEAD | slice | out[len(out)-tagSize:] #0
  (0x14ebbdbdc1620cef, .delegated "crypto/cipher" "AEAD.Seal(nil, …) returns len(plaintext)+Overhead() bytes, so len(out)-tagSize >= 0 (C03 aead_split_lengths)"),
  -- crypto.decryptSymmetricAEAD | make | make([]byte, 0, len(ciphertext)+len(tag)) #0
  (0xcdd51fa232d947ab, .sizeFromLen "len(ciphertext)+len(tag)"),
  -- crypto.decryptSymmetricAEAD | call | aead.Open(nil, nonce, sealed, associatedData) #0
  (0xe37904200e1340cb, .guardedBy ["!(len(nonce) != aead.NonceSize())"] "nonce length checked before Open"),
  -- crypto.encryptSymmetricChaCha20Poly1305 | call | aead.Seal(nil, nonce, plaintext, associatedData) #0
  (0xc7aead89bd241e0d, .guardedBy ["!(err != nil)"] "getChaCha20Poly1305Cipher returns ErrInvalidNonce unless len(nonce) is the cipher nonce size"),
  -- crypto.encryptSymmetricChaCha20Poly1305 | slice | out[0 : len(out)-chacha20poly1305.Overhead] #0
  (0xf2e38fc4edec5fe9, .delegated "x/crypto/chacha20poly1305" "Seal(nil, …) returns len(plaintext)+Overhead bytes"),
  -- crypto.encryptSymmetricChaCha20Poly1305 | slice | out[len(out)-chacha20poly1305.Overhead:] #0
  (0x85e84c368ff41ad1, .delegated "x/crypto/chacha20poly1305" "Seal(nil, …) returns len(plaintext)+Overhead bytes"),
  -- crypto.decryptSymmetricChaCha20Poly1305 | make | make([]byte, 0, len(ciphertext)+len(tag)) #0
  (0x35ff02d583484cbf, .sizeFromLen "len(ciphertext)+len(tag)"),
  -- crypto.decryptSymmetricChaCha20Poly1305 | call | aead.Open(nil, nonce, sealed, associatedData) #0
  (0x4dab40562bfe2a0f, .guardedBy ["!(err != nil)"] "getChaCha20Poly1305Cipher returns ErrInvalidNonce unless len(nonce) is the cipher nonce size"),
  -- crypto.expectedKeySize | slice | alg[1:4] #0
  (0xed2e9b0fe374691d, .callerContract "internal helper: every caller passes an algorithm name that already matched a case list of A<bits>… constants (>= 4 bytes)"),
  -- crypto/pem.DecodePEMCertificatesChain | index | certs[i] #0
  (0x85774cc9f481c32e, .byTheorem "C07" "chainLoop_never_panics" ["for i < len(certs)-1"]),
  -- crypto/pem.DecodePEMCertificatesChain | index | certs[i+1] #0
  (0x2618698a613e2c56, .byTheorem "C07" "chainLoop_never_panics" ["for i < len(certs)-1"]),
  -- crypto/aeskw.Wrap | make | make([][]byte, n) #0
  (0x4966474f2ca5546b, .sizeFromLen "n = len(cek)/8, (n+1)*8")
]

def table3 : List (Nat × Discharge) := [
  -- crypto/aeskw.Wrap | index | r[i] #0
  (0x596740b55b4ca325, .guardedBy ["!(len(cek)%8 != 0)", "!(len(cek) < 16)"] "r has n = len(cek)/8 >= 2 registers of 8 bytes; i ranges over 1..n; b = A|R[i] has 16 bytes; tBytes has 8 (C03 model wrap has no panic branch)"),
  -- crypto/aeskw.Wrap | index | r[i] #1
  (0x59673fb55b4ca172, .guardedBy ["!(len(cek)%8 != 0)", "!(len(cek) < 16)"] "r has n = len(cek)/8 >= 2 registers of 8 bytes; i ranges over 1..n; b = A|R[i] has 16 bytes; tBytes has 8 (C03 model wrap has no panic branch)"),
  -- crypto/aeskw.Wrap | slice | cek[i*8:] #0
  (0x1ed602542fb256dc, .guardedBy ["!(len(cek)%8 != 0)", "!(len(cek) < 16)"] "r has n = len(cek)/8 >= 2 registers of 8 bytes; i ranges over 1..n; b = A|R[i] has 16 bytes; tBytes has 8 (C03 model wrap has no panic branch)"),
  -- crypto/aeskw.Wrap | index | r[i-1] #0
  (0x16b50ff0b8f5a233, .guardedBy ["!(len(cek)%8 != 0)", "!(len(cek) < 16)"] "r has n = len(cek)/8 >= 2 registers of 8 bytes; i ranges over 1..n; b = A|R[i] has 16 bytes; tBytes has 8 (C03 model wrap has no panic branch)"),
  -- crypto/aeskw.Wrap | call | block.Encrypt(b, b) #0
  (0x7a33a28015b43db1, .guardedBy ["!(len(cek)%8 != 0)", "!(len(cek) < 16)"] "r has n = len(cek)/8 >= 2 registers of 8 bytes; i ranges over 1..n; b = A|R[i] has 16 bytes; tBytes has 8 (C03 model wrap has no panic branch)"),
  -- crypto/aeskw.Wrap | call | binary.BigEndian.PutUint64(tBytes, uint64(t)) #0
  (0xb1fc9d81f1b94596, .guardedBy ["!(len(cek)%8 != 0)", "!(len(cek) < 16)"] "r has n = len(cek)/8 >= 2 registers of 8 bytes; i ranges over 1..n; b = A|R[i] has 16 bytes; tBytes has 8 (C03 model wrap has no panic branch)"),
  -- crypto/aeskw.Wrap | slice | b[:len(b)/2] #0
  (0xb79c3ac824dbb33b, .guardedBy ["!(len(cek)%8 != 0)", "!(len(cek) < 16)"] "r has n = len(cek)/8 >= 2 registers of 8 bytes; i ranges over 1..n; b = A|R[i] has 16 bytes; tBytes has 8 (C03 model wrap has no panic branch)"),
  -- crypto/aeskw.Wrap | index | r[i-1] #1
  (0x16b50ef0b8f5a080, .guardedBy ["!(len(cek)%8 != 0)", "!(len(cek) < 16)"] "r has n = len(cek)/8 >= 2 registers of 8 bytes; i ranges over 1..n; b = A|R[i] has 16 bytes; tBytes has 8 (C03 model wrap has no panic branch)"),
  -- crypto/aeskw.Wrap | slice | b[len(b)/2:] #0
  (0x3fc7a57660b8b8fd, .guardedBy ["!(len(cek)%8 != 0)", "!(len(cek) < 16)"] "r has n = len(cek)/8 >= 2 registers of 8 bytes; i ranges over 1..n; b = A|R[i] has 16 bytes; tBytes has 8 (C03 model wrap has no panic branch)"),
  -- crypto/aeskw.Wrap | make | make([]byte, (n+1)*8) #0
  (0x213eeee02a369890, .sizeFromLen "n = len(cek)/8, (n+1)*8"),
  -- crypto/aeskw.Wrap | index | r[i-1] #2
  (0x16b511f0b8f5a599, .guardedBy ["!(len(cek)%8 != 0)", "!(len(cek) < 16)"] "r has n = len(cek)/8 >= 2 registers of 8 bytes; i ranges over 1..n; b = A|R[i] has 16 bytes; tBytes has 8 (C03 model wrap has no panic branch)"),
  -- crypto/aeskw.Wrap | index | c[(i*8)+j] #0
  (0x6d668ea44bbd5eae, .guardedBy ["!(len(cek)%8 != 0)", "!(len(cek) < 16)"] "r has n = len(cek)/8 >= 2 registers of 8 bytes; i ranges over 1..n; b = A|R[i] has 16 bytes; tBytes has 8 (C03 model wrap has no panic branch)"),
  -- crypto/aeskw.Wrap | index | r[i-1][j] #0
  (0x23b5a2d1cdba79c1, .guardedBy ["!(len(cek)%8 != 0)", "!(len(cek) < 16)"] "r has n = len(cek)/8 >= 2 registers of 8 bytes; i ranges over 1..n; b = A|R[i] has 16 bytes; tBytes has 8 (C03 model wrap has no panic branch)"),
  -- crypto/aeskw.Wrap | index | r[i-1] #3
  (0x16b510f0b8f5a3e6, .guardedBy ["!(len(cek)%8 != 0)", "!(len(cek) < 16)"] "r has n = len(cek)/8 >= 2 registers of 8 bytes; i ranges over 1..n; b = A|R[i] has 16 bytes; tBytes has 8 (C03 model wrap has no panic branch)"),
  -- crypto/aeskw.Unwrap | make | make([][]byte, n) #0
  (0x60f833ae3fba2eb6, .guardedBy ["!(len(cipherText) < 24 || len(cipherText)%8 != 0)"] "n = len/8 - 1 >= 2"),
  -- crypto/aeskw.Unwrap | index | r[i] #0
  (0x5778d84ab665fdf4, .byTheorem "C03" "Kit.CryptoGlue.unwrap_never_panics" ["!(len(cipherText) < 24 || len(cipherText)%8 != 0)"]),
  -- crypto/aeskw.Unwrap | index | r[i] #1
  (0x5778d94ab665ffa7, .byTheorem "C03" "Kit.CryptoGlue.unwrap_never_panics" ["!(len(cipherText) < 24 || len(cipherText)%8 != 0)"]),
  -- crypto/aeskw.Unwrap | slice | cipherText[(i+1)*8:] #0
  (0x5aa3d8416090d6e5, .byTheorem "C03" "Kit.CryptoGlue.unwrap_never_panics" ["!(len(cipherText) < 24 || len(cipherText)%8 != 0)"]),
  -- crypto/aeskw.Unwrap | slice | cipherText[:8] #0
  (0x138ceffd336bf3bd, .byTheorem "C03" "Kit.CryptoGlue.unwrap_never_panics" ["!(len(cipherText) < 24 || len(cipherText)%8 != 0)"]),
  -- crypto/aeskw.Unwrap | call | binary.BigEndian.PutUint64(tBytes, uint64(t)) #0
  (0xe70184a8ca541c63, .byTheorem "C03" "Kit.CryptoGlue.unwrap_never_panics" ["!(len(cipherText) < 24 || len(cipherText)%8 != 0)"]),
  -- crypto/aeskw.Unwrap | index | r[i-1] #0
  (0x73b6596cd5b7a64e, .byTheorem "C03" "Kit.CryptoGlue.unwrap_never_panics" ["!(len(cipherText) < 24 || len(cipherText)%8 != 0)"]),
  -- crypto/aeskw.Unwrap | call | block.Decrypt(b, b) #0
  (0xccd8f76d10d6c900, .byTheorem "C03" "Kit.CryptoGlue.unwrap_never_panics" ["!(len(cipherText) < 24 || len(cipherText)%8 != 0)"]),
  -- crypto/aeskw.Unwrap | slice | b[:len(b)/2] #0
  (0x1386b3410b10ce32, .byTheorem "C03" "Kit.CryptoGlue.unwrap_never_panics" ["!(len(cipherText) < 24 || len(cipherText)%8 != 0)"]),
  -- crypto/aeskw.Unwrap | index | r[i-1] #1
  (0x73b65a6cd5b7a801, .byTheorem "C03" "Kit.CryptoGlue.unwrap_never_panics" ["!(len(cipherText) < 24 || len(cipherText)%8 != 0)"]),
  -- crypto/aeskw.Unwrap | slice | b[len(b)/2:] #0
  (0xd0d9d10222279c00, .byTheorem "C03" "Kit.CryptoGlue.unwrap_never_panics" ["!(len(cipherText) < 24 || len(cipherText)%8 != 0)"])
]

def table4 : List (Nat × Discharge) := [
  -- crypto/aeskw.arrConcat | make | make([]byte, len(arrays[0])) #0
  (0x862eddace8020f30, .callerContract "unexported; called with two arrays in Wrap/Unwrap and with r... (n >= 2 registers) at the end of Unwrap"),
  -- crypto/aeskw.arrConcat | index | arrays[0] #0
  (0x37fa7f8066a4074b, .callerContract "unexported; called with two arrays in Wrap/Unwrap and with r... (n >= 2 registers) at the end of Unwrap"),
  -- crypto/aeskw.arrConcat | index | arrays[0] #1
  (0x37fa7e8066a40598, .callerContract "unexported; called with two arrays in Wrap/Unwrap and with r... (n >= 2 registers) at the end of Unwrap"),
  -- crypto/aeskw.arrConcat | slice | arrays[1:] #0
  (0x848e4cd281de43f4, .callerContract "unexported; called with two arrays in Wrap/Unwrap and with r... (n >= 2 registers) at the end of Unwrap"),
  -- crypto/aeskw.arrXor | make | make([]byte, len(arrL)) #0
  (0x4b9a2dec1769367c, .sizeFromLen "len(arrL)"),
  -- crypto/aeskw.arrXor | index | out[x] #0
  (0x5629f5d607ebc932, .guardedBy ["range x over arrL"] "index ranges over the slice out was made from"),
  -- crypto/aeskw.arrXor | index | arrL[x] #0
  (0x69e9a83a70b89c25, .guardedBy ["range x over arrL"] "index ranges over the slice out was made from"),
  -- crypto/aeskw.arrXor | index | arrR[x] #0
  (0x00e75393187baeab, .callerContract "unexported; both call sites pass 8-byte slices (b[:len(b)/2] of a 16-byte block, tBytes, a)"),
  -- crypto/padding.PadPKCS7 | div | bufLen % size #0
  (0x14267e8ac381c15c, .guardedBy ["!(size <= 1 || size >= 256)"] "1 < size < 256: the divisor is non-zero, 1 <= padLen <= size, out has bufLen+padLen bytes"),
  -- crypto/padding.PadPKCS7 | call | bytes.Repeat([]byte{byte(padLen)}, padLen) #0
  (0x2d49f16ae6d1157b, .guardedBy ["!(size <= 1 || size >= 256)"] "1 < size < 256: the divisor is non-zero, 1 <= padLen <= size, out has bufLen+padLen bytes"),
  -- crypto/padding.PadPKCS7 | make | make([]byte, bufLen+padLen) #0
  (0x359f5410a6dc3f1b, .sizeFromLen "bufLen+padLen, padLen in 1..size"),
  -- crypto/padding.PadPKCS7 | slice | out[bufLen:] #0
  (0x3dc0a1cba4c1ea03, .guardedBy ["!(size <= 1 || size >= 256)"] "1 < size < 256: the divisor is non-zero, 1 <= padLen <= size, out has bufLen+padLen bytes"),
  -- crypto/padding.UnpadPKCS7 | div | l % size #0
  (0xea4cb390a56cd379, .guardedBy ["!(size <= 1 || size >= 256)"] "divisor non-zero"),
  -- crypto/padding.UnpadPKCS7 | index | buf[l-1] #0
  (0x7284bb38d0c24387, .guardedBy ["!(l == 0)"] "l >= 1"),
  -- crypto/padding.UnpadPKCS7 | index | buf[i] #0
  (0xbda456f69b646f58, .guardedBy ["!(padLen <= 0 || padLen > size)", "!(l%size != 0)", "!(l == 0)"] "0 < padLen <= size <= l (l is a non-zero multiple of size), so 0 <= l-padLen <= i < l"),
  -- crypto/padding.UnpadPKCS7 | slice | buf[:l-padLen] #0
  (0xcad24168c49cf4c4, .guardedBy ["!(padLen <= 0 || padLen > size)", "!(l%size != 0)", "!(l == 0)"] "0 < padLen <= size <= l (l is a non-zero multiple of size), so 0 <= l-padLen <= i < l"),
  -- crypto/aescbcaead.NewAESCBCAEAD | slice | p.key[0:p.macKeySize] #0
  (0x92539c7be182a423, .guardedBy ["!(len(p.key) != l)"] "len(key) = encKeySize + macKeySize"),
  -- crypto/aescbcaead.NewAESCBCAEAD | slice | p.key[len(p.key)-p.encKeySize:] #0
  (0xb13c7e99eadf8aa8, .guardedBy ["!(len(p.key) != l)"] "len(key) = encKeySize + macKeySize"),
  -- crypto/aescbcaead.aesCBCAEAD.Seal | panic | panic("invalid nonce") #0
  (0x9db9efcfc1fbadd3, .documentedMisuse "cipher.AEAD Seal with a wrong-size nonce (standard-library contract)"),
  -- crypto/aescbcaead.aesCBCAEAD.Seal | panic | panic(err) #0
  (0x91db022bce5165b6, .typeInvariant "encKey has 16/24/32 bytes by the constructor parameters, so aes.NewCipher succeeds; PadPKCS7 with size 16 never fails"),
  -- crypto/aescbcaead.aesCBCAEAD.Seal | panic | panic(err) #1
  (0x91db032bce516769, .typeInvariant "encKey has 16/24/32 bytes by the constructor parameters, so aes.NewCipher succeeds; PadPKCS7 with size 16 never fails"),
  -- crypto/aescbcaead.aesCBCAEAD.Seal | slice | dst[:dstLen+size] #0
  (0x144efbd57cf6674d, .guardedBy ["cap(dst) >= (dstLen + size)"] "capacity checked"),
  -- crypto/aescbcaead.aesCBCAEAD.Seal | make | make([]byte, dstLen+size) #0
  (0x15a4c51ba08fcd67, .sizeFromLen "dstLen+size"),
  -- crypto/aescbcaead.aesCBCAEAD.Seal | slice | dst[dstLen:] #0
  (0x11549047900ae885, .guardedBy ["!(len(nonce) != aes.BlockSize)"] "nonce is one block; out has len(padded plaintext)+tagSize bytes; the padded plaintext is a whole number of blocks"),
  -- crypto/aescbcaead.aesCBCAEAD.Seal | call | cipher.NewCBCEncrypter(block, nonce). CryptBlocks(out[:len(out)-aead.tagSize], plaintext) #0
  (0xf6d2c88ce55b771f, .guardedBy ["!(len(nonce) != aes.BlockSize)"] "nonce is one block; out has len(padded plaintext)+tagSize bytes; the padded plaintext is a whole number of blocks")
]

def table5 : List (Nat × Discharge) := [
  -- crypto/aescbcaead.aesCBCAEAD.Seal | call | cipher.NewCBCEncrypter(block, nonce) #0
  (0xe8a37ac321336988, .guardedBy ["!(len(nonce) != aes.BlockSize)"] "nonce is one block; out has len(padded plaintext)+tagSize bytes; the padded plaintext is a whole number of blocks"),
  -- crypto/aescbcaead.aesCBCAEAD.Seal | slice | out[:len(out)-aead.tagSize] #0
  (0x3b419a4eafd98eb7, .guardedBy ["!(len(nonce) != aes.BlockSize)"] "nonce is one block; out has len(padded plaintext)+tagSize bytes; the padded plaintext is a whole number of blocks"),
  -- crypto/aescbcaead.aesCBCAEAD.Seal | slice | out[:len(out)-aead.tagSize] #1
  (0x3b41994eafd98d04, .guardedBy ["!(len(nonce) != aes.BlockSize)"] "nonce is one block; out has len(padded plaintext)+tagSize bytes; the padded plaintext is a whole number of blocks"),
  -- crypto/aescbcaead.aesCBCAEAD.Seal | slice | out[len(out)-aead.tagSize:] #0
  (0x7ac9d8afd35a1431, .guardedBy ["!(len(nonce) != aes.BlockSize)"] "nonce is one block; out has len(padded plaintext)+tagSize bytes; the padded plaintext is a whole number of blocks"),
  -- crypto/aescbcaead.aesCBCAEAD.Open | slice | ciphertext[len(ciphertext)-aead.tagSize:] #0
  (0x6d8b945b7f407f20, .guardedBy ["!(len(ciphertext) < aead.tagSize)"] "len >= tagSize"),
  -- crypto/aescbcaead.aesCBCAEAD.Open | slice | ciphertext[:len(ciphertext)-aead.tagSize] #0
  (0x77a2e56827f6380e, .guardedBy ["!(len(ciphertext) < aead.tagSize)"] "len >= tagSize"),
  -- crypto/aescbcaead.aesCBCAEAD.Open | slice | dst[:dstLen+size] #0
  (0xa5ef205f8bfa0f3c, .guardedBy ["cap(dst) >= (dstLen + size)"] "capacity checked"),
  -- crypto/aescbcaead.aesCBCAEAD.Open | make | make([]byte, dstLen+size) #0
  (0x0421575c1e4fb538, .sizeFromLen "dstLen+size"),
  -- crypto/aescbcaead.aesCBCAEAD.Open | slice | dst[dstLen:] #0
  (0xc6c22682218a3b62, .guardedBy ["!(len(ciphertext) < aead.tagSize)"] "dst has dstLen+size bytes; UnpadPKCS7 returns a prefix of out"),
  -- crypto/aescbcaead.aesCBCAEAD.Open | call | cipher.NewCBCDecrypter(block, nonce). CryptBlocks(out, ciphertext) #0
  (0xa4db5d064234feda, .guardedBy ["!(len(ciphertext)%aes.BlockSize != 0)"] "block alignment of the authenticated body checked (fix 5c853ad); out has len(ciphertext) bytes"),
  -- crypto/aescbcaead.aesCBCAEAD.Open | call | cipher.NewCBCDecrypter(block, nonce) #0
  (0xf225c90a06367cdd, .documentedMisuse "cipher.AEAD Open: the nonce must be NonceSize() bytes long (standard-library contract, same as Seal)"),
  -- crypto/aescbcaead.aesCBCAEAD.Open | slice | dst[:dstLen+len(out)] #0
  (0x0d47fd8d171cc93d, .guardedBy ["!(len(ciphertext) < aead.tagSize)"] "dst has dstLen+size bytes; UnpadPKCS7 returns a prefix of out"),
  -- crypto/aescbcaead.aesCBCAEAD.hmacTag | call | binary.BigEndian.PutUint64(al, uint64(len(additionalData)<<3)) #0
  (0xebbe62fc1daebb46, .constIndex "al is made with 8 bytes"),
  -- crypto/aescbcaead.aesCBCAEAD.hmacTag | slice | h.Sum(nil)[:l] #0
  (0x6351c823220744e3, .typeInvariant "tagSize <= hash size by the four constructors (16<=32, 24<=48, 24<=48, 32<=64)"),
  -- schemes/enc/v1.processSegments | assert | BufPool.Get().(*[]byte) #0
  (0x3f4984159a83ea46, .typeInvariant "BufPool.New returns *[]byte and only such values are Put back (C08)"),
  -- schemes/enc/v1.processSegments | index | (*buf)[0] #0
  (0x61ad147a66464049, .guardedBy ["hasCarryover"] "the pooled buffer has SegmentSize+SegmentOverhead+1 bytes and segmentSize <= SegmentSize+SegmentOverhead; n stays <= segmentSize+1 (reads are into buf[n:segmentSize+1])"),
  -- schemes/enc/v1.processSegments | slice | (*buf)[n:(segmentSize + 1)] #0
  (0x7050707d065c73cc, .guardedBy ["for n < (segmentSize+1) && err == nil"] "the pooled buffer has SegmentSize+SegmentOverhead+1 bytes and segmentSize <= SegmentSize+SegmentOverhead; n stays <= segmentSize+1 (reads are into buf[n:segmentSize+1])"),
  -- schemes/enc/v1.processSegments | index | (*buf)[n-1] #0
  (0xb743be0e84118251, .guardedBy ["n > segmentSize"] "the pooled buffer has SegmentSize+SegmentOverhead+1 bytes and segmentSize <= SegmentSize+SegmentOverhead; n stays <= segmentSize+1 (reads are into buf[n:segmentSize+1])"),
  -- schemes/enc/v1.processSegments | slice | (*buf)[:n] #0
  (0x0b1f2ff43c978feb, .guardedBy ["!(n == 0)"] "the pooled buffer has SegmentSize+SegmentOverhead+1 bytes and segmentSize <= SegmentSize+SegmentOverhead; n stays <= segmentSize+1 (reads are into buf[n:segmentSize+1])"),
  -- schemes/enc/v1.readHeader | assert | BufPool.Get().(*[]byte) #0
  (0x2fa23c1fcaf34710, .typeInvariant "BufPool.New returns *[]byte and only such values are Put back (C08)"),
  -- schemes/enc/v1.readHeader | slice | (*buf)[n:SegmentSize] #0
  (0x6e6de46580b4fa89, .guardedBy ["!(n == ul)"] "n <= SegmentSize < len(buf) because reads are into buf[n:SegmentSize]; lastNewline <= i < n+nn"),
  -- schemes/enc/v1.readHeader | index | (*buf)[i] #0
  (0x0a9f266c23960b3a, .guardedBy ["for i < (n+nn) && newlines < 3"] "n <= SegmentSize < len(buf) because reads are into buf[n:SegmentSize]; lastNewline <= i < n+nn"),
  -- schemes/enc/v1.readHeader | slice | (*buf)[lastNewline:i] #0
  (0xfafdf4ca345fe106, .guardedBy ["!(i <= lastNewline)"] "n <= SegmentSize < len(buf) because reads are into buf[n:SegmentSize]; lastNewline <= i < n+nn"),
  -- schemes/enc/v1.readHeader | make | make([]byte, n-lastNewline) #0
  (0x113ab2c866c5da99, .guardedBy ["n > lastNewline"] "n <= SegmentSize < len(buf) because reads are into buf[n:SegmentSize]; lastNewline <= i < n+nn"),
  -- schemes/enc/v1.readHeader | slice | (*buf)[(lastNewline):n] #0
  (0x8818001b520689b8, .guardedBy ["n > lastNewline"] "n <= SegmentSize < len(buf) because reads are into buf[n:SegmentSize]; lastNewline <= i < n+nn")
]

def table6 : List (Nat × Discharge) := [
  -- metadata.toTimeDurationHookFunc | call | f.Kind() #0
  (0xd43ee21c96ccb4c2, .callerContract "f and t are the non-nil reflect.Types mapstructure passes to a DecodeHookFuncType"),
  -- metadata.toTimeDurationHookFunc | call | reflect.TypeOf(time.Duration(0)).Kind() #0
  (0x14b1940e5032b587, .callerContract "f and t are the non-nil reflect.Types mapstructure passes to a DecodeHookFuncType"),
  -- metadata.toTimeDurationHookFunc | assert | data.(time.Duration) #0
  (0x34653b3d34e68927, .byTheorem "C07" "hookChain_never_panics" ["!(t != reflect.TypeOf(Duration{}) && t != reflect.TypeOf(time.Duration(0)))"]),
  -- metadata.toTimeDurationHookFunc | assert | data.(string) #0
  (0xc9f27de61b1271d5, .byTheorem "C07" "hookChain_never_panics" ["!(t != reflect.TypeOf(Duration{}) && t != reflect.TypeOf(time.Duration(0)))"]),
  -- metadata.toTimeDurationHookFunc | assert | data.(string) #1
  (0xc9f27ce61b127022, .byTheorem "C07" "hookChain_never_panics" ["!(t != reflect.TypeOf(Duration{}) && t != reflect.TypeOf(time.Duration(0)))"]),
  -- metadata.toTimeDurationHookFunc | assert | data.(string) #2
  (0xc9f27be61b126e6f, .byTheorem "C07" "hookChain_never_panics" ["!(t != reflect.TypeOf(Duration{}) && t != reflect.TypeOf(time.Duration(0)))"]),
  -- metadata.toTimeDurationHookFunc | assert | data.(float64) #0
  (0x7a5a03da06e0f534, .byTheorem "C07" "hookChain_never_panics" ["!(t != reflect.TypeOf(Duration{}) && t != reflect.TypeOf(time.Duration(0)))"]),
  -- metadata.toTimeDurationHookFunc | assert | data.(int64) #0
  (0x8b3f4337ee9c997d, .byTheorem "C07" "hookChain_never_panics" ["!(t != reflect.TypeOf(Duration{}) && t != reflect.TypeOf(time.Duration(0)))"]),
  -- metadata.toTruthyBoolHookFunc | assert | data.(string) #0
  (0xd9edd5dc8175d6b6, .guardedBy ["f == stringType && t == boolType"] "f is exactly the type string, and data has dynamic type f (mapstructure contract); also C07 hookChain_never_panics"),
  -- metadata.toTruthyBoolHookFunc | assert | data.(string) #1
  (0xd9edd6dc8175d869, .guardedBy ["f == stringType && t == boolPtrType"] "f is exactly the type string, and data has dynamic type f (mapstructure contract); also C07 hookChain_never_panics"),
  -- metadata.toStringArrayHookFunc | assert | data.(string) #0
  (0x6e010c1488a0bcc2, .guardedBy ["f == stringType && t == stringSliceType"] "f is exactly the type string, and data has dynamic type f (mapstructure contract); also C07 hookChain_never_panics"),
  -- metadata.toStringArrayHookFunc | assert | data.(string) #1
  (0x6e010d1488a0be75, .guardedBy ["f == stringType && t == stringSlicePtrType"] "f is exactly the type string, and data has dynamic type f (mapstructure contract); also C07 hookChain_never_panics"),
  -- metadata.toTimeDurationArrayHookFunc | make | make([]time.Duration, 0, len(parts)) #0
  (0xdcc99b30754f9bcc, .sizeFromLen "len(parts)"),
  -- metadata.toTimeDurationArrayHookFunc | assert | data.(string) #0
  (0x80baedf357e4017a, .guardedBy ["f == stringType && t == durationSliceType"] "f is exactly the type string, and data has dynamic type f (mapstructure contract); also C07 hookChain_never_panics"),
  -- metadata.toTimeDurationArrayHookFunc | assert | data.(string) #1
  (0x80baeef357e4032d, .guardedBy ["f == stringType && t == durationSlicePtrType"] "f is exactly the type string, and data has dynamic type f (mapstructure contract); also C07 hookChain_never_panics"),
  -- metadata.GetMetadataPropertyWithMatchedKey | make | make(map[string]string, len(props)) #0
  (0xfde521beeb127dbc, .sizeFromLen "len of a map"),
  -- metadata.DecodeMetadata | call | v.Type().FieldByName("Properties") #0
  (0xcc848a1af8a42a6c, .guardedBy ["v.Kind() == reflect.Struct"] "struct kind checked; v is valid because Kind() of the zero Value is Invalid"),
  -- metadata.DecodeMetadata | call | v.Type() #0
  (0x9c47016672de30aa, .guardedBy ["v.Kind() == reflect.Struct"] "struct kind checked; v is valid because Kind() of the zero Value is Invalid"),
  -- metadata.DecodeMetadata | call | v.FieldByIndexErr(sf.Index) #0
  (0xfb9c547c01a77c9b, .guardedBy ["v.Kind() == reflect.Struct"] "struct kind checked; v is valid because Kind() of the zero Value is Invalid"),
  -- metadata.DecodeMetadata | call | f.Interface() #0
  (0xe5ceaddacf0e1cb3, .guardedBy ["err == nil && f.Kind() == reflect.Map && f.CanInterface()"] "CanInterface checked (fix 466c97a)"),
  -- metadata.resolveAliases | make | make(map[string]string, len(md)) #0
  (0x2ae09b58616e96a4, .sizeFromLen "len of a map"),
  -- metadata.resolveAliases | call | t.Kind() #0
  (0x114774f3f26dddbd, .callerContract "t = reflect.TypeOf(result) is nil only for a nil result argument (program text, not input): C07 resolveAliases_never_panics"),
  -- metadata.resolveAliases | call | t.Kind() #1
  (0x114773f3f26ddc0a, .guardedBy [] "t is non-nil after the first Kind() call returned"),
  -- metadata.resolveAliases | call | t.Elem() #0
  (0x3875d3434e6961f8, .guardedBy ["!(t.Kind() != reflect.Pointer)"] "pointer kind checked"),
  -- metadata.resolveAliases | call | t.Kind() #2
  (0x114772f3f26dda57, .guardedBy [] "t is non-nil after the first Kind() call returned")
]

def table7 : List (Nat × Discharge) := [
  -- metadata.resolveAliases | call | t.Elem() #1
  (0x3875d4434e6963ab, .guardedBy ["t.Kind() == reflect.Pointer"] "pointer kind checked"),
  -- metadata.resolveAliases | call | t.Kind() #3
  (0x114771f3f26dd8a4, .guardedBy [] "t is non-nil after the first Kind() call returned"),
  -- metadata.resolveAliases | call | t.Kind() #4
  (0x114770f3f26dd6f1, .guardedBy [] "t is non-nil after the first Kind() call returned"),
  -- metadata.resolveAliasesInType | call | t.NumField() #0
  (0xa850f5fc94519064, .callerContract "t is a struct type: checked by resolveAliases; recursive calls pass the type of a `,squash` field, which mapstructure requires to be a struct"),
  -- metadata.resolveAliasesInType | call | t.Field(i) #0
  (0x0f76da43a199105d, .guardedBy ["for i < t.NumField()"] "index below NumField"),
  -- config.var | call | reflect.TypeOf((*StringDecoder)(nil)).Elem() #0
  (0xac4307fe64bf2c05, .typeInvariant "(*StringDecoder)(nil) has a pointer type: Elem is legal"),
  -- config.decodeString | call | t.Kind() #0
  (0x31a74b44324c8897, .callerContract "f and t are the non-nil reflect.Types mapstructure passes to a DecodeHookFuncType"),
  -- config.decodeString | call | f.Kind() #0
  (0x22b5a240340eaec5, .callerContract "f and t are the non-nil reflect.Types mapstructure passes to a DecodeHookFuncType"),
  -- config.decodeString | call | f.Kind() #1
  (0x22b5a140340ead12, .callerContract "f and t are the non-nil reflect.Types mapstructure passes to a DecodeHookFuncType"),
  -- config.decodeString | call | reflect.ValueOf(data).Elem() #0
  (0xbc8e0a7993277ff2, .guardedBy ["f.Kind() == reflect.Ptr"] "data has dynamic type f, a pointer type"),
  -- config.decodeString | call | inner.IsNil() #0
  (0xcb9662cb1edae38e, .guardedBy ["inner.Kind() == reflect.Interface"] "kind checked in the same condition"),
  -- config.decodeString | call | inner.Elem() #0
  (0xa3312a3938d9cec6, .guardedBy ["for inner.Kind() == reflect.Interface && !inner.IsNil()"] "kind checked by the loop condition"),
  -- config.decodeString | call | inner.IsNil() #1
  (0xcb9663cb1edae541, .guardedBy ["(inner.Kind() == reflect.Interface || inner.Kind() == reflect.Ptr)"] "kind checked in the same condition"),
  -- config.decodeString | call | f.Elem() #0
  (0x4ca60d772ebd6910, .guardedBy ["f.Kind() == reflect.Ptr"] "pointer kind checked"),
  -- config.decodeString | call | elem.Interface() #0
  (0xf2d41d41963bfebd, .byTheorem "C07" "decodeString_never_panics" ["!(!inner.IsValid() || ((inner.Kind() == reflect.Interface || inner.Kind() == reflect.Ptr) && inner.IsNil()))"]),
  -- config.decodeString | call | f.Kind() #2
  (0x22b5a040340eab5f, .callerContract "f and t are the non-nil reflect.Types mapstructure passes to a DecodeHookFuncType"),
  -- config.decodeString | call | t.Implements(typeStringDecoder) #0
  (0x80cc604e7d5df1fe, .typeInvariant "typeStringDecoder is an interface type and t is non-nil; reflect.New(t) is a settable non-nil pointer"),
  -- config.decodeString | call | reflect.New(t.Elem()).Interface() #0
  (0xff67ca874e44f58e, .callerContract "a type that implements StringDecoder directly is a pointer type (value-receiver implementations are program text, not input): hypothesis of C07 decodeString_never_panics, decodeString_value_receiver_witness shows it is needed"),
  -- config.decodeString | call | reflect.New(t.Elem()) #0
  (0x9347320957f6b470, .callerContract "a type that implements StringDecoder directly is a pointer type (value-receiver implementations are program text, not input): hypothesis of C07 decodeString_never_panics, decodeString_value_receiver_witness shows it is needed"),
  -- config.decodeString | call | t.Elem() #0
  (0x12675b0f5cd3a5da, .callerContract "a type that implements StringDecoder directly is a pointer type (value-receiver implementations are program text, not input): hypothesis of C07 decodeString_never_panics, decodeString_value_receiver_witness shows it is needed"),
  -- config.decodeString | assert | result.(StringDecoder) #0
  (0xdb2306a2ce24cf13, .callerContract "a type that implements StringDecoder directly is a pointer type (value-receiver implementations are program text, not input): hypothesis of C07 decodeString_never_panics, decodeString_value_receiver_witness shows it is needed"),
  -- config.decodeString | call | reflect.PtrTo(t).Implements(typeStringDecoder) #0
  (0xff183b85b4acfb29, .typeInvariant "typeStringDecoder is an interface type and t is non-nil; reflect.New(t) is a settable non-nil pointer"),
  -- config.decodeString | call | reflect.PtrTo(t) #0
  (0x3529dd4c449ae227, .typeInvariant "typeStringDecoder is an interface type and t is non-nil; reflect.New(t) is a settable non-nil pointer"),
  -- config.decodeString | call | reflect.New(t).Interface() #0
  (0x3cff6ea9fd0a1f3a, .typeInvariant "typeStringDecoder is an interface type and t is non-nil; reflect.New(t) is a settable non-nil pointer"),
  -- config.decodeString | call | reflect.New(t) #0
  (0xad6fdfde7b66dddc, .typeInvariant "typeStringDecoder is an interface type and t is non-nil; reflect.New(t) is a settable non-nil pointer")
]

def table8 : List (Nat × Discharge) := [
  -- config.decodeString | assert | result.(StringDecoder) #1
  (0xdb2305a2ce24cd60, .guardedBy ["reflect.PtrTo(t).Implements(typeStringDecoder)"] "result has type *t, which implements the interface"),
  -- config.decodeString | call | t.Kind() #1
  (0x31a74a44324c86e4, .guardedBy [] "t is non-nil after the first Kind() call returned"),
  -- config.decodeString | call | t.Elem() #1
  (0x12675c0f5cd3a78d, .guardedBy ["t.Kind() == reflect.Ptr"] "pointer kind checked"),
  -- config.decodeString | call | t.Kind() #2
  (0x31a74d44324c8bfd, .guardedBy [] "t is non-nil after the first Kind() call returned"),
  -- config.Normalize | index | x[i] #0
  (0xded90ecf65efeb71, .guardedBy ["range i over x"] "index ranges over the slice itself")
]

def table : List (Nat × Discharge) :=
  table0 ++ table1 ++ table2 ++ table3 ++ table4 ++ table5 ++ table6 ++ table7 ++ table8

def discharge (s : Site) : Option Discharge := (table.find? (·.1 == s.key)).map (·.2)

/-- side conditions of a discharge against the site's regenerated guards -/
def valid (s : Site) : Discharge → Bool
  | .byTheorem _ _ needs => needs.all (s.guards.contains ·)
  | .guardedBy conds _ => conds.all (s.guards.contains ·)
  | .documentedMisuse _ => s.kind == "panic" || s.kind == "call"
  | _ => true

def covered (s : Site) : Bool :=
  match discharge s with
  | some d => valid s d
  | none => false

def uncovered : List String := (sites.filter (fun s => !covered s)).map fun s => s.fn ++ " | " ++ s.kind ++ " | " ++ s.expr

def staleKeys : List Nat := (table.map (·.1)).filter fun k => !(sites.any (·.key == k))

def duplicateKeys : List Nat :=
  let ks := sites.map (·.key)
  ks.filter fun k => (ks.filter (· == k)).length != 1

/-- theorem names of property C07 cited by the table -/
def citedHere : List String :=
  (table.filterMap fun e => match e.2 with | .byTheorem "C07" t _ => some t | _ => none).eraseDups

/-- (owner, theorem) pairs cited from other properties' modules -/
def citedElsewhere : List (String × String) :=
  (table.filterMap fun e => match e.2 with
    | .byTheorem o t _ => if o == "C07" then none else some (o, t)
    | _ => none).eraseDups

def misuseFns : List String :=
  (sites.filter fun s => match discharge s with | some (.documentedMisuse _) => true | _ => false).map (·.fn)

def countBy (p : Discharge → Bool) : Nat :=
  (sites.filter fun s => match discharge s with | some d => p d | none => false).length

end Kit.NoPanic.Inventory
