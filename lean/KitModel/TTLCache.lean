import KitModel.Go.Prelude
import KitModel.Generated.C15
/-!
# Model of `github.com/dapr/kit/ttlcache` (property C15)

Sequential part: the cache is an association map `key ↦ (value, expiry)` plus the cache's clock
(integer nanoseconds) and the configured `MaxTTL` (seconds; `≤ 0` = not configured).
`haxmap` is modelled as a finite map (`mget`/`mput`/`mdelKeys`, enumeration through `mget`), it is
trusted, not verified.

Go source modelled (ttlcache.go):
* `Get`:     `val, ok := m.Get(k); if !ok || !val.exp.After(now) { miss }`  — hit iff `now < exp`
* `Set`:     `ttl ≤ 0` panics; `if maxTTL > 0 && ttl > maxTTL { ttl = maxTTL }`;
             `exp = now + time.Duration(ttl) * time.Second` (int64 multiplication: wraps)
* `Delete`:  `m.Del(k)`
* `Cleanup`: `now := clock.Now()`; ForEach collects keys with `exp.Before(now)` (`exp < now`);
             then `m.Del(keys...)`
* `Reset`:   ForEach collects all keys; then `m.Del(keys...)`
-/
namespace Kit.TTLCache

abbrev Key := String
abbrev Val := Nat

structure Entry where
  val : Val
  exp : Int
  deriving Repr, DecidableEq

/-- The map: association list; only `mget` gives it meaning (first binding wins). -/
abbrev AMap (α : Type) := List (Key × α)

def mget {α : Type} : AMap α → Key → Option α
  | [], _ => none
  | (k', e) :: m, k => if k = k' then some e else mget m k

/-- Bulk delete `m.Del(keys...)`. -/
def mdelKeys {α : Type} (m : AMap α) (ks : List Key) : AMap α :=
  m.filter (fun p => !(ks.contains p.1))

def mput {α : Type} (m : AMap α) (k : Key) (e : α) : AMap α := (k, e) :: mdelKeys m [k]

def mkeys {α : Type} (m : AMap α) : List Key := m.map (·.1)

/-- `ForEach` collecting the keys whose *current* entry satisfies `p`. -/
def mkeysWhere {α : Type} (m : AMap α) (p : α → Bool) : List Key :=
  (mkeys m).filter (fun k => match mget m k with | some e => p e | none => false)

/-! ### time arithmetic -/

/-- The unit `Set` multiplies the ttl by (`time.Second` in the source), in nanoseconds — taken from
the regenerated facts. -/
def second : Int := Src.ttlUnitNs

/-- Two's-complement wrap of an `int64` result. -/
def wrap64 (x : Int) : Int :=
  (x + 9223372036854775808) % 18446744073709551616 - 9223372036854775808

/-- TTL actually used by `Set`: capped by `MaxTTL` when that is configured (`> 0`). -/
def effTTL (maxTTL ttl : Int) : Int :=
  if Src.capEnabledCmp.rel maxTTL Src.capEnabledBound ∧ Src.capCmp.rel ttl maxTTL then maxTTL else ttl

/-- `time.Duration(ttl) * time.Second` as Go computes it (int64, wraps on overflow). -/
def durNs (maxTTL ttl : Int) : Int := wrap64 (effTTL maxTTL ttl * second)

/-- The explicit overflow bound: `ttl·time.Second` fits in an `int64`
(`effTTL ≤ 9223372036`, about 292 years). -/
def NoOverflow (maxTTL ttl : Int) : Prop := effTTL maxTTL ttl * second < 9223372036854775808

instance (a b : Int) : Decidable (NoOverflow a b) := by unfold NoOverflow; infer_instance

/-! ### sequential cache -/

structure Cache where
  m : AMap Entry
  now : Int
  maxTTL : Int
  deriving Repr

def Cache.init (maxTTL t0 : Int) : Cache := { m := [], now := t0, maxTTL := maxTTL }

inductive Op where
  | set (k : Key) (v : Val) (ttl : Int)
  | get (k : Key)
  | delete (k : Key)
  | cleanup
  | reset
  | advance (d : Nat)
  deriving Repr, DecidableEq

inductive Out where
  | done
  | hit (v : Val)
  | miss
  | panic
  deriving Repr, DecidableEq

/-- What `Get k` returns in state `c`. -/
def getOf (c : Cache) (k : Key) : Option Val :=
  match mget c.m k with
  | some e => if Src.getHitCmp.rel e.exp c.now then some e.val else none
  | none => none

/-- `Cleanup`'s criterion (regenerated comparison). -/
def expiredAt (now : Int) (e : Entry) : Bool := decide (Src.cleanupCmp.rel e.exp now)

/-- `Set`'s panic guard (regenerated comparison and bound). -/
abbrev badTTL (ttl : Int) : Prop := Src.setPanicCmp.rel ttl Src.setPanicBound

def doSet (c : Cache) (k : Key) (v : Val) (ttl : Int) : Cache :=
  { c with m := mput c.m k { val := v, exp := c.now + durNs c.maxTTL ttl } }

def doCleanup (c : Cache) : Cache :=
  { c with m := mdelKeys c.m (mkeysWhere c.m (expiredAt c.now)) }

def doReset (c : Cache) : Cache :=
  { c with m := mdelKeys c.m (mkeysWhere c.m (fun _ => true)) }

def step (c : Cache) : Op → Cache × Out
  | .set k v ttl => if badTTL ttl then (c, .panic) else (doSet c k v ttl, .done)
  | .get k => (c, match getOf c k with | some v => .hit v | none => .miss)
  | .delete k => ({ c with m := mdelKeys c.m [k] }, .done)
  | .cleanup => (doCleanup c, .done)
  | .reset => (doReset c, .done)
  | .advance d => ({ c with now := c.now + d }, .done)

/-- Run a history; the final state. -/
def run (c : Cache) (ops : List Op) : Cache := ops.foldl (fun c o => (step c o).1) c

/-- Run a history; the outputs. -/
def outputs : Cache → List Op → List Out
  | _, [] => []
  | c, o :: ops => (step c o).2 :: outputs (step c o).1 ops

/-! ### reference semantics over the history (independent of the map)

`lastLive k h acc` scans the history *backwards* (`h` is most-recent-first) for the last
successful `Set k v ttl` that is not followed by `Delete k` or `Reset`, and returns the value, the
requested ttl, and the time elapsed on the clock since that `Set` (sum of the later advances). -/
def lastLive (k : Key) : List Op → Nat → Option (Val × Int × Nat)
  | [], _ => none
  | .set k' v ttl :: rest, acc =>
      if k' = k ∧ 0 < ttl then some (v, ttl, acc) else lastLive k rest acc
  | .delete k' :: rest, acc => if k' = k then none else lastLive k rest acc
  | .reset :: _, _ => none
  | .advance d :: rest, acc => lastLive k rest (acc + d)
  | .get _ :: rest, acc => lastLive k rest acc
  | .cleanup :: rest, acc => lastLive k rest acc

/-- The documented meaning of `Get k` after history `hist` (oldest first). -/
def refGet (maxTTL : Int) (hist : List Op) (k : Key) : Option Val :=
  match lastLive k hist.reverse 0 with
  | some (v, ttl, el) => if (el : Int) < effTTL maxTTL ttl * second then some v else none
  | none => none

/-! ## Concurrent model: labelled transition system

Nothing in ttlcache.go is atomic except the single map operations (haxmap's per-key atomicity is
trusted) and the clock:
* `Get` reads the map (`gRead`) and THEN the clock (`gNow`) and compares;
* `Set` reads the clock (`sNow`) and THEN stores (`sStore`);
* `Delete` is one map operation; the clock advances atomically;
* a cleaner (`Cleanup`/`Reset` of a manual caller — any number of them — or of the periodic
  goroutine, id 0) starts (`cNow`: reads the clock, ForEach begins), `ForEach` visits keys one at a
  time reading each key's *current* entry (`cVisit`; every key stored when ForEach began is visited
  before it ends: `todo`), the snapshot ends (`cSeal`, the `verifhook` point), the collected keys are
  removed one by one (`cDelOne`), the call returns (`cEnd`). "Snapshot the keys, then bulk delete"
  is the special case `snapLabels` / `bulkLabels`.
Any number of callers may be inside `Get`, `Set`, `Stop`, `Cleanup`, `Reset` at once.

Ghost state (no transition's enabledness or effect on `m`/`now` depends on it):
`stamp` — every store tags its entry with a fresh number; `ref` — the map as the callers' operations
define it (a store puts, Delete removes, a Reset deleting the very entry it visited removes);
`raced` — entries removed by a cleaner although they were stored after the cleaner had visited the
key (the documented cleanup/refresh race); `stamp0` of a cleaner / getter — the stamp counter when
its ForEach began / when it read the map; `resetFloor` — the largest `stamp0` of a completed Reset. -/

inductive Phase where
  | started | scanning | deleting
  deriving Repr, DecidableEq

structure Cleaner where
  id : Nat
  isReset : Bool
  phase : Phase
  now0 : Int
  /-- collected keys, each with the stamp of the entry the visit saw -/
  keys : List (Key × Nat)
  /-- keys stored when ForEach began and not visited yet -/
  todo : List Key
  stamp0 : Nat
  deriving Repr, DecidableEq

/-- A `Set` that has read the clock and not stored yet. -/
structure Setter where
  id : Nat
  k : Key
  v : Val
  ttl : Int
  exp : Int
  deriving Repr, DecidableEq

abbrev SEntry := Entry × Nat

/-- A `Get` that has read the map and not the clock yet. -/
structure Getter where
  id : Nat
  k : Key
  read : Option SEntry
  stamp0 : Nat
  deriving Repr, DecidableEq

/-- Program counter of the periodic goroutine. `spawned`: `NewCache` has executed the `go` statement
(after creating `runningCh`) but the goroutine has not run yet — no ticker exists. -/
inductive Bg where
  | spawned | idle | cleaning | exited
  deriving Repr, DecidableEq

structure CState where
  m : AMap SEntry
  now : Int
  maxTTL : Int
  cls : List Cleaner
  setters : List Setter
  getters : List Getter
  period : Int
  nextTick : Int
  tickPending : Bool
  tickerStopped : Bool
  bg : Bg
  stopClosed : Bool
  runningClosed : Bool
  /-- `Stop` calls in flight (caller ids): any number, concurrently -/
  stoppers : List Nat
  ref : AMap SEntry
  stamp : Nat
  raced : List (Key × Nat)
  resetFloor : Nat
  deriving Repr

/-- `NewCache`: a non-positive interval is replaced by the default (regenerated guard and value). -/
def effPeriod (period : Int) : Int :=
  if Src.intervalDefaultCmp.rel period Src.intervalDefaultBound then Src.intervalDefaultNs else period

def CState.init (maxTTL t0 period : Int) : CState :=
  { m := [], now := t0, maxTTL := maxTTL, cls := [], setters := [], getters := [],
    period := effPeriod period, nextTick := t0 + effPeriod period,
    tickPending := false, tickerStopped := false, bg := .spawned, stopClosed := false,
    runningClosed := false, stoppers := [], ref := [], stamp := 0, raced := [], resetFloor := 0 }

inductive Label where
  | sNow (id : Nat) (k : Key) (v : Val) (ttl : Int)
  | sStore (id : Nat) (k : Key) (v : Val) (ttl : Int)
  | gRead (id : Nat) (k : Key)
  | gNow (id : Nat) (k : Key) (r : Option Val)
  | delete (k : Key)
  | advance (d : Nat)
  | cBegin (id : Nat) (isReset : Bool)
  | cNow (id : Nat)
  | cVisit (id : Nat) (k : Key)
  | cSeal (id : Nat)
  | cDelOne (id : Nat) (k : Key) (st : Nat)
  | cEnd (id : Nat)
  | bgStart
  | bgTake
  | bgExit
  | stopCall (caller : Nat)
  | stopReturn (caller : Nat)
  deriving Repr, DecidableEq

/-- What the comparison in `Get` yields for the entry it read, at clock value `now`. -/
def serve (read : Option SEntry) (now : Int) : Option Val :=
  match read with
  | some (e, _) => if Src.getHitCmp.rel e.exp now then some e.val else none
  | none => none

/-- What an (imaginary) atomic `Get k` would return in state `s`: the stored view. -/
def getOfC (s : CState) (k : Key) : Option Val := serve (mget s.m k) s.now

def findCl (cls : List Cleaner) (id : Nat) : Option Cleaner := cls.find? (fun c => c.id == id)

def updCl (cls : List Cleaner) (id : Nat) (f : Cleaner → Cleaner) : List Cleaner :=
  cls.map (fun c => if c.id = id then f c else c)

def findSetter (l : List Setter) (id : Nat) : Option Setter := l.find? (fun x => x.id == id)
def findGetter (l : List Getter) (id : Nat) : Option Getter := l.find? (fun x => x.id == id)

/-- Next ticker instant strictly after `now'` (ticks in between are dropped, as `time.Ticker` does). -/
def nextTickAfter (next period now' : Int) : Int := next + ((now' - next) / period + 1) * period

/-- One visit of `ForEach`: read the current entry of `k`, collect it if the criterion holds. -/
def visit (m : AMap SEntry) (c : Cleaner) (k : Key) : Cleaner :=
  match mget m k with
  | some (e, st) =>
      if c.isReset || expiredAt c.now0 e then { c with keys := c.keys ++ [(k, st)] } else c
  | none => c

def cstep (s : CState) : Label → Option CState
  | .sNow id k v ttl =>
      if badTTL ttl ∨ (findSetter s.setters id).isSome then none else
      some { s with setters := { id := id, k := k, v := v, ttl := ttl,
                                 exp := s.now + durNs s.maxTTL ttl } :: s.setters }
  | .sStore id k v ttl =>
      match findSetter s.setters id with
      | some x =>
          if x.k = k ∧ x.v = v ∧ x.ttl = ttl then
            let e : SEntry := ({ val := v, exp := x.exp }, s.stamp)
            some { s with m := mput s.m k e, ref := mput s.ref k e, stamp := s.stamp + 1,
                          setters := s.setters.filter (fun y => y.id != id) }
          else none
      | none => none
  | .gRead id k =>
      if (findGetter s.getters id).isSome then none else
      some { s with getters := { id := id, k := k, read := mget s.m k, stamp0 := s.stamp } :: s.getters }
  | .gNow id k r =>
      match findGetter s.getters id with
      | some g =>
          if g.k = k ∧ serve g.read s.now = r then
            some { s with getters := s.getters.filter (fun y => y.id != id) }
          else none
      | none => none
  | .delete k =>
      some { s with m := mdelKeys s.m [k], ref := mdelKeys s.ref [k] }
  | .advance d =>
      let now' := s.now + d
      if !s.tickerStopped && decide (s.bg ≠ .spawned) && decide (s.nextTick ≤ now') && decide (0 < s.period) then
        some { s with now := now', tickPending := true,
                      nextTick := nextTickAfter s.nextTick s.period now' }
      else some { s with now := now' }
  | .cBegin id r =>
      if id = 0 ∨ (findCl s.cls id).isSome then none else
      some { s with cls := { id := id, isReset := r, phase := .started, now0 := 0, keys := [],
                             todo := [], stamp0 := 0 } :: s.cls }
  | .cNow id =>
      match findCl s.cls id with
      | some c =>
          if c.phase = .started then
            some { s with cls := updCl s.cls id (fun c => if c.phase = .started then
                     { c with phase := .scanning, now0 := s.now, todo := mkeys s.m, stamp0 := s.stamp } else c) }
          else none
      | none => none
  | .cVisit id k =>
      match findCl s.cls id with
      | some c =>
          if c.phase = .scanning then
            some { s with cls := updCl s.cls id (fun c => if c.phase = .scanning then
                     { visit s.m c k with todo := c.todo.filter (fun x => x != k) } else c) }
          else none
      | none => none
  | .cSeal id =>
      match findCl s.cls id with
      | some c =>
          if c.phase = .scanning ∧ c.todo = [] then
            some { s with cls := updCl s.cls id (fun c => if c.phase = .scanning ∧ c.todo = [] then
                     { c with phase := .deleting } else c) }
          else none
      | none => none
  | .cDelOne id k st =>
      match findCl s.cls id with
      | some c =>
          if c.phase = .deleting ∧ (k, st) ∈ c.keys then
            let cls' := updCl s.cls id (fun c => { c with keys := c.keys.filter (fun p => p != (k, st)) })
            match mget s.m k with
            | none => some { s with cls := cls' }
            | some (_, st') =>
                if st' = st then
                  some { s with m := mdelKeys s.m [k], cls := cls',
                                ref := if c.isReset then mdelKeys s.ref [k] else s.ref }
                else
                  some { s with m := mdelKeys s.m [k], cls := cls',
                                raced := (k, st') :: s.raced }
          else none
      | none => none
  | .cEnd id =>
      match findCl s.cls id with
      | some c =>
          if c.phase = .deleting ∧ c.keys = [] then
            some { s with cls := s.cls.filter (fun c => c.id != id),
                          bg := if id = 0 then .idle else s.bg,
                          resetFloor := if c.isReset then max s.resetFloor c.stamp0 else s.resetFloor }
          else none
      | none => none
  | .bgStart =>
      -- the goroutine runs for the first time: `defer close(runningCh)`, creates its ticker (first
      -- tick one interval after THIS moment), `defer t.Stop()`, enters the loop
      if s.bg = .spawned then some { s with bg := .idle, nextTick := s.now + s.period } else none
  | .bgTake =>
      if s.bg = .idle ∧ s.tickPending = true ∧ (findCl s.cls 0).isNone then
        some { s with tickPending := false, bg := .cleaning,
                      cls := { id := 0, isReset := false, phase := .started, now0 := 0, keys := [],
                               todo := [], stamp0 := 0 } :: s.cls }
      else none
  | .bgExit =>
      if s.bg = .idle ∧ s.stopClosed = true then
        some { s with bg := .exited, tickerStopped := true, runningClosed := true }
      else none
  | .stopCall caller =>
      -- `if stopped.CompareAndSwap(false, true) { close(stopCh) }`: the first caller closes, every
      -- caller then waits on runningCh
      if caller ∈ s.stoppers then none else
      some { s with stopClosed := true, stoppers := caller :: s.stoppers }
  | .stopReturn caller =>
      -- `<-c.runningCh` of THIS caller
      if caller ∈ s.stoppers ∧ s.runningClosed = true then
        some { s with stoppers := s.stoppers.filter (fun x => x != caller) }
      else none

/-- Run a list of labels; `none` as soon as one is not enabled. -/
def crun (s : CState) : List Label → Option CState
  | [] => some s
  | l :: ls => match cstep s l with
    | some s' => crun s' ls
    | none => none

/-- Reachable states: any interleaving of any number of callers and cleaners. -/
inductive Reach (maxTTL t0 period : Int) : CState → Prop where
  | init : Reach maxTTL t0 period (CState.init maxTTL t0 period)
  | step {s s' : CState} (l : Label) : Reach maxTTL t0 period s → cstep s l = some s' →
      Reach maxTTL t0 period s'

/-- The callers' history inside a run: a `Set` counts where it stores, `Delete` and the clock's
advances where they happen (`Reset`/`Cleanup` are not atomic here and do not appear). -/
def projOp : Label → Option Op
  | .sStore _ k v ttl => some (.set k v ttl)
  | .delete k => some (.delete k)
  | .advance d => some (.advance d)
  | _ => none

/-- Total clock advance in a piece of history. -/
def advSum : List Op → Nat
  | [] => 0
  | .advance d :: rest => d + advSum rest
  | _ :: rest => advSum rest

/-- The coarse "snapshot" step of cleaner `id`: read the clock, visit every stored key, seal. -/
def snapLabels (s : CState) (id : Nat) : List Label :=
  [.cNow id] ++ ((mkeys s.m).eraseDups.map (fun k => Label.cVisit id k)) ++ [.cSeal id]

/-- The coarse "bulk delete" step of cleaner `id`: delete every collected key, return. -/
def bulkLabels (s : CState) (id : Nat) : List Label :=
  match findCl s.cls id with
  | some c => (c.keys.eraseDups.map (fun p => Label.cDelOne id p.1 p.2)) ++ [.cEnd id]
  | none => []

/-! ## The scheduled-interleaving acceptor (what `kitdrv C15` runs for `cnew …` scripts)

The harness executes a script of requests on the real cache (cleaners parked at the hook point,
`Get`/`Set` callers parked at the clock) and sends the same requests here; `respond` answers by
*running labels of the LTS* and reports what the harness must have observed. A real trace is
accepted iff every answer equals the observed one; `KitProofs` shows the labels executed form a
run of the LTS (`accepted_trace_is_run`), so every theorem about `Reach`/`crun` applies to every
accepted real trace. -/

inductive Req where
  | set (k : Key) (v : Val) (ttl : Int)
  | get (k : Key)
  | del (k : Key)
  | adv (d : Nat)
  | sbegin (id : Nat) (k : Key) (v : Val) (ttl : Int)   -- a Set that has read the clock, parked before the store
  | send (id : Nat) (k : Key) (v : Val) (ttl : Int)
  | gbegin (id : Nat) (k : Key)                         -- a Get that has read the map, parked before the clock
  | gend (id : Nat) (k : Key)
  | cbegin (id : Nat) (isReset : Bool)
  | cfinish (id : Nat)
  | bgstart                                             -- the periodic goroutine is scheduled for the first time
  | bgsnap
  | bgfinish
  | stop
  | stopcall (id : Nat)
  | stopwait (id : Nat)
  deriving Repr, DecidableEq

inductive Tick where
  | sent | drop | none
  deriving Repr, DecidableEq

inductive Resp where
  | ok
  | panic
  | hit (v : Val)
  | miss
  | ticked (t : Tick)
  | snap (keys : List Key)
  | returned
  | blocked
  | error
  deriving Repr, DecidableEq

structure Answer where
  state : CState
  resp : Resp
  labels : List Label

/-- Run `ls`; answer `r` of the reached state, or `error` (state unchanged, no labels) if some
label is not enabled. -/
def tryRun (s : CState) (ls : List Label) (r : CState → Resp) : Answer :=
  match crun s ls with
  | some s' => ⟨s', r s', ls⟩
  | none => ⟨s, .error, []⟩

/-- First alternative whose labels are all enabled. -/
def firstRun (s : CState) : List (List Label × Resp) → Answer
  | [] => ⟨s, .error, []⟩
  | (ls, r) :: rest =>
    match crun s ls with
    | some s' => ⟨s', r, ls⟩
    | none => firstRun s rest

def snapResp (id : Nat) (s : CState) : Resp :=
  match findCl s.cls id with
  | some c => .snap (c.keys.map (·.1))
  | none => .error

def tickOf (s : CState) (d : Nat) : Tick :=
  if !s.tickerStopped && decide (s.bg ≠ .spawned) && decide (s.nextTick ≤ s.now + d) && decide (0 < s.period) then
    (if s.tickPending then .drop else .sent)
  else .none

def respOfGet : Option Val → Resp
  | some v => .hit v
  | none => .miss

def respond (s : CState) : Req → Answer
  | .set k v ttl =>
      if badTTL ttl then ⟨s, .panic, []⟩
      else tryRun s [.sNow 0 k v ttl, .sStore 0 k v ttl] (fun _ => .ok)
  | .get k =>
      let r := getOfC s k
      tryRun s [.gRead 0 k, .gNow 0 k r] (fun _ => respOfGet r)
  | .del k => tryRun s [.delete k] (fun _ => .ok)
  | .adv d => tryRun s [.advance d] (fun _ => .ticked (tickOf s d))
  | .sbegin id k v ttl =>
      if badTTL ttl then ⟨s, .panic, []⟩
      else if id = 0 then ⟨s, .error, []⟩ else tryRun s [.sNow id k v ttl] (fun _ => .ok)
  | .send id k v ttl => if id = 0 then ⟨s, .error, []⟩ else tryRun s [.sStore id k v ttl] (fun _ => .ok)
  | .gbegin id k => if id = 0 then ⟨s, .error, []⟩ else tryRun s [.gRead id k] (fun _ => .ok)
  | .gend id k =>
      if id = 0 then ⟨s, .error, []⟩ else
      match findGetter s.getters id with
      | some g => let r := serve g.read s.now; tryRun s [.gNow id k r] (fun _ => respOfGet r)
      | none => ⟨s, .error, []⟩
  | .cbegin id r => tryRun s ([.cBegin id r] ++ snapLabels s id) (snapResp id)
  | .cfinish id => if id = 0 then ⟨s, .error, []⟩ else tryRun s (bulkLabels s id) (fun _ => .ok)
  | .bgstart => tryRun s [.bgStart] (fun _ => .ok)
  | .bgsnap => tryRun s ([.bgTake] ++ snapLabels s 0) (snapResp 0)
  | .bgfinish => tryRun s (bulkLabels s 0) (fun _ => .ok)
  | .stop =>
      -- Stop blocks until the goroutine has (started, if it had not yet, and) exited
      tryRun s ([.stopCall 0] ++ (if s.bg = .spawned then [.bgStart, .bgExit] else
                                  if s.bg = .idle then [.bgExit] else []) ++ [.stopReturn 0]) (fun _ => .ok)
  | .stopcall id =>
      firstRun s [([.stopCall id, .bgStart, .bgExit, .stopReturn id], .returned),
                  ([.stopCall id, .bgExit, .stopReturn id], .returned),
                  ([.stopCall id, .stopReturn id], .returned),
                  ([.stopCall id], .blocked)]
  | .stopwait id =>
      firstRun s [([.bgExit, .stopReturn id], .ok), ([.stopReturn id], .ok)]

/-- Answer a whole script. -/
def drive (s : CState) : List Req → CState × List Resp × List Label
  | [] => (s, [], [])
  | r :: rs =>
    let a := respond s r
    let (s', resps, ls) := drive a.state rs
    (s', a.resp :: resps, a.labels ++ ls)

/-- The caller operation a request stands for in the sequential reference: a `Set` counts where it
stores (an atomic `set`, or the `send` of a split one); a `Set` with a bad ttl panics and is none. -/
def reqOp : Req → Option Op
  | .set k v ttl => if badTTL ttl then none else some (.set k v ttl)
  | .send _ k v ttl => some (.set k v ttl)
  | .del k => some (.delete k)
  | .adv d => some (.advance d)
  | _ => none

end Kit.TTLCache
