import KitModel.Broadcaster
import Std.Data.HashSet
/-!
The trace acceptor used by `kitdrv C11` (`Driver/C11.lean` only parses lines into `Obs` and prints):
state-set simulation of `Kit.Broadcaster.step`, closing under the internal labels after every
observed event.  Core Lean + `Std.HashSet` only.

The set of states is kept twice: as a list (what is iterated over, and what the soundness theorem
talks about) and as a hash set (only consulted to skip states already present — it influences which
states are *dropped*, never which are *added*, so it plays no role in soundness).

Reduction (`reduce = true`): once a forwarder has closed its exit channel (`pc` ∈ wantLock, done)
the contents of its buffer, its hand and the ghost `missed` flag are erased (`norm`).  Soundness of
the reduction (`KitProofs/Lemmas/BroadcasterAccept.lean`): every step of a normalised state is
matched by a step of any state it is the normal form of, with the same observation, into states
with the same normal form (the only label that needs a different match is `bcPush` onto such a
subscriber, matched by `bcSkipExit`).  Soundness of the acceptor (`accepts_sound`,
`accepted_trace_has_run` in `KitProofs/Props/C11.lean`): every state kept after a trace is the normal
form of the end state of a run of the LTS from `init` whose observable projection is that trace.
-/
namespace Kit.Broadcaster

def normSub (u : Sub) : Sub :=
  match u.pc with
  | .wantLock | .done => { u with buf := [], hand := none, missed := false }
  | _ => u

def norm (reduce : Bool) (s : State) : State :=
  if reduce then { s with subs := s.subs.map normSub } else s

structure Acc where
  list : List State
  set : Std.HashSet State
  size : Nat

def Acc.empty : Acc := ⟨[], {}, 0⟩

/-- Work list and accumulated set; `s'` is added to both unless already present. -/
def addNew (p : List State × Acc) (s' : State) : List State × Acc :=
  if p.2.set.contains s' then p
  else (s' :: p.1, ⟨s' :: p.2.list, p.2.set.insert s', p.2.size + 1⟩)

def Label.isAcquire : Label → Bool
  | .bcAcquire _ => true
  | _ => false

/-- Labels that may go unobserved.  With `hooked = true` the harness observes every lock
acquisition of `Broadcast` (hook `broadcaster.broadcast.locked` ↦ `Obs.bacq`), so `bcAcquire` is
never taken silently. -/
def silent (hooked : Bool) (l : Label) : Bool := l.internal && !(hooked && l.isAcquire)

/-- Internal labels the acceptor takes *eagerly*: whenever one of them is enabled in a state, the
state is replaced by its successor (and so on, `settle`).  They are the steps that can only enable,
never disable, other steps and whose effect no observation can tell from "it happened later"
(close the exit channel on the way out; remove oneself from the list when the lock is free;
close(closeCh) after the CAS; Close passing the free lock; taking the next value from the buffer;
releasing the lock at the end of a fan-out; stepping over an entry that is no longer in the list).
Dropping the predecessor states cannot make the acceptor accept more (`accepts_sound` covers every
state it keeps); that it does not make it reject real traces is argued in design/C11.md and
exercised on every run (the harness cross-checks against the acceptor without it). -/
def Label.eager : Label → Bool
  | .fwdCloseExit _ | .fwdRemove _ | .closeChClose | .closePass | .fwdTake _ | .bcFinish
  | .bcSkipGone => true
  | _ => false

/-- The first enabled eager label of `s`, if any. -/
def eagerLabel (v : Variant) (hooked : Bool) (s : State) : Option Label :=
  ((tauCandidates s).filter (silent hooked)).find? (fun l => l.eager && (step v s l).isSome)

/-- Apply eager labels (normalising after each) until none is enabled. -/
def settle (v : Variant) (reduce hooked eager : Bool) : Nat → State → State
  | 0, s => s
  | fuel + 1, s =>
    if eager then
      match eagerLabel v hooked s with
      | some l =>
        match step v s l with
        | some s' => settle v reduce hooked eager fuel (norm reduce s')
        | none => s
      | none => s
    else s

def settleFuel : Nat := 10000

/-- Canonical form of a successor: normalise, then settle. -/
def canon (v : Variant) (reduce hooked eager : Bool) (s : State) : State :=
  settle v reduce hooked eager settleFuel (norm reduce s)

/-- Normalised internal successors of `s`. -/
def tauSuccs (v : Variant) (reduce hooked eager : Bool) (s : State) : List State :=
  ((tauCandidates s).filter (silent hooked)).filterMap
    (fun l => (step v s l).map (canon v reduce hooked eager))

/-- Executions from `init` with their observable projection: `Exec v hooked tr ls s` — the labels
`ls` lead from `init` to `s`; every label is either silent or is one of the labels the next
observation of `tr` stands for in the state where it is taken. -/
inductive Exec (v : Variant) (hooked : Bool) : List Obs → List Label → State → Prop
  | init : Exec v hooked [] [] init
  | tau {tr : List Obs} {ls : List Label} {s s' : State} {l : Label} :
      Exec v hooked tr ls s → silent hooked l = true → step v s l = some s' →
      Exec v hooked tr (ls ++ [l]) s'
  | obs {tr : List Obs} {ls : List Label} {s s' : State} {l : Label} {o : Obs} :
      Exec v hooked tr ls s → l ∈ obsLabels s o → step v s l = some s' →
      Exec v hooked (tr ++ [o]) (ls ++ [l]) s'

/-- τ-closure by work list.  `fuel` bounds the number of expansions; `cap` stops the exploration
when the set grows beyond it (the driver then answers `overflow`). -/
def closureAux (v : Variant) (reduce hooked eager : Bool) (cap : Nat) : Nat → List State → Acc → Acc
  | 0, _, acc => acc
  | _ + 1, [], acc => acc
  | fuel + 1, s :: rest, acc =>
    if acc.size > cap then acc
    else
      let p := (tauSuccs v reduce hooked eager s).foldl addNew (rest, acc)
      closureAux v reduce hooked eager cap fuel p.1 p.2

def fuel0 : Nat := 100000000

def closeSet (v : Variant) (reduce hooked eager : Bool) (cap : Nat) (xs : List State) : Acc :=
  let p := xs.foldl addNew ([], Acc.empty)
  closureAux v reduce hooked eager cap fuel0 p.1 p.2

/-- Normalised direct successors of `s` for one observed event. -/
def obsSuccs (v : Variant) (reduce hooked eager : Bool) (s : State) (o : Obs) : List State :=
  (obsLabels s o).filterMap (fun l => (step v s l).map (canon v reduce hooked eager))

/-- The acceptor's transition: successors for the event, then τ-closure. -/
def acceptStep (v : Variant) (reduce hooked eager : Bool) (cap : Nat) (cur : List State) (o : Obs) :
    Acc :=
  closeSet v reduce hooked eager cap (cur.flatMap (fun s => obsSuccs v reduce hooked eager s o))

def startSet (v : Variant) (reduce hooked eager : Bool) (cap : Nat) : Acc :=
  closeSet v reduce hooked eager cap [norm reduce init]

/-- States compatible with a whole trace. -/
def acceptRun (v : Variant) (reduce hooked eager : Bool) (cap : Nat) (cur : List State)
    (tr : List Obs) : List State :=
  tr.foldl (fun c o => (acceptStep v reduce hooked eager cap c o).list) cur

/-- The trace is accepted iff some state is compatible with it. -/
def accepts (v : Variant) (reduce hooked eager : Bool) (cap : Nat) (tr : List Obs) : Bool :=
  !(acceptRun v reduce hooked eager cap (startSet v reduce hooked eager cap).list tr).isEmpty

/-- A state of the set in which some call is pending and no internal step is enabled. -/
def pendingCall (s : State) : Bool :=
  s.bc.isSome || !s.waitB.isEmpty || !s.waitS.isEmpty || s.closeNew + s.closePre + s.closePost > 0

def stuckStates (v : Variant) (cur : List State) : List State :=
  cur.filter (fun s => pendingCall s && (taus v s).isEmpty)

end Kit.Broadcaster
