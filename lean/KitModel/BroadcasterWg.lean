/-!
Fine-grained model of the lock / `closed` / `closeCh` / WaitGroup bookkeeping of
`events/broadcaster/broadcaster.go` (C11).

`KitModel/Broadcaster.lean` treats `Subscribe(ctx, ch₁ … chₙ)` as one atomic step that registers a
prefix of the channels (linearised at the CAS of a racing `Close`) and the WaitGroup as "every
forwarder is done".  This model justifies both abstractions: here the variadic call is the sequence
of its per-channel steps under the lock, `Close`'s CAS may fall between any two of them, and the
WaitGroup is an explicit counter.  Values, buffers and subscriber identity are left out (they are
the business of the big model); what is kept is exactly what decides whether `Close` can return.

Transcription (statement shapes pinned by `source_shape_as_modelled`):
* `Subscribe`: `b.lock.Lock()` = `subLock k`; one `b.subscribe(ctx, c)` per channel = `subChan`
  (`if b.closed.Load() {return}` → the channel is skipped; otherwise entry appended, `b.wg.Add(1)`,
  forwarder started → `reg`, `wg`, `inLoop` + 1); deferred `Unlock` = `subUnlock`;
* forwarder: leaves its loop on `ctx.Done()` (`fwdExitCtx`, environment) or `closeCh`
  (`fwdExitClose`); deferred function: closes its exit channel, then lock, removal, unlock,
  `b.wg.Done()` = `fwdRemove` (needs the lock);
* `Broadcast`: holds the lock (`bcLock`); `blocked = true` means its fan-out waits on the full
  buffer of a stalled subscriber: it then releases the lock only once `closeCh` is closed
  (`bcUnlock`) — an over-approximation (it could also be released by the subscriber leaving);
* `Close`: `closeCall`; CAS `closeCas` (no lock); the winner closes `closeCh` (`closeChClose`);
  `Lock(); Unlock()` = `closePass`; deferred `b.wg.Wait()` = `closeReturn`, enabled iff `wg = 0`.

`Acct.perChannel` is the code as it is.  `Acct.hoisted` is the tempting refactoring "check `closed`
once and `wg.Add(len(ch))` up front in `Subscribe`, keep the per-channel check": a unit is leaked
for every channel skipped after the CAS, and `Close` never returns (`hoisted_add_blocks_close`).
-/
namespace Kit.Broadcaster.Wg

inductive Acct | perChannel | hoisted
  deriving DecidableEq, Repr

inductive Holder
  | sub (rem : Nat)       -- a Subscribe call with `rem` channels still to process
  | bc (blocked : Bool)   -- a Broadcast fan-out
  deriving DecidableEq, Repr

structure State where
  lock : Option Holder
  waitS : List Nat          -- Subscribe calls waiting for the lock (their channel counts)
  closed : Bool
  closeCh : Bool
  wg : Nat                  -- the WaitGroup counter
  inLoop : Nat              -- forwarders in their select loop
  wantLock : Nat            -- forwarders that left the loop and wait for the lock to remove themselves
  closeNew : Nat
  closePre : Nat
  closePost : Nat           -- in wg.Wait
  closeReturned : Nat
  -- ghost: the Subscribe call that holds (or last held) the lock
  callN : Nat               -- its number of channels
  reg : Nat                 -- channels it registered
  skipped : Nat             -- channels it dropped
  closedAtLock : Bool       -- `closed` when it got the lock
  deriving DecidableEq, Repr

def init : State :=
  { lock := none, waitS := [], closed := false, closeCh := false, wg := 0, inLoop := 0, wantLock := 0,
    closeNew := 0, closePre := 0, closePost := 0, closeReturned := 0,
    callN := 0, reg := 0, skipped := 0, closedAtLock := false }

inductive Label
  | subCall (n : Nat) | subLock (k : Nat) | subChan | subUnlock
  | bcLock (blocked : Bool) | bcUnlock
  | fwdExitCtx | fwdExitClose | fwdRemove
  | closeCall | closeCas | closeChClose | closePass | closeReturn
  deriving DecidableEq, Repr

def subLock (a : Acct) (s : State) (k : Nat) : Option State :=
  match s.lock, s.waitS[k]? with
  | none, some n =>
    match a with
    | .perChannel =>
      some { s with lock := some (.sub n), waitS := s.waitS.eraseIdx k,
                    callN := n, reg := 0, skipped := 0, closedAtLock := s.closed }
    | .hoisted =>
      if s.closed then
        some { s with lock := some (.sub 0), waitS := s.waitS.eraseIdx k,
                      callN := n, reg := 0, skipped := n, closedAtLock := true }
      else
        some { s with lock := some (.sub n), waitS := s.waitS.eraseIdx k, wg := s.wg + n,
                      callN := n, reg := 0, skipped := 0, closedAtLock := false }
  | _, _ => none

/-- One `b.subscribe(ctx, c)`. -/
def subChan (a : Acct) (s : State) : Option State :=
  match s.lock with
  | some (.sub (r + 1)) =>
    if s.closed then
      some { s with lock := some (.sub r), skipped := s.skipped + 1 }
    else
      some { s with lock := some (.sub r), reg := s.reg + 1, inLoop := s.inLoop + 1,
                    wg := match a with | .perChannel => s.wg + 1 | .hoisted => s.wg }
  | _ => none

def subUnlock (s : State) : Option State :=
  match s.lock with
  | some (.sub 0) => some { s with lock := none }
  | _ => none

def bcLock (s : State) (blocked : Bool) : Option State :=
  match s.lock with
  | none => some { s with lock := some (.bc blocked) }
  | some _ => none

def bcUnlock (s : State) : Option State :=
  match s.lock with
  | some (.bc blocked) => if blocked = false ∨ s.closeCh then some { s with lock := none } else none
  | _ => none

def fwdExitCtx (s : State) : Option State :=
  if 0 < s.inLoop then some { s with inLoop := s.inLoop - 1, wantLock := s.wantLock + 1 } else none

def fwdExitClose (s : State) : Option State :=
  if 0 < s.inLoop ∧ s.closeCh then
    some { s with inLoop := s.inLoop - 1, wantLock := s.wantLock + 1 }
  else none

/-- The forwarder's deferred function under the lock, then `wg.Done()`. -/
def fwdRemove (s : State) : Option State :=
  match s.lock with
  | none => if 0 < s.wantLock then some { s with wantLock := s.wantLock - 1, wg := s.wg - 1 } else none
  | some _ => none

def closeCall (s : State) : Option State := some { s with closeNew := s.closeNew + 1 }

def closeCas (s : State) : Option State :=
  if 0 < s.closeNew then
    some { s with closeNew := s.closeNew - 1, closePre := s.closePre + 1, closed := true }
  else none

def closeChClose (s : State) : Option State :=
  if s.closed ∧ s.closeCh = false then some { s with closeCh := true } else none

def closePass (s : State) : Option State :=
  match s.lock with
  | none =>
    if 0 < s.closePre ∧ (s.closeCh ∨ 2 ≤ s.closePre) then
      some { s with closePre := s.closePre - 1, closePost := s.closePost + 1 }
    else none
  | some _ => none

def closeReturn (s : State) : Option State :=
  if 0 < s.closePost ∧ s.wg = 0 then
    some { s with closePost := s.closePost - 1, closeReturned := s.closeReturned + 1 }
  else none

def step (a : Acct) (s : State) : Label → Option State
  | .subCall n => some { s with waitS := s.waitS ++ [n] }
  | .subLock k => subLock a s k
  | .subChan => subChan a s
  | .subUnlock => subUnlock s
  | .bcLock b => bcLock s b
  | .bcUnlock => bcUnlock s
  | .fwdExitCtx => fwdExitCtx s
  | .fwdExitClose => fwdExitClose s
  | .fwdRemove => fwdRemove s
  | .closeCall => closeCall s
  | .closeCas => closeCas s
  | .closeChClose => closeChClose s
  | .closePass => closePass s
  | .closeReturn => closeReturn s

/-- Internal steps: no new call, no context cancellation, no return event. -/
def Label.internal : Label → Bool
  | .subCall _ | .bcLock _ | .fwdExitCtx | .closeCall | .closeReturn => false
  | _ => true

inductive Reach (a : Acct) : State → Prop
  | init : Reach a init
  | step {s s' : State} (l : Label) : Reach a s → step a s l = some s' → Reach a s'

inductive Path (a : Acct) (ok : Label → Prop) : State → State → Prop
  | refl (s : State) : Path a ok s s
  | cons {s s' s'' : State} (l : Label) : ok l → step a s l = some s' → Path a ok s' s'' → Path a ok s s''

def IPath (a : Acct) : State → State → Prop := Path a (fun l => l.internal = true)

def runLabels (a : Acct) (s : State) : List Label → Option State
  | [] => some s
  | l :: ls => match step a s l with
    | some s' => runLabels a s' ls
    | none => none

/-- Channels of the running Subscribe call not yet processed. -/
def rem (s : State) : Nat :=
  match s.lock with
  | some (.sub r) => r
  | _ => 0

def closePending (s : State) : Prop := 0 < s.closeNew + s.closePre + s.closePost

end Kit.Broadcaster.Wg
