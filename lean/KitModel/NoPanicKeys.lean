import KitModel.NoPanic
/-!
C07 — dapr/kit-side control flow around the standard-library / jwx calls in
`/repo/crypto/keys.go` (`ParseKey`, `parseSymmetricKey`), `/repo/crypto/pem/pem.go`
(`DecodePEMPrivateKey`, `DecodePEMCertificates`, `DecodePEMCertificatesChain`) and
`/repo/utils/pem.go`.  The libraries themselves are opaque parameters with their documented
post-conditions as hypotheses of the theorems.
-/
namespace Kit.NoPanic.Keys
open Kit Kit.NoPanic

/-! ### `crypto.ParseKey`: which parser the heuristic hands the bytes to -/

inductive Branch where
  | jwk | pem | symmetric
  deriving Repr, DecidableEq

def dashes : Bytes := [45, 45, 45, 45, 45]

def parseKeyBranch (raw : Bytes) (contentType : String) : Outcome Branch :=
  let l := raw.length
  if l == 0 then .err "key is empty"
  else if contentType == "application/json" then .ok .jwk
  else if contentType == "application/x-pem-file" || contentType == "application/pkcs8" then .ok .pem
  else
    (idx raw 0).bind fun c0 =>
      if c0 == 123 && l != 16 && l != 24 && l != 32 then .ok .jwk
      else if l > 10 then
        (slice raw 0 5).bind fun p => if p == dashes then .ok .pem else .ok .symmetric
      else .ok .symmetric

/-! ### `parseSymmetricKey` -/

/-- `bytes.TrimRight(raw, "\n=")` -/
def trimRight (raw : Bytes) : Bytes :=
  (raw.reverse.dropWhile fun c => c == 10 || c == 61).reverse

/-- `base64.RawStdEncoding.DecodedLen(n)` (no padding): `n * 6 / 8` -/
def rawDecodedLen (n : Nat) : Nat := n * 6 / 8

inductive SymRes where
  | b64std (n : Nat) | b64url (n : Nat) | raw
  deriving Repr, DecidableEq

/-- `Encoding.Decode(dst, src)`: the library panics (index out of range) if `dst` is shorter than
`DecodedLen(len(src))` may require; otherwise `some n` (bytes written) or `none` (corrupt input). -/
def decodeInto (dec : Bytes → Option Nat) (dstLen : Nat) (src : Bytes) : Outcome (Option Nat) :=
  if dstLen < rawDecodedLen src.length then .panic "base64: dst too short" else .ok (dec src)

def parseSymmetric (decStd decUrl : Bytes → Option Nat) (raw : Bytes) : Outcome SymRes :=
  let trimmed := trimRight raw
  (makeChk (rawDecodedLen raw.length)).bind fun dstLen =>
    (decodeInto decStd dstLen trimmed).bind fun r1 =>
      match r1 with
      | some n => (sliceChk dstLen 0 n).bind fun _ => .ok (.b64std n)
      | none =>
        (decodeInto decUrl dstLen trimmed).bind fun r2 =>
          match r2 with
          | some n => (sliceChk dstLen 0 n).bind fun _ => .ok (.b64url n)
          | none => .ok .raw

/-! ### `pem.DecodePEMPrivateKey` -/

/-- dynamic type of what `x509.ParsePKCS8PrivateKey` returns -/
inductive Pkcs8Key where
  | rsa | ecdsa | ed25519 | ecdh
  deriving Repr, DecidableEq

def Pkcs8Key.isSigner : Pkcs8Key → Bool
  | .ecdh => false
  | _ => true

inductive BlockType where
  | ecPrivateKey | rsaPrivateKey | privateKey | other
  deriving Repr, DecidableEq

/-- `checked = true` is the code after the `fix:` commit (comma-ok), `false` the code before it. -/
def decodePEMPrivateKey (checked : Bool) (block : Option BlockType) (sec1 pkcs1 : Bool) (pkcs8 : Option Pkcs8Key) :
    Outcome Unit :=
  match block with
  | none => .err "key is not PEM encoded"
  | some .ecPrivateKey => if sec1 then .ok () else .err "x509"
  | some .rsaPrivateKey => if pkcs1 then .ok () else .err "x509"
  | some .privateKey =>
    match pkcs8 with
    | none => .err "x509"
    | some k =>
      if k.isSigner then .ok ()
      else if checked then .err "unsupported private key type"
      else .panic "interface conversion: not crypto.Signer"
  | some .other => .err "unsupported block type"

/-! ### `pem.DecodePEMCertificates` / `…Chain` -/

/-- result of `decodeCertificatePEM` on the current remainder: not a PEM block / not a
CERTIFICATE (the Go code then returns a nil remainder), a parse error, or a certificate plus the
rest, which `encoding/pem.Decode` guarantees to be strictly shorter than its input. -/
inductive CertStep where
  | stop
  | parseError
  | cert (rest : Bytes)

def decodeCerts (step : Bytes → CertStep) : Nat → Bytes → Nat → Outcome Nat
  | 0, crtb, found => if crtb.length > 0 then .panic "loop bound exceeded" else
      (if found == 0 then .err "no certificates found" else .ok found)
  | fuel + 1, crtb, found =>
    if crtb.length > 0 then
      match step crtb with
      | .stop => if found == 0 then .err "no certificates found" else .ok found
      | .parseError => .err "x509"
      | .cert rest => decodeCerts step fuel rest (found + 1)
    else if found == 0 then .err "no certificates found" else .ok found

/-- `for i := 0; i < len(certs)-1; i++ { certs[i] … certs[i+1] }` -/
def chainLoop (n : Nat) : Nat → Int → Outcome Unit
  | 0, i => if i < (n : Int) - 1 then .panic "loop bound exceeded" else .ok ()
  | fuel + 1, i =>
    if i < (n : Int) - 1 then
      (idxI n i).bind fun _ => (idxI n (i + 1)).bind fun _ => chainLoop n fuel (i + 1)
    else .ok ()

end Kit.NoPanic.Keys
