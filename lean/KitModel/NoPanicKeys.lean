import KitModel.NoPanic
/-!
C07 — dapr/kit-side control flow around the standard-library / jwx calls in
`/repo/crypto/keys.go` (`ParseKey`, `parseSymmetricKey`), `/repo/crypto/pem/pem.go`
(`DecodePEMPrivateKey`, `DecodePEMCertificates`, `DecodePEMCertificatesChain`) and
`/repo/utils/pem.go`.  The libraries themselves are opaque parameters with their documented
post-conditions as hypotheses of the theorems.
-/
namespace Kit.NoPanic.Keys
open Kit Kit.NoPanic

/-! ### `crypto.ParseKey`: which parser the heuristic hands the bytes to -/

inductive Branch where
  | jwk | pem | symmetric
  deriving Repr, DecidableEq

def dashes : Bytes := [45, 45, 45, 45, 45]

def parseKeyBranch (raw : Bytes) (contentType : String) : Outcome Branch :=
  let l := raw.length
  if l == 0 then .err "key is empty"
  else if contentType == "application/json" then .ok .jwk
  else if contentType == "application/x-pem-file" || contentType == "application/pkcs8" then .ok .pem
  else
    (idx raw 0).bind fun c0 =>
      if c0 == 123 && l != 16 && l != 24 && l != 32 then .ok .jwk
      else if l > 10 then
        (slice raw 0 5).bind fun p => if p == dashes then .ok .pem else .ok .symmetric
      else .ok .symmetric

/-! ### The sniffing prefix with the guarded value and the sliced value kept apart

`parseKeyBranch` above reads the marker from the very value whose length the guard tests.  The
definitions below do not take that for granted: the length guard (`bound`) tests `raw`, the slice
expression (`hi`) is applied to `view raw`, a Go slice value with its own length and capacity.
`view = id` is the code; `view = trimLeftBlanks` is a parser that sniffs the marker on
`bytes.TrimLeft(raw, " \t\r\n")` (seeded change C07-r5m1).  `Props/C07.lean` proves that the
first never panics, characterises when an arbitrary `view` does, and ties `view = id`, `bound` and
`hi` to the regenerated facts (`Generated.C07.constBounds`). -/

/-- a Go `[]byte` value: the bytes up to `len` and the number of spare elements behind them
(`cap = len + spare`) -/
structure GoSlice where
  data : Bytes
  spare : Nat := 0
  deriving Repr, DecidableEq

def GoSlice.len (s : GoSlice) : Nat := s.data.length
def GoSlice.cap (s : GoSlice) : Nat := s.data.length + s.spare

/-- `s[lo:hi]` on a slice value: Go checks `hi` against the CAPACITY; the elements between `len`
and `cap` are whatever the array holds (`fill`). -/
def sliceCap (fill : UInt8) (s : GoSlice) (lo hi : Nat) : Outcome Bytes :=
  if lo ≤ hi ∧ hi ≤ s.cap then .ok (((s.data ++ List.replicate s.spare fill).drop lo).take (hi - lo))
  else .panic "slice bounds out of range"

/-- the cutset `" \t\r\n"` -/
def isBlank (c : UInt8) : Bool := c == 32 || c == 9 || c == 13 || c == 10

/-- `bytes.TrimLeft(s, " \t\r\n")`: `nil` (length and capacity 0) when every byte is trimmed,
otherwise `s[i:]`, whose capacity shrinks together with its length. -/
def trimLeftBlanks (s : GoSlice) : GoSlice :=
  match s.data.dropWhile isBlank with
  | [] => { data := [], spare := 0 }
  | c :: rest => { data := c :: rest, spare := s.spare }

/-- does the heuristic reach the PEM case's slice expression? (non-empty input, no recognised
content type, not taken for a JWK, longer than `bound`) -/
def sniffReached (bound : Nat) : Bytes → String → Bool
  | [], _ => false
  | c :: rest, contentType =>
    let l := rest.length + 1
    !(contentType == "application/json")
      && !(contentType == "application/x-pem-file" || contentType == "application/pkcs8")
      && !(c == 123 && l != 16 && l != 24 && l != 32)
      && decide (l > bound)

/-- `ParseKey`'s heuristic with the guard `len(raw) > bound` and the slice `(view raw)[0:hi]`. -/
def parseKeyBranchOn (bound hi : Nat) (fill : UInt8) (view : GoSlice → GoSlice) (raw : GoSlice)
    (contentType : String) : Outcome Branch :=
  let l := raw.len
  if l == 0 then .err "key is empty"
  else if contentType == "application/json" then .ok .jwk
  else if contentType == "application/x-pem-file" || contentType == "application/pkcs8" then .ok .pem
  else
    (idx raw.data 0).bind fun c0 =>
      if c0 == 123 && l != 16 && l != 24 && l != 32 then .ok .jwk
      else if l > bound then
        (sliceCap fill (view raw) 0 hi).bind fun p => if p == dashes then .ok .pem else .ok .symmetric
      else .ok .symmetric

/-! ### `parseSymmetricKey` -/

/-- `bytes.TrimRight(raw, "\n=")` -/
def trimRight (raw : Bytes) : Bytes :=
  (raw.reverse.dropWhile fun c => c == 10 || c == 61).reverse

/-- `base64.RawStdEncoding.DecodedLen(n)` (no padding): `n * 6 / 8` -/
def rawDecodedLen (n : Nat) : Nat := n * 6 / 8

inductive SymRes where
  | b64std (n : Nat) | b64url (n : Nat) | raw
  deriving Repr, DecidableEq

/-- `Encoding.Decode(dst, src)`: the library panics (index out of range) if `dst` is shorter than
`DecodedLen(len(src))` may require; otherwise `some n` (bytes written) or `none` (corrupt input). -/
def decodeInto (dec : Bytes → Option Nat) (dstLen : Nat) (src : Bytes) : Outcome (Option Nat) :=
  if dstLen < rawDecodedLen src.length then .panic "base64: dst too short" else .ok (dec src)

def parseSymmetric (decStd decUrl : Bytes → Option Nat) (raw : Bytes) : Outcome SymRes :=
  let trimmed := trimRight raw
  (makeChk (rawDecodedLen raw.length)).bind fun dstLen =>
    (decodeInto decStd dstLen trimmed).bind fun r1 =>
      match r1 with
      | some n => (sliceChk dstLen 0 n).bind fun _ => .ok (.b64std n)
      | none =>
        (decodeInto decUrl dstLen trimmed).bind fun r2 =>
          match r2 with
          | some n => (sliceChk dstLen 0 n).bind fun _ => .ok (.b64url n)
          | none => .ok .raw

/-! ### `pem.DecodePEMPrivateKey` -/

/-- dynamic type of what `x509.ParsePKCS8PrivateKey` returns -/
inductive Pkcs8Key where
  | rsa | ecdsa | ed25519 | ecdh
  deriving Repr, DecidableEq

def Pkcs8Key.isSigner : Pkcs8Key → Bool
  | .ecdh => false
  | _ => true

inductive BlockType where
  | ecPrivateKey | rsaPrivateKey | privateKey | other
  deriving Repr, DecidableEq

/-- `checked = true` is the code after the `fix:` commit (comma-ok), `false` the code before it. -/
def decodePEMPrivateKey (checked : Bool) (block : Option BlockType) (sec1 pkcs1 : Bool) (pkcs8 : Option Pkcs8Key) :
    Outcome Unit :=
  match block with
  | none => .err "key is not PEM encoded"
  | some .ecPrivateKey => if sec1 then .ok () else .err "x509"
  | some .rsaPrivateKey => if pkcs1 then .ok () else .err "x509"
  | some .privateKey =>
    match pkcs8 with
    | none => .err "x509"
    | some k =>
      if k.isSigner then .ok ()
      else if checked then .err "unsupported private key type"
      else .panic "interface conversion: not crypto.Signer"
  | some .other => .err "unsupported block type"

/-! ### `pem.DecodePEMCertificates` / `…Chain` -/

/-- result of `decodeCertificatePEM` on the current remainder: not a PEM block / not a
CERTIFICATE (the Go code then returns a nil remainder), a parse error, or a certificate plus the
rest, which `encoding/pem.Decode` guarantees to be strictly shorter than its input. -/
inductive CertStep where
  | stop
  | parseError
  | cert (rest : Bytes)

def decodeCerts (step : Bytes → CertStep) : Nat → Bytes → Nat → Outcome Nat
  | 0, crtb, found => if crtb.length > 0 then .panic "loop bound exceeded" else
      (if found == 0 then .err "no certificates found" else .ok found)
  | fuel + 1, crtb, found =>
    if crtb.length > 0 then
      match step crtb with
      | .stop => if found == 0 then .err "no certificates found" else .ok found
      | .parseError => .err "x509"
      | .cert rest => decodeCerts step fuel rest (found + 1)
    else if found == 0 then .err "no certificates found" else .ok found

/-- `for i := 0; i < len(certs)-1; i++ { certs[i] … certs[i+1] }` -/
def chainLoop (n : Nat) : Nat → Int → Outcome Unit
  | 0, i => if i < (n : Int) - 1 then .panic "loop bound exceeded" else .ok ()
  | fuel + 1, i =>
    if i < (n : Int) - 1 then
      (idxI n i).bind fun _ => (idxI n (i + 1)).bind fun _ => chainLoop n fuel (i + 1)
    else .ok ()

end Kit.NoPanic.Keys
