import KitModel.Go.Prelude
import KitModel.Generated.C18
/-!
Model of `concurrency/dir` (`Dir.Write`) over a small POSIX file-system model.

* File system = finite map `Path ↦ dir | file bytes | symlink path` (association list, observed
  only through `look`; the root `[]` is an implicit directory).
* `mkdirAll / writeFile / remove / symlink / rename / removeAll` with their POSIX error cases.
* `writeOps` = the ordered list of file-system operations of one `Write` call (order = `fixedSteps`,
  tied to the source by `KitProofs.Props.C18.writeSteps_match_source`).
* crash = any prefix of the operations of a `Write`; recovery = a fresh `Dir` (`prev = none`).
* Version-directory names: `Name.ver n`, `n` = index of the `Write` call that created it
  (assumption: `time.Now().UnixNano()` differs between any two `Write` calls).
* The names `t`, `t.new`, `<stamp>-t` are pairwise distinct path components (true of the strings);
  they are the constructors `tgt`, `tgtNew`, `ver n`.
-/
namespace Kit.Dir

inductive Name where
  | str (s : String)
  | ver (n : Nat)
  | tgt
  | tgtNew
  deriving DecidableEq, Repr

abbrev Path := List Name

inductive Node where
  | dir
  | file (b : Bytes)
  | link (to : Path)
  deriving DecidableEq, Repr

inductive Errno where
  | EEXIST | ENOENT | ENOTDIR | EISDIR | ENOTEMPTY | EINVAL | EBUSY | UNMODELLED | BADNAME
  deriving DecidableEq, Repr

abbrev FS := List (Path × Node)

/-! ### the finite map -/

def get : FS → Path → Option Node
  | [], _ => none
  | (q, n) :: rest, p => if q = p then some n else get rest p

/-- Observation of one path without following symlinks (`lstat`). The root is a directory. -/
def look (fs : FS) (p : Path) : Option Node :=
  if p = [] then some .dir else get fs p

def set (fs : FS) (p : Path) (v : Option Node) : FS :=
  let rest := fs.filter (fun e => decide (e.1 ≠ p))
  match v with
  | some n => (p, n) :: rest
  | none => rest

def removeTree (fs : FS) (p : Path) : FS :=
  fs.filter (fun e => decide (¬ p <+: e.1))

def hasChild (fs : FS) (p : Path) : Bool :=
  fs.any (fun e => decide (p <+: e.1 ∧ e.1 ≠ p))

def moveTree (fs : FS) (o n : Path) : FS :=
  fs.map (fun e => if o <+: e.1 then (n ++ e.1.drop o.length, e.2) else e)

/-- Non-empty prefixes of a path, shortest first. -/
def prefixes : Path → List Path
  | [] => []
  | c :: r => [c] :: (prefixes r).map (c :: ·)

/-! ### POSIX operations (as called by Go's `os` package) -/

def mkdirChain (fs : FS) : List Path → Except Errno FS
  | [] => .ok fs
  | q :: qs =>
    match look fs q with
    | none => mkdirChain (set fs q (some .dir)) qs
    | some .dir => mkdirChain fs qs
    | some (.file _) => .error .ENOTDIR
    | some (.link _) => .error .UNMODELLED

/-- `os.MkdirAll(p, perm)`: create every missing ancestor; existing directories are fine. -/
def mkdirAll (fs : FS) (p : Path) : Except Errno FS := mkdirChain fs (prefixes p)

/-- Path walk over the given ancestors (shortest first): `none` = all are directories. -/
def walk (fs : FS) : List Path → Option Errno
  | [] => none
  | q :: qs =>
    match look fs q with
    | none => some .ENOENT
    | some .dir => walk fs qs
    | some (.file _) => some .ENOTDIR
    | some (.link _) => some .UNMODELLED

/-- Error of the path walk to the parent directory of `p`: `none` = every ancestor is a
directory (symlinked ancestors are outside the model). -/
def parentErr (fs : FS) (p : Path) : Option Errno := walk fs (prefixes p.dropLast)

/-- `os.WriteFile(p, b, perm)` = open(O_WRONLY|O_CREATE|O_TRUNC) + write + close. -/
def writeFile (fs : FS) (p : Path) (b : Bytes) : Except Errno FS :=
  if p = [] then .error .EISDIR else
  match parentErr fs p with
  | some e => .error e
  | none =>
    match look fs p with
    | none => .ok (set fs p (some (.file b)))
    | some (.file _) => .ok (set fs p (some (.file b)))
    | some .dir => .error .EISDIR
    | some (.link _) => .error .UNMODELLED

/-- `os.Remove(p)`: unlink, or rmdir of an empty directory. -/
def remove (fs : FS) (p : Path) : Except Errno FS :=
  if p = [] then .error .EBUSY else
  match parentErr fs p with
  | some e => .error e
  | none =>
    match look fs p with
    | none => .error .ENOENT
    | some .dir => if hasChild fs p then .error .ENOTEMPTY else .ok (set fs p none)
    | some _ => .ok (set fs p none)

/-- `os.Symlink(to, p)`: never replaces an existing name. -/
def symlink (fs : FS) (to p : Path) : Except Errno FS :=
  if p = [] then .error .EEXIST else
  match parentErr fs p with
  | some e => .error e
  | none =>
    match look fs p with
    | none => .ok (set fs p (some (.link to)))
    | some _ => .error .EEXIST

/-- `os.Rename(o, n)`: atomically replaces `n` when both are non-directories (Go returns EEXIST
for any existing directory `n`). -/
def rename (fs : FS) (o n : Path) : Except Errno FS :=
  if o = [] ∨ n = [] then .error .EBUSY else
  match parentErr fs o with
  | some e => .error e
  | none =>
  match parentErr fs n with
  | some e => .error e
  | none =>
    match look fs o with
    | none => .error .ENOENT
    | some on =>
      -- Go's os.Rename refuses an existing directory as the new name before calling rename(2)
      if look fs n = some .dir then .error .EEXIST else
      if o = n then .ok fs else
      match on, look fs n with
      | .dir, none => if o <+: n then .error .EINVAL else .ok (moveTree fs o n)
      | .dir, some _ => .error .ENOTDIR
      | nd, _ => .ok (set (set fs n (some nd)) o none)

/-- `os.RemoveAll(p)`: removes `p` and everything below; a missing path is not an error. -/
def removeAll (fs : FS) (p : Path) : Except Errno FS :=
  if p = [] then .error .EBUSY else
  match parentErr fs p with
  | some .ENOENT => .ok fs
  | some e => .error e
  | none => .ok (removeTree fs p)

inductive Op where
  | mkdirAll (p : Path)
  | writeFile (p : Path) (b : Bytes)
  | removeIfExists (p : Path)      -- os.Remove with IsNotExist ignored
  | symlink (to p : Path)
  | rename (o n : Path)
  | removeAll (p : Path)
  | badName (nm : Name)            -- WriteFile(Join(newDir, nm)) for a name that is not a single
                                   -- path component: fails (EISDIR for "", ".", ".."; ENOENT/ENOTDIR
                                   -- for "sub/x"), nothing is written
  deriving DecidableEq, Repr

def Op.apply (fs : FS) : Op → Except Errno FS
  | .mkdirAll p => Dir.mkdirAll fs p
  | .writeFile p b => Dir.writeFile fs p b
  | .removeIfExists p =>
    match Dir.remove fs p with
    | .error .ENOENT => .ok fs
    | r => r
  | .symlink to p => Dir.symlink fs to p
  | .rename o n => Dir.rename fs o n
  | .removeAll p => Dir.removeAll fs p
  | .badName _ => .error .BADNAME

/-- Run operations in order; the first error aborts (Go: `return err`). -/
def runOps (fs : FS) : List Op → FS × Option Errno
  | [] => (fs, none)
  | op :: rest =>
    match op.apply fs with
    | .ok fs' => runOps fs' rest
    | .error e => (fs, some e)

/-! ### resolve (what a reader sees through the symlink) -/

def resolveN : Nat → FS → Path → Option (Path × Node)
  | 0, _, _ => none
  | f + 1, fs, p =>
    match look fs p with
    | none => none
    | some (.link t) => resolveN f fs t
    | some n => some (p, n)

/-- `stat`: follow symlinks at the final component (at most 8, Linux: 40). -/
def resolve (fs : FS) (p : Path) : Option (Path × Node) := resolveN 8 fs p

/-- The entries of the map, each key once (the binding `get` sees): what a directory walk lists.
On the lists the operations build (no duplicate keys) this is the list itself. -/
def entries (fs : FS) : FS :=
  fs.foldr (fun e acc => e :: acc.filter (fun e' => decide (e'.1 ≠ e.1))) []

/-- Directory listing: names directly below `d` with their nodes. -/
def readDir (fs : FS) (d : Path) : List (Name × Node) :=
  (entries fs).filterMap (fun e =>
    match e.1.getLast? with
    | some nm => if e.1 = d ++ [nm] then some (nm, e.2) else none
    | none => none)

/-- Everything strictly below `d` in `es` must be a regular file directly in `d`. -/
def collectFiles (d : Path) : FS → Option (List (Name × Bytes))
  | [] => some []
  | (p, n) :: rest =>
    if d <+: p ∧ p ≠ d then
      match n, p.drop d.length, collectFiles d rest with
      | .file b, [nm], some l => some ((nm, b) :: l)
      | _, _, _ => none
    else collectFiles d rest

/-- What a reader gets from ReadDir + ReadFile on `d`: `some files` iff `d` is a directory holding
nothing but regular files (tied to `DirIs` by `KitProofs.Props.C18.dirListing_iff_DirIs`). -/
def dirListing (fs : FS) (d : Path) : Option (List (Name × Bytes)) :=
  if look fs d = some .dir then collectFiles d (entries fs) else none

def lookupL (l : List (Name × Bytes)) (nm : Name) : Option Bytes :=
  match l with
  | [] => none
  | (k, b) :: rest => if k = nm then some b else lookupL rest nm

/-! ### Dir.Write -/

abbrev Files := List (Name × Bytes)

/-- The file map a list of `(name, bytes)` writes leaves behind (later binding wins; a Go map has
unique keys, so for the real calls this is the map itself). -/
def asMap (files : Files) : Name → Option Bytes :=
  files.foldl (fun m kb => fun nm => if nm = kb.1 then some kb.2 else m nm) (fun _ => none)

def target (B : Path) : Path := B ++ [.tgt]
def targetNew (B : Path) : Path := B ++ [.tgtNew]
def verDir (B : Path) (n : Nat) : Path := B ++ [.ver n]

/-- File names `Write` is specified for: one path component. (`Join(newDir, name)` for other
strings either fails — "", ".", "..", "sub/x" — which is what the model says for every invalid
name, or escapes/cleans to another path — "a/../b", "../x" — which is outside the model.) -/
def validName : Name → Bool
  | .str s => s ≠ "" && s ≠ "." && s ≠ ".." && !(s.toList.contains '/') && !(s.toList.contains (Char.ofNat 0))
  | _ => true

inductive Step where
  | mkBase | mkNew | writeFiles | rmStaleNew | symlinkNew | renameToTarget | rmPrev
  deriving DecidableEq, Repr

/-- Operations of one step of `Write`; `prev` = version written by this `Dir` before (if any),
`c` = this call's version id, `files` in the order the map iteration produced them. -/
def stepOps (B : Path) (prev : Option Nat) (c : Nat) (files : Files) : Step → List Op
  | .mkBase => [.mkdirAll B]
  | .mkNew => [.mkdirAll (verDir B c)]
  | .writeFiles => files.map (fun kb =>
      if validName kb.1 then .writeFile (verDir B c ++ [kb.1]) kb.2 else .badName kb.1)
  | .rmStaleNew => [.removeIfExists (targetNew B)]
  -- source: Symlink(filepath.Base(newDir), target+".new"): a link to a NAME in the link's own
  -- directory (the base); `Node.link` holds the path such a link resolves to
  | .symlinkNew => [.symlink (verDir B c) (targetNew B)]
  | .renameToTarget => [.rename (targetNew B) (target B)]
  | .rmPrev =>
    match prev with
    | some n => [.removeAll (verDir B n)]
    | none => []

/-- Step order of the repaired `Write` (stale `<target>.new` removed before `Symlink`). -/
def fixedSteps : List Step :=
  [.mkBase, .mkNew, .writeFiles, .rmStaleNew, .symlinkNew, .renameToTarget, .rmPrev]

/-- Step order of `Write` before the repair. -/
def origSteps : List Step :=
  [.mkBase, .mkNew, .writeFiles, .symlinkNew, .renameToTarget, .rmPrev]

def writeOpsOf (steps : List Step) (B : Path) (prev : Option Nat) (c : Nat) (files : Files) : List Op :=
  steps.flatMap (stepOps B prev c files)

def writeOps := writeOpsOf fixedSteps

/-! ### tie to the generated call order -/

open Kit.Generated.C18 in
/-- Which model step a source call is; `none` = a call shape the model does not know. -/
def stepOfCall (c : FsCall) : Option Step :=
  if c = { fn := .mkdirAll, args := [.base, .perm], ctx := .top, onErr := .ret } then some .mkBase
  else if c = { fn := .mkdirAll, args := [.newDir, .perm], ctx := .top, onErr := .ret } then some .mkNew
  else if c = { fn := .writeFile, args := [.newDirFile, .fileBytes, .perm], ctx := .rangeFiles, onErr := .ret } then some .writeFiles
  else if c = { fn := .remove, args := [.targetNew], ctx := .top, onErr := .retUnlessNotExist } then some .rmStaleNew
  else if c = { fn := .symlink, args := [.newDirName, .targetNew], ctx := .top, onErr := .ret } then some .symlinkNew
  else if c = { fn := .rename, args := [.targetNew, .target], ctx := .top, onErr := .ret } then some .renameToTarget
  else if c = { fn := .removeAll, args := [.prev], ctx := .ifPrevSet, onErr := .ret } then some .rmPrev
  else none

open Kit.Generated.C18 in
/-- Steps of the source, in source order (`none` if any call is unknown). -/
def stepsOfBody (body : List Item) : Option (List Step) :=
  (body.filterMap (fun | .call c => some c | _ => none)).mapM stepOfCall

open Kit.Generated.C18 in
def isCall : Item → Bool
  | .call _ => true
  | _ => false

open Kit.Generated.C18 in
/-- Every call is followed by an item that is not a call (so: a hook or the final assignment,
and never the end of the body): a hook point separates any two calls and follows the last. -/
def hooksSeparateCalls : List Item → Bool
  | [] => true
  | a :: rest =>
    (if isCall a then
      (match rest with
       | [] => false
       | .hook _ _ :: _ => true
       | _ => false)
     else true) && hooksSeparateCalls rest

open Kit.Generated.C18 in
def firstIsHook : List Item → Bool
  | .hook _ _ :: _ => true
  | _ => false

open Kit.Generated.C18 in
/-- `d.prev = &newDir` is the last statement (after every call and hook). -/
def setPrevIsLast (body : List Item) : Bool :=
  body.getLast? == some .setPrevNewDir && (body.dropLast.all (· != .setPrevNewDir))

/-! ### histories -/

structure St where
  fs : FS := []
  clock : Nat := 0              -- index of the next Write call = its version id
  prev : Option Nat := none     -- `d.prev` of the live Dir
  lastErr : Option Errno := none
  deriving Repr

inductive Ev where
  | write (files : Files)            -- a Write call that runs to its return
  | crash (files : Files) (k : Nat)  -- a Write call killed after `k` file-system operations;
                                     -- whatever follows is done by a fresh Dir
  deriving Repr

def Ev.files : Ev → Files
  | .write f => f
  | .crash f _ => f

def stepWith (steps : List Step) (B : Path) (s : St) : Ev → St
  | .write files =>
    let r := runOps s.fs (writeOpsOf steps B s.prev s.clock files)
    { fs := r.1, clock := s.clock + 1,
      prev := match r.2 with | none => some s.clock | some _ => s.prev,
      lastErr := r.2 }
  | .crash files k =>
    let r := runOps s.fs ((writeOpsOf steps B s.prev s.clock files).take k)
    { fs := r.1, clock := s.clock + 1, prev := none, lastErr := r.2 }

def step := stepWith fixedSteps

def runWith (steps : List Step) (B : Path) (s : St) (evs : List Ev) : St :=
  evs.foldl (stepWith steps B) s

def run := runWith fixedSteps

/-- Start of a process on a file system `fs0` whose version directories (left by earlier
processes) all have ids below `c0` (time moves on between processes). -/
def initAt (fs0 : FS) (c0 : Nat) : St := { fs := fs0, clock := c0 }

def init (fs0 : FS) : St := initAt fs0 0

/-- Version ids present below `B`. -/
def versionIds (fs : FS) (B : Path) : List Nat :=
  (entries fs).filterMap (fun e =>
    match e.1.getLast? with
    | some (.ver n) => if e.1 = verDir B n then some n else none
    | _ => none)

end Kit.Dir
