/-
Instrumented twin of the enc/v1 model for the never-panics theorems (C01 / C07).

`KitModel/Enc.lean` is written over lists, where an out-of-range index cannot even be expressed.
Here every Go expression of `processSegments`, `readHeader`, `EncryptSegment`, `DecryptSegment` and
`Decrypt` that can panic at run time is an explicit check against the capacity `cap` of the pooled
buffer (`BufPool`: `SegmentSize + SegmentOverhead + 1` bytes) resp. against the AEAD's documented
panic conditions; a failed check is the outcome `none` (= panic). Everything else is the code of
`Enc.lean` verbatim, so that `KitProofs/Lemmas/EncNoPanic.lean` can prove both
* no check ever fails (for every reader script / every document), and
* the instrumented functions compute exactly what the plain model computes (the tie of the plain
  model to the Go code therefore carries over).

Checked expressions (scheme.go / filekey.go):
  `(*buf)[0] = carryover`                       index 0 < cap
  `(*buf)[n:(segmentSize + 1)]`                 n ≤ segmentSize+1 ≤ cap
  `carryover = (*buf)[n-1]`                     n-1 < cap  (n ≥ 1)
  `(*buf)[:n]`                                  n ≤ cap
  `aead.Seal(data[:0], nonce, …)` / `aead.Open` panic unless `len(nonce) == NonceSize()`
  `data[0:(l + aead.Overhead())]`               on Seal's result (length l+16)
  `data[0:(l - aead.Overhead())]`               l ≥ 16 (a negative bound panics)
  `(*buf)[n:SegmentSize]`                       n ≤ SegmentSize ≤ cap            (readHeader)
  `(*buf)[i]`, `(*buf)[lastNewline:i]`          i < n+nn ≤ cap, lastNewline ≤ i
  `make([]byte, n-lastNewline)`, `(*buf)[lastNewline:n]`   lastNewline ≤ n ≤ cap
  `make([]byte, 32)`, `mac[:n]` (n ≤ DecodedLen) are trusted standard-library contracts.
-/
import KitModel.Go.Prelude
import KitModel.Enc

namespace Kit.Enc.Chk
open Kit Kit.Enc

/-- `b[lo:hi]` on a buffer of capacity `cap`. -/
def sliceOK (cap lo hi : Nat) : Bool := decide (lo ≤ hi) && decide (hi ≤ cap)
/-- `b[i]` on a slice of length `len`. -/
def indexOK (len i : Nat) : Bool := decide (i < len)

/-! ## processSegments -/

def fillO (cap : Nat) : Nat → Reader → Nat → Bytes → Option (Bytes × ReadRes × Reader)
  | 0, r, _, buf => some (buf, .none, r)
  | fuel + 1, r, limit, buf =>
    if buf.length < limit then
      if !sliceOK cap buf.length limit then none            -- (*buf)[n:(segmentSize + 1)]
      else
        match r.read (limit - buf.length) with
        | (chunk, .none, r') => fillO cap fuel r' limit (buf ++ chunk)
        | (chunk, res, r') => some (buf ++ chunk, res, r')
    else some (buf, .none, r)

/-- A process function that may panic (`none`). -/
abbrev ProcFnO := Bytes → Nat → Bool → Option (Except Err Bytes)

def psLoopO (cap segSize maxSeg : Nat) (fn : ProcFnO) : Nat → Reader → Option UInt8 → Nat → Option PSResult
  | 0, _, _, _ => some ⟨[], [], .err .fuel⟩
  | fuel + 1, r, carry, seg =>
    if carry.isSome && !indexOK cap 0 then none              -- (*buf)[0] = carryover
    else
      match fillO cap (r.measure + 1) r (segSize + 1) carry.toList with
      | none => none
      | some filled =>
        let buf := filled.1
        if filled.2.1 = .fail then some ⟨[], [], .err .source⟩
        else
          let over := decide (buf.length > segSize)
          if over && !indexOK cap (buf.length - 1) then none  -- carryover = (*buf)[n-1]
          else
            let data := if over then buf.take (buf.length - 1) else buf
            let carry' := if over then buf[buf.length - 1]? else none
            let done := !over
            if data.length < segSize ∧ done = false then some ⟨[], [], .err .unexpectedEOF⟩
            else if data.length = 0 then
              if seg ≠ 0 then some ⟨[], [], .err .unexpectedEOF⟩ else some ⟨[], [], .ok⟩
            else if !sliceOK cap 0 data.length then none      -- (*buf)[:n]
            else
              match fn data seg done with
              | none => none
              | some (.error e) => some ⟨[(data, seg, done)], [], .err e⟩
              | some (.ok o) =>
                if done = false ∧ seg = maxSeg then some ⟨[(data, seg, done)], o, .err .tooLarge⟩
                else if done then some ⟨[(data, seg, done)], o, .ok⟩
                else (psLoopO cap segSize maxSeg fn fuel filled.2.2 carry' (seg + 1)).map (·.cons (data, seg, done) o)

def processSegmentsO (cap segSize maxSeg : Nat) (fn : ProcFnO) (r : Reader) : Option PSResult :=
  psLoopO cap segSize maxSeg fn (r.stream.length + 2) r none 0

/-! ## EncryptSegment / DecryptSegment -/

/-- `aead.Seal` / `aead.Open` panic on a nonce of the wrong length (12 for both ciphers). -/
def nonceOK (nonceLen : Nat) (n : Bytes) : Bool := n.length == nonceLen

def encryptSegO (c : Crypto) (P : EncParams) (nonceLen cph : Nat) (pk np : Bytes) : ProcFnO :=
  fun data num last =>
    if data.isEmpty then some (.error .emptySegment)
    else if !nonceOK nonceLen (nonceFor P np num last) then none              -- Seal: bad nonce length
    else
      let sealed := c.aseal cph pk (nonceFor P np num last) data
      if !sliceOK sealed.length 0 (data.length + P.overhead) then none        -- data[0:(l + Overhead())]
      else some (.ok sealed)

def decryptSegO (c : Crypto) (P : EncParams) (nonceLen cph : Nat) (pk np : Bytes) : ProcFnO :=
  fun data num last =>
    if data.isEmpty then some (.error .emptySegment)
    else if !nonceOK nonceLen (nonceFor P np num last) then none              -- Open: bad nonce length
    else
      match c.aopen cph pk (nonceFor P np num last) data with
      | none => some (.error .decryptFailed)
      | some pt =>
        if data.length < P.overhead then none                                 -- data[0:(l - Overhead())], negative bound
        else if !sliceOK pt.length 0 (data.length - P.overhead) then none
        else some (.ok pt)

/-! ## readHeader, with the indices of the Go code -/

structure HdrIdx where
  /-- number of newlines seen -/
  newlines : Nat := 0
  /-- `lastNewline` -/
  last : Nat := 0
  manifest : Bytes := []
  mac : Bytes := []
  deriving Repr

/-- Body of `for i = n; i < n+nn && newlines < 3; i++` for one index `i` into `buf` (whose first
    `len` bytes are valid): `(*buf)[i]`, then `(*buf)[lastNewline:i]` on a newline. -/
def hdrStepO (cap : Nat) (scheme buf : Bytes) (st : HdrIdx) (i : Nat) : Option (Except Err HdrIdx) :=
  if st.newlines ≥ 3 then some (.ok st)
  else if !indexOK cap i then none                                           -- (*buf)[i]
  else if buf[i]? ≠ some 10 then some (.ok st)
  else if i ≤ st.last then some (.error .hdrInvalidFormat)
  else if !sliceOK cap st.last i then none                                    -- (*buf)[lastNewline:i]
  else
    let line := (buf.drop st.last).take (i - st.last)
    match st.newlines with
    | 0 => if line = scheme then some (.ok { st with newlines := 1, last := i + 1 })
           else some (.error .hdrUnsupportedScheme)
    | 1 => some (.ok { st with newlines := 2, manifest := line, last := i + 1 })
    | _ => some (.ok { st with newlines := 3, mac := line, last := i + 1 })

/-- The scan of indices `i, i+1, …, i+k-1`. -/
def hdrScanO (cap : Nat) (scheme buf : Bytes) : Nat → HdrIdx → Nat → Option (Except Err HdrIdx)
  | 0, st, _ => some (.ok st)
  | k + 1, st, i =>
    match hdrStepO cap scheme buf st i with
    | none => none
    | some (.error e) => some (.error e)
    | some (.ok st') => hdrScanO cap scheme buf k st' (i + 1)

def hdrLoopO (cap : Nat) (scheme : Bytes) (hdrMax : Nat) : Nat → Reader → Bytes → HdrIdx →
    Option (Except Err (HdrIdx × Bytes × ReadRes × Reader))
  | 0, _, _, _ => some (.error .fuel)
  | fuel + 1, r, buf, st =>
    if st.newlines ≥ 3 then some (.ok (st, buf, .none, r))
    else if buf.length = hdrMax then some (.ok (st, buf, .none, r))
    else if !sliceOK cap buf.length hdrMax then none                          -- (*buf)[n:SegmentSize]
    else
      match r.read (hdrMax - buf.length) with
      | (chunk, res, r') =>
        match hdrScanO cap scheme (buf ++ chunk) chunk.length st buf.length with
        | none => none
        | some (.error e) => some (.error e)
        | some (.ok st') =>
          if res = .none then hdrLoopO cap scheme hdrMax fuel r' (buf ++ chunk) st'
          else some (.ok (st', buf ++ chunk, res, r'))

def readHeaderO (cap : Nat) (P : EncParams) (r : Reader) : Option (Except Err (Bytes × Bytes × Reader)) :=
  match hdrLoopO cap P.scheme P.hdrMax (r.measure + 1) r [] {} with
  | none => none
  | some (.error e) => some (.error e)
  | some (.ok (st, buf, res, r')) =>
    if st.newlines < 1 then some (.error .hdrNoScheme)
    else if st.manifest.isEmpty then some (.error .hdrNoManifest)
    else if st.mac.isEmpty then some (.error .hdrNoMac)
    else if res = .fail then some (.error .source)
    else if buf.length > st.last then
      -- make([]byte, n-lastNewline); copy(extraBytes, (*buf)[lastNewline:n])
      if !sliceOK cap st.last buf.length then none
      else some (.ok (st.manifest, st.mac, { r' with pushback := buf.drop st.last ++ r'.pushback }))
    else some (.ok (st.manifest, st.mac, r'))

/-! ## Decrypt -/

/-- `Decrypt` with every panic site explicit: `none` = panic, otherwise (released, terminal). -/
def decryptO (cap nonceLen : Nat) (c : Crypto) (cd : Codec) (P : EncParams) (o : DecryptOpts) (r : Reader) :
    Option (Bytes × Terminal) :=
  match readHeaderO cap P r with
  | none => none
  | some (.error e) => some ([], .err e)
  | some (.ok (mline, macline, r')) =>
    match cd.parse mline with
    | none => some ([], .err .invalidManifest)
    | some m =>
      if !m.valid P then some ([], .err .invalidManifest)
      else
        let keyName := if o.keyName.isEmpty then m.keyName else o.keyName
        if keyName.isEmpty then some ([], .err .keyMissing)
        else
          let fk := effKey true P o m keyName
          match verifyHeader c cd P fk mline macline with
          | some e => some ([], .err e)
          | none =>
            if unwrapFailed true P o m keyName then some ([], .err .signature)
            else
              (processSegmentsO cap (P.segSize + P.overhead) P.maxSeg
                (decryptSegO c P nonceLen m.cph (payloadKey c P fk m.np) m.np) r').map fun res => (res.out, res.term)

end Kit.Enc.Chk
