import KitModel.Go.Prelude
/-!
Executable model of `github.com/dapr/kit/context.Pool` (`/repo/context/pool.go`) as a labelled
transition system.  Core Lean only.

What is modelled (line numbers of pool.go as of the hook commit):

* contexts are natural numbers; `ended` is the set of contexts whose `Done()` channel is closed
  (a context that never ends, e.g. `context.Background()` whose `Done()` is nil, is simply a
  number that is never the argument of `endCtx`);
* `p.pool` is the list `pool` of contexts whose Done channels were appended, in append order
  (the index of a context is its position in the list; the same context may occur twice);
* the watcher goroutine started by `NewPool` is the program counter `pc`:
    `head i`       holds the read lock, is about to evaluate `i < len(p.pool)`
                   (initially `head 0`: `NewPool` takes the read lock before `go`);
    `waiting i c`  has read `ch := p.pool[i]` (= context `c`), released the read lock and is
                   blocked in `select { case <-ch: case <-p.closed: }`;
    `woken i`      the select returned; hook point `pool.watch.afterWait(i)`; next is
                   `p.lock.RLock()` and then `i++`;
    `exiting`      the loop condition was false; still holds the read lock; the deferred
                   `p.lock.RUnlock()` is next;
    `released`     read lock released; hook point `pool.watch.beforeCancel`; the deferred
                   `cancel()` is next;
    `finished`     `cancel()` was called, the goroutine is gone;
* `Add` (`applyOp v (.add c)`): ignored when the pool context or `closed` is done and — since the
  fix, `Version.fixed` — when `p.anyLive()` is false, i.e. every context in `p.pool` is done;
  `Version.orig` keeps the code as found for the witness theorems;
* `sync.RWMutex`: the only long-lived reader is the watcher (`holdsRead`).  `Add` and `Cancel`
  run their whole body under the write lock, so each is one atomic action `complete`, enabled
  only when the watcher does not hold the read lock.  Before that the caller *announces* itself
  inside `Lock()` (`lockReq`): from then on new readers block, which is why `wRelock` and `size`
  require `writer = none`.  Go admits one announced writer at a time (other callers queue on the
  RWMutex's inner mutex, which no one can observe), so `writer : Option WOp`; any number of
  callers is covered because `lockReq` is enabled again as soon as the writer completed;
* `closed`: the channel `p.closed` is closed.  `Cancel` closes it iff `p.pool != nil`, and
  `p.pool` is nil exactly after the first `Cancel`, so `closed` also stands for `p.pool == nil`;
* `done`: the pool's own context is cancelled.

Ghost state (never read by a guard, written only to state the property):
* `members`: contexts that are *members in the sense of the property statement*: "one passed at
  creation, or added while the pool was still live and some member was still live" — updated at
  the linearisation point of `Add` (its body under the write lock);
* `accepted`: contexts appended by `Add`, in order.
-/
namespace Kit.Pool

/-- `orig`: `Add` as found (appends whenever neither the pool context nor `closed` is done);
`fixed`: after `fix: context.Pool.Add ignores a context when every context in the pool is already
done` (what the property theorems are about). -/
inductive Version where
  | orig
  | fixed
  deriving DecidableEq, Repr

/-- The two operations that take the write lock. -/
inductive WOp where
  | add (c : Nat)
  | cancel
  deriving DecidableEq, Repr

inductive PC where
  | head (i : Nat)
  | waiting (i : Nat) (c : Nat)
  | woken (i : Nat)
  | exiting
  | released
  | finished
  deriving DecidableEq, Repr

/-- Arguments of `NewPool`: the contexts, and which contexts had already ended at that time. -/
structure Config where
  ctxs : List Nat
  ended0 : List Nat
  deriving DecidableEq, Repr

structure State where
  pool : List Nat
  ended : List Nat
  pc : PC
  writer : Option WOp
  closed : Bool
  done : Bool
  members : List Nat
  accepted : List Nat
  deriving DecidableEq, Repr

inductive Label where
  | lockReq (op : WOp)   -- environment: a caller of Add/Cancel announces itself in `p.lock.Lock()`
  | complete             -- the announced writer obtains the lock, runs its body, unlocks, returns
  | size (n : Nat)       -- environment: `Size()` returns `n`
  | endCtx (c : Nat)     -- environment: context `c` ends
  | poll (d : Bool)      -- environment: `p.Err() != nil` evaluates to `d`
  | wHead                -- watcher: loop condition, `ch := p.pool[i]`, `RUnlock` / leave the loop
  | wWake                -- watcher: the select returns
  | wRelock              -- watcher: `p.lock.RLock()`, `i++`
  | wUnlock              -- watcher: deferred `p.lock.RUnlock()`
  | wCancel              -- watcher: deferred `cancel()`, goroutine ends
  deriving DecidableEq, Repr

/-- `NewPool` keeps the contexts that have not ended yet (`select { case <-ctx[i].Done(): default: append }`). -/
def initLive (cfg : Config) : List Nat :=
  cfg.ctxs.filter (fun c => decide (c ∉ cfg.ended0))

def init (cfg : Config) : State :=
  { pool := initLive cfg, ended := cfg.ended0, pc := .head 0, writer := none,
    closed := false, done := false, members := cfg.ctxs, accepted := [] }

def PC.holdsRead : PC → Bool
  | .head _ => true
  | .exiting => true
  | _ => false

/-- some member (in the sense of the statement) has not ended -/
def State.hasLiveMember (s : State) : Bool :=
  s.members.any (fun m => decide (m ∉ s.ended))

/-- every context in `p.pool` has ended -/
def State.allTrackedEnded (s : State) : Bool :=
  s.pool.all (fun c => decide (c ∈ s.ended))

/-- `p.anyLive()`: some context in `p.pool` is not done yet -/
def State.anyLive (s : State) : Bool :=
  s.pool.any (fun c => decide (c ∉ s.ended))

/-- `Add` ignores the context: the pool context is done, `closed` is closed, or (repaired code)
no context in `p.pool` is live. -/
def State.addIgnored (v : Version) (s : State) : Bool :=
  s.done || s.closed ||
    (match v with
     | .orig => false
     | .fixed => !s.anyLive)

/-- Body of `Add` / `Cancel` under the write lock. -/
def applyOp (v : Version) (s : State) : WOp → State
  | .add c =>
    -- ghost: `c` becomes a member iff the pool is still live and some member is still live
    let mem := if !s.done && s.hasLiveMember then c :: s.members else s.members
    -- select { case <-p.Done(): case <-p.closed: default: if p.anyLive() { p.pool = append(p.pool, ctx.Done()) } }
    if s.addIgnored v then { s with members := mem }
    else { s with pool := s.pool ++ [c], accepted := s.accepted ++ [c], members := mem }
  | .cancel =>
    -- if p.pool != nil { close(p.closed); p.pool = nil }
    if s.closed then s else { s with closed := true, pool := [] }

def step (v : Version) (s : State) : Label → Option State
  | .lockReq op => if s.writer.isNone then some { s with writer := some op } else none
  | .complete =>
    match s.writer with
    | none => none
    | some op => if s.pc.holdsRead then none else some (applyOp v { s with writer := none } op)
  | .size n => if s.writer.isNone && n == s.pool.length then some s else none
  | .endCtx c => some { s with ended := c :: s.ended }
  | .poll d => if s.done == d then some s else none
  | .wHead =>
    match s.pc with
    | .head i =>
      match s.pool[i]? with
      | some c => some { s with pc := .waiting i c }
      | none => some { s with pc := .exiting }
    | _ => none
  | .wWake =>
    match s.pc with
    | .waiting i c => if decide (c ∈ s.ended) || s.closed then some { s with pc := .woken i } else none
    | _ => none
  | .wRelock =>
    match s.pc with
    | .woken i => if s.writer.isNone then some { s with pc := .head (i + 1) } else none
    | _ => none
  | .wUnlock =>
    match s.pc with
    | .exiting => some { s with pc := .released }
    | _ => none
  | .wCancel =>
    match s.pc with
    | .released => some { s with pc := .finished, done := true }
    | _ => none

/-- Steps of the watcher goroutine. -/
def watcherLabels : List Label := [.wHead, .wWake, .wRelock, .wUnlock, .wCancel]

def Label.isWatcher : Label → Bool
  | .wHead | .wWake | .wRelock | .wUnlock | .wCancel => true
  | _ => false

/-- Internal progress: watcher steps and the completion of a writer that is already inside
`Lock()`.  No new API call, no context ends. -/
def Label.isInternal : Label → Bool
  | .complete => true
  | a => a.isWatcher

inductive Reach (v : Version) (cfg : Config) : State → Prop where
  | init : Reach v cfg (init cfg)
  | step {s s' : State} {a : Label} : Reach v cfg s → step v s a = some s' → Reach v cfg s'

/-- `s'` is reachable from `s` by internal steps only. -/
inductive InternalPath (v : Version) : State → State → Prop where
  | refl (s : State) : InternalPath v s s
  | step {s s' s'' : State} {a : Label} :
      a.isInternal = true → step v s a = some s' → InternalPath v s' s'' → InternalPath v s s''

/-! ### State-set simulation (what `kitdrv C20` runs)

The simulation runs the repaired code (`Version.fixed`).  The harness reports only observable events.  The simulation keeps the set of model states
compatible with the events so far; after every event the set is closed under watcher steps
(unless the harness holds the watcher parked at a hook point). -/

/-- The (unique, if any) enabled watcher step. -/
def watcherStep (s : State) : Option State :=
  watcherLabels.findSome? (step .fixed s)

/-- `s` and everything the watcher can reach from it on its own (a chain: the watcher is deterministic). -/
def chain : Nat → State → List State
  | 0, s => [s]
  | n + 1, s =>
    match watcherStep s with
    | none => [s]
    | some s' => s :: chain n s'

def fuelFor (s : State) : Nat := 4 * (s.pool.length + 3)

structure Sim where
  states : List State
  frozen : Bool          -- the harness holds the watcher parked at a hook point
  deriving Repr

def Sim.close (frozen : Bool) (xs : List State) : List State :=
  if frozen then xs.eraseDups else (xs.flatMap (fun s => chain (fuelFor s) s)).eraseDups

/-- Where the harness saw the watcher parked. -/
inductive Parked where
  | no
  | afterWait (i : Nat)
  | beforeCancel
  deriving DecidableEq, Repr

inductive Event where
  | endCtx (c : Nat)
  | add (c : Nat)          -- `Add(c)` was called and returned
  | cancel                 -- `Cancel()` was called and returned
  | release                -- the harness lets the parked watcher go on
  /-- context `e` ended concurrently with a call of `Add(c)` (`some c`) or `Cancel()` (`none`);
      both have returned.  The end of a context and the body of a writer are atomic, so they took
      effect in one of the two orders. -/
  | race (e : Nat) (c : Option Nat)
  /-- observation: `quiet` = the watcher was seen blocked in its select, parked, or gone;
      `done` = `p.Err() != nil`; `size` = `p.Size()`; `alive` = the watcher goroutine exists -/
  | obs (quiet : Bool) (parked : Parked) (done : Bool) (size : Nat) (alive : Bool)
  deriving Repr

def pcMatches (p : Parked) (pc : PC) : Bool :=
  match p, pc with
  | .afterWait i, .woken j => i == j
  | .beforeCancel, .released => true
  | _, _ => false

def writerOp (sim : Sim) (op : WOp) : Sim :=
  let s1 := sim.states.filterMap (fun s => step .fixed s (.lockReq op))
  let s2 := Sim.close sim.frozen s1
  let s3 := s2.filterMap (fun s => step .fixed s .complete)
  { sim with states := Sim.close sim.frozen s3 }

def advance (sim : Sim) : Event → Sim
  | .endCtx c =>
    { sim with states := Sim.close sim.frozen (sim.states.filterMap (fun s => step .fixed s (.endCtx c))) }
  | .add c => writerOp sim (.add c)
  | .cancel => writerOp sim .cancel
  | .release => { states := Sim.close false sim.states, frozen := false }
  | .race e c =>
    let op : WOp := match c with
      | some c => .add c
      | none => .cancel
    let endE (x : Sim) : Sim :=
      { x with states := Sim.close x.frozen (x.states.filterMap (fun s => step .fixed s (.endCtx e))) }
    let a := writerOp (endE sim) op
    let b := endE (writerOp sim op)
    { sim with states := (a.states ++ b.states).eraseDups }
  | .obs quiet parked done size alive =>
    let frozen := sim.frozen || parked != .no
    let xs := sim.states.filter (fun s =>
      (parked == .no || pcMatches parked s.pc)
      && (step .fixed s (.poll done)).isSome
      && (step .fixed s (.size size)).isSome
      && (!quiet || (decide (s.pc ≠ .finished) == alive))
      && (!quiet || frozen || (watcherStep s).isNone))
    { states := xs, frozen := frozen }

def Sim.start (cfg : Config) : Sim :=
  { states := Sim.close false [init cfg], frozen := false }

end Kit.Pool
