import KitModel.Go.Prelude
import KitModel.Generated.C19
/-!
Model of `crypto/spiffe` (`spiffe.go`, `svidsource.go`) for property C19.

(a) **Readiness LTS** (`St`, `step`): the goroutine that wins the CAS in `Run`, any number of
    `Ready(ctx)` callers and any number of `GetX509SVID` callers, over `sync.RWMutex` (Go
    semantics: a *pending* writer blocks new readers) and the channel `readyCh`, one transition per
    synchronisation-relevant statement, in source order.  `Variant.cur` is `GetX509SVID` as it was
    (read-lock, then wait for `readyCh`); `Variant.fixed` is the code after the repair (wait for
    `readyCh`, then read-lock).  Time is abstracted in (a): the rotation loop may issue a renewal
    request at any moment (`Lbl.renew`).

(b) **Renewal automaton** (`RN`, `advance`): the rotation loop of `runRotation` on a fake clock
    whose timers fire as soon as `now ≥ deadline`; the write lock is abstracted (swap is atomic —
    that the swap always completes is (a)'s progress theorem).

Tokens: the `k`-th issuer request (0-based) carries fresh key `k`; a certificate issued for it has
token `k`.  Times are integer nanoseconds.
-/
namespace Kit.Spiffe

/-! ## (a) readiness LTS -/

inductive Variant where
  | cur | fixed
  deriving DecidableEq, Repr

/-- Program counter of the goroutine executing `Run` (only one can pass the CAS). -/
inductive RunPc where
  | idle                    -- Run has not been called
  | called                  -- Run called; `running.CompareAndSwap(false, true)` not executed yet
  | wantLock                -- CAS won; about to call `lock.Lock()`
  | pendLock                -- inside `Lock()`: announced (new readers block), waiting for readers to drain
  | fetch                   -- holds W; request outstanding at the issuer
  | setSvid (v : Nat)       -- holds W; fetch succeeded with token `v`; about to set `currentSVID`
  | closeOk                 -- holds W; about to `close(readyCh)`
  | closeErr                -- holds W; fetch failed; about to `close(readyCh)`
  | unlockOk                -- holds W; about to `Unlock()`
  | unlockErr               -- holds W; about to `Unlock()`
  | retErr                  -- Run returned an error
  | rotRLock                -- runRotation: about to `RLock()`
  | rotRUnlock              -- holds R (reads the certificate); about to `RUnlock()`
  | rotWait                 -- in `select` on the timer / ctx
  | rotFetch                -- renewal request outstanding at the issuer (no lock held)
  | rotWantLock (v : Nat)   -- renewal succeeded; about to `Lock()`
  | rotPendLock (v : Nat)   -- inside `Lock()`, waiting for readers to drain
  | rotSet (v : Nat)        -- holds W; about to set `currentSVID`
  | rotUnlock               -- holds W; about to `Unlock()`
  | stopped                 -- ctx done; Run returned nil
  deriving DecidableEq, Repr

/-- Program counter of one consumer call (`Ready(ctx)` or `GetX509SVID()`). -/
inductive ConsPc where
  | yWait                        -- Ready: in `select { ctx.Done | readyCh }`
  | yDone (ok : Bool)            -- Ready returned (`true` = nil, `false` = ctx error)
  | gCall                        -- GetX509SVID called
  | gHoldWait                    -- (cur) holds R, waits for readyCh          [hook afterRLock]
  | gPassed                      -- (fixed) readyCh seen closed; about to `RLock()`
  | gHold                        -- holds R, readiness seen; about to read currentSVID [hook afterRLock, fixed]
  | gUnlock (r : Option Nat)     -- holds R; value read; about to `RUnlock()` (deferred)
  | gDone (r : Option Nat)       -- returned: `some v` = SVID v, `none` = error "no SVID available"
  deriving DecidableEq, Repr

structure St where
  running : Bool := false          -- atomic.Bool
  readers : Nat := 0               -- RWMutex: active readers
  wPend : Bool := false            -- RWMutex: a writer has announced itself and waits
  wHeld : Bool := false            -- RWMutex: write-locked
  ready : Bool := false            -- readyCh closed
  svid : Option Nat := none        -- currentSVID (token)
  nfetch : Nat := 0                -- issuer requests answered so far = token of the next one
  init : Option Bool := none       -- outcome of the initial fetch once it has finished
  good : List Nat := []            -- ghost: tokens of successful fetches, newest first
  run : RunPc := .idle
  cons : List ConsPc := []
  runCtx : Bool := false           -- the context given to `Run` is done (cancelled / deadline passed)
  deriving DecidableEq, Repr

inductive Lbl where
  | callRun | callReady | callGet     -- an API call begins (environment)
  | runLoser                          -- a further `Run` call: its CAS fails, it returns "already running"
  | ctxDone (i : Nat)                 -- consumer i's ctx is done and its `select` takes that case
  | stop                              -- Run's ctx is done while the rotation loop waits
  | cancelRun                         -- Run's ctx ends (environment; at ANY moment: before Run is called,
                                      -- while the initial request is in flight, after the issuer returned, …)
  | renew                             -- the rotation timer fired at/after the renewal time: request issued
  | reply (ok : Bool)                 -- the issuer answers the outstanding request
  | run                               -- next statement of the Run goroutine
  | cons (i : Nat)                    -- next statement of consumer i
  deriving DecidableEq, Repr

/-- `RLock()` succeeds immediately iff no writer holds or waits for the lock. -/
def St.canRLock (s : St) : Bool := !s.wHeld && !s.wPend

def holdsR : ConsPc → Nat
  | .gHoldWait | .gHold | .gUnlock _ => 1
  | _ => 0

/-- Next statement of the Run goroutine. -/
def runStep (s : St) : Option St :=
  match s.run with
  | .called => if s.running then some { s with run := .retErr } else some { s with running := true, run := .wantLock }
  | .wantLock => if !s.wHeld && !s.wPend then some { s with wPend := true, run := .pendLock } else none
  | .pendLock => if s.readers = 0 then some { s with wPend := false, wHeld := true, run := .fetch } else none
  | .setSvid v => some { s with svid := some v, run := .closeOk }
  | .closeOk => some { s with ready := true, run := .unlockOk }
  | .closeErr => some { s with ready := true, run := .unlockErr }
  | .unlockOk => some { s with wHeld := false, run := .rotRLock }
  | .unlockErr => some { s with wHeld := false, run := .retErr }
  | .rotRLock => if s.canRLock then some { s with readers := s.readers + 1, run := .rotRUnlock } else none
  | .rotRUnlock => some { s with readers := s.readers - 1, run := .rotWait }
  | .rotWantLock v => if !s.wHeld && !s.wPend then some { s with wPend := true, run := .rotPendLock v } else none
  | .rotPendLock v => if s.readers = 0 then some { s with wPend := false, wHeld := true, run := .rotSet v } else none
  | .rotSet v => some { s with svid := some v, run := .rotUnlock }
  | .rotUnlock => some { s with wHeld := false, run := .rotWait }
  | _ => none

/-- The issuer answers the outstanding request. -/
def replyStep (s : St) (ok : Bool) : Option St :=
  match s.run with
  | .fetch =>
    if ok then some { s with nfetch := s.nfetch + 1, init := some true, good := s.nfetch :: s.good, run := .setSvid s.nfetch }
    else some { s with nfetch := s.nfetch + 1, init := some false, run := .closeErr }
  | .rotFetch =>
    if ok then some { s with nfetch := s.nfetch + 1, good := s.nfetch :: s.good, run := .rotWantLock s.nfetch }
    else some { s with nfetch := s.nfetch + 1, run := .rotWait }
  | _ => none

/-- Next statement of a consumer at `pc`; returns the new pc and the change to the shared state. -/
def consStep (v : Variant) (s : St) (i : Nat) : Option St :=
  match s.cons[i]? with
  | none => none
  | some pc =>
    match pc with
    | .yWait => if s.ready then some { s with cons := s.cons.set i (.yDone true) } else none
    | .gCall =>
      match v with
      | .cur => if s.canRLock then some { s with readers := s.readers + 1, cons := s.cons.set i .gHoldWait } else none
      | .fixed => if s.ready then some { s with cons := s.cons.set i .gPassed } else none
    | .gHoldWait => if s.ready then some { s with cons := s.cons.set i .gHold } else none
    | .gPassed => if s.canRLock then some { s with readers := s.readers + 1, cons := s.cons.set i .gHold } else none
    | .gHold => some { s with cons := s.cons.set i (.gUnlock s.svid) }
    | .gUnlock r => some { s with readers := s.readers - 1, cons := s.cons.set i (.gDone r) }
    | .yDone _ => none
    | .gDone _ => none

def step (v : Variant) (s : St) : Lbl → Option St
  | .callRun => if s.run = .idle then some { s with run := .called } else none
  | .callReady => some { s with cons := s.cons ++ [.yWait] }
  | .callGet => some { s with cons := s.cons ++ [.gCall] }
  | .runLoser => if s.running then some s else none
  | .ctxDone i => if s.cons[i]? = some .yWait then some { s with cons := s.cons.set i (.yDone false) } else none
  | .stop => if s.run = .rotWait then some { s with run := .stopped, runCtx := true } else none
  | .cancelRun => some { s with runCtx := true }
  | .renew => if s.run = .rotWait then some { s with run := .rotFetch } else none
  | .reply ok => replyStep s ok
  | .run => runStep s
  | .cons i => consStep v s i

def init : St := {}

/-- `Reach v s t`: `t` is reachable from `s` by any labels (any interleaving, any callers). -/
inductive Reach (v : Variant) : St → St → Prop where
  | refl (s : St) : Reach v s s
  | tail {s t u : St} (l : Lbl) : Reach v s t → step v t l = some u → Reach v s u

/-- Internal labels: statements of goroutines already running, and the issuer's answer `ok`. -/
def Lbl.internal (ok : Bool) : Lbl → Bool
  | .run => true
  | .cons _ => true
  | .reply b => b == ok
  | _ => false

/-- `IntPath v ok s t`: `t` is reached from `s` by internal steps only (no new calls, no ctx
cancellation, no clock), every issuer answer on the way being `ok`. -/
inductive IntPath (v : Variant) (ok : Bool) : St → St → Prop where
  | refl (s : St) : IntPath v ok s s
  | head {s t u : St} (l : Lbl) : l.internal ok = true → step v s l = some t → IntPath v ok t u → IntPath v ok s u

def ConsPc.returned : ConsPc → Bool
  | .yDone _ | .gDone _ => true
  | _ => false

/-- Nothing left to do without the environment: every consumer call has returned. -/
def St.allReturned (s : St) : Bool := s.cons.all ConsPc.returned

/-! ### executable trace acceptance (used by the driver) -/

/-- Observable events of a real execution. -/
inductive Ev where
  | callRun | callReady
  | callRunHeld               -- Run is called and will be held at hook `spiffe.run.afterCloseReady`
  | runPark | runRelease      -- Run reached that hook / is released from it
  | callGet (parkable : Bool)
  | callRun2
  | park (i : Nat)            -- consumer i reached hook `spiffe.svid.afterRLock` and is held there
  | release (i : Nat)
  | cancel (i : Nat)
  | req (k : Nat)             -- the issuer received request number k
  | rep (ok : Bool)
  | ret (i : Nat) (pc : ConsPc)
  | runRet (err : Bool)
  | stopRun
  | cancelRun                 -- the harness ends the ctx it gave to Run
  | quiet (pending : List Nat)  -- after settling, exactly these consumer calls have not returned
  | nop                          -- an observation the model does not constrain
  deriving Repr

/-- The pc at which the hook sits (after `RLock`). -/
def hookPc (v : Variant) : ConsPc := match v with | .cur => .gHoldWait | .fixed => .gHold

/-- What the observer (the harness) knows besides the states: which consumers it stops at the hook,
how many issuer requests it has seen, how many consumer calls it has made. -/
structure Ctx where
  parked : List Nat := []   -- consumers that stop at the hook (installed and not released)
  reqSeen : Nat := 0        -- number of issuer requests observed so far
  ncons : Nat := 0          -- number of consumer calls made so far = index of the next one
  runHeld : Bool := false   -- the Run goroutine stops at hook `spiffe.run.afterCloseReady` (before Unlock)
  deriving Repr

structure Sim extends Ctx where
  states : List St
  deriving Repr

def insertNew (acc : List St) (s : St) : List St := if acc.contains s then acc else acc ++ [s]

/-- Consumer `i` is held by the harness at the hook. -/
def heldAtHook (v : Variant) (parked : List Nat) (s : St) (i : Nat) : Bool :=
  parked.contains i && s.cons[i]? == some (hookPc v)

/-- The Run goroutine is held by the harness between `close(readyCh)` and `Unlock()`. -/
def runHeldAtHook (c : Ctx) (s : St) : Bool :=
  c.runHeld && (s.run == .unlockOk || s.run == .unlockErr)

def tauSucc (v : Variant) (c : Ctx) (s : St) : List St :=
  let r := if runHeldAtHook c s then [] else match step v s .run with | some t => [t] | none => []
  let cs := (List.range s.cons.length).filterMap fun i =>
    if heldAtHook v c.parked s i then none else step v s (.cons i)
  r ++ cs

/-! τ-closure by work-list with fuel.  `seen` = the states found so far, in 64 buckets by a cheap
fingerprint: it only makes the membership test fast; which states are skipped as "already seen" has no
bearing on soundness (every state added is a τ-successor of a state of the set). -/

def RunPc.code : RunPc → Nat
  | .idle => 0 | .called => 1 | .wantLock => 2 | .pendLock => 3 | .fetch => 4 | .setSvid _ => 5 | .closeOk => 6
  | .closeErr => 7 | .unlockOk => 8 | .unlockErr => 9 | .retErr => 10 | .rotRLock => 11 | .rotRUnlock => 12
  | .rotWait => 13 | .rotFetch => 14 | .rotWantLock _ => 15 | .rotPendLock _ => 16 | .rotSet _ => 17
  | .rotUnlock => 18 | .stopped => 19

def ConsPc.code : ConsPc → Nat
  | .yWait => 1 | .yDone _ => 2 | .gCall => 3 | .gHoldWait => 4 | .gPassed => 5 | .gHold => 6
  | .gUnlock _ => 7 | .gDone _ => 8

def fingerprint (s : St) : Nat :=
  s.cons.foldl (fun h c => (h * 9 + c.code) % 4093) (s.run.code + 23 * s.readers)

abbrev Seen := List (List St)

def Seen.empty : Seen := List.replicate 64 []

def Seen.contains (seen : Seen) (t : St) : Bool := (seen.getD (fingerprint t % 64) []).contains t

def Seen.insert (seen : Seen) (t : St) : Seen :=
  let k := fingerprint t % 64
  seen.set k (t :: seen.getD k [])

def closure (v : Variant) (c : Ctx) : Nat → Seen → List St → List St → List St
  | 0, _, acc, _ => acc
  | _, _, acc, [] => acc
  | n + 1, seen, acc, s :: todo =>
    let new := (tauSucc v c s).filter fun t => !(seen.contains t)
    let new := new.foldl insertNew []
    closure v c n (new.foldl Seen.insert seen) (new ++ acc) (new ++ todo)

def close (v : Variant) (m : Sim) : Sim :=
  let init := m.states.foldl insertNew []
  { m with states := closure v m.toCtx 100000 (init.foldl Seen.insert Seen.empty) init init }

def tauTerminal (v : Variant) (c : Ctx) (s : St) : Bool := (tauSucc v c s).isEmpty

def pendingOf (s : St) : List Nat :=
  (List.range s.cons.length).filter fun i => match s.cons[i]? with | some pc => !pc.returned | none => false

/-- Meaning of one observable event for ONE model state: the state after it, or `none` if the state
is incompatible with the observation.  Calls and issuer answers are labels of the LTS; parks,
returns and quiescence are predicates on the state. -/
def evState (v : Variant) (c : Ctx) (s : St) : Ev → Option St
  | .callRun => step v s .callRun
  | .callRunHeld => step v s .callRun
  | .runPark => if runHeldAtHook c s then some s else none
  | .runRelease => some s
  | .callReady => step v s .callReady
  | .callGet _ => step v s .callGet
  | .callRun2 => step v s .runLoser
  | .park i => if heldAtHook v c.parked s i then some s else none
  | .release _ => some s
  | .cancel i =>
    -- the select may also take readyCh if it is closed: a state where i already returned stays
    match step v s (.ctxDone i) with
    | some t => some t
    | none => match s.cons[i]? with | some (.yDone _) => some s | _ => none
  | .req k =>
    if s.nfetch = k then
      if s.run = .fetch then some s else step v s .renew
    else none
  | .rep ok => step v s (.reply ok)
  | .ret i pc => if s.cons[i]? == some pc then some s else none
  | .runRet err =>
    if err then (if s.run = .retErr then some s else none)
    else if s.run = .stopped then some s
    -- Run returned nil: the rotation loop's select took `ctx.Done()` — possible only once Run's ctx is done
    else if s.runCtx then step v s .stop else none
  | .cancelRun => step v s .cancelRun
  | .stopRun => match step v s .stop with | some t => some t | none => if s.run = .retErr then some s else none
  | .nop => some s
  | .quiet p =>
    -- settled: no internal step left, the pending calls are exactly `p`, and a request the model has
    -- outstanding at the issuer has been observed there
    if tauTerminal v c s && pendingOf s == p &&
        (if s.run = .fetch ∨ s.run = .rotFetch then c.reqSeen == s.nfetch + 1 else true)
    then some s else none

/-- The observer's knowledge after an event. -/
def Ctx.after (c : Ctx) : Ev → Ctx
  | .callReady => { c with ncons := c.ncons + 1 }
  | .callGet p => { c with ncons := c.ncons + 1, parked := if p then c.ncons :: c.parked else c.parked }
  | .release i => { c with parked := c.parked.filter (· != i) }
  | .req k => { c with reqSeen := k + 1 }
  | .callRunHeld => { c with runHeld := true }
  | .runRelease => { c with runHeld := false }
  | _ => c

/-- One observable event: successor state set (before τ-closure). -/
def simEvent (v : Variant) (m : Sim) (e : Ev) : Sim :=
  { toCtx := m.toCtx.after e, states := m.states.filterMap (evState v m.toCtx · e) }

/-- Runs the trace; `none` = accepted, `some k` = event `k` had no compatible model state. -/
def acceptFrom (v : Variant) : Sim → Nat → List Ev → Option Nat × Sim
  | m, _, [] => (none, m)
  | m, k, e :: es =>
    let m' := close v (simEvent v m e)
    if m'.states.isEmpty then (some k, m) else acceptFrom v m' (k + 1) es

def accept (v : Variant) (tr : List Ev) : Option Nat × Sim :=
  acceptFrom v (close v { states := [init] }) 0 tr

/-! ## (b) renewal automaton on a fake clock

A fetch takes time: the rotation goroutine issues the request (`issue`: fresh key, request stamped with
the clock) and is then blocked in `requestSVIDFn` — mode `inflight`, no timer armed — while the clock
may advance arbitrarily; the environment action `answer` delivers the issuer's reply at whatever the
clock then shows.  Nothing is locked and `svid` is untouched in between (`advance` in mode `inflight`
only moves the clock). -/

/-- Cap of the rotation timer: the constant in the source (`time.Minute`), regenerated on every run. -/
def minute : Int := Kit.Generated.C19.wakeCapNs
/-- Wait before a failed renewal is retried: the constant in the source (`10 * time.Second`). -/
def tenSec : Int := Kit.Generated.C19.retryNs

/-- `renewalTime`: 50 % through the validity period (Go: `notBefore.Add(notAfter.Sub(notBefore) / 2)`,
integer division truncating toward zero). -/
def renewalTime (nb na : Int) : Int := nb + (na - nb).tdiv Kit.Generated.C19.renewalDivisor

structure Cert where
  tok : Nat
  nb : Int
  na : Int
  deriving DecidableEq, Repr

/-- What the rotation loop could find out about the error a failed fetch returned: the two predicates
`errors.Is(err, context.Canceled)` / `errors.Is(err, context.DeadlineExceeded)` (true for the bare
sentinels, for `fmt.Errorf("…%w")` / `errors.Join` chains, for custom types with `Is` / `Unwrap`, for the
`Err()` of a child context the issuer created itself — e.g. a per-request timeout) and a `tag` standing
for everything else about the value (dynamic type, message, how it is wrapped).  The context handed to
`Run` is ALIVE in every state of this automaton (there is no cancel action), so no error kind means
"shutting down". -/
structure ErrKind where
  isCanceled : Bool := false
  isDeadline : Bool := false
  tag : Nat := 0
  deriving DecidableEq, Repr

/-- One scripted answer of the issuer. -/
inductive Reply where
  | fail (k : ErrKind := {})      -- the fetch returns an error of kind `k`
  | ok (nb na : Int)
  | okAnchorsFail (nb na : Int)   -- chain issued, but `CurrentTrustAnchors` / `dir.Write` fails (matters only with a write dir)
  deriving DecidableEq, Repr

inductive Mode where
  | waiting     -- in the select on the rotation timer
  | retrying    -- in the select on the 10 s timer after a failed renewal
  | inflight    -- inside `fetchIdentityCertificate`: request outstanding at the issuer, no timer armed
  | dead        -- the initial fetch failed: Run returned, no rotation
  deriving DecidableEq, Repr

/-- One request seen by the issuer, recorded when it is answered. -/
structure Req where
  stamp : Int        -- clock value when the request was issued
  tok : Nat          -- the fresh key it carries
  good : Bool        -- the fetch returned an SVID
  anchors : Nat      -- trust-anchor version current when the file set was written (at the answer)
  half : Int := 0    -- ghost: renewal time (half of validity) of the certificate issued, if any
  answered : Int := 0  -- clock value when the answer was processed
  deriving DecidableEq, Repr

/-- One `dir.Write` call = one complete file set `{key.pem, cert.pem, ca.pem}`. -/
structure FileSet where
  key : Nat
  chain : Nat
  anchors : Nat
  deriving DecidableEq, Repr

structure RN where
  now : Int
  mode : Mode := .dead
  svid : Option Cert := none
  renewAt : Int := 0
  wakeAt : Int := 0               -- deadline of the armed timer
  armedAt : Int := 0              -- clock value when it was armed
  script : List Reply := []
  dirOn : Bool := false
  anchors : Nat := 0
  nextTok : Nat := 0
  log : List Req := []            -- answered requests, newest first
  timers : List (Int × Int) := [] -- every `clock.After(d)` call: (now, d), newest first
  pub : List FileSet := []        -- every `dir.Write` call, newest first
  reqTok : Nat := 0               -- the outstanding request (mode `inflight`): its key,
  reqAt : Int := 0                --   the clock value when it was issued,
  reqInit : Bool := false         --   and whether it is the initial fetch of `Run`
  deriving DecidableEq, Repr

/-- `fetchIdentityCertificate` begins: a fresh key `nextTok`, the request goes out. -/
def issue (s : RN) (initial : Bool) : RN :=
  { s with mode := .inflight, reqTok := s.nextTok, reqAt := s.now, reqInit := initial, nextTok := s.nextTok + 1 }

/-- What the scripted issuer (and, with a write directory, the trust-anchor source / `dir.Write`)
makes of the outstanding request: the certificate if the fetch succeeds, and the rest of the script.
An exhausted script is an issuer failure. -/
def outcome (s : RN) : Option Cert × List Reply :=
  match s.script with
  | [] => (none, [])
  | .fail _ :: rest => (none, rest)     -- whatever the kind of the error: `if err != nil`
  | .ok nb na :: rest => (some ⟨s.reqTok, nb, na⟩, rest)
  | .okAnchorsFail nb na :: rest => (if s.dirOn then none else some ⟨s.reqTok, nb, na⟩, rest)

/-- Renewal time of the certificate a fetch returned (0 for a failed fetch). -/
def halfOf : Option Cert → Int
  | some c => renewalTime c.nb c.na
  | none => 0

/-- `fetchIdentityCertificate` returns at clock `now`: the request is logged; on success (and with a
write directory) ONE `dir.Write` of `{key, chain, anchors}` of this fetch. -/
def complete (s : RN) : RN × Option Cert :=
  let r := (outcome s).1
  ({ s with script := (outcome s).2,
            log := ⟨s.reqAt, s.reqTok, r.isSome, s.anchors, halfOf r, s.now⟩ :: s.log,
            pub := if s.dirOn && r.isSome then ⟨s.reqTok, s.reqTok, s.anchors⟩ :: s.pub else s.pub }, r)

/-- Top of the rotation loop: `clock.After(min(time.Minute, renewTime.Sub(clock.Now())))`. -/
def arm (s : RN) : RN :=
  let d := min minute (s.renewAt - s.now)
  { s with mode := .waiting, wakeAt := s.now + d, armedAt := s.now, timers := (s.now, d) :: s.timers }

/-- The armed timer fires (precondition `wakeAt ≤ now`). -/
def wake (s : RN) : RN :=
  match s.mode with
  | .dead => s
  | .inflight => s
  | .retrying => arm s                      -- `continue`: back to the top of the loop
  | .waiting =>
    if s.now < s.renewAt then arm s          -- `continue`
    else issue s false                       -- renew: the request goes out now

def RN.due (s : RN) : Bool := (s.mode == .waiting || s.mode == .retrying) && decide (s.wakeAt ≤ s.now)

/-- Timers fire as soon as `now ≥ deadline`: process wakes until none is due (at most two: the retry
timer, then the re-armed rotation timer with a non-positive duration). -/
def settle : Nat → RN → RN
  | 0, s => s
  | n + 1, s => if s.due then settle n (wake s) else s

def settled (s : RN) : RN := settle 3 s

/-- The issuer's answer is processed by the rotation goroutine (precondition: mode `inflight`):
failure of the initial fetch ends `Run`; failure of a renewal arms `clock.After(10 * time.Second)`;
success swaps `currentSVID` (under the write lock, see the LTS), recomputes the renewal time, re-arms. -/
def answerCore (s : RN) : RN :=
  match complete s with
  | (s1, none) =>
    if s.reqInit then { s1 with mode := .dead }
    else { s1 with mode := .retrying, wakeAt := s.now + tenSec, armedAt := s.now,
                   timers := (s.now, tenSec) :: s1.timers }
  | (s1, some c) => arm { s1 with svid := some c, renewAt := renewalTime c.nb c.na }

/-- The issuer answers the outstanding request. -/
def answer (s : RN) : RN := if s.mode = .inflight then settled (answerCore s) else s

/-- `Run` is called at time `t0`: the initial request goes out. -/
def start (dirOn : Bool) (anchors : Nat) (script : List Reply) (t0 : Int) : RN :=
  issue { now := t0, script := script, dirOn := dirOn, anchors := anchors } true

/-- The fake clock is advanced by `d`. -/
def advance (s : RN) (d : Int) : RN := settled { s with now := s.now + d }

/-- The trust-anchor source changes its bundle. -/
def setAnchors (s : RN) (a : Nat) : RN := { s with anchors := a }

inductive Act where
  | adv (d : Int)
  | anchors (a : Nat)
  | toWake            -- the clock is advanced exactly to the deadline of the armed timer
  | answer            -- the issuer answers the outstanding request
  deriving Repr

def act (s : RN) : Act → RN
  | .adv d => advance s d
  | .anchors a => setAnchors s a
  | .toWake =>
    if (s.mode = .waiting ∨ s.mode = .retrying) ∧ s.now < s.wakeAt then advance s (s.wakeAt - s.now) else s
  | .answer => answer s

/-- The states after each action of a scenario (what the driver prints and the harness compares). -/
def runActs (s : RN) : List Act → List RN
  | [] => []
  | a :: rest => act s a :: runActs (act s a) rest

/-- Scenario well-formedness: the clock only moves forward. -/
def Act.ok : Act → Bool
  | .adv d => decide (0 < d)
  | _ => true

/-- The script with every issuer error replaced by a plain one (kind `{}`), and a state over it. -/
def Reply.plain : Reply → Reply
  | .fail _ => .fail {}
  | r => r

def RN.plain (s : RN) : RN := { s with script := s.script.map Reply.plain }

/-- Most recent successful request of a log (newest first). -/
def lastGood : List Req → Option Nat
  | [] => none
  | r :: rest => if r.good then some r.tok else lastGood rest

end Kit.Spiffe
