/-
Instantiation of the enc/v1 model with the Lean-native primitives (`KitModel/Crypto`) and the
concrete codec (`KitModel/EncCodec`), and the line-protocol entry point used by
`kitdrv C01` / `kitdrv C02`.

ops (besides `ps`, `pst`, `rh` of `KitModel/EncDrv.lean`)
* `caps` → `real=1`
* `enc fk= np= wfk= kw= cph= keyname= plain=` → `doc=<hex>` (or `refuse=headerTooLong` when the
  header exceeds `segSize`, as `encryptImpl`/`SignHeader` do): the specification encoder
  `specEncrypt` (README.md) over AES-GCM / ChaCha20-Poly1305 / HKDF / HMAC written in Lean.
* `dec fk=<hex|none|empty|wfk> [uerr=1] keyname=<hex> data= caps= ewd= term=` → `out=<hex> term=<name>`:
  `decryptImpl` on the given source script; `fk` is what `UnwrapKeyFn` returned in the real run
  (`wfk` = identity unwrap, `none` = it was not called).
* `specdec fk= data=` → `out=<hex>` / `fail`: the README-only decoder `specDecrypt`.
Answers `unmodelled=<why>` when the manifest / key name is outside the modelled JSON subset.
-/
import KitModel.Go.Prelude
import KitModel.Enc
import KitModel.EncDrv
import KitModel.EncCodec
import KitModel.Crypto.Hmac
import KitModel.Crypto.Gcm
import KitModel.Crypto.ChaCha

namespace Kit.Enc.Real
open Kit Kit.Enc

def realCrypto : Crypto where
  aseal cph k n p := if cph == 2 then Kit.Crypto.chacha20Poly1305Seal k n p [] else Kit.Crypto.gcmSeal k n p []
  aopen cph k n x := if cph == 2 then Kit.Crypto.chacha20Poly1305Open k n x [] else Kit.Crypto.gcmOpen k n x []
  hkdf ikm salt info len := Kit.Crypto.hkdf .sha256 ikm salt info len
  hmac k msg := Kit.Crypto.hmac .sha256 k msg

def P : EncParams := EncParams.generated
def realCodec : Codec := Kit.Enc.Codec.real P

def answerReal (l : Line) : Option String :=
  match l.op with
  | "caps" => some "real=1"
  | "enc" => some <| (do
      let fk ← l.hex? "fk"
      let np ← l.hex? "np"
      let wfk ← l.hex? "wfk"
      let kw ← l.nat? "kw"
      let cph ← l.nat? "cph"
      let kn ← l.hex? "keyname"
      let plain ← l.hex? "plain"
      if !Kit.Enc.Codec.isAscii kn then pure "unmodelled=keyname-non-ascii"
      else if wfk.isEmpty then pure "refuse=emptyWrappedKey"
      else
        -- SignHeader's own limit, as in `encryptImpl`
        let hdr := signHeader realCrypto realCodec P fk (realCodec.render ⟨kn, kw, wfk, cph, np⟩)
        if hdr.length > P.segSize then pure s!"refuse=headerTooLong hdrlen={hdr.length}"
        else pure s!"doc={toHex (specEncrypt realCrypto realCodec P fk ⟨kn, kw, wfk, cph, np⟩ plain)}"
      : Option String).getD "bad-request"
  | "dec" => some <| (do
      let r ← Drv.readerOf l
      let kn ← l.hex? "keyname"
      let fkArg := (l.get? "fk").getD "none"
      let unwrap : Manifest → Bytes → Bytes ←
        if fkArg == "wfk" then some (fun m _ => m.wfk)
        else if fkArg == "none" || fkArg == "empty" then some (fun _ _ => [])
        else (fromHex fkArg).map (fun k => fun _ _ => k)
      -- is the manifest of this stream inside the modelled JSON subset?
      let unmodelled : Option String :=
        match readHeader P r with
        | .ok (ml, _, _) =>
          match Kit.Enc.Codec.parseManifest P ml with
          | .unmodelled why => some why
          | _ => none
        | .error _ => none
      match unmodelled with
      | some why => pure s!"unmodelled={why}"
      | none =>
        let uerr := (l.get? "uerr").getD "0" == "1"
        let res := decryptImpl realCrypto realCodec P ⟨kn, unwrap, fun _ _ => uerr⟩ r
        pure s!"out={toHex res.1} term={res.2.name}"
      : Option String).getD "bad-request"
  | "specdec" => some <| (do
      let fk ← l.hex? "fk"
      let doc ← l.hex? "data"
      match specDecrypt realCrypto realCodec P fk doc with
      | some p => pure s!"out={toHex p}"
      | none => pure "fail"
      : Option String).getD "bad-request"
  | _ => none

def answer (line : String) : String :=
  let l := parseLine line
  match Drv.answerBasic l with
  | some s => s
  | none =>
    match answerReal l with
    | some s => s
    | none => "unknown-op"

end Kit.Enc.Real
