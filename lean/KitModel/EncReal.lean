/-
Instantiation of the enc/v1 model with the Lean-native primitives (`KitModel/Crypto`) and the
concrete codec (`KitModel/EncCodec`), and the line-protocol entry point used by
`kitdrv C01` / `kitdrv C02`.
-/
import KitModel.Go.Prelude
import KitModel.Enc
import KitModel.EncDrv

namespace Kit.Enc.Real
open Kit Kit.Enc

def answer (line : String) : String :=
  let l := parseLine line
  match Drv.answerBasic l with
  | some s => s
  | none => "unknown-op"

end Kit.Enc.Real
