/-
Semantic prelude for code produced by the translator `harness/cmd/go2lean` (Go source → Lean
definitions, regenerated from /repo on every run). Core Lean only.

What a translated function looks like: a total Lean function returning `Res α`
  * `.ok v`      the Go function returned `v`
  * `.panic m`   the Go function would panic at run time (division by zero, index or slice bound,
                 explicit `panic(...)`)
  * `.nofuel`    a `for` loop was still running when the `fuel : Nat` argument ran out (termination
                 is then a theorem: "some fuel suffices")

Go types: `int`, `int64`, `time.Duration` are `Int` with every arithmetic result wrapped to 64 bits
(`wrapI64`, two's complement, exactly Go's overflow behaviour); `uint`, `uint64` are `BitVec 64`;
`byte` is `UInt8`; `bool` is `Bool`; `error` is `Err` (`none` = nil, `some name` = the sentinel of that
name); `[]byte` is `List UInt8` with capacity = length (a slice expression beyond the length is
reported as a panic although Go allows it up to the capacity: conservative for no-panic theorems).
-/
namespace Kit.GoSem

inductive Res (α : Type) where
  | ok (v : α)
  | panic (msg : String)
  | nofuel
  deriving Repr, DecidableEq

/-- What a translated loop hands back: the function returned inside the loop, or the loop ended
(condition false or `break`) with these values of the loop-carried variables. -/
inductive LoopOut (ρ σ : Type) where
  | ret (r : ρ)
  | brk (s : σ)
  deriving Repr, DecidableEq

/-- Like `LoopOut`, for a loop whose body contains `goto L` to a label outside the loop: `jmp`
hands the loop-carried variables back and the call site re-enters the label's region. -/
inductive LoopOutJ (ρ σ : Type) where
  | ret (r : ρ)
  | brk (s : σ)
  | jmp (s : σ)
  deriving Repr, DecidableEq

abbrev Err := Option String

/-- Two's-complement wrap to 64 bits: the value of a Go `int64` expression whose mathematical
result is `x`. -/
def wrapI64 (x : Int) : Int := Int.bmod x 18446744073709551616

def minI64 : Int := -9223372036854775808
def maxI64 : Int := 9223372036854775807

def InI64 (x : Int) : Prop := -9223372036854775808 ≤ x ∧ x ≤ 9223372036854775807

instance (x : Int) : Decidable (InI64 x) := by unfold InI64; exact inferInstance

theorem wrapI64_of_in {x : Int} (h : InI64 x) : wrapI64 x = x := by
  unfold InI64 at h
  unfold wrapI64
  rw [Int.bmod_def]
  split <;> omega

theorem wrapI64_in (x : Int) : InI64 (wrapI64 x) := by
  unfold InI64 wrapI64
  rw [Int.bmod_def]
  split <;> omega

/-- Go's `/` on signed integers truncates toward zero. -/
def divI64 (a b : Int) : Int := wrapI64 (Int.tdiv a b)
/-- Go's `%` on signed integers has the sign of the dividend. -/
def modI64 (a b : Int) : Int := Int.tmod a b

/-- `uint64(x)` / `uint(x)` of a signed value. -/
def u64OfInt (x : Int) : BitVec 64 := BitVec.ofInt 64 x
/-- `int64(x)` / `int(x)` of an unsigned value. -/
def intOfU64 (x : BitVec 64) : Int := x.toInt
/-- `byte(x)` of a signed value. -/
def byteOfInt (x : Int) : UInt8 := UInt8.ofNat (x % 256).toNat
/-- `int(b)` of a byte. -/
def intOfByte (b : UInt8) : Int := (b.toNat : Int)

/-- `len(s)` as a Go int. -/
def lenI {α : Type} (s : List α) : Int := (s.length : Int)

/-- `s[i]` for `0 ≤ i < len s` (the translator emits the bound check before the use). -/
def idx (s : List UInt8) (i : Int) : UInt8 := s.getD i.toNat 0

/-- `s[i] = v` for `0 ≤ i < len s` (the translator emits the bound check before the use). -/
def setAt {α : Type} (s : List α) (i : Int) (v : α) : List α := s.set i.toNat v

/-- A callee (an `io.Reader`) writes the data `d` into the window `s[lo:hi]` of the caller's
buffer: `d` is cut to the window's length; everything else keeps its value. -/
def writeAt {α : Type} (s : List α) (lo hi : Int) (d : List α) : List α :=
  s.take lo.toNat ++ d.take (hi.toNat - lo.toNat) ++ s.drop (lo.toNat + (d.take (hi.toNat - lo.toNat)).length)

/-- `binary.BigEndian.PutUint64(b, v)` for `len b ≥ 8`: the first eight bytes become `v`, big-endian
(the real function panics on a shorter slice; the translator's callers pass `make([]byte, 8)`). -/
def putU64BE (b : List UInt8) (v : BitVec 64) : List UInt8 :=
  (List.range 8).map (fun i => UInt8.ofNat ((v.toNat >>> (8 * (7 - i))) % 256)) ++ b.drop 8

/-- `s[i]` on a slice of abstract objects. -/
def idxG {α : Type} [Inhabited α] (s : List α) (i : Int) : α := s.getD i.toNat default

/-- `s[lo:hi]` for `0 ≤ lo ≤ hi ≤ len s` (the translator emits the bound check before the use). -/
def slice {α : Type} (s : List α) (lo hi : Int) : List α := (s.take hi.toNat).drop lo.toNat

/-- A callee that fills the caller's buffer `p` with the data `d` it produced (`d` is cut to the
buffer's length; the bytes behind it keep their old values). -/
def fill {α : Type} (p d : List α) : List α := d.take p.length ++ p.drop (d.take p.length).length

end Kit.GoSem
