/-
Go prelude for the executable models: bytes, outcomes, hex, and the `key=value`
line protocol shared with the Go harness.  Core Lean only (no Mathlib).
-/
namespace Kit

abbrev Bytes := List UInt8

/-- Result of a Go operation that may return an error or panic. -/
inductive Outcome (α : Type) where
  | ok (a : α)
  | err (e : String)
  | panic (why : String)
  deriving Repr, DecidableEq

namespace Outcome
def isPanic : Outcome α → Bool
  | .panic _ => true
  | _ => false
def isOk : Outcome α → Bool
  | .ok _ => true
  | _ => false
def bind (x : Outcome α) (f : α → Outcome β) : Outcome β :=
  match x with
  | .ok a => f a
  | .err e => .err e
  | .panic w => .panic w
instance : Monad Outcome where
  pure := .ok
  bind := bind
end Outcome

/-! ### hex -/

def hexDigit (n : Nat) : Char :=
  if n < 10 then Char.ofNat (48 + n) else Char.ofNat (87 + n)

def hexOfByte (b : UInt8) : List Char :=
  [hexDigit (b.toNat / 16), hexDigit (b.toNat % 16)]

def toHex (bs : Bytes) : String :=
  String.ofList (bs.flatMap hexOfByte)

def hexVal (c : Char) : Option Nat :=
  if '0' ≤ c ∧ c ≤ '9' then some (c.toNat - 48)
  else if 'a' ≤ c ∧ c ≤ 'f' then some (c.toNat - 87)
  else if 'A' ≤ c ∧ c ≤ 'F' then some (c.toNat - 55)
  else none

def fromHexChars : List Char → Option Bytes
  | [] => some []
  | [_] => none
  | a :: b :: rest =>
    match hexVal a, hexVal b, fromHexChars rest with
    | some x, some y, some r => some (UInt8.ofNat (x * 16 + y) :: r)
    | _, _, _ => none

def fromHex (s : String) : Option Bytes := fromHexChars s.toList

/-! ### line protocol: `op k1=v1 k2=v2 …` -/

structure Line where
  op : String
  kv : List (String × String)

def parseLine (s : String) : Line :=
  let ws := (s.trimAscii.toString.splitOn " ").filter (· ≠ "")
  match ws with
  | [] => { op := "", kv := [] }
  | op :: rest =>
    { op := op
      kv := rest.map fun w =>
        match w.splitOn "=" with
        | [k] => (k, "")
        | k :: vs => (k, "=".intercalate vs)
        | [] => ("", "") }

def Line.get? (l : Line) (k : String) : Option String :=
  (l.kv.find? (·.1 == k)).map (·.2)

def Line.nat? (l : Line) (k : String) : Option Nat :=
  (l.get? k).bind String.toNat?

def Line.int? (l : Line) (k : String) : Option Int :=
  (l.get? k).bind String.toInt?

def Line.hex? (l : Line) (k : String) : Option Bytes :=
  (l.get? k).bind fromHex

/-- `a,b,c` as a list of naturals; the empty string is the empty list. -/
def parseNats (s : String) : Option (List Nat) :=
  if s == "" then some [] else (s.splitOn ",").mapM String.toNat?

def Line.nats? (l : Line) (k : String) : Option (List Nat) :=
  (l.get? k).bind parseNats

def showNats (xs : List Nat) : String := ",".intercalate (xs.map toString)

/-- Read stdin line by line, answer one line per input line. -/
partial def lineLoop {σ : Type} (step : σ → String → σ × String) (s : σ) : IO Unit := do
  let stdin ← IO.getStdin
  let stdout ← IO.getStdout
  let rec go (s : σ) : IO Unit := do
    let line ← stdin.getLine
    if line.isEmpty then return ()
    let (s', out) := step s line
    stdout.putStrLn out
    stdout.flush
    go s'
  go s

end Kit
