/-
Executable model of `cron/spec.go` (`SpecSchedule.Next`, `dayStart`, `dayMatches`) and
`cron/constantdelay.go` (`Every`, `ConstantDelaySchedule.Next`) of dapr/kit — property C04, part
`C04Next`.

Instants are `Int` Unix seconds (the entry point takes nanoseconds and performs the code's
round-up to the next whole second).  A time zone is a finite transition table.  The parts of Go's
`time` package the code relies on are modelled here as well: zone lookup, wall-clock accessors,
`time.Date` (normalisation and its two-lookup resolution of local times that are missing or
repeated), `AddDate`, `Add`, `Truncate`.

The search is written exactly as the code does it: five loops, an explicit `added` flag,
`goto WRAP` as a recursive call; every loop carries a fuel argument.  Core Lean only.
-/
import KitModel.CronCal
import KitModel.Generated.C04Next

namespace Kit.CronSpec
open Kit.CronCal

/-! ### schedules -/

/-- The six `uint64` bit sets of `SpecSchedule` (bit 63 = star bit). -/
structure Sched where
  second : Nat
  minute : Nat
  hour : Nat
  dom : Nat
  month : Nat
  dow : Nat
  deriving Repr, DecidableEq

/-- `1<<uint(v) & set != 0` for a field value `v` (always in `0..31` here). -/
def has (set : Nat) (v : Int) : Bool := set.testBit v.toNat

/-- `set & starBit > 0` (`starBit` is regenerated from spec.go on every check). -/
def star (set : Nat) : Bool := set.testBit Generated.C04Next.starBit

/-! ### time zones -/

/-- Transition table: `(utcStart, offsetSeconds)` sorted by start.  The first entry's start is
ignored (its period extends to −∞), the last period extends to +∞. -/
abbrev Zone := List (Int × Int)

def alpha : Int := -9223372036854775808
def omegaT : Int := 9223372036854775807

def lookupAux : List (Int × Int) → Int → Int → Int → Int × Int × Int
  | [], off, start, _ => (off, start, omegaT)
  | (s, o) :: rest, off, start, u =>
    if u < s then (off, start, s) else lookupAux rest o s u

/-- `Location.lookup`: `(offset, start, end)` of the period containing `u`. -/
def lookup (z : Zone) (u : Int) : Int × Int × Int :=
  match z with
  | [] => (0, alpha, omegaT)
  | (_, o) :: rest => lookupAux rest o alpha u

/-- Zone with one constant offset (`time.UTC` is `fixedZone 0`). -/
def fixedZone (off : Int) : Zone := [(0, off)]

def offsetAt (z : Zone) (u : Int) : Int := (lookup z u).1

/-! ### wall-clock accessors -/

/-- Local seconds: what the wall clock shows, as seconds since 1970-01-01 00:00 local. -/
def localSec (z : Zone) (u : Int) : Int := u + offsetAt z u
def dayNum (z : Zone) (u : Int) : Int := localSec z u / 86400
def year (z : Zone) (u : Int) : Int := (civilFromDays (dayNum z u)).1
def month (z : Zone) (u : Int) : Int := (civilFromDays (dayNum z u)).2.1
def day (z : Zone) (u : Int) : Int := (civilFromDays (dayNum z u)).2.2
def hour (z : Zone) (u : Int) : Int := localSec z u % 86400 / 3600
def minute (z : Zone) (u : Int) : Int := localSec z u % 3600 / 60
def second (z : Zone) (u : Int) : Int := localSec z u % 60
def wday (z : Zone) (u : Int) : Int := weekday (dayNum z u)

/-! ### `time.Date`, `AddDate`, `Truncate` -/

/-- `time.Date(y, m, d, h, mi, s, 0, loc).Unix()`.  Month overflows into the year (`norm`); day,
hour, minute, second enter linearly, which is what Go's successive `norm` calls amount to.  The
zone is resolved as Go does: look up the local reading as if it were UTC; if that period's offset
is non-zero and the adjusted instant falls outside the period, use the offset found at the
adjusted instant. -/
def goDate (z : Zone) (y m d h mi s : Int) : Int :=
  let m0 := m - 1
  let y' := y + m0 / 12
  let m' := m0 % 12 + 1
  let unix := daysFromCivil y' m' d * 86400 + h * 3600 + mi * 60 + s
  let l := lookup z unix
  if l.1 ≠ 0 then
    let utc := unix - l.1
    if utc < l.2.1 ∨ utc ≥ l.2.2 then unix - offsetAt z utc else utc
  else unix

/-- `t.AddDate(dy, dm, dd)`. -/
def addDate (z : Zone) (t dy dm dd : Int) : Int :=
  goDate z (year z t + dy) (month z t + dm) (day z t + dd) (hour z t) (minute z t) (second z t)

/-- Seconds from Go's zero time (0001-01-01 00:00 UTC) to the Unix epoch. -/
def unixToInternal : Int := 62135596800

/-- `t.Truncate(d)` for a whole number of seconds `d`: multiples are counted from the zero time. -/
def truncate (t d : Int) : Int := t - (t + unixToInternal) % d

/-! ### the search -/

/-- `dayStart` of spec.go. -/
def dayStart (z : Zone) (t : Int) : Int :=
  let h := hour z t
  if h > 12 then t + (24 - h) * 3600
  else if h > 0 then
    let u := t - h * 3600
    if day z u = day z t then u else t
  else
    let u := t - 3600
    if hour z u = 0 ∧ day z u = day z t then u else t

/-- `dayMatches` of spec.go. -/
def dayMatches (s : Sched) (z : Zone) (t : Int) : Bool :=
  let domMatch := has s.dom (day z t)
  let dowMatch := has s.dow (wday z t)
  if star s.dom || star s.dow then domMatch && dowMatch else domMatch || dowMatch

/-- How one of the five `for` loops ends. -/
inductive LoopOut where
  | next (t : Int) (added : Bool)   -- condition satisfied: fall through to the next loop
  | wrap (t : Int) (added : Bool)   -- `goto WRAP`
  | fuel                             -- loop bound exhausted (the code would still be looping)
  deriving Repr, DecidableEq

/-- One `for` loop of `Next`: while `ok t` fails, (on first advance: `added = true; t = reset t`),
`t = inc t`, and `goto WRAP` when `wrapped tBefore tAfter`. -/
def loop (ok : Int → Bool) (reset inc : Int → Int) (wrapped : Int → Int → Bool) :
    Nat → Int → Bool → LoopOut
  | 0, _, _ => .fuel
  | f + 1, t, added =>
    if ok t then .next t added
    else
      let t1 := if added then t else reset t
      let t2 := inc t1
      if wrapped t1 t2 then .wrap t2 true else loop ok reset inc wrapped f t2 true

def monthLoop (s : Sched) (z : Zone) : Nat → Int → Bool → LoopOut :=
  loop (fun t => has s.month (month z t))
    (fun t => dayStart z (goDate z (year z t) (month z t) 1 0 0 0))
    (fun t => dayStart z (addDate z t 0 1 0))
    (fun _ t2 => month z t2 = 1)

/-- The day loop's step: `dayStart(t.AddDate(0,0,1))`, or two days ahead when that did not advance
(the next local day does not exist: Pacific/Apia skipped 2011-12-30). -/
def dayInc (z : Zone) (t : Int) : Int :=
  let n := dayStart z (addDate z t 0 0 1)
  if t < n then n else dayStart z (addDate z t 0 0 2)

def dayLoop (s : Sched) (z : Zone) : Nat → Int → Bool → LoopOut :=
  loop (fun t => dayMatches s z t)
    (fun t => goDate z (year z t) (month z t) (day z t) 0 0 0)
    (fun t => dayInc z t)
    (fun _ t2 => day z t2 = 1)

def hourLoop (s : Sched) (z : Zone) : Nat → Int → Bool → LoopOut :=
  loop (fun t => has s.hour (hour z t))
    (fun t => goDate z (year z t) (month z t) (day z t) (hour z t) 0 0)
    (fun t => t + 3600)
    (fun t1 t2 => hour z t2 = 0 ∨ day z t2 ≠ day z t1)

def minuteLoop (s : Sched) (z : Zone) : Nat → Int → Bool → LoopOut :=
  loop (fun t => has s.minute (minute z t))
    (fun t => truncate t 60)
    (fun t => t + 60)
    (fun _ t2 => minute z t2 = 0)

def secondLoop (s : Sched) (z : Zone) : Nat → Int → Bool → LoopOut :=
  loop (fun t => has s.second (second z t))
    (fun t => truncate t 1)
    (fun t => t + 1)
    (fun _ t2 => second z t2 = 0)

/-- Result of `Next`. -/
inductive Result where
  | at (t : Int)   -- Unix seconds
  | zero           -- `time.Time{}`
  | fuel           -- a loop bound of the model was exhausted
  deriving Repr, DecidableEq

/-- Bound given to each of the five inner loops. -/
def innerFuel : Nat := 200

/-- How one pass through the five loops (from label `WRAP` to the `return`) ends. -/
inductive PassOut where
  | wrap (t : Int) (added : Bool)   -- some loop executed `goto WRAP`
  | done (t : Int)                   -- all five conditions hold: `return t`
  | fuel
  deriving Repr, DecidableEq

/-- Continue after a loop: `goto WRAP`, fall through, or give up. -/
def LoopOut.andThen (o : LoopOut) (k : Int → Bool → PassOut) : PassOut :=
  match o with
  | .fuel => .fuel
  | .wrap t a => .wrap t a
  | .next t a => k t a

/-- The five loops once. -/
def pass (s : Sched) (z : Zone) (t : Int) (added : Bool) : PassOut :=
  (monthLoop s z innerFuel t added).andThen fun t a =>
  (dayLoop s z innerFuel t a).andThen fun t a =>
  (hourLoop s z innerFuel t a).andThen fun t a =>
  (minuteLoop s z innerFuel t a).andThen fun t a =>
  (secondLoop s z innerFuel t a).andThen fun t _ => .done t

/-- The code from label `WRAP` on (`goto WRAP` = the recursive call, a tail call). -/
def nextFrom (s : Sched) (z : Zone) (yearLimit : Int) : Nat → Int → Bool → Result
  | 0, _, _ => .fuel
  | f + 1, t, added =>
    if year z t > yearLimit then .zero
    else
      match pass s z t added with
      | .fuel => .fuel
      | .wrap t' a' => nextFrom s z yearLimit f t' a'
      | .done r => .at r

/-- `t.Add(1s − t.Nanosecond())` on a nanosecond instant, expressed in whole seconds. -/
def roundUp (tn : Int) : Int := (tn + (1000000000 - tn % 1000000000)) / 1000000000

/-- Bound on the number of `goto WRAP`s (every one of them moves `t` forward by at least a second,
and the search stops after at most 2233 days). -/
def outerFuel : Nat := 200000000

/-- `SpecSchedule.Next` on a nanosecond instant `tn`; the answer is in Unix seconds. -/
def next (s : Sched) (z : Zone) (tn : Int) : Result :=
  let t := roundUp tn
  nextFrom s z (year z t + Generated.C04Next.yearLimitAdd) outerFuel t false

/-! ### specification: what "matches on the wall clock" means (cron/doc.go)

Independent of the search loops: a whole second matches when the second, minute, hour and month
read on the zone's wall clock are in their sets and the day rule holds — if either day field is
unrestricted (star) both day-of-month and day-of-week must be in their sets, if both are
restricted either suffices. -/

def dayRule (s : Sched) (z : Zone) (u : Int) : Prop :=
  if star s.dom = true ∨ star s.dow = true
  then has s.dom (day z u) = true ∧ has s.dow (wday z u) = true
  else has s.dom (day z u) = true ∨ has s.dow (wday z u) = true

instance (s : Sched) (z : Zone) (u : Int) : Decidable (dayRule s z u) := by
  unfold dayRule; exact inferInstance

/-- The whole second `u` (Unix seconds) matches schedule `s` on the wall clock of `z`. -/
def Matches (s : Sched) (z : Zone) (u : Int) : Prop :=
  has s.second (second z u) = true ∧ has s.minute (minute z u) = true ∧
  has s.hour (hour z u) = true ∧ has s.month (month z u) = true ∧ dayRule s z u

instance (s : Sched) (z : Zone) (u : Int) : Decidable (Matches s z u) := by
  unfold Matches; exact inferInstance

/-- The nanosecond instant `n` is a whole second that matches. -/
def MatchesN (s : Sched) (z : Zone) (n : Int) : Prop :=
  n % 1000000000 = 0 ∧ Matches s z (n / 1000000000)

/-! ### `@every` -/

/-- `Every(d).Delay` (nanoseconds).  Go's `%` truncates, but the operand is positive here. -/
def everyDelay (d : Int) : Int :=
  let d := if d < 1000000000 then 1000000000 else d
  d - d % 1000000000

/-- `ConstantDelaySchedule{delay}.Next(t)` (all in nanoseconds). -/
def everyNext (delay tn : Int) : Int := tn + (delay - tn % 1000000000)

end Kit.CronSpec
