import KitProofs.Props.C06
import KitProofs.Census
#census KitProofs.Props.C06
