import KitProofs.Props.C20
import KitProofs.Census
#census KitProofs.Props.C20
