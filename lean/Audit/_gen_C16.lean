import KitProofs.Props.C16
import KitProofs.Props.C16Code
import KitProofs.Props.C16CodeTee
import KitProofs.Census
#census KitProofs.Props.C16
#census KitProofs.Props.C16Code
#census KitProofs.Props.C16CodeTee
