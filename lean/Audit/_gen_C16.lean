import KitProofs.Props.C16
import KitProofs.Census
#census KitProofs.Props.C16
