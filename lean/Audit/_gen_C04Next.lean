import KitProofs.Props.C04Next
import KitProofs.Props.C04Bridge
import KitProofs.Props.C04Dst
import KitProofs.Census
#census KitProofs.Props.C04Next
#census KitProofs.Props.C04Bridge
#census KitProofs.Props.C04Dst
