import KitProofs.Props.C09
import KitProofs.Census
#census KitProofs.Props.C09
