import KitProofs.Props.C19
import KitProofs.Props.C19Dir
import KitProofs.Props.C19TA
import KitProofs.Census
#census KitProofs.Props.C19
#census KitProofs.Props.C19Dir
#census KitProofs.Props.C19TA
