import KitProofs.Props.C13
import KitProofs.Census
#census KitProofs.Props.C13
