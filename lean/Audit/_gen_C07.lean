import KitProofs.Props.C07
import KitProofs.Props.C07Sites
import KitProofs.Props.C07Imported
import KitProofs.Census
#census KitProofs.Props.C07
#census KitProofs.Props.C07Sites
#census KitProofs.Props.C07Imported
