import KitProofs.Props.C14
import KitProofs.Census
#census KitProofs.Props.C14
