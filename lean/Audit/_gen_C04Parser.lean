import KitProofs.Props.C04Parser
import KitProofs.Census
#census KitProofs.Props.C04Parser
