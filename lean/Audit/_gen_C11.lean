import KitProofs.Props.C11
import KitProofs.Census
#census KitProofs.Props.C11
