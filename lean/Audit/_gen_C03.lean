import KitProofs.Props.C03
import KitProofs.Props.C03Code
import KitProofs.Census
#census KitProofs.Props.C03
#census KitProofs.Props.C03Code
