import KitProofs.Props.C03
import KitProofs.Props.C03Code
import KitProofs.Props.C03CodePad
import KitProofs.Census
#census KitProofs.Props.C03
#census KitProofs.Props.C03Code
#census KitProofs.Props.C03CodePad
