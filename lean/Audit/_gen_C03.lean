import KitProofs.Props.C03
import KitProofs.Census
#census KitProofs.Props.C03
