import KitProofs.Props.C08
import KitProofs.Census
#census KitProofs.Props.C08
