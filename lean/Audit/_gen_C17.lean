import KitProofs.Props.C17
import KitProofs.Census
#census KitProofs.Props.C17
