import KitProofs.Props.C18
import KitProofs.Census
#census KitProofs.Props.C18
