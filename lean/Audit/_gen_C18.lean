import KitProofs.Props.C18
import KitProofs.Props.C18Frame
import KitProofs.Census
#census KitProofs.Props.C18
#census KitProofs.Props.C18Frame
