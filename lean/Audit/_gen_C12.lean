import KitProofs.Props.C12
import KitProofs.Census
#census KitProofs.Props.C12
