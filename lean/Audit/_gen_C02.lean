import KitProofs.Props.C02
import KitProofs.Props.C01Code
import KitProofs.Props.C01CodeHeader
import KitProofs.Census
#census KitProofs.Props.C02
#census KitProofs.Props.C01Code
#census KitProofs.Props.C01CodeHeader
