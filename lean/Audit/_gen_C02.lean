import KitProofs.Props.C02
import KitProofs.Census
#census KitProofs.Props.C02
