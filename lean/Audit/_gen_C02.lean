import KitProofs.Props.C02
import KitProofs.Props.C01Code
import KitProofs.Census
#census KitProofs.Props.C02
#census KitProofs.Props.C01Code
