import KitProofs.Props.C01
import KitProofs.Props.C01NoPanic
import KitProofs.Props.C01Code
import KitProofs.Census
#census KitProofs.Props.C01
#census KitProofs.Props.C01NoPanic
#census KitProofs.Props.C01Code
