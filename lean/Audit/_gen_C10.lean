import KitProofs.Props.C10
import KitProofs.Census
#census KitProofs.Props.C10
