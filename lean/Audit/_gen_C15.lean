import KitProofs.Props.C15
import KitProofs.Census
#census KitProofs.Props.C15
