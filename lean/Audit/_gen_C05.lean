import KitProofs.Props.C05
import KitProofs.Props.C05Chain
import KitProofs.Census
#census KitProofs.Props.C05
#census KitProofs.Props.C05Chain
