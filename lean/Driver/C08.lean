import KitModel.Go.Prelude
import KitModel.PoolOwnership
import KitModel.Generated.C08
/-!
Driver for property C08: `kitdrv C08` reads op lines on stdin, one answer line per input line.
Every answer is computed by RUNNING the executable definitions of `KitModel/PoolOwnership.lean`
with the facts regenerated from the source (`Generated.C08.headerRet` = what `readHeader` returns).

* `rh doc=<hex> chunk=<k>` — `readHeader` on a stream delivering `doc` in reads of at most `k`
  bytes (`0` = as much as asked): `err` or
  `ok man=<hex> mac=<hex> restlen=<n> alias=<0|1>,<0|1>` (the bytes are read out of the model heap
  through the returned slices after the buffer was put back).
* `forced mode=nest|nestdec|scribble a=<hex> b=<hex> [variant=prefix|fixed]` — thread A =
  `Decrypt(a)`; it runs up to the hook after `readHeader`; then B (a complete pipeline / only
  Decrypt / take-scribble-put) runs to its end, the pool handing out the most recently put buffer;
  then A finishes.  Answer: `a=same|differs b=same|differs access=ok|violated steps=<n>`
  (`same` = the log equals `soloLog`; `access` = was every array touched owned by the toucher).
* `open docs=<hex>,… chunks=<k>.<k>.… order=<i>.<i>.… [variant=suralias]` — every document a Decrypt
  stream (reads of at most `k` bytes, `0` = one Read delivers all); ALL are opened (each runs up to
  the return of `Decrypt`), the pool handing out the buffer Put last; then the goroutines are run
  to their end in `order` (`openAllThenDrain`).  Answer: `streams=<same|differs>,… finished=<0|1>`
  (`same` = the stream's log, the read of the pushed-back bytes included, equals its `soloLog`).
* `bsp mincap=<m> ops=g<cap>,r<size>,f<byte>,…` — ByteSlicePool Get/Resize/fill on one acquisition.
* `reg ops=n0,n1,s,n0,…` — the logger-registry specification run sequentially.
* `interleave seed=<n> docs=<hex>,<hex>,… [variant=…]` — a pseudo-random schedule with
  pseudo-random pool choices over Decrypt threads; same answer format (`a` = all threads).
-/
namespace Driver.C08
open Kit Kit.PoolOwn

def toBytes (bs : Kit.Bytes) : List Byte := bs.map (·.toNat)
def hexOf (l : List Byte) : String := Kit.toHex (l.map UInt8.ofNat)

def retOf (l : Kit.Line) : HeaderRet :=
  match l.get? "variant" with
  | some "prefix" => retPreFix
  | some "fixed" => retFixed
  | _ => Kit.Generated.C08.headerRet

/-- what the pushed-back reader keeps: the regenerated fact, or the self-test variant -/
def surOf (l : Kit.Line) : RetKind :=
  match l.get? "variant" with
  | some "suralias" => .alias
  | _ => Kit.Generated.C08.surplusRet

def b2s (b : Bool) : String := if b then "1" else "0"

/-- run thread `t` alone for `fuel` steps, fresh buffers only -/
def runAlone (s : State) (t : Nat) : Nat → State
  | 0 => s
  | fuel + 1 =>
    match step s t none with
    | some s' => runAlone s' t fuel
    | none => s

def doRH (l : Kit.Line) : String :=
  match l.hex? "doc", l.nat? "chunk" with
  | some doc, some k =>
    let doc := toBytes doc
    let ret := retOf l
    let reads := chunksOf (doc.length + 1) k doc
    let r := readHeaderProg ret segmentSize 0 reads
    match r.2 with
    | none => "err"
    | some o =>
      let s := runAlone (init fun t => if t = 0 then r.1 else []) 0 (r.1.length + 1)
      let th := s.thr 0
      let man := readCells (s.heap (th.tbl o.man.h)) o.man.off o.man.len
      let mac := readCells (s.heap (th.tbl o.mac.h)) o.mac.off o.mac.len
      s!"ok man={hexOf man} mac={hexOf mac} restlen={doc.length - o.hdrLen} alias={b2s (ret.manifest == .alias)},{b2s (ret.mac == .alias)}"
  | _, _ => "bad-request"

/-- one step of thread `t` with the pool's choice `c`, recording whether the access was owned -/
def stepChk (s : State) (ok : Bool) (t : Nat) (c : Option Nat) : Option (State × Bool) :=
  match step s t c with
  | some s' => some (s', ok && accessOk s t)
  | none => none

/-- run `t` until it has executed its first `yield` (or ends); LIFO pool -/
def runToYield (s : State) (ok : Bool) (t : Nat) : Nat → State × Bool × Nat
  | 0 => (s, ok, 0)
  | fuel + 1 =>
    let isYield := match (s.thr t).prog with | .yield :: _ => true | _ => false
    match stepChk s ok t s.pool.head? with
    | some (s', ok') =>
      if isYield then (s', ok', 1)
      else let r := runToYield s' ok' t fuel; (r.1, r.2.1, r.2.2 + 1)
    | none => (s, ok, 0)

def runToEnd (s : State) (ok : Bool) (t : Nat) : Nat → State × Bool × Nat
  | 0 => (s, ok, 0)
  | fuel + 1 =>
    match stepChk s ok t s.pool.head? with
    | some (s', ok') => let r := runToEnd s' ok' t fuel; (r.1, r.2.1, r.2.2 + 1)
    | none => (s, ok, 0)

/-- Decrypt thread (the goroutine's read of the pushed-back bytes included, `sur` = what that
reader keeps) -/
def decryptOf (sur : RetKind) (ret : HeaderRet) (hb : Nat) (doc : List Byte) : List Instr :=
  decryptProgS sur ret segmentSize hb [doc.take segmentSize] (bodyOf 0 doc)

def sameStr (b : Bool) : String := if b then "same" else "differs"

def doForced (l : Kit.Line) : String :=
  match l.get? "mode", l.hex? "a", l.hex? "b" with
  | some mode, some a, some b =>
    let ret := retOf l
    let sur := surOf l
    let a := toBytes a
    let b := toBytes b
    let pa := decryptOf sur ret 0 a
    let pb : List Instr :=
      if mode == "nest" then encryptProg 0 (bodyOf 0 b) ++ decryptOf sur ret 1 b
      else if mode == "nestdec" then decryptOf sur ret 0 b
      else [.get, .write 0 0 (List.replicate (max 64 (a.length + b.length)) 170), .put 0]
    let s0 := init fun t => if t = 0 then pa else if t = 1 then pb else []
    let r1 := runToYield s0 true 0 (pa.length + 1)
    let r2 := runToEnd r1.1 r1.2.1 1 (pb.length + 1)
    let r3 := runToEnd r2.1 r2.2.1 0 (pa.length + 1)
    let s := r3.1
    let sa := (s.thr 0).log == soloLog pa && (s.thr 0).prog.isEmpty
    let sb := (s.thr 1).log == soloLog pb && (s.thr 1).prog.isEmpty
    s!"a={sameStr sa} b={sameStr sb} access={if r3.2.1 then "ok" else "violated"} steps={r1.2.2 + r2.2.2 + r3.2.2}"
  | _, _, _ => "bad-request"

def lcg (x : Nat) : Nat := (x * 6364136223846793005 + 1442695040888963407) % 18446744073709551616

/-- pseudo-random schedule: pick a thread, pick fresh or some pooled buffer -/
def runRandom (n : Nat) (s : State) (ok : Bool) (seed : Nat) : Nat → State × Bool × Nat
  | 0 => (s, ok, 0)
  | fuel + 1 =>
    let x := lcg seed
    let t := (x / 65536) % n
    let y := lcg x
    let c : Option Nat :=
      if s.pool.isEmpty || (y / 65536) % 3 == 0 then none else s.pool[(y / 131072) % s.pool.length]?
    match stepChk s ok t c with
    | some (s', ok') => let r := runRandom n s' ok' y fuel; (r.1, r.2.1, r.2.2 + 1)
    | none =>
      -- thread finished: give the step to the first unfinished thread, if any
      match (List.range n).find? fun u => !(s.thr u).prog.isEmpty with
      | some u =>
        match stepChk s ok u c with
        | some (s', ok') => let r := runRandom n s' ok' y fuel; (r.1, r.2.1, r.2.2 + 1)
        | none => (s, ok, 0)
      | none => (s, ok, 0)

def doInterleave (l : Kit.Line) : String :=
  match l.nat? "seed", l.get? "docs" with
  | some seed, some ds =>
    match (ds.splitOn ",").mapM Kit.fromHex with
    | some docs =>
      let ret := retOf l
      let progs := docs.map fun d => decryptOf (surOf l) ret 0 (toBytes d)
      let n := progs.length
      if n = 0 then "bad-request" else
      let s0 := init fun t => progs.getD t []
      let total := progs.foldl (fun acc p => acc + p.length) 0
      let r := runRandom n s0 true seed (total + 1)
      let s := r.1
      let all := (List.range n).all fun t => (s.thr t).log == soloLog (progs.getD t []) && (s.thr t).prog.isEmpty
      s!"a={sameStr all} b=same access={if r.2.1 then "ok" else "violated"} steps={r.2.2}"
    | none => "bad-request"
  | _, _ => "bad-request"

def natsOf (s : String) : Option (List Nat) :=
  if s == "" then some [] else (s.splitOn ".").mapM (·.toNat?)

def doOpen (l : Kit.Line) : String :=
  match l.get? "docs", (l.get? "chunks").bind natsOf, (l.get? "order").bind natsOf with
  | some ds, some chunks, some order =>
    match (ds.splitOn ",").mapM Kit.fromHex with
    | some docs =>
      let ret := retOf l
      let sur := surOf l
      let specs : List (Nat × List Byte) := (List.range docs.length).map fun i => (chunks.getD i 0, toBytes (docs.getD i []))
      let s := openAllThenDrain sur ret specs order
      let per := (List.range specs.length).map fun t =>
        sameStr ((s.thr t).log == soloLog (openProgs sur ret specs t))
      let fin := (List.range specs.length).all fun t => (s.thr t).prog.isEmpty
      s!"streams={",".intercalate per} finished={b2s fin}"
    | none => "bad-request"
  | _, _, _ => "bad-request"

/-- `reg ops=<n|s>,…` — the registry specification run sequentially from the empty registry:
`n<k>` = NewLogger(name k) answers the logger's identity, `s` = snapshot answers the names -/
def doReg (l : Kit.Line) : String :=
  match l.get? "ops" with
  | some ops =>
    let toks := if ops == "" then [] else ops.splitOn ","
    let rec go (st : List Nat) (ts : List String) (acc : List String) : List String :=
      match ts with
      | [] => acc.reverse
      | t :: rest =>
        if t == "s" then
          let r := regApply st .snapshot
          go r.1 rest (("s:" ++ ".".intercalate (st.map toString)) :: acc)
        else
          match (t.drop 1).toString.toNat? with
          | some k =>
            let r := regApply st (.newLogger k)
            match r.2 with
            | .id i => go r.1 rest (("id:" ++ toString i) :: acc)
            | .names _ => go r.1 rest ("?" :: acc)
          | none => go st rest ("bad" :: acc)
    " ".intercalate (go [] toks [])
  | none => "bad-request"

/-- `bsp mincap=<m> ops=g<cap>,r<size>,f<byte>,…` — one acquisition from an EMPTY pool: `Get`,
`Resize`, filling `[0:len)`; answers `len/cap/<hex of the elements>` after every call -/
def doBsp (l : Kit.Line) : String :=
  match l.nat? "mincap", l.get? "ops" with
  | some mc, some ops =>
    let toks := if ops == "" then [] else ops.splitOn ","
    let rec go (p : PSlice) (ts : List String) (acc : List String) : List String :=
      match ts with
      | [] => acc.reverse
      | t :: rest =>
        match (t.drop 1).toString.toNat? with
        | none => go p rest ("bad" :: acc)
        | some n =>
          let p' : PSlice :=
            if t.startsWith "g" then bspFresh (max n mc)
            else if t.startsWith "r" then bspResize p n
            else { p with cells := List.replicate (min p.len p.cells.length) n ++ p.cells.drop p.len }
          go p' rest (s!"{p'.len}/{p'.cells.length}/{hexOf p'.elems}" :: acc)
    " ".intercalate (go (bspFresh 0) toks [])
  | _, _ => "bad-request"

def answer (line : String) : String :=
  let l := Kit.parseLine line
  match l.op with
  | "rh" => doRH l
  | "forced" => doForced l
  | "interleave" => doInterleave l
  | "open" => doOpen l
  | "reg" => doReg l
  | "bsp" => doBsp l
  | "facts" => s!"headerRet={repr Kit.Generated.C08.headerRet} surplusRet={repr Kit.Generated.C08.surplusRet}"
  | _ => "bad-request"

def main (_args : List String) : IO UInt32 := do
  Kit.lineLoop (fun (_ : Unit) l => ((), answer l)) ()
  return 0

end Driver.C08
