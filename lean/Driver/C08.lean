import KitModel.Go.Prelude
/-! Driver for property C08: `kitdrv C08` reads op lines on stdin, one answer line per input line. -/
namespace Driver.C08
def main (_args : List String) : IO UInt32 := do
  IO.eprintln "kitdrv: C08 has no model driver yet"
  return 2
end Driver.C08
