import Driver.C19
/-! Stand-alone driver for C19 (`kitdrv_C19 [C19] args…`): depends only on C19's own model files, so a
change in another property's generated facts cannot break this property's check. -/
def main (args : List String) : IO UInt32 :=
  match args with
  | "C19" :: rest => Driver.C19.main rest
  | rest => Driver.C19.main rest
