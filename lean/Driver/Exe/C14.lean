import Driver.C14
/-! Stand-alone driver for C14 (`kitdrv_C14 [C14] args…`): depends only on C14's own model files, so a
change in another property's generated facts cannot break this property's check. -/
def main (args : List String) : IO UInt32 :=
  match args with
  | "C14" :: rest => Driver.C14.main rest
  | rest => Driver.C14.main rest
