import Driver.C17
/-! Stand-alone driver for C17 (`kitdrv_C17 [C17] args…`): depends only on C17's own model files, so a
change in another property's generated facts cannot break this property's check. -/
def main (args : List String) : IO UInt32 :=
  match args with
  | "C17" :: rest => Driver.C17.main rest
  | rest => Driver.C17.main rest
