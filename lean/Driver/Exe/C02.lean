import Driver.C02
/-! Stand-alone driver for C02 (`kitdrv_C02 [C02] args…`): depends only on C02's own model files, so a
change in another property's generated facts cannot break this property's check. -/
def main (args : List String) : IO UInt32 :=
  match args with
  | "C02" :: rest => Driver.C02.main rest
  | rest => Driver.C02.main rest
