import Driver.C20
/-! Stand-alone driver for C20 (`kitdrv_C20 [C20] args…`): depends only on C20's own model files, so a
change in another property's generated facts cannot break this property's check. -/
def main (args : List String) : IO UInt32 :=
  match args with
  | "C20" :: rest => Driver.C20.main rest
  | rest => Driver.C20.main rest
