import Driver.C09
/-! Stand-alone driver for C09 (`kitdrv_C09 [C09] args…`): depends only on C09's own model files, so a
change in another property's generated facts cannot break this property's check. -/
def main (args : List String) : IO UInt32 :=
  match args with
  | "C09" :: rest => Driver.C09.main rest
  | rest => Driver.C09.main rest
