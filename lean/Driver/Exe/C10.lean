import Driver.C10
/-! Stand-alone driver for C10 (`kitdrv_C10 [C10] args…`): depends only on C10's own model files, so a
change in another property's generated facts cannot break this property's check. -/
def main (args : List String) : IO UInt32 :=
  match args with
  | "C10" :: rest => Driver.C10.main rest
  | rest => Driver.C10.main rest
