import Driver.C07
/-! Stand-alone driver for C07 (`kitdrv_C07 [C07] args…`): depends only on C07's own model files, so a
change in another property's generated facts cannot break this property's check. -/
def main (args : List String) : IO UInt32 :=
  match args with
  | "C07" :: rest => Driver.C07.main rest
  | rest => Driver.C07.main rest
