import Driver.C15
/-! Stand-alone driver for C15 (`kitdrv_C15 [C15] args…`): depends only on C15's own model files, so a
change in another property's generated facts cannot break this property's check. -/
def main (args : List String) : IO UInt32 :=
  match args with
  | "C15" :: rest => Driver.C15.main rest
  | rest => Driver.C15.main rest
