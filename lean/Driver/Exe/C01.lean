import Driver.C01
/-! Stand-alone driver for C01 (`kitdrv_C01 [C01] args…`): depends only on C01's own model files, so a
change in another property's generated facts cannot break this property's check. -/
def main (args : List String) : IO UInt32 :=
  match args with
  | "C01" :: rest => Driver.C01.main rest
  | rest => Driver.C01.main rest
