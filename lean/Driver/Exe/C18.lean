import Driver.C18
/-! Stand-alone driver for C18 (`kitdrv_C18 [C18] args…`): depends only on C18's own model files, so a
change in another property's generated facts cannot break this property's check. -/
def main (args : List String) : IO UInt32 :=
  match args with
  | "C18" :: rest => Driver.C18.main rest
  | rest => Driver.C18.main rest
