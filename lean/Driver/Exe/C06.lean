import Driver.C06
/-! Stand-alone driver for C06 (`kitdrv_C06 [C06] args…`): depends only on C06's own model files, so a
change in another property's generated facts cannot break this property's check. -/
def main (args : List String) : IO UInt32 :=
  match args with
  | "C06" :: rest => Driver.C06.main rest
  | rest => Driver.C06.main rest
