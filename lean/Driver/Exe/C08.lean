import Driver.C08
/-! Stand-alone driver for C08 (`kitdrv_C08 [C08] args…`): depends only on C08's own model files, so a
change in another property's generated facts cannot break this property's check. -/
def main (args : List String) : IO UInt32 :=
  match args with
  | "C08" :: rest => Driver.C08.main rest
  | rest => Driver.C08.main rest
