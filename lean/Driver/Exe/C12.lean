import Driver.C12
/-! Stand-alone driver for C12 (`kitdrv_C12 [C12] args…`): depends only on C12's own model files, so a
change in another property's generated facts cannot break this property's check. -/
def main (args : List String) : IO UInt32 :=
  match args with
  | "C12" :: rest => Driver.C12.main rest
  | rest => Driver.C12.main rest
