import Driver.C05
/-! Stand-alone driver for C05 (`kitdrv_C05 [C05] args…`): depends only on C05's own model files, so a
change in another property's generated facts cannot break this property's check. -/
def main (args : List String) : IO UInt32 :=
  match args with
  | "C05" :: rest => Driver.C05.main rest
  | rest => Driver.C05.main rest
