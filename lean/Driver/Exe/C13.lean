import Driver.C13
/-! Stand-alone driver for C13 (`kitdrv_C13 [C13] args…`): depends only on C13's own model files, so a
change in another property's generated facts cannot break this property's check. -/
def main (args : List String) : IO UInt32 :=
  match args with
  | "C13" :: rest => Driver.C13.main rest
  | rest => Driver.C13.main rest
