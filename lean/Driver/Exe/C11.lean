import Driver.C11
/-! Stand-alone driver for C11 (`kitdrv_C11 [C11] args…`): depends only on C11's own model files, so a
change in another property's generated facts cannot break this property's check. -/
def main (args : List String) : IO UInt32 :=
  match args with
  | "C11" :: rest => Driver.C11.main rest
  | rest => Driver.C11.main rest
