import Driver.C03
/-! Stand-alone driver for C03 (`kitdrv_C03 [C03] args…`): depends only on C03's own model files, so a
change in another property's generated facts cannot break this property's check. -/
def main (args : List String) : IO UInt32 :=
  match args with
  | "C03" :: rest => Driver.C03.main rest
  | rest => Driver.C03.main rest
