import Driver.C04
/-! Stand-alone driver for C04 (`kitdrv_C04 [C04] args…`): depends only on C04's own model files, so a
change in another property's generated facts cannot break this property's check. -/
def main (args : List String) : IO UInt32 :=
  match args with
  | "C04" :: rest => Driver.C04.main rest
  | rest => Driver.C04.main rest
