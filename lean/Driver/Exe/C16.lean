import Driver.C16
/-! Stand-alone driver for C16 (`kitdrv_C16 [C16] args…`): depends only on C16's own model files, so a
change in another property's generated facts cannot break this property's check. -/
def main (args : List String) : IO UInt32 :=
  match args with
  | "C16" :: rest => Driver.C16.main rest
  | rest => Driver.C16.main rest
