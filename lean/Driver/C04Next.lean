import KitModel.Go.Prelude
namespace Driver.C04Next
def main (_args : List String) : IO UInt32 := do
  IO.eprintln "kitdrv: C04 Next driver not written yet"
  return 2
end Driver.C04Next
