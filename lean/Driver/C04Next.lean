import KitModel.Go.Prelude
import KitModel.CronSpec
import KitModel.CronBridge
import Driver.C04Parser
/-!
Driver for C04 (Next half): `kitdrv C04 next`.  One request per line, one answer per line.

* `zone tab=<start>:<off>,<start>:<off>,…` → `ok n=<k>`            (sets the current zone)
* `next sec= min= hour= dom= month= dow= t=<unix ns>`                → `at <unix s>` | `zero` | `fuel`
* `every delay=<ns> t=<unix ns>` → `at <unix ns>`;  `everyd d=<ns>` → `delay <ns>`
* `civil t=<unix s>` → `<year> <month> <day> <hour> <minute> <second> <weekday> <offset>`
* `date y= m= d= h= mi= s=` → `<unix s>`
* `pnext o=<options> z=<0|1> d=<none|ns> r=<runes> t=<unix ns>` → model `Parse` then model `Next` in the
  current zone: `at <unix ns>` | `zero` | `fuel` | `err <kind>` | `panic <why>` (fields as in
  `kitdrv C04 parser`)
-/
namespace Driver.C04Next
open Kit Kit.CronSpec

def parseEntry (w : String) : Option (Int × Int) :=
  match w.splitOn ":" with
  | [a, b] => do
    let x ← a.toInt?
    let y ← b.toInt?
    pure (x, y)
  | _ => none

def parseZone (s : String) : Option Zone :=
  if s == "" then none else (s.splitOn ",").mapM parseEntry

def showResult : Result → String
  | .at t => s!"at {t}"
  | .zero => "zero"
  | .fuel => "fuel"

def step (z : Zone) (line : String) : Zone × String :=
  let l := parseLine line
  match l.op with
  | "zone" =>
    match (l.get? "tab").bind parseZone with
    | some z' => (z', s!"ok n={z'.length}")
    | none => (z, "error bad zone table")
  | "next" =>
    match l.nat? "sec", l.nat? "min", l.nat? "hour", l.nat? "dom", l.nat? "month", l.nat? "dow",
        l.int? "t" with
    | some a, some b, some c, some d, some e, some f, some t =>
      (z, showResult (next ⟨a, b, c, d, e, f⟩ z t))
    | _, _, _, _, _, _, _ => (z, "error bad next request")
  | "every" =>
    match l.int? "delay", l.int? "t" with
    | some d, some t => (z, s!"at {everyNext d t}")
    | _, _ => (z, "error bad every request")
  | "everyd" =>
    match l.int? "d" with
    | some d => (z, s!"delay {everyDelay d}")
    | none => (z, "error bad everyd request")
  | "civil" =>
    match l.int? "t" with
    | some t =>
      (z, s!"{year z t} {month z t} {day z t} {hour z t} {minute z t} {second z t} {wday z t} {offsetAt z t}")
    | none => (z, "error bad civil request")
  | "date" =>
    match l.int? "y", l.int? "m", l.int? "d", l.int? "h", l.int? "mi", l.int? "s" with
    | some y, some m, some d, some h, some mi, some s => (z, s!"{goDate z y m d h mi s}")
    | _, _, _, _, _, _ => (z, "error bad date request")
  | "pnext" =>
    match l.nat? "o", l.nat? "z", l.get? "d", (l.get? "r").bind Driver.C04Parser.parseRunes,
        l.int? "t" with
    | some o, some kz, some d, some r, some t =>
      let env : Kit.Cron.Env := { knownZone := fun _ => kz != 0, parseDuration := fun _ => d.toInt? }
      match Kit.CronBridge.parseThenNext env (Kit.Cron.Opts.ofNat o) r z t with
      | .at n => (z, s!"at {n}")
      | .zero => (z, "zero")
      | .fuel => (z, "fuel")
      | .err e => (z, s!"err {e}")
      | .panic w => (z, s!"panic {w}")
    | _, _, _, _, _ => (z, "error bad pnext request")
  | op => (z, s!"error unknown op {op}")

def main (_args : List String) : IO UInt32 := do
  lineLoop step (fixedZone 0)
  return 0
end Driver.C04Next
