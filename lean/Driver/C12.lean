import KitModel.RunnerSim
/-!
Driver for property C12: `kitdrv C12` decides *trace inclusion*.  The harness sends the observable
event log of one real execution (`begin …`, then one `ev …` per line, then `end`); the driver keeps
the set of model states compatible with the log so far, closed under internal (τ) steps — the
functions `Sim.closure` / `Sim.advance` of `KitModel/RunnerSim.lean`, whose fold over the events is
`Sim.run`, proved sound in `KitProofs/Props/C12.lean` (`accepts_sound`) — and
answers `ok n=<states>` or `reject …` (no model state can perform the event).

Observable events → candidate labels:
  add.call k=<n> | add.ok | add.rej | ac.call | ac.ok | ac.rej | run.call | run.rej | run.ret errs=<e,…> |
  close.call | close.ret errs=<e,…> | r.start i= | r.done i= | r.ret i= v=<nil|c|e<n>> |
  c.start j= | c.ret j= v=<nil|e<n>> | fatal | tick d= | pcancel
`run.ret`/`close.ret` carry the flattened `errors.Join` list; it must equal the model's list.
-/
namespace Driver.C12
open Kit Kit.Runner

def parseRet (v : String) : Option Ret :=
  if v == "nil" then some .nil
  else if v == "c" then some .canceled
  else if v.startsWith "e" then (v.drop 1).toString.toNat?.map Ret.err
  else none

def parseCRet (v : String) : Option CRet :=
  if v == "nil" then some none
  else if v.startsWith "e" then (v.drop 1).toString.toNat?.map some
  else none

inductive World where
  | none
  | rm (ss : List RM)
  | rcm (cfg : Cfg) (ss : List RCM)
  | dead                       -- an event of this trace was rejected

structure St where
  w : World := .none

def rcmEvent (l : Line) : Option ((RCM → Bool) × List Label) :=
  let all : RCM → Bool := fun _ => true
  match l.get? "e" with
  | some "add.call" => do let k ← l.nat? "k"; pure (all, [.addCall k])
  | some "add.ok" => some (all, [.inner (.addRet true)])
  | some "add.rej" => some (all, [.inner (.addRet false), .addRetRejOuter])
  | some "ac.call" => some (all, [.acCall])
  | some "ac.ok" => some (all, [.acRetOk])
  | some "ac.rej" => some (all, [.acRejectEarly, .acRejectLate])
  | some "run.call" => some (all, [.runCall])
  | some "run.rej" => some (all, [.runRejected])
  | some "run.ret" => do
    let es ← l.nats? "errs"
    pure (fun s => s.retErr == es, [.runRet])
  | some "close.call" => some (all, [.closeCall])
  | some "close.ret" => do
    let es ← l.nats? "errs"
    pure (fun s => s.retErr == es, [.closeRet])
  | some "r.start" => do let i ← l.nat? "i"; pure (all, [.inner (.start i)])
  | some "r.done" => do let i ← l.nat? "i"; pure (all, [.inner (.ctxDone i)])
  | some "r.ret" => do
    let i ← l.nat? "i"; let v ← (l.get? "v").bind parseRet
    pure (all, [.inner (.ret i v)])
  | some "c.start" => do let j ← l.nat? "j"; pure (all, [.cstart j])
  | some "c.ret" => do
    let j ← l.nat? "j"; let v ← (l.get? "v").bind parseCRet
    pure (all, [.cret j v])
  | some "fatal" => some (all, [.ffire])
  | some "tick" => do let d ← l.nat? "d"; pure (all, [.tick d])
  | some "pcancel" => some (all, [.inner .parentCancel])
  | _ => none

def rmEvent (l : Line) : Option ((RM → Bool) × List RLabel) :=
  let all : RM → Bool := fun _ => true
  match l.get? "e" with
  | some "add.call" => do let k ← l.nat? "k"; pure (all, [.addCall k])
  | some "add.ok" => some (all, [.addRet true])
  | some "add.rej" => some (all, [.addRet false])
  | some "run.call" => some (all, [.runCall])
  | some "run.rej" => some (all, [.runRejected])
  | some "run.ret" => do
    let es ← l.nats? "errs"
    pure (fun s => s.errs == es, [.runRet])
  | some "r.start" => do let i ← l.nat? "i"; pure (all, [.start i])
  | some "r.done" => do let i ← l.nat? "i"; pure (all, [.ctxDone i])
  | some "r.ret" => do
    let i ← l.nat? "i"; let v ← (l.get? "v").bind parseRet
    pure (all, [.ret i v])
  | some "pcancel" => some (all, [.parentCancel])
  | _ => none

def showRPc : RPc → String
  | .idle => "i" | .started => "s" | .returned _ => "r" | .delivered _ => "d" | .done _ => "D"
def showCPc : CPc → String
  | .idle => "i" | .started => "s" | .returned _ => "r" | .collected _ => "C"
def showFPc : FPc → String
  | .idle => "i" | .armed _ => "a" | .parked _ => "p" | .willFire => "w" | .ready => "r" | .collected => "C"

def showRM (s : RM) : String :=
  s!"[run={s.running} pc={repr s.runPc} sp={s.spawned} col={s.collected} pcs={String.join (s.pcs.map showRPc)} errs={s.errs} canc={s.cancelled}]"

def showRCM (s : RCM) : String :=
  s!"[opc={s.opc.rank} run={s.running} closing={s.closing} closed={s.closed} stopped={s.stopped} cl={s.cl0}/{s.cl1}/{s.cl2} ac={s.ac0}/{s.ac1}/{s.ac2} cp={String.join (s.cpcs.map showCPc)} nc={s.nclosers} csp={s.cspawned} ccol={s.ccollected} cfs={s.cfs} f={showFPc s.fpc} now={s.now} ret={s.retErr} in={showRM s.inner}]"

def summary (xs : List String) : String :=
  " | ".intercalate (xs.take 3)

def step (st : St) (line : String) : St × String :=
  let l := parseLine line
  match l.op with
  | "begin" =>
    match l.get? "mode" with
    | some "rm" =>
      let ss := rmSim.closure [({} : RM)]
      ({ w := .rm ss }, s!"ok n={ss.length}")
    | some "rcm" =>
      let grace : Option Nat := (l.get? "grace").bind String.toNat?
      -- `recheck` comes from the source facts unless the caller overrides it (self-tests)
      let recheck := match l.nat? "recheck" with
        | some n => n == 1
        | none => Kit.Generated.C12.addCloserRechecksClosingUnderLock
      let cfg : Cfg := { grace := grace, recheck := recheck }
      let ss := (rcmSim cfg).closure [({} : RCM)]
      ({ w := .rcm cfg ss }, s!"ok n={ss.length}")
    | _ => ({ w := .dead }, "error bad-mode")
  | "ev" =>
    match st.w with
    | .none => (st, "error no-trace")
    | .dead => (st, "skip")
    | .rm ss =>
      match rmEvent l with
      | none => ({ w := .dead }, s!"error bad-event {line.trimAscii.toString}")
      | some (pre, cands) =>
        let ss' := rmSim.advance ss (pre, cands)
        if ss'.isEmpty then
          ({ w := .dead }, s!"reject n={ss.length} states={summary (ss.map showRM)}")
        else ({ w := .rm ss' }, s!"ok n={ss'.length}")
    | .rcm cfg ss =>
      match rcmEvent l with
      | none => ({ w := .dead }, s!"error bad-event {line.trimAscii.toString}")
      | some (pre, cands) =>
        let ss' := (rcmSim cfg).advance ss (pre, cands)
        if ss'.isEmpty then
          ({ w := .dead }, s!"reject n={ss.length} states={summary (ss.map showRCM)}")
        else ({ w := .rcm cfg ss' }, s!"ok n={ss'.length}")
  | "facts" =>
    (st, s!"shapes={"|".intercalate (Kit.Generated.C12.acceptedCloserShapes.map fun x => x.replace " " "_")} recheck={Kit.Generated.C12.addCloserRechecksClosingUnderLock} addAtomic={addAtomic}")
  | "end" =>
    match st.w with
    | .dead => ({ w := .none }, "skip")
    | .none => (st, "error no-trace")
    | .rm ss => ({ w := .none }, s!"ok n={ss.length}")
    | .rcm _ ss => ({ w := .none }, s!"ok n={ss.length}")
  | _ => (st, "error unknown-op")

def main (_args : List String) : IO UInt32 := do
  lineLoop step {}
  return 0
end Driver.C12
