import KitModel.Go.Prelude
/-! Driver for property C12: `kitdrv C12` reads op lines on stdin, one answer line per input line. -/
namespace Driver.C12
def main (_args : List String) : IO UInt32 := do
  IO.eprintln "kitdrv: C12 has no model driver yet"
  return 2
end Driver.C12
