import KitModel.Go.Prelude
/-! Driver for property C10: `kitdrv C10` reads op lines on stdin, one answer line per input line. -/
namespace Driver.C10
def main (_args : List String) : IO UInt32 := do
  IO.eprintln "kitdrv: C10 has no model driver yet"
  return 2
end Driver.C10
