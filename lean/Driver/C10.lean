import KitModel.Go.Prelude
import KitModel.BatcherAccept
/-!
Driver for property C10: `kitdrv C10` — trace inclusion by state-set simulation of the batcher LTS
(`KitModel/Batcher.lean` = C06 processor LTS composed with subscribers, `execute`, `Close`).
The acceptor itself (`Obs`, `onObs`, `strip`, `closeSet`, `stepA`) lives in `KitModel/BatcherAccept.lean`
and is proved sound in `KitProofs/Props/C10.lean` (`accepted_trace_has_run`); this file only parses
lines into `Obs`, feeds them to `stepA` and prints.

Input lines (one answer line each; `ok n=<size of the τ-closed state set>` or `reject …`):
* `reset fixed=0|1 cap=<n> interval=<ns>`   start a new trace from the initial state
* `batch key=<k> val=<v>`                   `Batch` called (enqueue at now+interval; a no-op is also
                                             accepted once `Close` has been called)
* `adv to=<ns>`                             the clock moves
* `scall` / `sret`                          `Subscribe(ctx, ch)` called / returned
* `scalld`                                  `Subscribe(ctx, ch)` called with a context that has already ended (or is
                                             being cancelled concurrently: every behaviour of a later cancel is also a
                                             behaviour of a forwarder that finds `ctx.Done()` ready from the start)
* `cancel sub=<i>`                          subscriber `i`'s context is cancelled
* `recv sub=<i> v=<v>`                      the reader of subscriber `i` received `v`
* `chclosed sub=<i>`                        the reader of subscriber `i` saw its channel closed
* `ccall` / `cret`                          a `Close` call was made / a `Close` call returned (any number of
                                             overlapping or sequential calls; the calls are anonymous)
* `xsend sub=<i> v=<v>`                     `execute` passed `batcher.execute.beforeSend` for subscriber `i` (lock held)
* `fexit sub=<i>`                           forwarder `i` passed `batcher.forwarder.exit` (about to take the lock)
* `park p=send sub=<i> v=<v>` / `unpark p=send`   `execute` is held at `batcher.execute.beforeSend` (lock held,
                                             next subscriber `i`); while held the closure does not move it
* `park p=exit sub=<i>` / `unpark p=exit sub=<i>`  forwarder `i` is held at `batcher.forwarder.exit`
* `park p=cas sub=0 v=0` / `unpark p=cas sub=0`    the `Close` call that won the processor's CAS is held at
                                             `queue.close.afterCAS` (before it closes `stopCh`)
* `park p=fired key=<k> at=<ns>` / `unpark p=fired`   the queue's loop is held at `queue.loop.fired` (its wake-up for
                                             that item happened, `execute` has not taken the queue lock yet)
* `park p=timer key=<k> at=<ns>` / `unpark p=timer`   the loop is held at `queue.loop.beforeTimer` (clock read,
                                             `NewTimer` not yet called: a clock advance now makes the timer late)
* `quiet prompt=<i,j,…>`                    the implementation is quiescent: some compatible state must have
                                             no enabled hidden step and no value in the hand of the forwarder of
                                             a subscriber whose reader polls continuously
* `stuck`                                   → `stuck n=<k> of=<size>`: states of the current set with a pending
                                             call/delivery and no enabled internal step (never rejects)
-/
namespace Driver.C10
open Kit Kit.Queue Kit.Processor Kit.Batcher

structure D where
  cfg : Batcher.Cfg := ⟨true, 50, 10000000⟩
  a : AState := { cur := [], fz := {}, overflow := false }
  dead : Bool := true

def fpcName : FPc → String
  | .idle => "idle" | .holding x => s!"holding({x.val})" | .exiting => "exiting" | .wantLock => "wantLock" | .done => "done"

def showSub (u : Sub) : String :=
  s!"[buf:{showNats (u.buf.map (·.val))},pc:{fpcName u.pc},ctx:{u.ctxDone},exit:{u.exitClosed}]"

def epcName : EPc → String
  | .idle => "idle" | .waiting r => s!"waiting({r.val})" | .sending r i => s!"sending({r.val})@{i}"

def pcName : Pc Nat Nat → String
  | .absent => "absent" | .top => "top" | .peeked r => s!"peeked({r.val})" | .polled r => s!"polled({r.val})"
  | .arming r => s!"arming({r.val})" | .armed r => s!"armed({r.val})" | .firing r => s!"firing({r.val})" | .popped r => s!"popped({r.val})"
  | .running r => s!"running({r.val})" | .exiting => "exiting"

def cpcName : ClosePc → String
  | .idle => "idle" | .casDone => "casDone" | .chClosed => "chClosed" | .tokenTaken => "tokenTaken" | .returned => "returned"

def showState (s : Batcher.State) : String :=
  let q := ",".intercalate (s.p.q.map fun r => s!"k{r.key}={r.val}@{r.time}")
  s!"q:{q};now:{s.p.now};timer:{s.p.timer};pc:{pcName s.p.pc};qclose:{cpcName s.p.cpc};reset:{s.p.reset};epc:{epcName s.epc};closed:{s.closed};close(q/l/w/r):{s.cq}/{s.cl}/{s.cw}/{s.cr};waitS:{s.waitS}+{s.waitSD};retS:{s.retS};subs:{"".intercalate (s.subs.map showSub)}"

/-- One input line as an observation; `none` = malformed. -/
def parseObs (l : Line) : Option Obs :=
  match l.op with
  | "batch" => do let k ← l.nat? "key"; let v ← l.nat? "val"; pure (.batch k v)
  | "adv" => do let t ← l.int? "to"; pure (.adv t)
  | "scall" => some .scall
  | "scalld" => some .scalld
  | "sret" => some .sret
  | "cancel" => do let i ← l.nat? "sub"; pure (.cancel i)
  | "recv" => do let i ← l.nat? "sub"; let v ← l.nat? "v"; pure (.recv i v)
  | "chclosed" => do let i ← l.nat? "sub"; pure (.chclosed i)
  | "ccall" => some .ccall
  | "cret" => some .cret
  | "xsend" => do let i ← l.nat? "sub"; let v ← l.nat? "v"; pure (.xsend i v)
  | "fexit" => do let i ← l.nat? "sub"; pure (.fexit i)
  | "park" =>
    match l.get? "p" with
    | some "send" => do let i ← l.nat? "sub"; let v ← l.nat? "v"; pure (.parkSend i v)
    | some "exit" => do let i ← l.nat? "sub"; pure (.parkExit i)
    | some "cas" => some .parkCas
    | some "fired" => do let k ← l.nat? "key"; let t ← l.int? "at"; pure (.parkFired k t)
    | some "timer" => do let k ← l.nat? "key"; let t ← l.int? "at"; pure (.parkTimer k t)
    | _ => none
  | "unpark" =>
    match l.get? "p" with
    | some "send" => some .unparkSend
    | some "exit" => do let i ← l.nat? "sub"; pure (.unparkExit i)
    | some "cas" => some .unparkCas
    | some "fired" => some .unparkFired
    | some "timer" => some .unparkTimer
    | _ => none
  | "quiet" => some (.quiet ((l.nats? "prompt").getD []))
  | _ => none

def pendingWork (s : Batcher.State) : Bool :=
  s.epc != .idle || s.waitS + s.waitSD > 0 || s.cq + s.cl + s.cw > 0 || (s.p.cpc != .idle && s.p.cpc != .returned) ||
  s.p.q.any (fun r => r.time ≤ s.p.now)

def handle (d : D) (raw : String) : D × String :=
  let l := parseLine raw
  if l.op == "" then (d, "ok") else
  if l.op == "reset" then
    let cfg : Batcher.Cfg :=
      ⟨l.nat? "fixed" != some 0, (l.nat? "cap").getD 50, (l.int? "interval").getD 10000000⟩
    let a := start cfg
    ({ cfg := cfg, a := a, dead := a.overflow }, if a.overflow then "overflow n=0" else s!"ok n={a.cur.length}")
  else if d.dead then (d, "reject at=earlier")
  else if l.op == "dump" then
    (d, " || ".intercalate ((d.a.cur.take ((l.nat? "n").getD 10)).map showState))
  else if l.op == "stuck" then
    let all := d.a.cur
    let k := (all.filter fun s => pendingWork s && (hidden d.cfg {} s).isEmpty
                && (Batcher.step d.cfg s .closeReturn).isNone).length
    (d, s!"stuck n={k} of={all.length}")
  else
    match parseObs l with
    | none => ({ d with dead := true }, s!"reject malformed line: {raw.trimAscii.toString}")
    | some o =>
      let a' := stepA d.cfg d.a o
      if a'.overflow then
        ({ d with a := a', dead := true }, s!"overflow n={a'.cur.length}")
      else if a'.cur.isEmpty then
        let st := match d.a.cur with
          | s :: _ => showState s
          | [] => "-"
        ({ d with a := a', dead := true },
         s!"reject at={raw.trimAscii.toString.replace " " "_"} prev={d.a.cur.length} state={st.replace " " "_"}")
      else ({ d with a := a' }, s!"ok n={a'.cur.length}")

def main (_args : List String) : IO UInt32 := do
  Kit.lineLoop handle ({} : D)
  return 0

end Driver.C10
