import KitModel.Go.Prelude
import KitModel.Batcher
import Std.Data.HashSet
/-!
Driver for property C10: `kitdrv C10` — trace inclusion by state-set simulation of the batcher LTS
(`KitModel/Batcher.lean` = C06 processor LTS composed with subscribers, `execute`, `Close`).

Input lines (one answer line each; `ok n=<size of the τ-closed state set>` or `reject …`):
* `reset fixed=0|1 cap=<n> interval=<ns>`   start a new trace from the initial state
* `batch key=<k> val=<v>`                   `Batch` called (enqueue at now+interval; a no-op is also
                                             accepted once `Close` has been called)
* `adv to=<ns>`                             the clock moves
* `scall` / `sret`                          `Subscribe(ctx, ch)` called / returned
* `scalld`                                  `Subscribe(ctx, ch)` called with a context that has already ended (or is
                                             being cancelled concurrently: every behaviour of a later cancel is also a
                                             behaviour of a forwarder that finds `ctx.Done()` ready from the start)
* `cancel sub=<i>`                          subscriber `i`'s context is cancelled
* `recv sub=<i> v=<v>`                      the reader of subscriber `i` received `v`
* `chclosed sub=<i>`                        the reader of subscriber `i` saw its channel closed
* `ccall` / `cret`                          a `Close` call was made / a `Close` call returned (any number of
                                             overlapping or sequential calls; the calls are anonymous)
* `xsend sub=<i> v=<v>`                     `execute` passed `batcher.execute.beforeSend` for subscriber `i` (lock held)
* `fexit sub=<i>`                           forwarder `i` passed `batcher.forwarder.exit` (about to take the lock)
* `park p=send sub=<i> v=<v>` / `unpark p=send`   `execute` is held at `batcher.execute.beforeSend` (lock held,
                                             next subscriber `i`); while held the closure does not move it
* `park p=exit sub=<i>` / `unpark p=exit sub=<i>`  forwarder `i` is held at `batcher.forwarder.exit`
* `park p=cas sub=0 v=0` / `unpark p=cas sub=0`    the `Close` call that won the processor's CAS is held at
                                             `queue.close.afterCAS` (before it closes `stopCh`)
* `park p=fired key=<k> at=<ns>` / `unpark p=fired`   the queue's loop is held at `queue.loop.fired` (its wake-up for
                                             that item happened, `execute` has not taken the queue lock yet)
* `park p=timer key=<k> at=<ns>` / `unpark p=timer`   the loop is held at `queue.loop.beforeTimer` (clock read,
                                             `NewTimer` not yet called: a clock advance now makes the timer late)
* `quiet prompt=<i,j,…>`                    the implementation is quiescent: some compatible state must have
                                             no enabled hidden step and no value in the hand of the forwarder of
                                             a subscriber whose reader polls continuously
* `stuck`                                   → `stuck n=<k> of=<size>`: states of the current set with a pending
                                             call/delivery and no enabled internal step (never rejects)
-/
namespace Driver.C10
open Kit Kit.Queue Kit.Processor Kit.Batcher

abbrev SSet := Std.HashSet Batcher.State

structure D where
  cfg : Batcher.Cfg := ⟨true, 50, 10000000⟩
  cur : SSet := {}
  frozenSend : Bool := false
  frozenExit : List Nat := []
  frozenCas : Bool := false
  frozenFired : Bool := false
  frozenTimer : Bool := false
  dead : Bool := true

def dummy : It := ⟨0, 0, 0, 0⟩

/-- Remove what cannot influence any later step: the ghost fields; the *contents* of the buffer of
a forwarder that has left its loop (only `fwdTake`, enabled in `idle`, reads them; `send` reads the
length while the subscriber is still in `eventChs` — and not even that once its exit channel is
closed, because `skipExit` is then enabled whenever `send` is and leads to the same state up to that
buffer); everything about a subscriber that is `done`. -/
def stripSub (u : Sub) : Sub :=
  match u.pc with
  | .done => { buf := [], pc := .done, delivered := [], ctxDone := true, exitClosed := true, joinedAt := 0, missed := false }
  | .exiting | .wantLock =>
    -- once the exit channel is closed `skipExit` is always enabled and differs from `send` only in the dead buffer
    { u with buf := if u.exitClosed then [] else u.buf.map (fun _ => dummy), delivered := [], joinedAt := 0, missed := false }
  | _ => { u with delivered := [], joinedAt := 0, missed := false }

def strip (s : Batcher.State) : Batcher.State :=
  { s with p := { s.p with log := [], readAt := 0, armAt := 0 }, out := [], calls := [], subs := s.subs.map stripSub }

def hiddenOK (d : D) : Batcher.Label → Bool
  | .closeReturn => false
  | .send | .skipExit | .skipClose | .skipGone | .proc .cbReturn => !d.frozenSend
  | .fwdRemove i => !d.frozenExit.contains i
  | .proc .closeStopCh => !d.frozenCas
  | .proc (.execCheck _) => !d.frozenFired
  | .proc .arm => !d.frozenTimer
  | _ => true

def hidden (d : D) (s : Batcher.State) : List Batcher.Label :=
  (Batcher.taus d.cfg s).filter (hiddenOK d)

def closureLimit : Nat := 40000

partial def closure (d : D) (todo : List Batcher.State) (seen : SSet) : SSet :=
  match todo with
  | [] => seen
  | s :: rest =>
    if seen.size > closureLimit then seen else
    let succs := ((hidden d s).filterMap (Batcher.step d.cfg s)).map strip
    let (todo', seen') := succs.foldl (fun (acc : List Batcher.State × SSet) s' =>
      if acc.2.contains s' then acc else (s' :: acc.1, acc.2.insert s')) (rest, seen)
    closure d todo' seen'

def closeSet (d : D) (xs : List Batcher.State) : SSet :=
  let seen : SSet := xs.foldl (fun acc s => acc.insert (strip s)) {}
  closure d seen.toList seen

def fpcName : FPc → String
  | .idle => "idle" | .holding x => s!"holding({x.val})" | .exiting => "exiting" | .wantLock => "wantLock" | .done => "done"

def showSub (u : Sub) : String :=
  s!"[buf:{showNats (u.buf.map (·.val))},pc:{fpcName u.pc},ctx:{u.ctxDone},exit:{u.exitClosed}]"

def epcName : EPc → String
  | .idle => "idle" | .waiting r => s!"waiting({r.val})" | .sending r i => s!"sending({r.val})@{i}"

def pcName : Pc Nat Nat → String
  | .absent => "absent" | .top => "top" | .peeked r => s!"peeked({r.val})" | .polled r => s!"polled({r.val})"
  | .arming r => s!"arming({r.val})" | .armed r => s!"armed({r.val})" | .firing r => s!"firing({r.val})" | .popped r => s!"popped({r.val})"
  | .running r => s!"running({r.val})" | .exiting => "exiting"

def cpcName : ClosePc → String
  | .idle => "idle" | .casDone => "casDone" | .chClosed => "chClosed" | .tokenTaken => "tokenTaken" | .returned => "returned"

def showState (s : Batcher.State) : String :=
  let q := ",".intercalate (s.p.q.map fun r => s!"k{r.key}={r.val}@{r.time}")
  s!"q:{q};now:{s.p.now};timer:{s.p.timer};pc:{pcName s.p.pc};qclose:{cpcName s.p.cpc};reset:{s.p.reset};epc:{epcName s.epc};closed:{s.closed};close(q/l/w/r):{s.cq}/{s.cl}/{s.cw}/{s.cr};waitS:{s.waitS}+{s.waitSD};retS:{s.retS};subs:{"".intercalate (s.subs.map showSub)}"

/-- Successors of one state under one observable event; `none` = malformed line. -/
def onEvent (d : D) (l : Line) (s : Batcher.State) : Option (List Batcher.State) :=
  let cfg := d.cfg
  match l.op with
  | "batch" => do
    let k ← l.nat? "key"; let v ← l.nat? "val"
    let t := s.p.now + cfg.interval
    let enq := [true, false].filterMap fun first => Batcher.step cfg s (.proc (.enqueue k t v first))
    return if s.p.stopped then s :: enq else enq
  | "adv" => do
    let t ← l.int? "to"
    return (Batcher.step cfg s (.proc (.advance t))).toList
  | "scall" => some (Batcher.step cfg s .subCall).toList
  | "scalld" => some (Batcher.step cfg s .subCallDone).toList
  | "sret" => some (Batcher.step cfg s .subReturn).toList
  | "cancel" => do
    let i ← l.nat? "sub"
    return (Batcher.step cfg s (.cancel i)).toList
  | "recv" => do
    let i ← l.nat? "sub"; let v ← l.nat? "v"
    match s.subs[i]? with
    | some u =>
      match u.pc with
      | .holding x => if x.val == v then return (Batcher.step cfg s (.fwdDeliver i)).toList else return []
      | _ => return []
    | none => return []
  | "chclosed" => do
    let i ← l.nat? "sub"
    match s.subs[i]? with
    | some u => return if u.pc == .done then [s] else []
    | none => return []
  | "ccall" => some (Batcher.step cfg s .closeCall).toList
  | "cret" => some (Batcher.step cfg s .closeReturn).toList
  | "park" => do
    let p ← l.get? "p"; let i := (l.nat? "sub").getD 0
    let sameItem (r : It) : Bool := l.nat? "key" == some r.key && l.int? "at" == some r.time
    match p with
    | "fired" =>
      match s.p.pc with
      | .firing r => return if sameItem r then [s] else []
      | _ => return []
    | "timer" =>
      match s.p.pc with
      | .arming r => return if sameItem r then [s] else []
      | _ => return []
    | "send" =>
      let v ← l.nat? "v"
      match s.epc, s.subs[i]? with
      | .sending r j, some u => return if j == i && u.inList && r.val == v then [s] else []
      | _, _ => return []
    | "exit" =>
      match s.subs[i]? with
      | some u => return if u.pc == .wantLock then [s] else []
      | none => return []
    | "cas" => return if s.p.cpc == .casDone then [s] else []
    | _ => none
  | "xsend" => do
    let i ← l.nat? "sub"; let v ← l.nat? "v"
    match s.epc, s.subs[i]? with
    | .sending r j, some u => return if j == i && u.inList && r.val == v then [s] else []
    | _, _ => return []
  | "fexit" => do
    let i ← l.nat? "sub"
    match s.subs[i]? with
    | some u => return if u.pc == .wantLock then [s] else []
    | none => return []
  | "unpark" => some [s]
  | "quiet" =>
    -- a reader that polls continuously cannot leave its forwarder holding a value at quiescence
    let prompt := (l.nats? "prompt").getD []
    let holding (i : Nat) : Bool :=
      match s.subs[i]? with
      | some u => match u.pc with
        | .holding _ => true
        | _ => false
      | none => false
    some (if (hidden d s).isEmpty && !(prompt.any holding) then [s] else [])
  | _ => none

def pendingWork (s : Batcher.State) : Bool :=
  s.epc != .idle || s.waitS + s.waitSD > 0 || s.cq + s.cl + s.cw > 0 || (s.p.cpc != .idle && s.p.cpc != .returned) ||
  s.p.q.any (fun r => r.time ≤ s.p.now)

def handle (d : D) (raw : String) : D × String :=
  let l := parseLine raw
  if l.op == "" then (d, "ok") else
  if l.op == "reset" then
    let cfg : Batcher.Cfg :=
      ⟨l.nat? "fixed" != some 0, (l.nat? "cap").getD 50, (l.int? "interval").getD 10000000⟩
    let d' : D := { cfg := cfg, cur := {}, frozenSend := false, frozenExit := [], frozenCas := false, frozenFired := false, frozenTimer := false, dead := false }
    let cur := closeSet d' [Batcher.init]
    ({ d' with cur := cur }, s!"ok n={cur.size}")
  else if d.dead then (d, "reject at=earlier")
  else if l.op == "dump" then
    (d, " || ".intercalate ((d.cur.toList.take ((l.nat? "n").getD 10)).map showState))
  else if l.op == "stuck" then
    let all := d.cur.toList
    let k := (all.filter fun s => pendingWork s && ((Batcher.taus d.cfg s).filter (hiddenOK { d with frozenSend := false, frozenExit := [], frozenCas := false, frozenFired := false, frozenTimer := false })).isEmpty
                && (Batcher.step d.cfg s .closeReturn).isNone).length
    (d, s!"stuck n={k} of={all.length}")
  else
    let all := d.cur.toList
    let rs := all.map (onEvent d l)
    if rs.any Option.isNone then
      ({ d with dead := true }, s!"reject malformed line: {raw.trimAscii.toString}")
    else
      let d1 : D :=
        match l.op, l.get? "p", l.nat? "sub" with
        | "park", some "send", _ => { d with frozenSend := true }
        | "unpark", some "send", _ => { d with frozenSend := false }
        | "park", some "exit", some i => { d with frozenExit := i :: d.frozenExit }
        | "unpark", some "exit", some i => { d with frozenExit := d.frozenExit.filter (· != i) }
        | "park", some "cas", _ => { d with frozenCas := true }
        | "unpark", some "cas", _ => { d with frozenCas := false }
        | "park", some "fired", _ => { d with frozenFired := true }
        | "unpark", some "fired", _ => { d with frozenFired := false }
        | "park", some "timer", _ => { d with frozenTimer := true }
        | "unpark", some "timer", _ => { d with frozenTimer := false }
        | _, _, _ => d
      let nxt := closeSet d1 (rs.flatMap fun r => r.getD [])
      if nxt.size > closureLimit then
        ({ d1 with cur := nxt, dead := true }, s!"overflow n={nxt.size}")
      else if nxt.size == 0 then
        let st := match all with
          | s :: _ => showState s
          | [] => "-"
        ({ d1 with cur := nxt, dead := true },
         s!"reject at={raw.trimAscii.toString.replace " " "_"} prev={all.length} state={st.replace " " "_"}")
      else ({ d1 with cur := nxt }, s!"ok n={nxt.size}")

def main (_args : List String) : IO UInt32 := do
  Kit.lineLoop handle ({} : D)
  return 0

end Driver.C10
