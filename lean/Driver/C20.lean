import KitModel.Go.Prelude
/-! Driver for property C20: `kitdrv C20` reads op lines on stdin, one answer line per input line. -/
namespace Driver.C20
def main (_args : List String) : IO UInt32 := do
  IO.eprintln "kitdrv: C20 has no model driver yet"
  return 2
end Driver.C20
