import KitModel.Go.Prelude
import KitModel.Pool
import KitModel.PoolAdd
/-!
Driver for property C20: `kitdrv C20` reads one observable event of a real `context.Pool`
execution per line and answers `ok n=<states>` when the model (`Kit.Pool`, state-set simulation
closed under watcher steps) accepts it, `reject …` with the state set it had when it does not.

  new ctxs=1,2,3 ended=2          NewPool(ctx1, ctx2, ctx3) with ctx2 already cancelled
  end c=1                         context 1 ends
  add c=5                         Add(ctx5) returned
  cancel                          Cancel() returned
  release                         the harness released the watcher it had parked at a hook
  race e=1 c=5 | race e=1 cancel=1   context 1 ended concurrently with Add(ctx5) / Cancel(); either order
  obs quiet=1 park=0|1|2 pi=<i> done=0|1 size=<n> alive=0|1
                                  park: 0 not parked, 1 at pool.watch.afterWait(pi), 2 at pool.watch.beforeCancel
  gate c=5                        Add(ctx5) was seen inside ctx5.Done(), its first call-out (gated-context family)
  obsw quiet=1 done=0|1 alive=0|1 observation while that Add is parked there (Size would block)
  ungate                          the harness let ctx5.Done() return; Add(ctx5) returned
Between `gate` and `ungate` only `end` and `obsw` are accepted; the states held there are states of
the fine system `Kit.Pool.fstep` (Add = check / call-out / append).
After a `reject` every line up to the next `new` is answered `skip`.
-/
namespace Driver.C20
open Kit Kit.Pool

def showPC : PC → String
  | .head i => s!"head{i}"
  | .waiting i c => s!"waiting{i}/c{c}"
  | .woken i => s!"woken{i}"
  | .exiting => "exiting"
  | .released => "released"
  | .finished => "finished"

def showState (s : State) : String :=
  s!"[{showPC s.pc} pool={showNats s.pool} ended={showNats s.ended} closed={s.closed} done={s.done}]"

def showSet (xs : List State) : String :=
  if xs.length > 12 then String.join ((xs.take 12).map showState) ++ "…" else String.join (xs.map showState)

def showFSet (xs : List FState) : String :=
  showSet (xs.map (fun g => g.base))

def showDSim : DSim → String
  | .plain sim => showSet sim.states
  | .window xs _ => "window:" ++ showFSet xs

structure DState where
  sim : Option DSim      -- none: no scenario, or rejected
  deriving Inhabited

def bool? (l : Line) (k : String) : Option Bool :=
  match l.nat? k with
  | some 0 => some false
  | some 1 => some true
  | _ => none

def parseEvent0 (l : Line) : Option Event :=
  match l.op with
  | "end" => (l.nat? "c").map Event.endCtx
  | "add" => (l.nat? "c").map Event.add
  | "cancel" => some Event.cancel
  | "release" => some Event.release
  | "race" => do
    let e ← l.nat? "e"
    match l.nat? "c", l.nat? "cancel" with
    | some c, _ => some (Event.race e (some c))
    | none, some _ => some (Event.race e none)
    | none, none => none
  | "obs" => do
    let quiet ← bool? l "quiet"
    let park ← l.nat? "park"
    let parked ← match park with
      | 0 => some Parked.no
      | 1 => (l.nat? "pi").map Parked.afterWait
      | 2 => some Parked.beforeCancel
      | _ => none
    let done ← bool? l "done"
    let size ← l.nat? "size"
    let alive ← bool? l "alive"
    some (Event.obs quiet parked done size alive)
  | _ => none

def parseEvent (l : Line) : Option DEvent :=
  match l.op with
  | "gate" => (l.nat? "c").map DEvent.gate
  | "ungate" => some DEvent.ungate
  | "obsw" => do
    let quiet ← bool? l "quiet"
    let done ← bool? l "done"
    let alive ← bool? l "alive"
    some (DEvent.obsw quiet done alive)
  | _ => (parseEvent0 l).map DEvent.ev

def stepLine (d : DState) (line : String) : DState × String :=
  let l := parseLine line
  if l.op == "new" then
    match l.nats? "ctxs", l.nats? "ended" with
    | some ctxs, some ended =>
      let sim := Sim.start { ctxs := ctxs, ended0 := ended }
      ({ sim := some (.plain sim) }, s!"ok n={sim.states.length}")
    | _, _ => ({ sim := none }, "error bad-new")
  else
    match d.sim with
    | none => (d, "skip")
    | some sim =>
      match parseEvent l with
      | none => ({ sim := none }, "error bad-line")
      | some ev =>
        let sim' := dadvance sim ev
        if sim'.size == 0 then
          ({ sim := none }, s!"reject before={showDSim sim}")
        else
          ({ sim := some sim' }, s!"ok n={sim'.size}")

def main (_args : List String) : IO UInt32 := do
  lineLoop stepLine { sim := none }
  return 0
end Driver.C20
