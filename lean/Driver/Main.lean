import KitModel.Crypto.Dispatch
import Driver.C01
import Driver.C02
import Driver.C03
import Driver.C04
import Driver.C05
import Driver.C06
import Driver.C07
import Driver.C08
import Driver.C09
import Driver.C10
import Driver.C11
import Driver.C12
import Driver.C13
import Driver.C14
import Driver.C15
import Driver.C16
import Driver.C17
import Driver.C18
import Driver.C19
import Driver.C20

def main (args : List String) : IO UInt32 :=
  match args with
  | "C01" :: rest => Driver.C01.main rest
  | "C02" :: rest => Driver.C02.main rest
  | "C03" :: rest => Driver.C03.main rest
  | "C04" :: rest => Driver.C04.main rest
  | "C05" :: rest => Driver.C05.main rest
  | "C06" :: rest => Driver.C06.main rest
  | "C07" :: rest => Driver.C07.main rest
  | "C08" :: rest => Driver.C08.main rest
  | "C09" :: rest => Driver.C09.main rest
  | "C10" :: rest => Driver.C10.main rest
  | "C11" :: rest => Driver.C11.main rest
  | "C12" :: rest => Driver.C12.main rest
  | "C13" :: rest => Driver.C13.main rest
  | "C14" :: rest => Driver.C14.main rest
  | "C15" :: rest => Driver.C15.main rest
  | "C16" :: rest => Driver.C16.main rest
  | "C17" :: rest => Driver.C17.main rest
  | "C18" :: rest => Driver.C18.main rest
  | "C19" :: rest => Driver.C19.main rest
  | "C20" :: rest => Driver.C20.main rest
  | "crypto" :: _ => do
    Kit.lineLoop (fun (_ : Unit) l => ((), Kit.Crypto.selfTestLine l)) ()
    return 0
  | _ => do
    IO.eprintln "usage: kitdrv <C01..C20> [args]"
    return 2
