import KitModel.Go.Prelude
/-! Driver for property C14: `kitdrv C14` reads op lines on stdin, one answer line per input line. -/
namespace Driver.C14
def main (_args : List String) : IO UInt32 := do
  IO.eprintln "kitdrv: C14 has no model driver yet"
  return 2
end Driver.C14
