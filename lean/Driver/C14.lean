import KitModel.Go.Prelude
import KitModel.Ring
import KitModel.Containers
import KitModel.Generated.C14
/-!
Driver for property C14: `kitdrv C14` reads op lines on stdin, one answer line per input line.

ring (node ids = allocation order, shared with the harness):
  `reset` · `rnew n=` · `rzero` · `rlit v=` · `rnext p=` · `rprev p=` · `rmove p= n=` · `rlink p= s=<id|nil>` ·
  `runlink p= n=` · `rlen p=<id|nil>` · `rdo p=<id|nil>` · `rset p= v=` · `rget p=` · `rdump`
buffered: `bnew init= bsize=` · `bapp v=<n|nil>` · `brem` · `bfront` · `blen` · `brange stop=<n|nil|never>` · `bring`
linearizability: `lin obj=<map|ctr|amap|slice> h=<ev;ev;…>` with `ev = I/<t>/<op>/<args>/<res>` or `R/<t>`
-/
namespace Driver.C14
open Kit Kit.Ring Kit.Containers

structure St where
  heap : Heap Int := #[]
  buf : Buf := Buf.new 1 1

def showOpt : Option Nat → String
  | none => "nil"
  | some n => toString n

def parseOpt (s : String) : Option (Option Nat) :=
  if s == "nil" then some none else s.toNat?.map some

def showInts (xs : List Int) : String := ",".intercalate (xs.map toString)
def showVals (xs : List (Option Nat)) : String := ",".intercalate (xs.map showOpt)

def ptr? (st : St) (l : Line) (k : String) : Option Nat :=
  (l.nat? k).bind fun p => if p < st.heap.size then some p else none

def optPtr? (st : St) (l : Line) (k : String) : Option (Option Nat) :=
  match l.get? k with
  | some "nil" => some none
  | _ => (ptr? st l k).map some

/-! #### history parsing -/

def parseInts (s : String) : Option (List Int) :=
  if s == "" then some [] else (s.splitOn ",").mapM String.toInt?

def parseRet (s : String) : Option Ret :=
  match s.toList with
  | ['u'] => some .unit
  | 'n' :: rest => (String.ofList rest).toInt?.map .int
  | 'v' :: rest =>
    match parseInts (String.ofList rest) with
    | some [v, b] => some (.val v (b != 0))
    | _ => none
  | 'l' :: rest => (parseInts (String.ofList rest)).map .list
  | _ => none

def toNats (xs : List Int) : Option (List Nat) :=
  xs.mapM fun x => if x < 0 then none else some x.toNat

def parseMapOp (op : String) (a : List Int) : Option MapOp :=
  match op, toNats a with
  | "clear", some [] => some .clear
  | "delete", some [k] => some (.delete k)
  | "load", some [k] => some (.load k)
  | "lad", some [k] => some (.loadAndDelete k)
  | "range", some [] => some .range
  | "store", some [k, v] => some (.store k v)
  | "len", some [] => some .len
  | "keys", some [] => some .keys
  | _, _ => none

def parseCtrOp (op : String) (a : List Int) : Option CtrOp :=
  match op, a with
  | "load", [] => some .load
  | "store", [v] => some (.store v)
  | "add", [v] => some (.add v)
  | _, _ => none

def parseAMOp (op : String) (a : List Int) : Option AMOp :=
  match op, a with
  | "get", [k] => if k < 0 then none else some (.get k.toNat)
  | "goc", [k, c] => if k < 0 then none else some (.getOrCreate k.toNat c)
  | "delete", [k] => if k < 0 then none else some (.delete k.toNat)
  | "foreach", [] => some .forEach
  | "clear", [] => some .clear
  | "cload", [p] => if p < 0 then none else some (.cload p.toNat)
  | "cstore", [p, v] => if p < 0 then none else some (.cstore p.toNat v)
  | "cadd", [p, v] => if p < 0 then none else some (.cadd p.toNat v)
  | _, _ => none

def parseSlOp (op : String) (a : List Int) : Option SlOp :=
  match op, toNats a with
  | "append", some xs => some (.append xs)
  | "len", some [] => some .len
  | "slice", some [] => some .slice
  | _, _ => none

/-- a token of the wire format: `I/<t>/<op>/<args>/<res>` or `R/<t>` -/
def parseTok {ι : Type} (pop : String → List Int → Option ι) (tok : String) : Option (Nat × Option (ι × Ret)) :=
  match tok.splitOn "/" with
  | ["R", t] => t.toNat?.map fun t => (t, none)
  | ["I", t, op, args, res] => do
    let t ← t.toNat?
    let a ← parseInts args
    let i ← pop op a
    let r ← parseRet res
    pure (t, some (i, r))
  | _ => none

/-- responses take the result announced by the thread's latest invocation -/
def fillRets {ι : Type} : List (Nat × Ret) → List (Nat × Option (ι × Ret)) → Option (List (HEv ι Ret))
  | _, [] => some []
  | pend, (t, some (i, r)) :: rest => (fillRets ((t, r) :: pend) rest).map (HEv.inv t i r :: ·)
  | pend, (t, none) :: rest =>
    match lookupT pend t with
    | some r => (fillRets pend rest).map (HEv.ret t r :: ·)
    | none => none

def parseHist {ι : Type} (pop : String → List Int → Option ι) (s : String) : Option (List (HEv ι Ret)) :=
  if s == "" then some [] else
  ((s.splitOn ";").mapM (parseTok pop)).bind (fillRets [])

/-- verdict of the checker; `none` (reported as a parse/annotation error) when the input is not a
complete, consistently annotated history — only for those is `false` proved to mean "not linearizable" -/
def judge {σ ι : Type} [DecidableEq σ] [DecidableEq ι] (S : Spec σ ι Ret) (h : List (HEv ι Ret)) : Option Bool :=
  if wellAnnotatedB [] h then some (linCheck S h) else none

def linAnswer (obj h : String) : String :=
  let ans (b : Option (Option Bool)) : String :=
    match b with
    | some (some true) => "lin=1"
    | some (some false) => "lin=0"
    | some none => "err=annotation"
    | none => "err=parse"
  match obj with
  | "map" => ans ((parseHist parseMapOp h).map (judge mapSpec))
  | "ctr" => ans ((parseHist parseCtrOp h).map (judge ctrSpec))
  | "amap" => ans ((parseHist parseAMOp h).map (judge amSpec))
  | "slice" => ans ((parseHist parseSlOp h).map (judge slSpec))
  | _ => "err=obj"

/-! #### one line -/

/-- run an operation of the Go layer: new heap and rendered answer, or `panic` -/
def runGo {β : Type} (st : St) (o : Outcome (Heap Int × β)) (render : β → String) : St × String :=
  match o with
  | .ok (h, b) => ({ st with heap := h }, render b)
  | .err e => (st, "err=" ++ e)
  | .panic _ => (st, "panic")

def dumpHeap (h : Heap Int) : String :=
  ";".intercalate ((List.range h.size).map fun i => s!"{nx h i},{pv h i},{vl h i}")

def step (st : St) (raw : String) : St × String :=
  let l := parseLine raw
  let bad := (st, "err=args")
  match l.op with
  | "reset" => ({}, "ok")
  | "rnew" =>
    match l.int? "n" with
    | some n => let (h, r) := Ring.new st.heap n (0 : Int); ({ st with heap := h }, showOpt r)
    | none => bad
  | "rzero" => let (h, r) := alloc st.heap (0 : Int); ({ st with heap := h }, toString r)
  | "rlit" =>
    match l.int? "v" with
    | some v => let (h, r) := alloc st.heap v; ({ st with heap := h }, toString r)
    | none => bad
  | "rnext" => match ptr? st l "p" with | some p => runGo st (Go.next st.heap p) toString | none => bad
  | "rprev" => match ptr? st l "p" with | some p => runGo st (Go.prev st.heap p) toString | none => bad
  | "rmove" =>
    match ptr? st l "p", l.int? "n" with
    | some p, some n => runGo st (Go.move st.heap p n) toString
    | _, _ => bad
  | "rlink" =>
    match ptr? st l "p", optPtr? st l "s" with
    | some p, some s => runGo st (Go.link st.heap p s) toString
    | _, _ => bad
  | "runlink" =>
    match ptr? st l "p", l.int? "n" with
    | some p, some n => runGo st (Go.unlink st.heap p n) showOpt
    | _, _ => bad
  | "rlen" => match optPtr? st l "p" with | some p => runGo st (Go.len st.heap p) toString | none => bad
  | "rdo" => match optPtr? st l "p" with | some p => runGo st (Go.doAll st.heap p) showInts | none => bad
  | "rset" =>
    match ptr? st l "p", l.int? "v" with
    | some p, some v => ({ st with heap := setVal st.heap p v }, "ok")
    | _, _ => bad
  | "rget" => match ptr? st l "p" with | some p => (st, toString (vl st.heap p)) | none => bad
  | "rdump" => (st, dumpHeap st.heap)
  | "bnew" =>
    match l.int? "init", l.int? "bsize" with
    | some i, some b => ({ st with buf := Buf.newF Kit.Generated.C14.buffered i b }, "ok")
    | _, _ => bad
  | "bapp" =>
    match (l.get? "v").bind parseOpt with
    | some v => ({ st with buf := st.buf.appendBackF Kit.Generated.C14.buffered v }, "ok")
    | none => bad
  | "brem" => let (b, v) := st.buf.removeFrontF Kit.Generated.C14.buffered; ({ st with buf := b }, showOpt v)
  | "bfront" => (st, showOpt st.buf.front)
  | "blen" => (st, toString st.buf.len)
  | "brange" =>
    match l.get? "stop" with
    | some "never" => (st, showVals (st.buf.range (stopFn none)))
    | some s =>
      match parseOpt s with
      | some v => (st, showVals (st.buf.range (stopFn (some v))))
      | none => bad
    | none => bad
  | "bring" => (st, toString (Ring.len st.buf.heap st.buf.ring))
  | "lin" =>
    match l.get? "obj", l.get? "h" with
    | some o, some h => (st, linAnswer o h)
    | _, _ => bad
  | _ => (st, "err=op")

def main (_args : List String) : IO UInt32 := do
  lineLoop step ({} : St)
  return 0
end Driver.C14
