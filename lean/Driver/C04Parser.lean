import KitModel.Go.Prelude
import KitModel.CronParser
/-!
Driver for the parser half of C04: `kitdrv C04 parser`.

Request:  `parse o=<options as Nat> z=<0|1> d=<none|ns> r=<runes>`
  * `r` — the spec as dot-separated decimal code points (`-` = empty string);
  * `z` — what `time.LoadLocation` answers for the (single) location name of this case;
  * `d` — what `time.ParseDuration` answers for the (single) `@every` argument of this case.
Answer:   `ok spec <second> <minute> <hour> <dom> <month> <dow> loc=<runes|local>`
        | `ok every <delay ns>` | `err <kind>` | `panic <why>`
A parser with both optionals is answered as `NewParser` behaves: `panic`.
-/
namespace Driver.C04Parser
open Kit Kit.Cron

def parseRunes (s : String) : Option (List Char) :=
  if s == "-" || s == "" then some []
  else (s.splitOn ".").mapM fun w => w.toNat?.map Char.ofNat

def showRunes (cs : List Char) : String :=
  if cs.isEmpty then "-" else ".".intercalate (cs.map fun c => toString c.toNat)

def showSched : Sched → String
  | .spec s loc =>
    let l := match loc with
      | none => "local"
      | some n => showRunes n.toList
    s!"ok spec {s.second.toNat} {s.minute.toNat} {s.hour.toNat} {s.dom.toNat} {s.month.toNat} {s.dow.toNat} loc={l}"
  | .every d => s!"ok every {d}"

def answer (line : String) : String :=
  let l := parseLine line
  match l.op with
  | "parse" =>
    match l.nat? "o", l.nat? "z", l.get? "d", (l.get? "r").bind parseRunes with
    | some o, some z, some d, some r =>
      let env : Env := { knownZone := fun _ => z != 0, parseDuration := fun _ => d.toInt? }
      match newParserParse env (Opts.ofNat o) r with
      | .ok s => showSched s
      | .err e => s!"err {e}"
      | .panic w => s!"panic {w}"
    | _, _, _, _ => "bad-request"
  | _ => "bad-request"

def main (_args : List String) : IO UInt32 := do
  lineLoop (fun (_ : Unit) line => ((), answer line)) ()
  return 0
end Driver.C04Parser
