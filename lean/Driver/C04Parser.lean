import KitModel.Go.Prelude
namespace Driver.C04Parser
def main (_args : List String) : IO UInt32 := do
  IO.eprintln "kitdrv: C04 Parser driver not written yet"
  return 2
end Driver.C04Parser
