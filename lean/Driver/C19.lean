import KitModel.Go.Prelude
import KitModel.Spiffe
import KitModel.SpiffeTA
/-!
Driver for property C19: `kitdrv C19` reads one request per line, answers one line per request.

* `lts v=fixed|cur ev=<e1>,<e2>,…` — trace inclusion for the readiness LTS: the observable events of
  a real execution are run through the τ-closed state-set simulation (`Kit.Spiffe.accept`).
  Events: `cr` `cy` `cg` `cgp` `cr2` `park:i` `rel:i` `cx:i` `req:k` `rep:0|1`
  `ret:i:ok|ctx|e|s<k>` `rret:err|nil` `sx` (Run's ctx ends) `q:i+j+…`.  Answer: `accept` or `reject k=<index> ev=<event> …`.
* `renew dir=0|1 anch=<n> t0=<ns> script=<o:nb:na|f|f:<cd>:<tag>|a:nb:na>,… steps=<a:ns|t:n|w|ans>,…` — runs the renewal
  automaton; answer: requests, served token after each step, armed timers, published file sets.
-/
namespace Driver.C19
open Kit Kit.Spiffe

def parseEv (w : String) : Option Ev :=
  match w.splitOn ":" with
  | ["cr"] => some .callRun
  | ["crp"] => some .callRunHeld
  | ["rpark"] => some .runPark
  | ["rrel"] => some .runRelease
  | ["cy"] => some .callReady
  | ["cg"] => some (.callGet false)
  | ["cgp"] => some (.callGet true)
  | ["cr2"] => some .callRun2
  | ["park", i] => i.toNat?.map .park
  | ["rel", i] => i.toNat?.map .release
  | ["cx", i] => i.toNat?.map .cancel
  | ["req", k] => k.toNat?.map .req
  | ["rep", "1"] => some (.rep true)
  | ["rep", "0"] => some (.rep false)
  | ["ret", i, "ok"] => i.toNat?.map (.ret · (.yDone true))
  | ["ret", i, "ctx"] => i.toNat?.map (.ret · (.yDone false))
  | ["ret", i, "e"] => i.toNat?.map (.ret · (.gDone none))
  | ["ret", i, r] =>
    if r.startsWith "s" then
      match i.toNat?, (r.drop 1).toString.toNat? with
      | some i, some k => some (.ret i (.gDone (some k)))
      | _, _ => none
    else none
  | ["rret", "err"] => some (.runRet true)
  | ["rret", "nil"] => some (.runRet false)
  | ["sx"] => some .cancelRun
  | ["rret2", _] => some .nop
  | ["q", p] =>
    if p == "" then some (.quiet [])
    else ((p.splitOn "+").mapM String.toNat?).map .quiet
  | _ => none

def showRun (r : RunPc) : String := (reprStr r).replace "Kit.Spiffe.RunPc." ""
def showCons (c : ConsPc) : String := (reprStr c).replace "Kit.Spiffe.ConsPc." ""

def showSt (s : St) : String :=
  s!"[run={showRun s.run} readers={s.readers} wPend={s.wPend} wHeld={s.wHeld} ready={s.ready} svid={s.svid} runCtxDone={s.runCtx} cons={s.cons.map showCons}]"

def doLts (l : Line) : String :=
  let v : Variant := if l.get? "v" == some "cur" then .cur else .fixed
  let ws := ((l.get? "ev").getD "").splitOn "," |>.filter (· ≠ "")
  match ws.mapM parseEv with
  | none => "error bad-event"
  | some evs =>
    match accept v evs with
    | (none, m) => s!"accept states={m.states.length}"
    | (some k, m) =>
      let shown := " ".intercalate ((m.states.take 4).map showSt)
      s!"reject k={k} ev={ws.getD k "?"} states={m.states.length} parked={m.parked} before={shown}"

def parseReply (w : String) : Option Reply :=
  match w.splitOn ":" with
  | ["f"] => some (.fail {})
  | ["f", cd, tag] =>   -- error kind: <errors.Is Canceled><errors.Is DeadlineExceeded>:<tag>
    match cd, tag.toNat? with
    | "00", some t => some (.fail ⟨false, false, t⟩)
    | "10", some t => some (.fail ⟨true, false, t⟩)
    | "01", some t => some (.fail ⟨false, true, t⟩)
    | "11", some t => some (.fail ⟨true, true, t⟩)
    | _, _ => none
  | ["o", a, b] => match a.toInt?, b.toInt? with | some a, some b => some (.ok a b) | _, _ => none
  | ["a", a, b] => match a.toInt?, b.toInt? with | some a, some b => some (.okAnchorsFail a b) | _, _ => none
  | _ => none

def parseAct (w : String) : Option Act :=
  match w.splitOn ":" with
  | ["a", d] => d.toInt?.map .adv
  | ["t", n] => n.toNat?.map .anchors
  | ["w"] => some .toWake
  | ["ans"] => some .answer
  | _ => none

def showObs (s : RN) : String × String :=
  ((match s.svid with | some c => toString c.tok | none => "none"),
   (match s.pub with | f :: _ => s!"{f.key}/{f.chain}/{f.anchors}" | [] => "none"))

def doRenew (l : Line) : String :=
  let dirOn := l.get? "dir" == some "1"
  let anch := (l.nat? "anch").getD 0
  let t0 := (l.int? "t0").getD 0
  let sw := ((l.get? "script").getD "").splitOn "," |>.filter (· ≠ "")
  let aw := ((l.get? "steps").getD "").splitOn "," |>.filter (· ≠ "")
  match sw.mapM parseReply, aw.mapM parseAct with
  | some script, some acts =>
    if !acts.all Act.ok then "error non-positive-advance" else
    let s0 := start dirOn anch script t0
    let sts := runActs s0 acts
    let sN := sts.getLast?.getD s0
    let obs := (s0 :: sts).map showObs
    let answered := sN.log.reverse.map fun r => s!"{r.stamp}:{if r.good then 1 else 0}:{r.answered}"
    let reqs := ",".intercalate (answered ++ (if sN.mode == .inflight then [s!"{sN.reqAt}:p"] else []))
    let timers := ",".intercalate (sN.timers.reverse.map fun t => s!"{t.1}:{t.2}")
    let served := ",".intercalate (obs.map (·.1))
    let pub := ",".intercalate (obs.map (·.2))
    let writes := ",".intercalate (sN.pub.reverse.map fun f => s!"{f.key}/{f.chain}/{f.anchors}")
    let mode := match sN.mode with | .waiting => "waiting" | .retrying => "retrying" | .inflight => "inflight" | .dead => "dead"
    s!"reqs={reqs};served={served};timers={timers};pub={pub};writes={writes};mode={mode}"
  | _, _ => "error bad-script"

/-! ### trust-bundle source (`ta ev=…`): events `cr` `cb` `ca` `cw` `file:<v>` (0 = garbage) `stop`
`cx:i` `ret:i:b<v>|closed|ctx` `rret:err|nil` `q:i+j` -/

def parseTaEv (w : String) : Option TA.Ev :=
  match w.splitOn ":" with
  | ["cr"] => some .callRun
  | ["cb"] => some (.callBundle false)
  | ["ca"] => some (.callBundle true)
  | ["cw"] => some .callWatch
  | ["stop"] => some .stop
  | ["file", v] => v.toNat?.map fun n => .file (if n = 0 then .garbage else .ver n)
  | ["cx", i] => i.toNat?.map .cancel
  | ["ret", i, "closed"] => i.toNat?.map (.ret · .closed)
  | ["ret", i, "ctx"] => i.toNat?.map (.ret · .ctx)
  | ["ret", _, "wret"] => some .nop
  | ["ret", i, r] =>
    if r.startsWith "b" then
      match i.toNat?, (r.drop 1).toString.toNat? with
      | some i, some k => some (.ret i (.ok (some k)))
      | _, _ => none
    else none
  | ["rret", "err"] => some (.runRet true)
  | ["rret", "nil"] => some (.runRet false)
  | ["q", p] =>
    if p == "" then some (.quiet [])
    else ((p.splitOn "+").mapM String.toNat?).map .quiet
  | _ => none

def showTaSt (s : TA.St) : String :=
  s!"[run={(reprStr s.run).replace "Kit.Spiffe.TA.RunPc." ""} readers={s.readers} wPend={s.wPend} wHeld={s.wHeld} ready={s.ready} closed={s.closed} bundle={s.bundle} cons={s.cons.map fun c => (reprStr c).replace "Kit.Spiffe.TA." ""}]"

def doTa (l : Line) : String :=
  let ws := ((l.get? "ev").getD "").splitOn "," |>.filter (· ≠ "")
  match ws.mapM parseTaEv with
  | none => "error bad-event"
  | some evs =>
    match TA.accept evs with
    | (none, m) => s!"accept states={m.length}"
    | (some k, m) =>
      let shown := " ".intercalate ((m.take 4).map showTaSt)
      s!"reject k={k} ev={ws.getD k "?"} states={m.length} before={shown}"

def handle (_ : Unit) (line : String) : Unit × String :=
  let l := parseLine line
  match l.op with
  | "lts" => ((), doLts l)
  | "renew" => ((), doRenew l)
  | "ta" => ((), doTa l)
  | _ => ((), "error unknown-op")

def main (_args : List String) : IO UInt32 := do
  lineLoop handle ()
  return 0
end Driver.C19
