import KitModel.Go.Prelude
/-! Driver for property C19: `kitdrv C19` reads op lines on stdin, one answer line per input line. -/
namespace Driver.C19
def main (_args : List String) : IO UInt32 := do
  IO.eprintln "kitdrv: C19 has no model driver yet"
  return 2
end Driver.C19
