import KitModel.NoPanicTime
import KitModel.NoPanicKeys
import KitModel.NoPanicEnc
import KitModel.NoPanicKW
import KitModel.NoPanicReflect
import KitModel.NoPanicDecode
import KitModel.NoPanicPrefix
/-!
Driver for property C07: `kitdrv C07` reads one op per line and answers with the outcome class
(and the values) the Lean models compute:

  iso s=<hex>                                  → `ok y m d dur rep` | `err` | `panic <why>`
  parsekey raw=<hex> ct=<hex>                  → `empty` | `jwk` | `pem` | `symmetric` | `panic <why>`
  upper r=<int>                                → `ok <hex>` | `ok delegated`
  keyalg data=<hex> / cipher data=<hex>        → `ok <name> <id>` | `err`
  validate kw=<hex> cph=<hex> wfk=<n> np=<n>   → `ok <kw> <cph>` | `err`
  kwwrap n=<len> / kwunwrap n=<len> intact=<0|1> → `ok <outlen>` | `err` | `panic <why>`   (length-level aeskw)
  ptrprefix v=<RV>                             → `ok unchanged` | `ok deref` | `panic <why>` (reflect prefix of decodeString)
  pempriv block=<none|ec|rsa|pkcs8|other> sec1=<0|1> pkcs1=<0|1> p8=<none|rsa|ecdsa|ed25519|ecdh> → `ok` | `err` | `panic`
  hook f=<ty> t=<ty> empty=<0|1> pd=<0|1> pi=<0|1> cast=<0|1> q=<0|1>             → `ok` | `err` | `panic`  (metadata hook chain)
  normalize v=<Val>   Val ::= s | l[Val,…] | m{Val,…} | a{<0|1>:Val,…}                  → `ok` | `err`   (config.Normalize)
  dstail tk=<kind> str=<0|1> impl=<0|1> isptr=<0|1> pimpl=<0|1> dok=<0|1> pok=<0|1>     → `ok` | `err` | `panic` (decodeString behind `f.Kind() == String`)
  prefixed kind=<ms|m|mi|other> prefix=<hex> keys=<K,…> lo=<r:l,…>   K ::= k<hex> | n (non-string key)
                                                → `ok <k<hex>,…>` (sorted set of converted keys) | `err` | `panic <why>`   (config.PrefixedBy; `lo` = unicode.ToLower as a table, identity elsewhere)
     RV ::= zero | nil:<ptr|iface|map|slice|func|chan> | ptr(RV) | iface(RV) | leaf:<kind>
-/
namespace Driver.C07
open Kit Kit.NoPanic

def bytesToString (b : Bytes) : String := String.ofList (b.map fun c => Char.ofNat c.toNat)

def showOutcome {α : Type} (f : α → String) : Outcome α → String
  | .ok a => let s := f a; if s == "" then "ok" else "ok " ++ s
  | .err _ => "err"
  | .panic w => "panic " ++ w

/-- latin-1 view of a byte string; only used for names that are compared with ASCII constants, and
bytes ≥ 0x80 can never make such a comparison succeed. -/
def asName (b : Bytes) : String := bytesToString b

open Kit.NoPanic.Reflect in
/-- parser of the `RV` notation; `fuel` bounds the nesting -/
def parseRV : Nat → List Char → Option (RV × List Char)
  | 0, _ => none
  | fuel + 1, cs =>
    let startsWith (p : String) : Option (List Char) :=
      if p.toList.isPrefixOf cs then some (cs.drop p.length) else none
    let word (rest : List Char) : String × List Char :=
      (String.ofList (rest.takeWhile fun c => c.isAlphanum), rest.dropWhile fun c => c.isAlphanum)
    match startsWith "zero" with
    | some rest => some (.zero, rest)
    | none =>
      match startsWith "nil:" with
      | some rest =>
        let (w, rest') := word rest
        let k : Option NK := match w with
          | "ptr" => some .ptr | "iface" => some .iface | "map" => some .map | "slice" => some .slice
          | "func" => some .func | "chan" => some .chan | _ => none
        k.map fun k => (.nilOf k, rest')
      | none =>
        match startsWith "leaf:" with
        | some rest =>
          let (w, rest') := word rest
          let k : LK := match w with
            | "bool" => .bool | "int" => .int | "float" => .float | "string" => .string | "map" => .map
            | "slice" => .slice | "struct" => .struct | "func" => .func | "chan" => .chan | "array" => .array | _ => .other
          some (.leaf k, rest')
        | none =>
          match startsWith "ptr(" with
          | some rest =>
            match parseRV fuel rest with
            | some (v, ')' :: rest') => some (.ptrTo v, rest')
            | _ => none
          | none =>
            match startsWith "iface(" with
            | some rest =>
              match parseRV fuel rest with
              | some (v, ')' :: rest') => some (.ifaceOf v, rest')
              | _ => none
            | none => none

open Kit.NoPanic.Decode in
/-- parser of the `Val` notation -/
partial def parseVal (cs : List Char) : Option (Val × List Char) :=
  let rec items (cs : List Char) (close : Char) (withFlag : Bool) (acc : List (Bool × Val)) : Option (List (Bool × Val) × List Char) :=
    match cs with
    | c :: rest =>
      if c == close then some (acc.reverse, rest)
      else
        let cs' := if c == ',' then rest else cs
        let (flag, cs'') := if withFlag then
            (match cs' with | '1' :: ':' :: r => (true, r) | '0' :: ':' :: r => (false, r) | r => (false, r))
          else (true, cs')
        match parseVal cs'' with
        | some (v, r) => items r close withFlag ((flag, v) :: acc)
        | none => none
    | [] => none
  match cs with
  | 's' :: rest => some (.scalar, rest)
  | 'l' :: '[' :: rest => (items rest ']' false []).map fun (xs, r) => (.list (xs.map (·.2)), r)
  | 'm' :: '{' :: rest => (items rest '}' false []).map fun (xs, r) => (.mapStr (xs.map (·.2)), r)
  | 'a' :: '{' :: rest => (items rest '}' true []).map fun (xs, r) => (.mapAny xs, r)
  | _ => none

/-- `r:l,r:l,…` → `unicode.ToLower` restricted to the runes the harness computed it for -/
def parseLower (s : String) : Option (Prefix.Rune → Prefix.Rune) :=
  if s == "" then some id
  else
    let pairs := (s.splitOn ",").mapM fun w =>
      match w.splitOn ":" with
      | [a, b] => match a.toInt?, b.toInt? with
        | some x, some y => some (x, y)
        | _, _ => none
      | _ => none
    pairs.map fun ps => fun r => match ps.find? (·.1 == r) with
      | some p => p.2
      | none => r

/-- `k<hex>` = string key, `n` = a key that is not a string -/
def parseKeys (s : String) : Option (List (Option Bytes)) :=
  if s == "" then some []
  else (s.splitOn ",").mapM fun w =>
    match w.toList with
    | 'n' :: [] => some none
    | 'k' :: rest => (fromHexChars rest).map some
    | _ => none

def showKeys (ks : List Bytes) : String :=
  let hs := (ks.map fun k => "k" ++ toHex k).eraseDups
  ",".intercalate (hs.mergeSort fun a b => decide (a ≤ b))

def step (_ : Unit) (line : String) : Unit × String :=
  let l := parseLine line
  let ans : String :=
    match l.op with
    | "iso" =>
      match l.hex? "s" with
      | some s => showOutcome (fun (r : Time.IsoRes) => s!"{r.years} {r.months} {r.days} {r.dur} {r.rep}") (Time.parseISO8601 s)
      | none => "bad-request"
    | "parsekey" =>
      match l.hex? "raw", l.hex? "ct" with
      | some raw, some ct =>
        match Keys.parseKeyBranch raw (asName ct) with
        | .ok .jwk => "jwk"
        | .ok .pem => "pem"
        | .ok .symmetric => "symmetric"
        | .err _ => "empty"
        | .panic w => "panic " ++ w
      | _, _ => "bad-request"
    | "upper" =>
      match l.int? "r" with
      | some r =>
        match Enc.runeToUppercase r with
        | .bytes b => "ok " ++ toHex b
        | .delegated => "ok delegated"
      | none => "bad-request"
    | "keyalg" =>
      match l.hex? "data" with
      | some d => showOutcome (fun a => s!"{a} {Enc.keyAlgID a}") ((Enc.keyAlgUnmarshal d).bind Enc.keyAlgValidate)
      | none => "bad-request"
    | "cipher" =>
      match l.hex? "data" with
      | some d => showOutcome (fun a => s!"{a} {Enc.cipherID a}") ((Enc.cipherUnmarshal d).bind Enc.cipherValidate)
      | none => "bad-request"
    | "validate" =>
      match l.hex? "kw", l.hex? "cph", l.nat? "wfk", l.nat? "np" with
      | some kw, some cph, some w, some n =>
        showOutcome (fun (p : String × String) => s!"{p.1} {p.2}") (Enc.manifestValidate (asName kw) w (asName cph) n)
      | _, _, _, _ => "bad-request"
    | "pempriv" =>
      let block : Option Keys.BlockType := match l.get? "block" with
        | some "ec" => some .ecPrivateKey | some "rsa" => some .rsaPrivateKey | some "pkcs8" => some .privateKey
        | some "other" => some .other | _ => none
      let p8 : Option Keys.Pkcs8Key := match l.get? "p8" with
        | some "rsa" => some .rsa | some "ecdsa" => some .ecdsa | some "ed25519" => some .ed25519 | some "ecdh" => some .ecdh | _ => none
      showOutcome (fun (_ : Unit) => "") (Keys.decodePEMPrivateKey true block (l.nat? "sec1" == some 1) (l.nat? "pkcs1" == some 1) p8)
    | "hook" =>
      let ty (s : Option String) : Decode.Ty := match s with
        | some "string" => .string | some "duration" => .duration | some "kitDuration" => .kitDuration | some "bool" => .bool
        | some "boolPtr" => .boolPtr | some "stringSlice" => .stringSlice | some "stringSlicePtr" => .stringSlicePtr
        | some "durationSlice" => .durationSlice | some "durationSlicePtr" => .durationSlicePtr | some "byteSize" => .byteSize
        | some "byteSizePtr" => .byteSizePtr | some "mapStringString" => .mapStringString | some "int" => .int
        | some "int64" => .int64 | some "float64" => .float64 | some "struct" => .struct | _ => .other
      let b (k : String) : Bool := l.nat? k == some 1
      showOutcome (fun (_ : Decode.Ty) => "") (Decode.hookChain ⟨b "empty", b "pd", b "pi", b "cast", b "q"⟩ (ty (l.get? "f")) (ty (l.get? "t")))
    | "normalize" =>
      match (l.get? "v").bind fun v => parseVal v.toList with
      | some (v, []) => showOutcome (fun (_ : Unit) => "") (Decode.normalize v)
      | _ => "bad-request"
    | "dstail" =>
      let b (k : String) : Bool := l.nat? k == some 1
      let tk : Decode.Kind := match l.get? "tk" with
        | some "string" => .string | some "int64" => .int64 | some "float64" => .float64 | some "bool" => .bool
        | some "ptr" => .ptr | some "slice" => .slice | some "map" => .map | some "struct" => .struct | some "int" => .int | _ => .other
      showOutcome (fun (_ : Unit) => "") (Decode.decodeString true
        ⟨tk, .string, .value, .string, b "str", b "impl", b "isptr", b "pimpl", b "dok", b "pok"⟩)
    | "kwwrap" =>
      match l.nat? "n" with
      | some n => showOutcome (fun (k : Nat) => toString k) (KW.wrap n)
      | none => "bad-request"
    | "kwunwrap" =>
      match l.nat? "n", l.nat? "intact" with
      | some n, some i => showOutcome (fun (k : Nat) => toString k) (KW.unwrap n (i == 1))
      | _, _ => "bad-request"
    | "prefixed" =>
      match l.hex? "prefix", parseKeys ((l.get? "keys").getD ""), parseLower ((l.get? "lo").getD "") with
      | some pre, some ks, some lo =>
        let inp : Option Prefix.Input := match l.get? "kind" with
          | some "ms" => some (.mapStrStr (ks.filterMap id))
          | some "m" => some (.mapStrAny ((ks.filterMap id).map fun k => (k, .scalar)))
          | some "mi" => some (.mapAnyAny (ks.map fun k => (k, .scalar)))
          | some "other" => some (.other .scalar)
          | _ => none
        match inp with
        | some inp => showOutcome showKeys (Prefix.prefixedBy lo inp pre)
        | none => "bad-request"
      | _, _, _ => "bad-request"
    | "ptrprefix" =>
      match (l.get? "v").bind fun v => parseRV 64 v.toList with
      | some (rv, []) =>
        match Reflect.decodePtrPrefix rv with
        | .ok none => "ok unchanged"
        | .ok (some ()) => "ok deref"
        | .err _ => "err"
        | .panic w => "panic " ++ w
      | _ => "bad-request"
    | _ => "bad-request"
  ((), ans)

def main (_args : List String) : IO UInt32 := do
  lineLoop step ()
  return 0
end Driver.C07
