import KitModel.Go.Prelude
/-! Driver for property C07: `kitdrv C07` reads op lines on stdin, one answer line per input line. -/
namespace Driver.C07
def main (_args : List String) : IO UInt32 := do
  IO.eprintln "kitdrv: C07 has no model driver yet"
  return 2
end Driver.C07
