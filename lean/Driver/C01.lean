import KitModel.Go.Prelude
import KitModel.Enc
import KitModel.EncReal
/-! Driver for property C01: `kitdrv C01` reads op lines on stdin, one answer line per input line.

ops
* `ps seg=<n> data=<hex> caps=<a,b,…> ewd=<0|1> term=<eof|failOnce|failSticky> failcall=<k|none>`
  — model `processSegments` with a recording function that echoes its input and fails at call `k`.
  Answer `calls=<hex>:<num>:<last>;… out=<hex> term=<name>`.
* `rh data=… caps=… ewd=… term=… fix=<0|1>` — model `readHeader`; answer
  `ok manifest=<hex> mac=<hex> rest=<hex> restterm=<eof|fail>` or `err=<name>`.
* `enc …` / `dec …` / `selftest` — real documents with the Lean-native primitives (see `KitModel/EncReal.lean`).
-/
namespace Driver.C01
open Kit Kit.Enc

def main (_args : List String) : IO UInt32 := do
  Kit.lineLoop (fun (_ : Unit) line => ((), Kit.Enc.Real.answer line)) ()
  return 0
end Driver.C01
