import KitModel.Go.Prelude
/-! Driver for property C01: `kitdrv C01` reads op lines on stdin, one answer line per input line. -/
namespace Driver.C01
def main (_args : List String) : IO UInt32 := do
  IO.eprintln "kitdrv: C01 has no model driver yet"
  return 2
end Driver.C01
