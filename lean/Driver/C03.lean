import KitModel.Go.Prelude
import KitModel.CryptoGlue
import KitModel.Crypto
import KitModel.Crypto.Rsa
import KitModel.Crypto.Ecdsa
import KitModel.Crypto.Ed25519
/-!
Driver for property C03: `kitdrv C03` reads one op per line on stdin and answers one line per
input line by running the executable model `Kit.CryptoGlue` instantiated with the Lean-native
primitives of `Kit.Crypto` (AES, GCM, (X)ChaCha20-Poly1305, HMAC-SHA2).

Ops (bytes in hex, empty = empty):
  sym fn=EncryptSymmetric|Encrypt alg= kind= key= nonce= data= ad=          → ok ct= tag= x=
  sym fn=DecryptSymmetric|Decrypt alg= kind= key= nonce= data= tag= ad=     → ok pt= x=
  asym fn= alg= kind=                                                       → ok | err <class>
  kw dir=wrap|unwrap|unwrapprefix key= data=                                → ok out= x=
  pad dir=pad|unpad size= data=                                             → ok out=
  cbchmac dir=seal|open ctor= key= nonce= data= ad=                         → ok out= x=
  rsa op=verify15|verifypss n= e= hash= digest= sig=                         → ok valid=true|false
  rsa op=sign15 n= d= hash= digest= | op=signpss … salt=                     → ok sig=
  rsa op=dec15 n= d= ct= | op=decoaep n= d= hash= label= ct=                 → ok pt= | err decryption
  rsa op=enc15 n= e= pt= ps= | op=encoaep n= e= hash= label= pt= seed=       → ok ct=
      (Lean-native RFC 8017 over Nat, `Kit.Crypto.Rsa`; n, e, d big-endian hex; hash = 1|256|384|512)
  ec op=verify bits=256|384|521 qx= qy= digest= sig=                         → ok valid=true|false
  ec op=sign bits= d= k= digest=                                            → ok sig= (DER) | err
  ec op=params bits=                                                        → ok p= b= gx= gy= n=
      (Lean-native ECDSA over the NIST curves, `Kit.Crypto.Ecdsa`)
  ed op=verify pk= msg= sig= → ok valid= | op=sign seed= msg= → ok sig= | op=public seed= → ok pk=
  asymfull fn=SignPrivateKey|VerifyPublicKey alg= kind= <key material> digest= [sig=] [rand=]
      → ok sig= | ok valid= | err <class>   (the MODEL's signPrivateKey/verifyPublicKey end to end:
        generated dispatch + key guard + the Lean-native scheme the helper's stdlib call denotes)
      (Lean-native Ed25519, RFC 8032, `Kit.Crypto.Ed25519`)
Errors: `err <class>`; panics of the Go code: `panic <why>`.
`x=` is a cross-check of the hand-written parts of the model (RFC 3394, CBC, CBC-HMAC) against
the independently written `Kit.Crypto.kwWrap / cbcEncrypt / cbcHmacSeal`: `agree`, `differ`, `na`.
-/
namespace Driver.C03
open Kit Kit.CryptoGlue

def hashOfBits (bits : Nat) : Option Kit.Crypto.HashAlg :=
  if bits = 256 then some .sha256 else if bits = 384 then some .sha384
  else if bits = 512 then some .sha512 else none

def optOut (o : Option Bytes) : Outcome Bytes :=
  match o with
  | some p => .ok p
  | none => .err eAuth

def realPrims : Prims where
  aes key := { E := Kit.Crypto.aesEncryptBlock key, D := Kit.Crypto.aesDecryptBlock key }
  gcm key := {
    nonceSize := 12, overhead := 16
    doSeal := fun n pt ad =>
      if n.length ≠ 12 then .panic "crypto/cipher: incorrect nonce length given to GCM"
      else .ok (Kit.Crypto.gcmSeal key n pt ad)
    doOpen := fun n c ad =>
      if n.length ≠ 12 then .panic "crypto/cipher: incorrect nonce length given to GCM"
      else optOut (Kit.Crypto.gcmOpen key n c ad) }
  chacha key := {
    nonceSize := 12, overhead := 16
    doSeal := fun n pt ad =>
      if n.length ≠ 12 then .panic "chacha20poly1305: bad nonce length passed to Seal"
      else .ok (Kit.Crypto.chacha20Poly1305Seal key n pt ad)
    doOpen := fun n c ad =>
      if n.length ≠ 12 then .panic "chacha20poly1305: bad nonce length passed to Open"
      else optOut (Kit.Crypto.chacha20Poly1305Open key n c ad) }
  xchacha key := {
    nonceSize := 24, overhead := 16
    doSeal := fun n pt ad =>
      if n.length ≠ 24 then .panic "chacha20poly1305: bad nonce length passed to Seal"
      else .ok (Kit.Crypto.xchacha20Poly1305Seal key n pt ad)
    doOpen := fun n c ad =>
      if n.length ≠ 24 then .panic "chacha20poly1305: bad nonce length passed to Open"
      else optOut (Kit.Crypto.xchacha20Poly1305Open key n c ad) }
  hmac bits key msg :=
    match hashOfBits bits with
    | some h => Kit.Crypto.hmac h key msg
    | none => []

/-- Key material of any of the asymmetric key types, as numbers / octets. -/
structure KeyMat where
  n : Nat := 0
  e : Nat := 0
  d : Nat := 0
  qx : Nat := 0
  qy : Nat := 0
  dd : Nat := 0
  seed : Bytes := []
  pk : Bytes := []

def rsaHashOfBits (bits : Nat) : Option Kit.Crypto.RsaHash :=
  if bits = 1 then some .sha1 else if bits = 256 then some .sha256 else if bits = 384 then some .sha384
  else if bits = 512 then some .sha512 else none

def boolVerify (b : Bool) : StdVerify := if b then .valid else .invalid

/-- The signature scheme a dispatched helper's stdlib call denotes, on the Lean-native primitives.
`rand` is the PSS salt / the ECDSA per-signature secret.  A digest of the wrong size is an invalid
signature for the RSA verifiers too (Go maps the encoding error to ErrVerification). -/
def schemeOfPlan (pl : AsymPlan) : SigScheme KeyMat KeyMat where
  pub := id
  sign := fun k digest rand =>
    let c := pl.helper.stdCall
    if c = "rsa.SignPKCS1v15" then
      match (rsaHashOfBits pl.hash).bind fun h => Kit.Crypto.rsaSignPkcs1v15 k.n k.d h digest with
      | some s => .ok s | none => .err "rsa:sign"
    else if c = "rsa.SignPSS" then
      match (rsaHashOfBits pl.hash).bind fun h => Kit.Crypto.rsaSignPss k.n k.d h digest rand with
      | some s => .ok s | none => .err "rsa:sign"
    else if c = "ecdsa.SignASN1" then
      match (Kit.Crypto.curveOfBits pl.curve).bind fun cv => Kit.Crypto.ecdsaSign cv k.dd (Kit.Crypto.os2ip rand) digest with
      | some s => .ok s | none => .err "ecdsa:sign"
    else if c = "ed25519.Sign" then .ok (Kit.Crypto.Ed25519.sign k.seed digest)
    else .panic ("model: no scheme for " ++ c)
  verify := fun k digest sig =>
    let c := pl.helper.stdCall
    if c = "rsa.VerifyPKCS1v15" then
      match rsaHashOfBits pl.hash with
      | some h => boolVerify (Kit.Crypto.rsaVerifyPkcs1v15 k.n k.e h digest sig)
      | none => .failure "rsa:hash"
    else if c = "rsa.VerifyPSS" then
      match rsaHashOfBits pl.hash with
      | some h => boolVerify (Kit.Crypto.rsaVerifyPss k.n k.e h digest sig none)
      | none => .failure "rsa:hash"
    else if c = "ecdsa.VerifyASN1" then
      match Kit.Crypto.curveOfBits pl.curve with
      | some cv => boolVerify (Kit.Crypto.ecdsaVerify cv k.qx k.qy digest sig)
      | none => .failure "ecdsa:curve"
    else if c = "ed25519.Verify" then boolVerify (Kit.Crypto.Ed25519.verify k.pk digest sig)
    else .failure ("model: no scheme for " ++ c)

/-- The public-key encryption scheme a dispatched helper's stdlib call denotes. -/
def pkeOfPlan (pl : AsymPlan) : PkeScheme KeyMat KeyMat where
  pub := id
  enc := fun k msg label rand =>
    let c := pl.helper.stdCall
    let r :=
      if c = "rsa.EncryptPKCS1v15" then Kit.Crypto.rsaEncryptPkcs1v15 k.n k.e msg rand
      else if c = "rsa.EncryptOAEP" then (rsaHashOfBits pl.hash).bind fun h => Kit.Crypto.rsaEncryptOaep k.n k.e h label msg rand
      else none
    match r with | some x => .ok x | none => .err "rsa:encrypt"
  dec := fun k ct label =>
    let c := pl.helper.stdCall
    let r :=
      if c = "rsa.DecryptPKCS1v15" then Kit.Crypto.rsaDecryptPkcs1v15 k.n k.d ct
      else if c = "rsa.DecryptOAEP" then (rsaHashOfBits pl.hash).bind fun h => Kit.Crypto.rsaDecryptOaep k.n k.d h label ct
      else none
    match r with | some x => .ok x | none => .err "rsa:decrypt"

def parseKind (s : String) : Option KeyKind :=
  if s = "oct" then some .oct
  else if s = "rsaPriv" then some .rsaPriv else if s = "rsaPub" then some .rsaPub
  else if s = "ecP256Priv" then some (.ecPriv 256) else if s = "ecP256Pub" then some (.ecPub 256)
  else if s = "ecP384Priv" then some (.ecPriv 384) else if s = "ecP384Pub" then some (.ecPub 384)
  else if s = "ecP521Priv" then some (.ecPriv 521) else if s = "ecP521Pub" then some (.ecPub 521)
  else if s = "ed25519Priv" then some .ed25519Priv else if s = "ed25519Pub" then some .ed25519Pub
  else if s = "x25519Priv" then some .x25519Priv else if s = "x25519Pub" then some .x25519Pub
  else none

def clean (s : String) : String := s.map fun c => if c = ' ' ∨ c = '\n' then '_' else c

def render {α} (o : Outcome α) (f : α → String) : String :=
  match o with
  | .ok a => "ok " ++ f a
  | .err e => "err " ++ clean e
  | .panic w => "panic " ++ clean w

def hexOr (l : Line) (k : String) : Option Bytes :=
  match l.get? k with
  | none => some []
  | some s => fromHex s

/-- The algorithm name: `alg=<name>` or, for names the line protocol cannot carry (empty, blanks,
control characters), `alghex=<utf-8 bytes in hex>`. -/
def algOf (l : Line) : Option String :=
  match l.get? "alghex" with
  | some hx => (fromHex hx).bind fun bs => String.fromUTF8? bs.toByteArray
  | none => l.get? "alg"

def agree (b : Bool) : String := if b then "agree" else "differ"

/-- Independent spec of what an encryption with valid sizes must produce (ct, tag), if the
`Kit.Crypto` library has one for this name. -/
def specEncrypt (alg : String) (key nonce pt ad : Bytes) : Option (Bytes × Bytes) :=
  let cbc := ["A128CBC", "A192CBC", "A256CBC"]
  let nopad := ["A128CBC-NOPAD", "A192CBC-NOPAD", "A256CBC-NOPAD"]
  let kw := ["A128KW", "A192KW", "A256KW"]
  if cbc.contains alg then some (Kit.Crypto.cbcEncrypt key nonce (Kit.Crypto.pkcs7Pad pt), [])
  else if nopad.contains alg then some (Kit.Crypto.cbcEncrypt key nonce pt, [])
  else if kw.contains alg then some (Kit.Crypto.kwWrap key pt, [])
  else if alg = "A128CBC-HS256" then some (Kit.Crypto.cbcHmacSeal .sha256 key nonce pt ad)
  else if alg = "A192CBC-HS384" then some (Kit.Crypto.cbcHmacSeal .sha384 key nonce pt ad)
  else if alg = "A256CBC-HS512" then some (Kit.Crypto.cbcHmacSeal .sha512 key nonce pt ad)
  else none

def specDecrypt (alg : String) (key nonce ct tag ad : Bytes) : Option (Option Bytes) :=
  let kw := ["A128KW", "A192KW", "A256KW"]
  if kw.contains alg then some (Kit.Crypto.kwUnwrap key ct)
  else if alg = "A128CBC-HS256" then some (Kit.Crypto.cbcHmacOpen .sha256 key nonce ct ad tag)
  else if alg = "A192CBC-HS384" then some (Kit.Crypto.cbcHmacOpen .sha384 key nonce ct ad tag)
  else if alg = "A256CBC-HS512" then some (Kit.Crypto.cbcHmacOpen .sha512 key nonce ct ad tag)
  else none

def answer (l : Line) : String :=
  match l.op with
  | "sym" =>
    match l.get? "fn", algOf l, (l.get? "kind").bind parseKind, hexOr l "key", hexOr l "nonce",
          hexOr l "data", hexOr l "tag", hexOr l "ad" with
    | some fn, some alg, some kind, some key, some nonce, some data, some tag, some ad =>
      let k : Key := { kind := kind, raw := key }
      if fn = "EncryptSymmetric" ∨ fn = "Encrypt" then
        let r := if fn = "Encrypt" then encrypt realPrims pkeOfPlan ({} : KeyMat) [] data alg k nonce ad
                 else encryptSymmetric realPrims data alg k nonce ad
        let x := match r, specEncrypt alg key nonce data ad with
          | .ok out, some sp => agree (out == sp)
          | _, _ => "na"
        render r (fun o => s!"ct={toHex o.1} tag={toHex o.2} x={x}")
      else if fn = "DecryptSymmetric" ∨ fn = "Decrypt" then
        let r := if fn = "Decrypt" then decrypt realPrims pkeOfPlan ({} : KeyMat) data alg k nonce tag ad
                 else decryptSymmetric realPrims data alg k nonce tag ad
        -- cross-check only where the spec function's domain (valid sizes, aligned body) applies
        let x := match specDecrypt alg key nonce data tag ad with
          | some sp =>
            match r with
            | .ok p => agree (sp == some p)
            | .err e => if e == eAuth ∨ e == eKwIntegrity ∨ e == eKwSize ∨ e == ePkcs7 then agree (sp == none) else "na"
            | .panic _ => "na"
          | none => "na"
        match r with
        | .ok p => s!"ok pt={toHex p} x={x}"
        | .err e => s!"err {clean e} x={x}"
        | .panic w => s!"panic {clean w}"
      else "bad fn"
    | _, _, _, _, _, _, _, _ => "bad sym line"
  | "asym" =>
    match l.get? "fn", algOf l, (l.get? "kind").bind parseKind with
    | some fn, some alg, some kind =>
      let r : Outcome Unit :=
        if fn = "Encrypt" then
          match encryptRoute alg with
          | some "EncryptPublicKey" => asymOutcome "EncryptPublicKey" alg kind
          | some _ =>
            match encryptSymmetric realPrims (List.replicate 16 0) alg { kind := kind, raw := List.replicate 32 0 } [] [] with
            | .ok _ => .ok ()
            | .err e => .err e
            | .panic w => .panic w
          | none => .err eUnsupportedAlgorithm
        else if fn = "Decrypt" then
          match decryptRoute alg with
          | some "DecryptPrivateKey" => asymOutcome "DecryptPrivateKey" alg kind
          | some _ =>
            match decryptSymmetric realPrims (List.replicate 16 0) alg { kind := kind, raw := List.replicate 32 0 } [] [] [] with
            | .ok _ => .ok ()
            | .err e => .err e
            | .panic w => .panic w
          | none => .err eUnsupportedAlgorithm
        else asymOutcome fn alg kind
      render r (fun _ => "")
    | _, _, _ => "bad asym line"
  | "kw" =>
    match l.get? "dir", hexOr l "key", hexOr l "data" with
    | some dir, some key, some data =>
      let bc := realPrims.aes key
      if dir = "wrap" then
        let r := wrap bc data
        let x := match r with
          | .ok w => agree (w == Kit.Crypto.kwWrap key data)
          | _ => agree (Kit.Crypto.kwWrap key data == [])
        render r (fun o => s!"out={toHex o} x={x}")
      else if dir = "unwrap" then
        let r := unwrap bc data
        let x := match r with
          | .ok p => agree (Kit.Crypto.kwUnwrap key data == some p)
          | _ => agree (Kit.Crypto.kwUnwrap key data == none)
        match r with
        | .ok p => s!"ok out={toHex p} x={x}"
        | .err e => s!"err {clean e} x={x}"
        | .panic w => s!"panic {clean w}"
      else if dir = "unwrapprefix" then
        render (unwrapPreFix bc data) (fun o => s!"out={toHex o}")
      else "bad dir"
    | _, _, _ => "bad kw line"
  | "pad" =>
    match l.get? "dir", l.nat? "size", hexOr l "data" with
    | some dir, some size, some data =>
      if dir = "pad" then render (pad data size) (fun o => s!"out={toHex o}")
      else render (unpad data size) (fun o => s!"out={toHex o}")
    | _, _, _ => "bad pad line"
  | "cbchmac" =>
    match l.get? "dir", l.get? "ctor", hexOr l "key", hexOr l "nonce", hexOr l "data", hexOr l "ad" with
    | some dir, some ctor, some key, some nonce, some data, some ad =>
      match Generated.C03.aescbcaeadParams.find? (·.ctor == ctor) with
      | none => "err unknown_ctor"
      | some p =>
        if key.length ≠ p.encKeySize + p.macKeySize then "err key_size"
        else if dir = "seal" then
          render (cbcHmacSeal realPrims p key nonce data ad) (fun o => s!"out={toHex o}")
        else render (cbcHmacOpen realPrims p key nonce data ad) (fun o => s!"out={toHex o}")
    | _, _, _, _, _, _ => "bad cbchmac line"
  | "rsa" =>
    let num (k : String) : Option Nat := (hexOr l k).map Kit.Crypto.os2ip
    let hashOf : Option Kit.Crypto.RsaHash :=
      match l.nat? "hash" with
      | some 1 => some .sha1 | some 256 => some .sha256 | some 384 => some .sha384 | some 512 => some .sha512
      | _ => none
    let optBytes (tag : String) (o : Option Bytes) : String :=
      match o with
      | some b => s!"ok {tag}={toHex b}"
      | none => "err decryption"
    match l.get? "op", num "n", num "e", num "d", hexOr l "digest", hexOr l "sig", hexOr l "ct",
          hexOr l "pt", hexOr l "label" with
    | some op, some n, some e, some d, some digest, some sig, some ct, some pt, some label =>
      if op = "dec15" then optBytes "pt" (Kit.Crypto.rsaDecryptPkcs1v15 n d ct)
      else if op = "enc15" then
        match hexOr l "ps" with
        | some ps => optBytes "ct" (Kit.Crypto.rsaEncryptPkcs1v15 n e pt ps)
        | none => "bad rsa line"
      else
        match hashOf with
        | none => "bad hash"
        | some h =>
          if op = "verify15" then s!"ok valid={Kit.Crypto.rsaVerifyPkcs1v15 n e h digest sig}"
          else if op = "verifypss" then s!"ok valid={Kit.Crypto.rsaVerifyPss n e h digest sig none}"
          else if op = "sign15" then optBytes "sig" (Kit.Crypto.rsaSignPkcs1v15 n d h digest)
          else if op = "signpss" then
            match hexOr l "salt" with
            | some salt => optBytes "sig" (Kit.Crypto.rsaSignPss n d h digest salt)
            | none => "bad rsa line"
          else if op = "decoaep" then optBytes "pt" (Kit.Crypto.rsaDecryptOaep n d h label ct)
          else if op = "encoaep" then
            match hexOr l "seed" with
            | some seed => optBytes "ct" (Kit.Crypto.rsaEncryptOaep n e h label pt seed)
            | none => "bad rsa line"
          else "bad rsa op"
    | _, _, _, _, _, _, _, _, _ => "bad rsa line"
  | "ec" =>
    let num (k : String) : Option Nat := (hexOr l k).map Kit.Crypto.os2ip
    match l.get? "op", (l.nat? "bits").bind Kit.Crypto.curveOfBits with
    | some op, some c =>
      let nhex (x : Nat) : String := toHex (Kit.Crypto.i2osp ((Kit.Crypto.bitLen c.p + 7) / 8) x)
      if op = "params" then s!"ok p={nhex c.p} b={nhex c.b} gx={nhex c.gx} gy={nhex c.gy} n={nhex c.n}"
      else if op = "verify" then
        match num "qx", num "qy", hexOr l "digest", hexOr l "sig" with
        | some qx, some qy, some digest, some sig => s!"ok valid={Kit.Crypto.ecdsaVerify c qx qy digest sig}"
        | _, _, _, _ => "bad ec line"
      else if op = "sign" then
        match num "d", num "k", hexOr l "digest" with
        | some d, some k, some digest =>
          match Kit.Crypto.ecdsaSign c d k digest with
          | some sig => s!"ok sig={toHex sig}"
          | none => "err sign"
        | _, _, _ => "bad ec line"
      else "bad ec op"
    | _, _ => "bad ec line"
  | "ed" =>
    match l.get? "op", hexOr l "pk", hexOr l "seed", hexOr l "msg", hexOr l "sig" with
    | some op, some pk, some seed, some msg, some sig =>
      if op = "verify" then s!"ok valid={Kit.Crypto.Ed25519.verify pk msg sig}"
      else if op = "sign" then
        if seed.length = 32 then s!"ok sig={toHex (Kit.Crypto.Ed25519.sign seed msg)}" else "err seed"
      else if op = "public" then
        if seed.length = 32 then s!"ok pk={toHex (Kit.Crypto.Ed25519.publicKey seed)}" else "err seed"
      else "bad ed op"
    | _, _, _, _, _ => "bad ed line"
  | "asymfull" =>
    -- end-to-end model of SignPrivateKey / VerifyPublicKey: generated dispatch + key guard + the
    -- Lean-native scheme the dispatched helper's stdlib call denotes
    let num (k : String) : Nat := ((hexOr l k).map Kit.Crypto.os2ip).getD 0
    let byt (k : String) : Bytes := (hexOr l k).getD []
    match l.get? "fn", algOf l, (l.get? "kind").bind parseKind with
    | some fn, some alg, some kind =>
      let km : KeyMat := { n := num "n", e := num "e", d := num "d", qx := num "qx", qy := num "qy", dd := num "dd",
                           seed := byt "seed", pk := byt "pk" }
      if fn = "EncryptPublicKey" then
        render (encryptPublicKey pkeOfPlan alg kind km (byt "data") (byt "label") (byt "rand")) (fun c => s!"ct={toHex c}")
      else if fn = "DecryptPrivateKey" then
        render (decryptPrivateKey pkeOfPlan alg kind km (byt "data") (byt "label")) (fun m => s!"pt={toHex m}")
      else if fn = "SignPrivateKey" then
        render (signPrivateKey schemeOfPlan alg kind km (byt "digest") (byt "rand")) (fun sg => s!"sig={toHex sg}")
      else
        render (verifyPublicKey schemeOfPlan alg kind km (byt "digest") (byt "sig")) (fun b => s!"valid={b}")
    | _, _, _ => "bad asymfull line"
  | _ => "bad op"

def main (_args : List String) : IO UInt32 := do
  Kit.lineLoop (fun (_ : Unit) s => ((), answer (parseLine s))) ()
  return 0
end Driver.C03
