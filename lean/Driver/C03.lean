import KitModel.Go.Prelude
/-! Driver for property C03: `kitdrv C03` reads op lines on stdin, one answer line per input line. -/
namespace Driver.C03
def main (_args : List String) : IO UInt32 := do
  IO.eprintln "kitdrv: C03 has no model driver yet"
  return 2
end Driver.C03
