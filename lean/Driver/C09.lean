import KitModel.Go.Prelude
/-! Driver for property C09: `kitdrv C09` reads op lines on stdin, one answer line per input line. -/
namespace Driver.C09
def main (_args : List String) : IO UInt32 := do
  IO.eprintln "kitdrv: C09 has no model driver yet"
  return 2
end Driver.C09
