import KitModel.Go.Prelude
import KitModel.Coalescing
import Std.Data.HashSet
/-!
Driver for property C09: `kitdrv C09`.

State-set simulation of `Kit.Coalescing.step` against an observed trace of the real limiter.
One event per line, one answer per line (`ok n=<size of the state set>` or `reject …`; after a
reject every line answers `dead` until the next `begin`).

The model LTS is wrapped by the usual call/return layer: an API call is observed twice (call,
return) and takes effect somewhere in between; a hook event reports an internal step that has
already happened, and while the run loop sits in the hook callback it cannot move.

```
begin initial=<ns> max=<ns> cap=<n|0> hooks=<0|1>
runcall | addcall | addret | closecall | closeret | cancel | runret
adv t=<ns>            clock moved
recv t=<ns>           consumer received a signal, stamped with the clock
hin park=<0|1>        hook coalescing.inputHandled (park=1: the harness keeps the loop there)
htm park=<0|1>        hook coalescing.timerHandled
release               the harness lets a parked loop continue
settle tok=<n> snd=<n> loop=<0|1> timer=<none|deadline>
                      every goroutine of the limiter is blocked; counted from a goroutine dump,
                      timer read from the fake clock
f64 n=<n>             float64 rounding used by the back-off (independent of `begin`)
```
-/
namespace Driver.C09
open Kit Kit.Coalescing

structure DState where
  m : State
  /-- `Add` calls issued whose critical section has not run yet. -/
  pAdd : Nat := 0
  /-- `Add` bodies done, return not yet observed. -/
  rAdd : Nat := 0
  /-- `Close` calls issued that have not closed yet. -/
  pClose : Nat := 0
  /-- handled tokens / expiries not yet reported by their hook. -/
  uIn : Nat := 0
  uTm : Nat := 0
  /-- 0: loop free; 1: loop inside a hook callback, not yet reported; 2: parked by the harness. -/
  blocked : Nat := 0
  deriving BEq, Hashable, Repr

structure Sim where
  cfg : Config := { initial := 1, max := 1, cap := none }
  hooks : Bool := false
  states : List DState := []
  dead : Bool := true
  events : Nat := 0

def loopLabel : Label → Bool
  | .top | .deliver | .expire | .exitLoop => true
  | _ => false

def internalLabels : List Label :=
  [.run, .top, .deliver, .tokenGiveUp, .expire, .exitLoop, .senderGiveUp]

/-- One internal (unobserved) step of the wrapped system. -/
def tauSucc (cfg : Config) (hooks : Bool) (d : DState) : List DState :=
  let ms := internalLabels.filterMap fun l =>
    if loopLabel l && d.blocked != 0 then none
    else match step cfg d.m l with
      | none => none
      | some m' =>
        match l with
        | .deliver => if hooks then some { d with m := m', uIn := d.uIn + 1, blocked := 1 } else some { d with m := m' }
        | .expire => if hooks then some { d with m := m', uTm := d.uTm + 1, blocked := 1 } else some { d with m := m' }
        | _ => some { d with m := m' }
  let a := if d.pAdd > 0 then
      match step cfg d.m .add with
      | some m' => [{ d with m := m', pAdd := d.pAdd - 1, rAdd := d.rAdd + 1 }]
      | none => []
    else []
  let c := if d.pClose > 0 then
      match step cfg d.m .close with
      | some m' => [{ d with m := m', pClose := d.pClose - 1 }]
      | none => []
    else []
  ms ++ a ++ c

/-- The counters that no transition reads (they only exist for the theorems) are zeroed so that
states differing in nothing else are merged. -/
def norm (d : DState) : DState :=
  { d with m := { d.m with adds := 0, fires := 0, consumed := 0, dropped := 0, closeReturned := 0,
                           wk := 0, armedAt := 0 } }

/-- τ-closure by worklist; `fuel` bounds the number of expansions (every τ step decreases a
finite measure, so the closure is finite; the bound is never reached in practice and reaching it
is reported as a reject by the caller). -/
def closure (cfg : Config) (hooks : Bool) :
    Nat → List DState → Std.HashSet DState → Std.HashSet DState × Bool
  | 0, todo, seen => (seen, todo.isEmpty)
  | _ + 1, [], seen => (seen, true)
  | fuel + 1, d :: todo, seen =>
    let succs := (tauSucc cfg hooks d).map norm
    let (seen', todo') := succs.foldl (fun (acc : Std.HashSet DState × List DState) x =>
      if acc.1.contains x then acc else (acc.1.insert x, x :: acc.2)) (seen, todo)
    closure cfg hooks fuel todo' seen'

def closeSet (cfg : Config) (hooks : Bool) (ds : List DState) : List DState × Bool :=
  let init : Std.HashSet DState := ds.foldl (fun acc d => acc.insert (norm d)) {}
  let (set, complete) := closure cfg hooks 2000000 init.toList init
  (set.toList, complete)

def quiescent (cfg : Config) (hooks : Bool) (d : DState) : Bool :=
  (tauSucc cfg hooks d).isEmpty && d.rAdd == 0 && d.uIn == 0 && d.uTm == 0 && d.blocked != 1
  && (step cfg d.m .closeRet).isNone && (step cfg d.m .runRet).isNone

inductive TimerObs where
  | none | at (d : Nat)

/-- Effect of one observed event on one state (`none` = this state cannot have produced it). -/
def obsStep (cfg : Config) (hooks : Bool) (ln : Line) (d : DState) : Option DState :=
  let viaModel (l : Label) : Option DState := (step cfg d.m l).map fun m' => { d with m := m' }
  match ln.op with
  | "runcall" => viaModel .runCall
  | "addcall" => some { d with pAdd := d.pAdd + 1 }
  | "addret" => if d.rAdd > 0 then some { d with rAdd := d.rAdd - 1 } else none
  | "closecall" => some { d with pClose := d.pClose + 1 }
  | "closeret" => viaModel .closeRet
  | "cancel" => viaModel .cancel
  | "runret" => viaModel .runRet
  | "adv" => (ln.nat? "t").bind fun t => viaModel (.advance t)
  | "recv" => (ln.nat? "t").bind fun t => if t == d.m.now then viaModel .consume else none
  | "hin" =>
    if hooks && d.uIn > 0 && d.blocked == 1 then
      some { d with uIn := d.uIn - 1, blocked := if ln.nat? "park" == some 1 then 2 else 0 }
    else none
  | "htm" =>
    if hooks && d.uTm > 0 && d.blocked == 1 then
      some { d with uTm := d.uTm - 1, blocked := if ln.nat? "park" == some 1 then 2 else 0 }
    else none
  | "release" => if d.blocked == 2 then some { d with blocked := 0 } else none
  | "settle" =>
    let tok := ln.nat? "tok"
    let snd := ln.nat? "snd"
    let lp := ln.nat? "loop"
    let tm : Option (Option Nat) :=
      match ln.get? "timer" with
      | some "none" => some none
      | some v => v.toNat?.map some
      | none => none
    if quiescent cfg hooks d && d.pAdd == 0 && d.pClose == 0
        && tok == some d.m.tokens && snd == some d.m.senders
        && lp == some (if d.m.running then 1 else 0)
        && tm == some d.m.timer then some d else none
  | _ => none

def showState (d : DState) : String :=
  let m := d.m
  let lp := match m.loop with | .off => "off" | .top => "top" | .sel => "sel" | .done => "done"
  let tm := match m.timer with | none => "none" | some t => toString t
  s!"[pend={m.pending} tok={m.tokens} timer={tm} cur={m.cur} fac={m.factor} ovf={m.ovf} fires={m.fires} snd={m.senders} cons={m.consumed} drop={m.dropped} adds={m.adds} now={m.now} closed={m.closed} canc={m.cancelled} loop={lp} cw={m.closeWaiting} cr={m.closeReturned} rr={m.runReturned} pAdd={d.pAdd} rAdd={d.rAdd} pClose={d.pClose} uIn={d.uIn} uTm={d.uTm} blk={d.blocked}]"

def showSet (ds : List DState) : String :=
  " ".intercalate ((ds.take 6).map showState)

def handle (sim : Sim) (raw : String) : Sim × String :=
  let ln := parseLine raw
  match ln.op with
  | "f64" =>
    match ln.nat? "n" with
    | some n => (sim, s!"f64 v={f64OfNat n}")
    | none => (sim, "error bad f64")
  | "backoff" =>
    -- one application of the back-off block: initial max cur factor → cur factor ovf
    match ln.nat? "initial", ln.nat? "max", ln.nat? "cur", ln.nat? "factor" with
    | some i, some mx, some c, some f =>
      let b := backoffVals { initial := i, max := mx, cap := none } c f
      (sim, s!"backoff cur={b.1} factor={b.2.1} ovf={if b.2.2 then 1 else 0}")
    | _, _, _, _ => (sim, "error bad backoff")
  | "begin" =>
    match ln.nat? "initial", ln.nat? "max", ln.nat? "cap", ln.nat? "hooks" with
    | some i, some mx, some c, some h =>
      let cfg : Config := { initial := i, max := mx, cap := if c == 0 then none else some c }
      let hooks := h == 1
      let (ds, _) := closeSet cfg hooks [{ m := init cfg }]
      ({ cfg, hooks, states := ds, dead := false, events := 0 }, s!"ok n={ds.length}")
    | _, _, _, _ => ({ sim with dead := true }, "error bad begin")
  | "end" =>
    if sim.dead then (sim, "dead") else ({ sim with dead := true }, s!"ok n={sim.states.length}")
  | _ =>
    if sim.dead then (sim, "dead")
    else
      let next := sim.states.filterMap (obsStep sim.cfg sim.hooks ln)
      let (cl, complete) := closeSet sim.cfg sim.hooks next
      if cl.isEmpty then
        ({ sim with dead := true },
          s!"reject event={sim.events} line={raw.trimAscii.toString} before={sim.states.length} states={showSet sim.states}")
      else if !complete then
        ({ sim with dead := true }, s!"reject event={sim.events} closure-fuel-exhausted")
      else
        ({ sim with states := cl, events := sim.events + 1 }, s!"ok n={cl.length}")

def main (_args : List String) : IO UInt32 := do
  lineLoop handle ({} : Sim)
  return 0
end Driver.C09
