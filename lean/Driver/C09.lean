import KitModel.Go.Prelude
import KitModel.CoalescingSim
/-!
Driver for property C09: `kitdrv C09`.

State-set simulation of `Kit.Coalescing.step` against an observed trace of the real limiter.
One event per line, one answer per line (`ok n=<size of the state set>` or `reject …`; after a
reject every line answers `dead` until the next `begin`).

The model LTS is wrapped by the usual call/return layer: an API call is observed twice (call,
return) and takes effect somewhere in between; a hook event reports an internal step that has
already happened, and while the run loop sits in the hook callback it cannot move.

```
begin initial=<ns> max=<ns> cap=<n|0> hooks=<0|1>
runcall | addcall | addret | closecall | closeret | cancel | runret
adv t=<ns>            clock moved
recv t=<ns>           consumer received a signal, stamped with the clock
hin park=<0|1>        hook coalescing.inputHandled (park=1: the harness keeps the loop there)
htm park=<0|1>        hook coalescing.timerHandled
release               the harness lets a parked loop continue
settle tok=<n> snd=<n> loop=<0|1> timer=<none|deadline>
                      every goroutine of the limiter is blocked; counted from a goroutine dump,
                      timer read from the fake clock
f64 n=<n>             float64 rounding used by the back-off (independent of `begin`)
```
-/
namespace Driver.C09
open Kit Kit.Coalescing Kit.Coalescing.Sim

structure SimSt where
  cfg : Config := { initial := 1, max := 1, cap := none }
  hooks : Bool := false
  states : List DState := []
  dead : Bool := true
  events : Nat := 0

/-- One trace line as an event of `Kit.Coalescing.Sim` (`none`: not an event line / malformed). -/
def parseEv (ln : Line) : Option Ev :=
  match ln.op with
  | "runcall" => some .runcall
  | "addcall" => some .addcall
  | "addret" => some .addret
  | "closecall" => some .closecall
  | "closeret" => some .closeret
  | "cancel" => some .cancel
  | "runret" => some .runret
  | "runerr" => some .runerr
  | "adv" => (ln.nat? "t").map .adv
  | "recv" => (ln.nat? "t").map .recv
  | "hin" => (ln.nat? "park").map fun p => .hin (p == 1)
  | "htm" => (ln.nat? "park").map fun p => .htm (p == 1)
  | "release" => some .release
  | "settle" =>
    let tm : Option (Option Nat) :=
      match ln.get? "timer" with
      | some "none" => some none
      | some v => v.toNat?.map some
      | none => none
    match ln.nat? "tok", ln.nat? "snd", ln.nat? "loop", tm with
    | some tok, some snd, some lp, some tm => some (.settle tok snd (lp == 1) tm)
    | _, _, _, _ => none
  | _ => none

def showState (d : DState) : String :=
  let m := d.m
  let lp := match m.loop with | .off => "off" | .top => "top" | .sel => "sel" | .done => "done"
  let tm := match m.timer with | none => "none" | some t => toString t
  s!"[pend={m.pending} tok={m.tokens} timer={tm} cur={m.cur} fac={m.factor} ovf={m.ovf} fires={m.fires} snd={m.senders} cons={m.consumed} drop={m.dropped} adds={m.adds} now={m.now} closed={m.closed} canc={m.cancelled} loop={lp} cw={m.closeWaiting} cr={m.closeReturned} rr={m.runReturned} pAdd={d.pAdd} rAdd={d.rAdd} pClose={d.pClose} uIn={d.uIn} uTm={d.uTm} blk={d.blocked}]"

def showSet (ds : List DState) : String :=
  " ".intercalate ((ds.take 6).map showState)

def handle (sim : SimSt) (raw : String) : SimSt × String :=
  let ln := parseLine raw
  match ln.op with
  | "f64" =>
    match ln.nat? "n" with
    | some n => (sim, s!"f64 v={f64OfNat n}")
    | none => (sim, "error bad f64")
  | "backoff" =>
    -- one application of the back-off block: initial max cur factor → cur factor ovf
    match ln.nat? "initial", ln.nat? "max", ln.nat? "cur", ln.nat? "factor" with
    | some i, some mx, some c, some f =>
      let b := backoffVals { initial := i, max := mx, cap := none } c f
      (sim, s!"backoff cur={b.1} factor={b.2.1} ovf={if b.2.2 then 1 else 0}")
    | _, _, _, _ => (sim, "error bad backoff")
  | "begin" =>
    match ln.nat? "initial", ln.nat? "max", ln.nat? "cap", ln.nat? "hooks" with
    | some i, some mx, some c, some h =>
      let cfg : Config := { initial := i, max := mx, cap := if c == 0 then none else some c }
      let hooks := h == 1
      let (ds, _) := closeSet cfg hooks [initD cfg]
      ({ cfg, hooks, states := ds, dead := false, events := 0 }, s!"ok n={ds.length}")
    | _, _, _, _ => ({ sim with dead := true }, "error bad begin")
  | "end" =>
    if sim.dead then (sim, "dead") else ({ sim with dead := true }, s!"ok n={sim.states.length}")
  | _ =>
    if sim.dead then (sim, "dead")
    else
      match parseEv ln with
      | none => ({ sim with dead := true }, s!"reject event={sim.events} unparsable line={raw.trimAscii.toString}")
      | some ev =>
        -- exactly `Sim.stepSet`, the function `accepts` iterates (theorem `accepts_sound`)
        let (cl, complete) := stepSet sim.cfg sim.hooks sim.states ev
        if cl.isEmpty then
          ({ sim with dead := true },
            s!"reject event={sim.events} line={raw.trimAscii.toString} before={sim.states.length} states={showSet sim.states}")
        else if !complete then
          ({ sim with dead := true }, s!"reject event={sim.events} closure-fuel-exhausted")
        else
          ({ sim with states := cl, events := sim.events + 1 }, s!"ok n={cl.length}")

def main (_args : List String) : IO UInt32 := do
  lineLoop handle ({} : SimSt)
  return 0
end Driver.C09
