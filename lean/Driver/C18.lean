import KitModel.Go.Prelude
/-! Driver for property C18: `kitdrv C18` reads op lines on stdin, one answer line per input line. -/
namespace Driver.C18
def main (_args : List String) : IO UInt32 := do
  IO.eprintln "kitdrv: C18 has no model driver yet"
  return 2
end Driver.C18
