import KitModel.Go.Prelude
import KitModel.Dir
/-!
Driver for property C18: `kitdrv C18` reads op lines on stdin, one answer line per input line.

  reset base=<path> [clock=<n>]           fresh world: empty file system, no live Dir, next version id n
  raw op=<mkdirAll|writeFile|remove|removeIfExists|symlink|rename|removeAll> p=.. [b=hex] [to=..] [o=.. n=..]
  write files=<hexname>:<hexbytes>,...    one complete Write by the live Dir (files in iteration order)
  crash k=<n> files=...                   a Write killed after n fs operations; next Dir is fresh
  steps                                   the model's step order (for the log)

Answer: `err=<nil|ERRNO> tree=<sorted entries> target=<absent|dangling|other|dir:name=hex,...> vers=<ids>`.
Paths: components joined by `/`; `@T` target name, `@T.new`, `@v<n>` version directory of Write n.
-/
namespace Driver.C18
open Kit Kit.Dir

def safeChar (c : Char) : Bool :=
  c.isAlphanum || c == '.' || c == '_' || c == '-'

def showName : Name → String
  | .str s => if s.toList.all safeChar && s ≠ "" then s else "%" ++ toHex s.toUTF8.toList
  | .ver n => s!"@v{n}"
  | .tgt => "@T"
  | .tgtNew => "@T.new"

def showPath (p : Path) : String := "/".intercalate (p.map showName)

def parseName (s : String) : Option Name :=
  if s == "@T" then some .tgt
  else if s == "@T.new" then some .tgtNew
  else if s.startsWith "@v" then (s.drop 2).toString.toNat?.map .ver
  else if s.startsWith "%" then
    (fromHex (s.drop 1).toString).bind fun bs =>
      (String.fromUTF8? (ByteArray.mk bs.toArray)).map .str
  else if s == "" then none
  else some (.str s)

def parsePath (s : String) : Option Path :=
  if s == "" then some [] else (s.splitOn "/").mapM parseName

def parseFiles (s : String) : Option Files :=
  if s == "" then some [] else
  (s.splitOn ",").mapM fun item =>
    match item.splitOn ":" with
    | [n, b] => do
      let nb ← fromHex n
      let nm ← String.fromUTF8? (ByteArray.mk nb.toArray)
      let bs ← fromHex b
      pure (Name.str nm, bs)
    | _ => none

def showNode : Node → String
  | .dir => "d"
  | .file b => "f:" ++ toHex b
  | .link t => "l:" ++ showPath t

def showTree (fs : FS) : String :=
  let ents := (entries fs).map fun e => showPath e.1 ++ "|" ++ showNode e.2
  ";".intercalate (ents.toArray.qsort (· < ·)).toList

def showErr : Option Errno → String
  | none => "nil"
  | some e => (reprStr e).replace "Kit.Dir.Errno." ""

def showTarget (fs : FS) (B : Path) : String :=
  match resolve fs (target B) with
  | none => if look fs (target B) = none then "absent" else "dangling"
  | some (d, .dir) =>
    -- `dirListing` is the function the bridge theorem `dirListing_iff_DirIs` is about
    let ents := match dirListing fs d with
      | some l => l.map fun (nm, b) => showName nm ++ "=" ++ showNode (.file b)
      | none => (readDir fs d).map fun (nm, nd) => showName nm ++ "=" ++ showNode nd
    "dir:" ++ ",".intercalate (ents.toArray.qsort (· < ·)).toList
  | some _ => "other"

structure DState where
  B : Path := []
  s : St := {}

def answer (d : DState) (err : Option Errno) : String :=
  let vers := ((versionIds d.s.fs d.B).toArray.qsort (· < ·)).toList
  s!"err={showErr err} tree={showTree d.s.fs} target={showTarget d.s.fs d.B} vers={showNats vers}"

def rawOp (l : Line) : Option Op := do
  let op ← l.get? "op"
  let path (k : String) : Option Path := (l.get? k).bind parsePath
  match op with
  | "mkdirAll" => return .mkdirAll (← path "p")
  | "writeFile" => return .writeFile (← path "p") (← l.hex? "b")
  | "removeIfExists" => return .removeIfExists (← path "p")
  | "symlink" => return .symlink (← path "to") (← path "p")
  | "rename" => return .rename (← path "o") (← path "n")
  | "removeAll" => return .removeAll (← path "p")
  | _ => none

def stepLine (d : DState) (line : String) : DState × String :=
  let l := parseLine line
  match l.op with
  | "reset" =>
    match (l.get? "base").bind parsePath with
    | some B =>
      let d' : DState := { B := B, s := { clock := (l.nat? "clock").getD 0 } }
      (d', answer d' none)
    | none => (d, "bad-input")
  | "raw" =>
    if l.get? "op" == some "remove" then
      match (l.get? "p").bind parsePath with
      | some p =>
        match Dir.remove d.s.fs p with
        | .ok fs' => let d' := { d with s := { d.s with fs := fs' } }; (d', answer d' none)
        | .error e => (d, answer d (some e))
      | none => (d, "bad-input")
    else
    match rawOp l with
    | some op =>
      match op.apply d.s.fs with
      | .ok fs' => let d' := { d with s := { d.s with fs := fs' } }; (d', answer d' none)
      | .error e => (d, answer d (some e))
    | none => (d, "bad-input")
  | "write" =>
    match (l.get? "files").bind parseFiles with
    | some files =>
      let s' := step d.B d.s (.write files)
      let d' := { d with s := s' }
      (d', answer d' s'.lastErr)
    | none => (d, "bad-input")
  | "crash" =>
    match (l.get? "files").bind parseFiles, l.nat? "k" with
    | some files, some k =>
      let s' := step d.B d.s (.crash files k)
      let d' := { d with s := s' }
      (d', answer d' s'.lastErr)
    | _, _ => (d, "bad-input")
  | "steps" => (d, (reprStr fixedSteps).replace "\n" " ")
  | _ => (d, "bad-input")

def main (_args : List String) : IO UInt32 := do
  Kit.lineLoop stepLine ({} : DState)
  return 0
end Driver.C18
