import KitModel.Go.Prelude
import KitModel.CronSched
import KitModel.CronSchedAccept
import KitModel.CronChain
/-!
Driver for property C05: `kitdrv C05` reads the observable trace of one execution of the real
`cron.Cron` (one event per line) and answers, per line, whether the model
(`Kit.CronSched.step`) accepts the trace so far.  Acceptance is a state-set simulation: the set
of model states compatible with the trace is propagated, closing under the internal labels
(`boot`, `refresh`, `arm`, `wake`, `ctxWait k`) after every event.

Lines:
  case scheds=<d;d;…> t0=<n>     d ::= p:<period>:<offset> | z | f:<period>:<offset>:<limit> | d:<delay>
  advance t=<n> | add sid=<n> id=<n> | remove id=<n> | entries r=<id:next:prev,…> | start | stop
  armed timer=<0|1> | woke w=<n> | quiet            (assertions from the hooks / the harness)
  begin id=<n> c=<n> | done id=<n> c=<n> | ctx k=<n> done=<0|1> | end
Answers: `ok n=<states>` | `reject <why> …` | `skip` (after a reject, until the next `case`).
-/
namespace Driver.C05
open Kit Kit.CronSched

inductive SchedDesc where
  | periodic (p o : Nat)
  | zero
  | finite (p o lim : Nat)
  | delay (d : Nat)

def periodicNext (p o t : Nat) : Nat :=
  if t < o then o else o + ((t - o) / p + 1) * p

def SchedDesc.next : SchedDesc → Nat → Nat
  | .periodic p o, t => periodicNext p o t
  | .zero, _ => 0
  | .finite p o lim, t => let x := periodicNext p o t; if x ≤ lim then x else 0
  | .delay d, t => t - t % 1000 + d   -- ConstantDelaySchedule counts from the start of t's second (units: ms)

def parseDesc (s : String) : Option SchedDesc :=
  match s.splitOn ":" with
  | ["z"] => some .zero
  | ["p", p, o] => do
    let p ← p.toNat?; let o ← o.toNat?
    if p = 0 ∨ o = 0 then none else some (.periodic p o)
  | ["d", d] => do
    let d ← d.toNat?
    if d = 0 then none else some (.delay d)
  | ["f", p, o, l] => do
    let p ← p.toNat?; let o ← o.toNat?; let l ← l.toNat?
    if p = 0 ∨ o = 0 then none else some (.finite p o l)
  | _ => none

def mkScheds (ds : Array SchedDesc) : Scheds := fun sid t =>
  match ds[sid]? with
  | some d => d.next t
  | none => 0

structure Sim where
  scheds : Array SchedDesc := #[]
  states : List State := []
  dead : Bool := true

def showEntry (e : Entry) : String := s!"{e.id}:{e.next}:{e.prev}"

def showSnapshot (es : List Entry) : String :=
  ",".intercalate ((es.foldr insertById []).map showEntry)

def showPc : Pc → String
  | .off => "off" | .boot => "boot" | .arm => "arm"
  | .refresh none => "refresh" | .refresh (some (id, sid)) => s!"refresh({id},{sid})"
  | .parked none => "parked(-)"
  | .parked (some tm) => s!"parked(at={tm.armedAt},d={tm.deadline},fired={tm.fired})"

def showJob (j : Job) : String :=
  s!"{j.eid}@{j.act}/{j.wake}" ++ (match j.st with | .launched => "L" | .begun c => s!"B{c}")

def showState (s : State) : String :=
  s!"[clk={s.clock} run={s.running} now={s.now} pc={showPc s.pc} es={showSnapshot s.entries} " ++
  s!"jobs={",".intercalate (s.jobs.map showJob)} ctxs={s.ctxs.length}]"

def showStates (ss : List State) : String := " | ".intercalate ((ss.take 4).map showState)

/-- `id:next:prev,…` (empty string = no entries) -/
def parseTriples (r : String) : Option (List (Nat × Nat × Nat)) :=
  if r == "" then some []
  else (r.splitOn ",").mapM fun w =>
    match w.splitOn ":" with
    | [a, b, c] => do
      let a ← a.toNat?; let b ← b.toNat?; let c ← c.toNat?
      pure (a, b, c)
    | _ => none

def handle (sim : Sim) (raw : String) : Sim × String :=
  let ln := parseLine raw
  if ln.op == "case" then
    match (ln.get? "scheds"), ln.nat? "t0" with
    | some ds, some t0 =>
      match ((ds.splitOn ";").filter (· ≠ "")).mapM parseDesc with
      | some l => ({ scheds := l.toArray, states := [init t0], dead := false }, "ok n=1")
      | none => ({ sim with dead := true, states := [] }, "reject bad-scheds")
    | _, _ => ({ sim with dead := true, states := [] }, "reject bad-case-line")
  else if sim.dead then (sim, "skip")
  else
    let S := mkScheds sim.scheds
    let before := sim.states
    let obs : Option Obs :=
      match ln.op with
      | "advance" => (ln.nat? "t").map .advance
      | "add" =>
        match ln.nat? "sid", ln.nat? "id" with
        | some sid, some id => some (.add sid id)
        | _, _ => none
      | "remove" => (ln.nat? "id").map .remove
      | "entries" => ((ln.get? "r").bind parseTriples).map .entries
      | "start" => some .start
      | "stop" => some .stop
      | "armed" => (ln.nat? "timer").map fun b => .armed (b == 1)
      | "woke" => (ln.nat? "w").map .woke
      | "quiet" => some .quiet
      | "begin" =>
        match ln.nat? "id", ln.nat? "c" with
        | some id, some c => some (.jobBegin id c)
        | _, _ => none
      | "done" =>
        match ln.nat? "id", ln.nat? "c" with
        | some id, some c => some (.jobDone id c)
        | _, _ => none
      | "ctx" =>
        match ln.nat? "k", ln.nat? "done" with
        | some k, some d => some (.ctx k (d == 1))
        | _, _ => none
      | "end" => some .finish
      | _ => none
    let next : Option (List State) := obs.map (acceptStep S before)
    match next with
    | none => ({ sim with dead := true, states := [] }, s!"reject unparsable-line {raw.trimAscii.toString}")
    | some [] =>
      ({ sim with dead := true, states := [] },
       s!"reject no-model-state-accepts event={raw.trimAscii.toString} before={showStates before}" ++
       (if ln.op == "entries" then s!" model-entries={" / ".intercalate (before.map fun s => showSnapshot (snapshotOf s))}" else ""))
    | some ss => ({ sim with states := ss }, s!"ok n={ss.length}")

/-! ### `kitdrv C05 chain`: traces of the job wrappers of cron/chain.go

Lines: `chain kind=<skip|delay|recover> t0=<n>` | `call` | `begin` | `release b=<n> panic=<0|1>` |
`ret i=<n> panic=<0|1>` | `advance t=<n>` | `logs skip=<n> delay=<n> panic=<n>` | `settled` | `end`. -/
namespace Chain
open Kit.CronChain

structure CSim where
  states : List Kit.CronChain.State := []
  dead : Bool := true

def showIPc : IPc → String
  | .called t => s!"called@{t}" | .running b => s!"running#{b}" | .returned => "returned"
  | .skipped => "skipped" | .panicked => "panicked"

def showCState (s : Kit.CronChain.State) : String :=
  s!"[clk={s.clock} free={s.free} invs={",".intercalate (s.invs.map showIPc)} logs={s.skipLogs}/{s.delayLogs}/{s.panicLogs}]"

def handle (sim : CSim) (raw : String) : CSim × String :=
  let ln := parseLine raw
  if ln.op == "chain" then
    let k : Option Kind := match ln.get? "kind" with
      | some "skip" => some .skip | some "delay" => some .delay | some "recover" => some .recover
      | _ => none
    match k, ln.nat? "t0" with
    | some k, some t0 => ({ states := [Kit.CronChain.init k t0], dead := false }, "ok n=1")
    | _, _ => ({ states := [], dead := true }, "reject bad-chain-line")
  else if sim.dead then (sim, "skip")
  else
    let obs : Option Kit.CronChain.Obs :=
      match ln.op with
      | "call" => some .call
      | "begin" => some .begin
      | "release" =>
        match ln.nat? "b", ln.nat? "panic" with
        | some b, some p => some (.release b (p == 1))
        | _, _ => none
      | "ret" =>
        match ln.nat? "i", ln.nat? "panic" with
        | some i, some p => some (.ret i (p == 1))
        | _, _ => none
      | "advance" => (ln.nat? "t").map .advance
      | "logs" =>
        match ln.nat? "skip", ln.nat? "delay", ln.nat? "panic" with
        | some a, some b, some c => some (.logs a b c)
        | _, _, _ => none
      | "settled" => some .settled
      | _ => none
    if ln.op == "end" then (sim, s!"ok n={sim.states.length}")
    else match obs with
    | none => ({ states := [], dead := true }, s!"reject unparsable-line {raw.trimAscii.toString}")
    | some o =>
      match Kit.CronChain.acceptStep sim.states o with
      | [] => ({ states := [], dead := true },
          s!"reject no-model-state-accepts event={raw.trimAscii.toString} before={" | ".intercalate ((sim.states.take 4).map showCState)}")
      | ss => ({ states := ss, dead := false }, s!"ok n={ss.length}")

end Chain

def main (args : List String) : IO UInt32 := do
  match args with
  | "chain" :: _ => lineLoop Chain.handle ({} : Chain.CSim)
  | _ => lineLoop handle ({} : Sim)
  return 0
end Driver.C05
