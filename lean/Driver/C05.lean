import KitModel.Go.Prelude
/-! Driver for property C05: `kitdrv C05` reads op lines on stdin, one answer line per input line. -/
namespace Driver.C05
def main (_args : List String) : IO UInt32 := do
  IO.eprintln "kitdrv: C05 has no model driver yet"
  return 2
end Driver.C05
