import Driver.C04Parser
import Driver.C04Next
/-! Driver for property C04: `kitdrv C04 parser …` / `kitdrv C04 next …`. -/
namespace Driver.C04
def main (args : List String) : IO UInt32 :=
  match args with
  | "parser" :: rest => Driver.C04Parser.main rest
  | "next" :: rest => Driver.C04Next.main rest
  | _ => do
    IO.eprintln "usage: kitdrv C04 parser|next"
    return 2
end Driver.C04
