import KitModel.Go.Prelude
/-! Driver for property C04: `kitdrv C04` reads op lines on stdin, one answer line per input line. -/
namespace Driver.C04
def main (_args : List String) : IO UInt32 := do
  IO.eprintln "kitdrv: C04 has no model driver yet"
  return 2
end Driver.C04
